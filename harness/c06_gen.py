# C06 generator side: plaintext documents with ground truth (pdfgen model), and the writer that turns one
# into an ENCRYPTED PDF file with the extracted reference encryptor of coq/Crypto/IsoEnc.v (the Python code
# here decides nothing about encryption: it builds dictionaries, asks the extracted specification for
# /O /U /OE /UE /Perms and for the ciphertext of every leaf, and serialises).
import random, zlib
import pdfgen
from pdfgen import Str, Name, Ref, Stream, D, N, Real
from common import hexs

IDENTITY = b"Identity"
CRYPT = b"Crypt"
CFDP = b"CryptFilterDecodeParms"

SCHEMES = {"V1R2": (1, 2, 5), "V2R3": (2, 3, 16), "V4R4": (4, 4, 16), "V5R5": (5, 5, 32), "V5R6": (5, 6, 32)}
# forms of a per-stream /Crypt override. explicit: /Type and /Name both written. The others rely on the defaults of
# ISO 32000-2 Table 14 (/Type optional, /Name optional with default Identity)
FORMS_EXPLICIT = ["dict", "arr"]
FORMS_DEFAULTED = ["notype", "notype-arr", "noname", "noname-arr", "noparms", "noparms-arr", "arr-null"]
FORMS_NAMELESS = ["noname", "noname-arr", "noparms", "noparms-arr", "arr-null"]      # the name is Identity by default


# ---------------------------------------------------------------- plaintext documents

def plain_doc(seed, idx=0, sig=None):
    """document with every class of leaf: strings of boundary lengths at every nesting depth, streams (plain, Flate,
    empty, block-boundary lengths) with strings in their dictionaries, root XMP metadata with a string in its dictionary,
    a second metadata stream that is NOT the catalog's, direct strings in the trailer"""
    rng = random.Random(seed)
    rb = lambda n: bytes(rng.randrange(256) for _ in range(n))
    d = pdfgen.Doc()
    cat = d.add(None)
    pages = d.add(None)
    font = d.add(D(Type=N("Font"), Subtype=N("Type1"), BaseFont=N("Helvetica")))
    npages = rng.choice([1, 1, 2, 3])
    prefs = []
    for k in range(npages):
        cs = d.add(Stream(D(QVS=Str(b"content %d.%d" % (idx, k))), b"BT /F1 12 Tf 72 720 Td (page %d of doc %d) Tj ET\n" % (k, idx)))
        annot = d.add(D(Type=N("Annot"), Subtype=N("Text"), Rect=[0, 0, 10, 10], Contents=Str(b"note (%d) \\ %d" % (idx, k)), T=Str(rb(rng.randint(1, 20)))))
        prefs.append(d.add(D(Type=N("Page"), Parent=pages, Contents=cs, Resources=D(Font=D(F1=font)), Annots=[annot])))
    d.objects[pages.n] = D(Type=N("Pages"), Count=npages, Kids=prefs, MediaBox=[0, 0, 612, 792])
    slens = rng.sample([0, 1, 2, 15, 16, 17, 31, 32, 33, 47, 48, 100, 300], 6)
    strings = [Str(rb(n)) for n in slens] + [Str(b""), Str(b"plain ascii text"), Str("Gr\xfc\xdfe".encode("latin-1")), Str(b"\xfe\xff\x00U\x00n\x00i")]
    nested = [strings[0], [strings[1], D(K=strings[2], E=strings[3], L=[strings[4], [strings[5]]])], strings[6], strings[7], strings[8], strings[9]]
    tlens = rng.sample([0, 1, 15, 16, 17, 31, 32, 33, 64, 100, 1000, 3000], 5)
    streams = []
    for n in tlens:
        streams.append(d.add(Stream(D(QVL=n, QVT=Str(b"dict string %d" % n)), rb(n))))
    raw = bytes(rng.choice(b"abc \n") for _ in range(rng.choice([10, 400])))
    streams.append(d.add(Stream({b"Filter": N("FlateDecode"), b"QVT": Str(b"flate")}, zlib.compress(raw))))
    streams.append(d.add(Stream({b"Filter": [N("ASCIIHexDecode"), N("FlateDecode")], b"QVT": Str(rb(5))}, zlib.compress(raw).hex().encode() + b">")))
    # image streams: /DCTDecode data is not decoded at qpdf's default decode level, so a writer copies such a stream as it is
    for k in range(2):
        streams.append(d.add(Stream({b"Type": N("XObject"), b"Subtype": N("Image"), b"Width": 2, b"Height": 2, b"ColorSpace": N("DeviceGray"),
                                    b"BitsPerComponent": 8, b"Filter": N("DCTDecode"), b"QVT": Str(b"image %d" % k)},
                                   b"\xff\xd8\xff\xe0" + rb(rng.choice([28, 60, 131])) + b"\xff\xd9")))
    c = D(Type=N("Catalog"), Pages=pages, Lang=Str(b"en-US"), QVData=nested, QVStreams=streams)
    r = rng.random()
    if r < 0.8:
        xmp = b'<?xpacket begin="" id="W5M0MpCehiHzreSzNTczkc9d"?>\n<x:xmpmeta xmlns:x="adobe:ns:meta/"><qv>doc %d</qv></x:xmpmeta>\n<?xpacket end="w"?>' % idx
        c[b"Metadata"] = d.add(Stream(D(Type=N("Metadata"), Subtype=N("XML"), QVM=Str(b"in the metadata dictionary")), xmp))
    # a metadata stream of a page (not document-level): never exempt
    pm = d.add(Stream(D(Type=N("Metadata"), Subtype=N("XML")), b"<x:xmpmeta>page level %d</x:xmpmeta>" % idx))
    d.objects[prefs[0].n][b"Metadata"] = pm
    # plain objects that an object-stream layout can hold
    for k in range(rng.choice([0, 2, 5])):
        c[b"QVX%d" % k] = d.add(rng.choice([D(A=Str(rb(rng.randint(0, 40))), B=[Str(b"(unbalanced"), 1, None]), [Str(rb(7)), Name(b"N"), Real("1.5")],
                                            Str(rb(rng.randint(0, 33)))]))
    if sig:
        # a signature field: the /Contents of the signature dictionary is never encrypted (ISO 32000-2 7.6.2); /Type /Sig is optional (Table 255)
        sd = D(Filter=N("Adobe.PPKLite"), SubFilter=N("adbe.pkcs7.detached"), ByteRange=[0, 10, 20, 30],
               Contents=Str(b"\x30\x82" + rb(rng.choice([14, 30, 62]))), Reason=Str(b"signed %d" % idx), M=Str(b"D:20260101000000Z"))
        if sig == "typed":
            sd[b"Type"] = N("Sig")
        field = d.add(D(FT=N("Sig"), T=Str(b"Signature1"), V=d.add(sd)))
        c[b"AcroForm"] = D(Fields=[field], SigFlags=3)
    d.objects[cat.n] = c
    info = D(Title=Str(b"doc %d" % idx), Author=Str(rb(12)), Producer=Str(b"verif C06"))
    d.trailer = {b"Root": cat}
    r = rng.random()
    if r < 0.7:
        d.trailer[b"Info"] = d.add(info)
    elif r < 0.85:
        d.trailer[b"Info"] = info              # direct: its strings live in the trailer
    if rng.random() < 0.3:
        d.trailer[b"QVNote"] = Str(b"direct trailer string %d" % idx)
    return d


# ---------------------------------------------------------------- sparse object numbers and non-zero generations

HIGH_NUMS = [255, 256, 65535, 65536, 65600]     # byte boundaries of the 3 object-number bytes of Algorithm 1
HIGH_NUMS_BIG = [16777215, 8388607]              # thorough tier only: qpdf ignores object numbers above (file size / 3), so the file is padded to 50 MB
HIGH_GENS = [1, 255, 256, 258]                                      # ... and of its 2 generation bytes


def renumber(d, mapping):
    """mapping: old number -> (new number, generation). Rewrites every key and every reference; d.gens = {number: generation}"""
    def rw(o):
        if isinstance(o, Ref):
            n, g = mapping.get(o.n, (o.n, 0))
            return Ref(n, g)
        if isinstance(o, list):
            return [rw(x) for x in o]
        if isinstance(o, dict):
            return {k: rw(v) for k, v in o.items()}
        if isinstance(o, Stream):
            return Stream(rw(o.d), o.data)
        return o
    objs, gens = {}, {}
    for n, o in d.objects.items():
        nn, g = mapping.get(n, (n, 0))
        objs[nn] = rw(o)
        gens[nn] = g
    d.objects = objs
    d.trailer = rw(d.trailer)
    d.gens = gens
    return d


def padding(out_len, max_num):
    """qpdf ignores xref entries whose object number exceeds (file size / 3) ('impossibly large id'): comment lines that bring the
    file to that size"""
    need = 3 * (max_num + 2) + 4096 - out_len
    if need <= 0:
        return b""
    line = b"%" + b"p" * 78 + b"\n"
    return line * (need // len(line) + 1)


def spread(d, seed, what, big=False):
    """what: 'nums' / 'gens' / 'both': move leaf-carrying objects to sparse high numbers and / or give them non-zero generations.
    The catalog and the page tree keep generation 0 and low numbers (they may go into object streams)."""
    rng = random.Random(seed)
    cat = d.trailer[b"Root"].n
    cands = [n for n, o in sorted(d.objects.items()) if n != cat and (isinstance(o, Stream) or n > 3)]
    rng.shuffle(cands)
    mapping = {}
    highs = (HIGH_NUMS_BIG if big else []) + HIGH_NUMS
    if what in ("nums", "both"):
        for n, hn in zip(cands, highs):
            mapping[n] = (hn, 0)
    if what in ("gens", "both"):
        pool = cands[len(highs):] if what == "both" else cands
        for k, n in enumerate(pool[:8]):
            mapping[n] = (n, HIGH_GENS[k % len(HIGH_GENS)])
        if what == "both" and cands:
            # one object with both: number 65536 and generation 258
            n0 = [n for n in cands if mapping.get(n, (0, 0))[0] == 65536]
            if n0:
                mapping[n0[0]] = (65536, 258)
    return renumber(d, mapping)


def free_number(objs):
    n = 1
    while n in objs:
        n += 1
    return n


def xref_sections(nums):
    """consecutive runs of object numbers (0 included) for xref subsections / /Index"""
    nums = sorted(set(nums) | {0})
    runs, start, prev = [], nums[0], nums[0]
    for n in nums[1:]:
        if n != prev + 1:
            runs.append((start, prev - start + 1))
            start = n
        prev = n
    runs.append((start, prev - start + 1))
    return runs


def write_classic_sparse(W, trailer, gens=None, version=None):
    """classic file with one xref table made of subsections (sparse object numbers are cheap), generations honoured"""
    gens = gens or {}
    out = bytearray()
    out += b"%PDF-" + (version or W.version) + b"\n%\xbf\xf7\xa2\xfe\n"
    offs = {}
    for n in sorted(W.objects):
        offs[n] = len(out)
        out += pdfgen.ser_indirect(n, W.objects[n], gen=gens.get(n, 0))
    out += padding(len(out), max(offs))
    xoff = len(out)
    out += b"xref\n"
    for start, cnt in xref_sections(offs):
        out += b"%d %d\n" % (start, cnt)
        for i in range(start, start + cnt):
            if i == 0:
                out += b"0000000000 65535 f \n"
            else:
                out += b"%010d %05d n \n" % (offs[i], gens.get(i, 0))
    tr = dict(trailer)
    tr[b"Size"] = max(offs) + 1
    out += b"trailer\n" + pdfgen.ser(tr) + b"\nstartxref\n%d\n%%%%EOF\n" % xoff
    return bytes(out)


# ---------------------------------------------------------------- plans

def rand_name(rng):
    return rng.choice([b"StdCF", b"StdCF", b"MyFilter", b"F 1", b"A/B#", b"x", b"Identity2"])


def pw_of(rng, kind):
    nz = lambda n: bytes(rng.randrange(1, 256) for _ in range(n))
    if kind == "empty":
        return b""
    if kind == "ascii":
        return bytes(rng.choice(b"abcXYZ019_-+.") for _ in range(rng.randint(1, 12)))
    if kind == "high":
        return nz(rng.randint(1, 20))
    if kind == "latin1":
        return "p\xe4ssw\xf6rd".encode("latin-1")
    if kind == "utf8":
        return "p\xe4ssw\xf6rd".encode("utf-8")
    if kind == "p28":
        return b"ab\x28\xbf\x4e" + nz(rng.randint(0, 5))
    if kind.isdigit():
        return nz(int(kind))
    raise ValueError(kind)


def make_plan(rng, scheme, **over):
    V, R, kl = SCHEMES[scheme]
    plan = dict(scheme=scheme, keylen=kl, docseed=rng.randrange(1 << 30), ivseed=rng.randrange(1 << 30))
    if scheme == "V2R3" and rng.random() < 0.5:
        plan["keylen"] = rng.choice([5, 7, 10, 13, 16])
    P = rng.choice([-4, -1, -3904, -64, -1852, -44, rng.randrange(-(1 << 31), 0), rng.randrange(-(1 << 31), 1 << 31)])
    plan["P"] = P & 0xFFFFFFFF
    plan["P_positive"] = rng.random() < 0.35
    plan["em"] = True if V < 4 else rng.random() < 0.5
    ukind = rng.choice(["ascii", "ascii", "empty", "high", "p28", "31", "32", "33", "40"] if V < 5 else ["ascii", "ascii", "empty", "high", "utf8", "126", "127"])
    okind = rng.choice(["ascii", "ascii", "high", "empty", "32", "33"] if V < 5 else ["ascii", "ascii", "high", "utf8", "127"])
    u, o = pw_of(rng, ukind), pw_of(rng, okind)
    if rng.random() < 0.1:
        o = u
    plan["user"], plan["owner"] = u.hex(), o.hex()
    plan["rnd"] = bytes(rng.randrange(256) for _ in range(68 if V >= 5 else 16)).hex()
    plan["id0"] = rng.choice([bytes(rng.randrange(256) for _ in range(16)), bytes(rng.randrange(256) for _ in range(rng.choice([1, 8, 32]))), b""]).hex() \
        if rng.random() < 0.4 else bytes(rng.randrange(256) for _ in range(16)).hex()
    plan["layout"] = rng.choice(["classic", "classic", "objstm"])
    plan["enc_indirect"] = rng.random() < 0.6
    plan["length_style"] = "std"
    plan["ou_extra"] = 0
    if V >= 5 and rng.random() < 0.3:
        plan["ou_extra"] = rng.choice([1, 16, 79])
    if V >= 4:
        meths = ["1", "2", "0"] if V == 4 else ["3", "0"]
        plan["stm"], plan["str"] = rng.choice(meths + meths[:1]), rng.choice(meths + meths[:1])
        sn, tn = rand_name(rng), rand_name(rng)
        if plan["stm"] != plan["str"] and sn == tn:
            tn = sn + b"2"
        if plan["stm"] == plan["str"] and rng.random() < 0.6:
            tn = sn
        plan["stm_name"], plan["str_name"] = sn.hex(), tn.hex()
        plan["identity_style"] = rng.choice(["explicit", "absent", "none-cfm"])
        plan["none_style"] = "default"        # a /CF entry whose method is None: /CFM absent (Table 25: default None) or /CFM /None written out
        plan["extra_cf"] = []
        for m in rng.sample(meths, rng.choice([0, 1, 2])):
            nm = b"Extra" + m.encode()
            plan["extra_cf"].append([nm.hex(), m])
        plan["cf_length_style"] = rng.choice(["bytes", "bits", "absent"])
        plan["meta_style"] = rng.choice(["plain", "crypt-identity"])
        plan["n_overrides"] = rng.choice([0, 1, 2, 4])
        plan["override_forms"] = "explicit"
    plan.update(over)
    return plan


# ---------------------------------------------------------------- abstraction of what was written (tokens for the extracted code)

def parm_token(p):
    if p is None:
        return "z"
    if isinstance(p, dict):
        t = "d1" if p.get(b"Type") == Name(CFDP) else "d0"
        nm = p.get(b"Name")
        return t + ("." + hexs(nm.b) if isinstance(nm, Name) else "")
    return "o"


def sdict_token(d, rootmeta):
    f, p = d.get(b"Filter"), d.get(b"DecodeParms")
    if f is None:
        ft = "-"
    elif isinstance(f, Name):
        ft = "n." + hexs(f.b)
    else:
        ft = "a." + ",".join(hexs(x.b) if isinstance(x, Name) else "x" for x in f)
    pt = ("a." + ",".join(parm_token(x) for x in p)) if isinstance(p, list) else "1." + parm_token(p)
    return "t:%d%d:%s:%s" % (1 if d.get(b"Type") == Name(b"XRef") else 0, 1 if rootmeta else 0, ft, pt)


def opt_hex(v):
    return "~" if v is None else hexs(v)


def rdict_tokens(e):
    """the encryption dictionary (pdfgen dict) as the 16 tokens of the c6open command"""
    def s(k):
        v = e.get(k)
        return opt_hex(v.b) if isinstance(v, Str) else "~"

    def i(k):
        v = e.get(k)
        return str(v) if isinstance(v, int) and not isinstance(v, bool) else "~"

    def nm(k):
        v = e.get(k)
        return opt_hex(v.b) if isinstance(v, Name) else "~"
    cf = e.get(b"CF")
    cft = []
    if isinstance(cf, dict):
        for k in sorted(cf):
            v = cf[k]
            if not isinstance(v, dict):
                cft.append(hexs(k) + ":!")
            else:
                m = v.get(b"CFM")
                cft.append(hexs(k) + ":" + (hexs(m.b) if isinstance(m, Name) else "~"))
    em = e.get(b"EncryptMetadata")
    return [nm(b"Filter"), "1" if e.get(b"SubFilter") is not None else "0", i(b"V"), i(b"R"), s(b"O"), s(b"U"), i(b"P"), s(b"OE"), s(b"UE"), s(b"Perms"),
            i(b"Length"), "~" if not isinstance(em, bool) else ("1" if em else "0"), ",".join(cft) or "-", nm(b"StmF"), nm(b"StrF"), nm(b"EFF")]


# ---------------------------------------------------------------- building the encrypted file

CFM_NAME = {"0": b"None", "1": b"V2", "2": b"AESV2", "3": b"AESV3"}


class EncFile:
    """plan + plaintext document -> encrypted document (pdfgen objects) + leaves + bytes"""

    def __init__(self, plan, runner_lines):
        """runner_lines(lines) -> outputs of the extracted code"""
        self.plan = plan
        self.run = runner_lines
        V, R, _ = SCHEMES[plan["scheme"]]
        self.V, self.R, self.kl = V, R, plan["keylen"]
        self.plain = plain_doc(plan["docseed"], plan.get("idx", 0), plan.get("sig"))
        self.plain.gens = {}
        if plan.get("spread"):
            spread(self.plain, plan["docseed"] + 7, plan["spread"], plan.get("spread_big", False))
        self.gens = dict(self.plain.gens)
        self.user, self.owner = bytes.fromhex(plan["user"]), bytes.fromhex(plan["owner"])
        self.id0 = bytes.fromhex(plan["id0"])
        self.cf = {}        # name -> method char
        self.stmf = self.strf = IDENTITY
        if V >= 4:
            self._crypt_filters()
        self.cfg_tokens = [str(V), str(R), str(self.kl), str(plan["P"]), "1" if plan["em"] else "0", hexs(self.id0),
                           ",".join("%s:%s" % (hexs(k), m) for k, m in sorted(self.cf.items())) or "-", hexs(self.stmf), hexs(self.strf)]

    def _crypt_filters(self):
        p = self.plan
        for role, m, nm in (("stm", p["stm"], bytes.fromhex(p["stm_name"])), ("str", p["str"], bytes.fromhex(p["str_name"]))):
            if m == "0":
                if p["identity_style"] == "none-cfm":
                    name = b"NoneCF"
                    self.cf[name] = "0"
                else:
                    name = IDENTITY
            else:
                name = nm
                self.cf[name] = m
            if role == "stm":
                self.stmf = name
            else:
                self.strf = name
        for nmh, m in p.get("extra_cf", []):
            self.cf.setdefault(bytes.fromhex(nmh), m)

    # -- step 1: the dictionary
    def make_dict(self, made=None):
        p = self.plan
        if made is None:
            made = self.run(["c6make " + " ".join(self.cfg_tokens + [hexs(self.user), hexs(self.owner), hexs(bytes.fromhex(p["rnd"]))])])[0]
        f = made.split()
        O, U, OE, UE, Perms, key = [bytes.fromhex(x) if x != "-" else b"" for x in f[:6]]
        self.supported = f[6] == "1"
        self.key = key
        self.O, self.U, self.OE, self.UE, self.Perms = O, U, OE, UE, Perms
        V, R = self.V, self.R
        e = {b"Filter": N("Standard"), b"V": V, b"R": R, b"O": Str(O + bytes(p["ou_extra"])), b"U": Str(U + bytes(p["ou_extra"])),
             b"P": p["P"] if p["P_positive"] else (p["P"] - (1 << 32) if p["P"] >= (1 << 31) else p["P"])}
        ls = p["length_style"]
        if ls == "std":
            if V == 1:
                pass
            else:
                e[b"Length"] = self.kl * 8
        elif ls == "absent":
            pass
        elif ls == "v1-40":
            e[b"Length"] = 40
        if V >= 5:
            e[b"OE"], e[b"UE"], e[b"Perms"] = Str(OE), Str(UE), Str(Perms)
        if V >= 4:
            cfd = {}
            for name, m in sorted(self.cf.items()):
                ent = {b"Type": N("CryptFilter"), b"CFM": Name(CFM_NAME[m]), b"AuthEvent": N("DocOpen")}
                if m == "0" and p.get("none_style", "default") == "default":
                    del ent[b"CFM"]
                st = p.get("cf_length_style", "bytes")
                if m != "0" and st != "absent":
                    ent[b"Length"] = self.kl if st == "bytes" else self.kl * 8
                cfd[name] = ent
            if p.get("junk_cf"):
                # entries of /CF that nothing refers to: a value that is not a dictionary, a crypt filter with an unknown /CFM
                cfd[b"JunkNotDict"] = 7
                cfd[b"JunkUnknown"] = {b"Type": N("CryptFilter"), b"CFM": Name(b"Foo")}
            if cfd:
                e[b"CF"] = cfd
            if p.get("eff"):
                # /EFF: an instruction to writers; readers decrypt attachments like every other stream (Table 20)
                e[b"EFF"] = Name(bytes.fromhex(p["eff"]))
            if not (self.stmf == IDENTITY and p["identity_style"] == "absent"):
                e[b"StmF"] = Name(self.stmf)
            if not (self.strf == IDENTITY and p["identity_style"] == "absent"):
                e[b"StrF"] = Name(self.strf)
            if not p["em"]:
                e[b"EncryptMetadata"] = False
            elif p.get("em_explicit"):
                e[b"EncryptMetadata"] = True
        if V < 4 and p.get("lt4_junk"):
            # crypt filter entries are meaningful only when /V is 4 or 5 (Table 20): a reader must ignore them
            e[b"CF"] = {b"StdCF": {b"Type": N("CryptFilter"), b"CFM": Name(b"AESV2"), b"AuthEvent": N("DocOpen")}}
            e[b"StmF"], e[b"StrF"], e[b"EFF"] = Name(b"StdCF"), Name(IDENTITY), Name(b"StdCF")
            e[b"EncryptMetadata"] = False
        self.encdict = e
        return e

    # -- step 2: the document as the producer lays it out (stream dictionaries with /Crypt overrides)
    def layout(self):
        p = self.plan
        rng = random.Random(p["ivseed"])
        E = pdfgen.Doc()
        E.version = {1: b"1.3", 2: b"1.4", 4: b"1.6"}.get(self.V, b"1.7")
        for n, o in self.plain.objects.items():
            E.objects[n] = Stream(dict(o.d), o.data) if isinstance(o, Stream) else o
        E.trailer = dict(self.plain.trailer)
        cat = E.objects[self.plain.trailer[b"Root"].n]
        mref = cat.get(b"Metadata")
        self.rootmeta = mref.n if isinstance(mref, Ref) else None
        self.override = {}         # objnum -> (form, name)
        if self.V >= 4:
            streams = [n for n, o in sorted(E.objects.items()) if isinstance(o, Stream)]
            names = sorted(self.cf) + [IDENTITY]
            forms = {"explicit": FORMS_EXPLICIT, "defaulted": FORMS_DEFAULTED, "mixed": FORMS_EXPLICIT + FORMS_DEFAULTED}[p.get("override_forms", "explicit")]
            chosen = rng.sample(streams, min(p.get("n_overrides", 0), len(streams)))
            for k, n in enumerate(chosen):
                if n == self.rootmeta and not p["em"]:
                    continue
                form = forms[(k + rng.randrange(len(forms))) % len(forms)]
                name = IDENTITY if form in FORMS_NAMELESS else rng.choice(names)
                self.override[n] = (form, name)
            if not p["em"] and self.rootmeta is not None and p.get("meta_style") == "crypt-identity":
                self.override[self.rootmeta] = ("arr", IDENTITY)
            for fo in p.get("force_overrides", []):      # [stream rank, form, name hex]
                if fo[0] < len(streams):
                    self.override[streams[fo[0]]] = (fo[1], bytes.fromhex(fo[2]))
            # [selector, form, name hex]: dctK = K-th /DCTDecode stream, plainK = K-th stream without a filter (not metadata)
            dcts = [n for n in streams if E.objects[n].d.get(b"Filter") == Name(b"DCTDecode")]
            plains = [n for n in streams if b"Filter" not in E.objects[n].d and E.objects[n].d.get(b"Type") != Name(b"Metadata") and len(E.objects[n].data) > 0]
            for sel, form, nameh in p.get("force_named", []):
                pool = dcts if sel.startswith("dct") else plains
                k = int(sel[3:] if sel.startswith("dct") else sel[5:])
                if k < len(pool):
                    self.override[pool[k]] = (form, bytes.fromhex(nameh))
            for n, (form, name) in self.override.items():
                apply_crypt(E.objects[n].d, form, name)
        # the encryption dictionary
        self.enc_num = None
        if p["enc_indirect"]:
            self.enc_num = free_number(E.objects)
            E.objects[self.enc_num] = self.encdict
            E.trailer[b"Encrypt"] = Ref(self.enc_num)
        else:
            E.trailer[b"Encrypt"] = self.encdict
        E.trailer[b"ID"] = [Str(self.id0), Str(bytes(rng.randrange(256) for _ in range(16)))]
        self.E = E
        # object streams: plain (non-stream) objects other than the encryption dictionary
        self.members = {}          # member objnum -> objstm number
        self.objstms = {}          # objstm number -> [member numbers]
        if p["layout"] == "objstm":
            elig = [n for n, o in sorted(E.objects.items()) if not isinstance(o, Stream) and n != self.enc_num and self.gens.get(n, 0) == 0]
            rng.shuffle(elig)
            elig = sorted(elig[:max(1, (len(elig) * 2) // 3)])
            groups = [elig[i::2] for i in range(2)] if len(elig) > 3 else [elig]
            for g in groups:
                if not g:
                    continue
                sn = free_number(E.objects)
                E.objects[sn] = None        # placeholder, built in serialise
                self.objstms[sn] = g
                for m in g:
                    self.members[m] = sn
        return E

    # -- step 3: leaves (every string and stream with the context that decides its treatment)
    def collect_leaves(self):
        E = self.E
        rng = random.Random(self.plan["ivseed"] + 1)
        leaves = []     # dict(num, path, kind, plain, iv)

        def walk(o, num, where, path):
            if isinstance(o, Str):
                leaves.append(dict(num=num, path=path, kind="s:" + where, plain=o.b))
            elif isinstance(o, list):
                for k, x in enumerate(o):
                    walk(x, num, where, path + ("i%d" % k,))
            elif isinstance(o, dict):
                for k in sorted(o):
                    if k == b"Contents" and where == "o" and b"ByteRange" in o and isinstance(o[k], Str):
                        # the /Contents of a signature dictionary: 'typed' when the dictionary says /Type /Sig
                        leaves.append(dict(num=num, path=path + ("k" + hexs(k),), kind="s:g1" if o.get(b"Type") == Name(b"Sig") else "s:g0", plain=o[k].b))
                        continue
                    walk(o[k], num, where, path + ("k" + hexs(k),))
        for n, o in sorted(E.objects.items()):
            if n in self.objstms:
                continue
            if n == self.enc_num:
                continue            # strings of the encryption dictionary: never encrypted, not document leaves
            where = "m" if n in self.members else "o"
            if isinstance(o, Stream):
                walk(o.d, n, where, ())
                leaves.append(dict(num=n, path=("stream",), kind=sdict_token(o.d, n == self.rootmeta), plain=o.data))
            else:
                walk(o, n, where, ())
        tr = {k: v for k, v in E.trailer.items() if k not in (b"Encrypt", b"ID")}
        walk(tr, 0, "t", ())
        # object-stream containers: their data is built from the members' PLAINTEXT serialisation
        for sn, g in sorted(self.objstms.items()):
            parts, offs, pos = [], [], 0
            for m in g:
                b = pdfgen.ser(E.objects[m]) + b"\n"
                offs.append((m, pos))
                pos += len(b)
                parts.append(b)
            head = b" ".join(b"%d %d" % (m, off) for m, off in offs) + b"\n"
            body = head + b"".join(parts)
            dct = {b"Type": N("ObjStm"), b"N": len(g), b"First": len(head)}
            if rng.random() < 0.7:
                body = zlib.compress(body)
                dct[b"Filter"] = N("FlateDecode")
            E.objects[sn] = Stream(dct, body)
            leaves.append(dict(num=sn, path=("stream",), kind=sdict_token(dct, False), plain=body, container=True))
        for l in leaves:
            l["iv"] = bytes(rng.randrange(256) for _ in range(16))
            l["gen"] = self.gens.get(l["num"], 0)
        self.leaves = leaves
        return leaves

    def iso_lines(self):
        return ["c6isoleaf " + " ".join(self.cfg_tokens + [hexs(self.key), l["kind"], str(l["num"]), str(l["gen"]), hexs(l["iv"]), hexs(l["plain"])]) for l in self.leaves]

    # -- step 4: ciphertexts in, bytes out
    def serialise(self, iso_out):
        E = self.E
        self.illformed = False
        for l, o in zip(self.leaves, iso_out):
            f = o.split()
            if f[0] == "illformed" or o.startswith("?"):
                self.illformed = True
                l["method"], l["cipher"] = "?", l["plain"]
                continue
            l["method"] = f[0]
            l["cipher"] = bytes.fromhex(f[1]) if f[1] != "-" else b""
        by = {(l["num"], l["path"]): l for l in self.leaves}

        def rebuild(o, num, path):
            if isinstance(o, Str):
                return Str(by[(num, path)]["cipher"])
            if isinstance(o, list):
                return [rebuild(x, num, path + ("i%d" % k,)) for k, x in enumerate(o)]
            if isinstance(o, dict):
                return {k: rebuild(v, num, path + ("k" + hexs(k),)) for k, v in o.items()}
            return o
        W = pdfgen.Doc()
        W.version = E.version
        for n, o in sorted(E.objects.items()):
            if n in self.members:
                continue
            if n == self.enc_num:
                W.objects[n] = o
            elif isinstance(o, Stream):
                W.objects[n] = Stream(rebuild(o.d, n, ()), by[(n, ("stream",))]["cipher"])
            else:
                W.objects[n] = rebuild(o, n, ())
        tr = dict(E.trailer)
        if self.plan["layout"] == "classic":
            data = write_classic_sparse(W, tr, self.gens)
        else:
            data = write_xref_stream(W, tr, self.members, self.objstms, free_number(E.objects), self.gens)
        self.bytes = data
        return data


def apply_crypt(d, form, name):
    """add the Crypt filter to a stream dictionary in the given form (ISO 32000-2 7.4.10, Table 14)"""
    full = {b"Type": Name(CFDP), b"Name": Name(name)}
    old_f, old_p = d.get(b"Filter"), d.get(b"DecodeParms")
    olds = [] if old_f is None else (list(old_f) if isinstance(old_f, list) else [old_f])
    oldp = [None] * len(olds) if old_p is None else (list(old_p) if isinstance(old_p, list) else [old_p])
    if form == "arr1-dict" and olds:
        form = "arr"
    if form in ("dict", "notype", "noname", "noparms") and olds:
        form = {"dict": "arr", "notype": "notype-arr", "noname": "noname-arr", "noparms": "noparms-arr"}[form]
    if form == "dict":
        d[b"Filter"], d[b"DecodeParms"] = Name(CRYPT), full
    elif form == "notype":
        d[b"Filter"], d[b"DecodeParms"] = Name(CRYPT), {b"Name": Name(name)}
    elif form == "noname":
        d[b"Filter"], d[b"DecodeParms"] = Name(CRYPT), {b"Type": Name(CFDP)}
    elif form == "noparms":
        d[b"Filter"] = Name(CRYPT)
    elif form == "arr1-dict":
        # a one-element /Filter array whose /DecodeParms is the filter's parameter dictionary itself (7.4.1, Table 5)
        d[b"Filter"], d[b"DecodeParms"] = [Name(CRYPT)], full
    elif form == "arr":
        d[b"Filter"], d[b"DecodeParms"] = [Name(CRYPT)] + olds, [full] + oldp
    elif form == "notype-arr":
        d[b"Filter"], d[b"DecodeParms"] = [Name(CRYPT)] + olds, [{b"Name": Name(name)}] + oldp
    elif form == "noname-arr":
        d[b"Filter"], d[b"DecodeParms"] = [Name(CRYPT)] + olds, [{b"Type": Name(CFDP)}] + oldp
    elif form == "noparms-arr":
        d[b"Filter"] = [Name(CRYPT)] + olds
        d.pop(b"DecodeParms", None)
        if any(x is not None for x in oldp):
            d[b"DecodeParms"] = [None] + oldp
    elif form == "arr-null":
        d[b"Filter"], d[b"DecodeParms"] = [Name(CRYPT)] + olds, [None] + oldp
    else:
        raise ValueError(form)


def write_xref_stream(W, trailer, members, objstms, xn, gens=None):
    """file with a cross-reference stream (uncompressed /W [1 4 2], /Index subsections) and type-2 entries for object-stream
    members; xn = the number of the xref stream object itself"""
    gens = gens or {}
    out = bytearray()
    out += b"%PDF-" + (W.version if W.version >= b"1.5" else b"1.5") + b"\n%\xbf\xf7\xa2\xfe\n"
    offs = {}
    for n in sorted(W.objects):
        offs[n] = len(out)
        out += pdfgen.ser_indirect(n, W.objects[n], gen=gens.get(n, 0))
    out += padding(len(out), max(list(offs) + [m for g in objstms.values() for m in g] + [xn]))
    xoff = len(out)
    idx_of = {}
    for sn, g in objstms.items():
        for k, m in enumerate(g):
            idx_of[m] = (sn, k)
    allnums = set(offs) | set(idx_of) | {xn}
    rows = bytearray()
    index = []
    for start, cnt in xref_sections(allnums):
        index += [start, cnt]
        for i in range(start, start + cnt):
            if i == 0:
                rows += b"\x00" + (0).to_bytes(4, "big") + (65535).to_bytes(2, "big")
            elif i == xn:
                rows += b"\x01" + xoff.to_bytes(4, "big") + (0).to_bytes(2, "big")
            elif i in offs:
                rows += b"\x01" + offs[i].to_bytes(4, "big") + gens.get(i, 0).to_bytes(2, "big")
            else:
                rows += b"\x02" + idx_of[i][0].to_bytes(4, "big") + idx_of[i][1].to_bytes(2, "big")
    d = dict(trailer)
    d[b"Type"] = N("XRef")
    d[b"Size"] = max(allnums) + 1
    d[b"W"] = [1, 4, 2]
    d[b"Index"] = index
    out += pdfgen.ser_indirect(xn, Stream(d, bytes(rows)))
    out += b"startxref\n%d\n%%%%EOF\n" % xoff
    return bytes(out)
