(* C13 extension - nested page trees (C13ProofsN.v) connected to the history theorems (C13ProofsH.v): the first call that
   needs the flat tree turns a well-formed NESTED tree (any nesting up to 50 levels, a page listed several times, direct
   page dictionaries, missing /Type, wrong interior /Count) into a state of the invariant pgx_st, and the list the
   history theorems then start from is the list of leaves of the original tree in document order. *)
From QV Require Import Base.Bytes Struct.PgModel Struct.PgSpec Struct.C13ProofsA Struct.PgxModel Struct.PgxOracle
  Struct.C13ProofsC Struct.C13ProofsE Struct.C13ProofsF Struct.C13ProofsH Struct.C13ProofsN.
Local Open Scope N_scope.

(* getAllPages on a well-formed nested tree: no error, as many distinct page objects as the tree has leaves, with the
   leaves' content markers in document order (a page listed twice got its own object; a direct kid was made indirect);
   the tree keeps its nodes, its leaves are now exactly these objects, every other existing object keeps its marker *)
Lemma nested_get_all_pages_lemma : forall p depth nodes leaves, pgn_wf p depth nodes leaves ->
  exists s' K pn, pg_cache p = (pd_with_all (pd_with_store p s') K, None) /\ pg_root_pages p = PvRef pn /\
    NoDup K /\ length K = length leaves /\ map (pg_mark s') K = pgn_leaf_marks (pd_store p) leaves /\
    pgn_tree depth s' pn nodes (map PvRef K) /\ pgn_rel nodes (pd_store p) s' /\
    (forall x, In x K -> In (PvRef x) leaves \/ pg_lookup (pd_store p) x = None) /\ (forall m, In m nodes -> pgn_tnode s' m).
Proof. exact pgn_cache_nested. Qed.

(* the ISO leaf function of the specification (PgxOracle.pgx_doc_leaves, compared with the driver's raw walk of the real
   tree by the harness) is the leaf list of the definition *)
Lemma nested_leaves_oracle_lemma : forall p depth nodes leaves, pgn_wf p depth nodes leaves -> (depth <= 42)%nat ->
  pgx_doc_leaves p = Some (map (pgn_leaf_omark (pd_store p)) leaves).
Proof. exact pgn_doc_leaves_oracle. Qed.

(* a flat document as read is the depth-1 case *)
Lemma nested_of_flat_lemma : forall p K, pgx_flat p K -> pd_all p = [] -> pd_pos p = [] ->
  exists pn, pg_root_pages p = PvRef pn /\ pgn_wf p 1 [pn] (map PvRef K).
Proof. exact pgn_wf_of_flat. Qed.

(* findPage as the first call on a nested document: afterwards the document is in the invariant of the history theorems
   (pages_refine_list applies to every continuation), its list is the leaf list of the tree it was read with, and the call
   raised exactly if the object is not one of the (new) page objects *)
Lemma nested_first_find_lemma : forall w d i depth nodes leaves,
  pgn_wf (pg_get w d) depth nodes leaves ->
  exists p1 K, fst (pg_step w (PoFind d i)) = pg_put w d p1 /\ pgx_st p1 K /\
    pgx_marks p1 = pgn_leaf_marks (pd_store (pg_get w d)) leaves /\
    pg_is_err (snd (pg_step w (PoFind d i))) = (match pg_index K i with Some _ => false | None => true end).
Proof.
  intros w d i depth nodes leaves Hwf.
  destruct (first_flatten_nested_lemma _ _ _ _ Hwf) as (p1 & K & Hfl & Hf1 & Hall1 & Hpos & Hnd & Hmk & _ & _ & _ & _ & _ & Hinv).
  exists p1, K. cbn [pg_step]. unfold pg_find. rewrite Hfl, Hpos.
  split; [destruct (pg_index K i); reflexivity|].
  split; [split; [exact Hf1|right; split; [exact Hall1|split; assumption]]|].
  split; [unfold pgx_marks; rewrite (pgx_K_flat _ _ Hf1); exact Hmk|].
  destruct (pg_index K i); reflexivity.
Qed.

(* hence: a world of two documents each of which is in the invariant or a well-formed nested tree as read, after one
   findPage on each, is a valid start of pages_refine_list *)
Lemma nested_start_lemma : forall w ia ib,
  ((exists K, pgx_st (fst w) K) \/ exists depth nodes leaves, pgn_wf (fst w) depth nodes leaves) ->
  ((exists K, pgx_st (snd w) K) \/ exists depth nodes leaves, pgn_wf (snd w) depth nodes leaves) ->
  pgx_W (pg_run w [PoFind false ia; PoFind true ib]).
Proof.
  intros [a b] ia ib Ha Hb. cbn [pg_run fst snd].
  assert (H1 : exists K, pgx_st (fst (fst (pg_step (a, b) (PoFind false ia)))) K /\ snd (fst (pg_step (a, b) (PoFind false ia))) = b).
  { destruct Ha as [[K Hst]|(dp & ns & ls & Hwf)].
    - destruct (pgx_find_st a K ia Hst) as (p1 & E & Hst1 & _). cbn [pg_step pg_get fst]. rewrite E. exists K.
      destruct (pg_index K ia); cbn; split; auto.
    - destruct (nested_first_find_lemma (a, b) false ia dp ns ls Hwf) as (p1 & K & E & Hst1 & _). rewrite E. exists K. cbn. auto. }
  destruct H1 as (Ka & Hsa & Eb). destruct (fst (pg_step (a, b) (PoFind false ia))) as [a1 b1]. cbn [fst snd] in *. subst b1.
  destruct Hb as [[K Hst]|(dp & ns & ls & Hwf)].
  - destruct (pgx_find_st b K ib Hst) as (p1 & E & Hst1 & _). cbn [pg_step pg_get snd]. rewrite E.
    destruct (pg_index K ib); cbn; split; cbn; eauto.
  - destruct (nested_first_find_lemma (a1, b) true ib dp ns ls Hwf) as (p1 & K & E & Hst1 & _). rewrite E. split; cbn; eauto.
Qed.
