(* Proofs for C04 (the logic half of "no input can crash ..."): every fixed-size buffer index the filter
   code computes stays in range in the models, for every input and every chunking. Statements are fixed. *)
From QV Require Import Base.Bytes Filters.Filters.
From QV Require Import Filters.C15ProofsA Filters.C15ProofsB.
From Coq Require Import Lia.
Local Open Scope N_scope.

(* state reached after feeding any chunks *)
Definition st_after {S : Type} (step : S -> N -> S * list N * bool) (init : S) (cs : list (list N)) : S :=
  fst (fst (run_chunks step init cs)).

Lemma st_after_inv : forall (S : Type) (step : S -> N -> S * list N * bool) (I : S -> Prop),
  (forall s b, I s -> I (fst (fst (step s b)))) ->
  forall init cs, I init -> I (st_after step init cs).
Proof.
  intros S step I Hstep init cs Hi. unfold st_after. rewrite run_chunks_write_bytes.
  apply write_bytes_inv; assumption.
Qed.

(* ---- rle ---- *)
Lemma rle_inv_len : forall s, rle_inv s -> (length (rle_buf s) <= 128)%nat.
Proof.
  intros s H. unfold rle_inv in H. destruct (rle_state s).
  - lia.
  - lia.
  - destruct H as (x & n & Hb & Hn). rewrite Hb, repeat_length. lia.
Qed.

Lemma rle_step_inv' : forall s b, rle_inv s -> rle_inv (fst (fst (rle_step s b))).
Proof.
  intros s b H. destruct (rle_step s b) as [[s' o] e] eqn:E. cbn [fst].
  destruct (rle_step_inv s b s' o e H E) as (_ & H' & _). exact H'.
Qed.

(* ---- a85 ---- *)
Definition a85I (s : a85_st) : Prop := (length (a85_buf s) < 5)%nat.
Lemma a85_step_inv : forall s b, a85I s -> a85I (fst (fst (a85_step s b))).
Proof.
  intros s b H. unfold a85_step.
  destruct (ahx_is_ws b); [exact H|].
  destruct (1 <? a85_eod s); [exact H|].
  destruct (a85_eod s =? 1).
  { destruct (negb (b =? 62)); [exact H|]. unfold a85I. cbn [fst a85_buf length]. lia. }
  destruct (b =? 126); [exact H|].
  destruct (b =? 122).
  { destruct (a85_buf s); exact H. }
  destruct ((b <? 33) || (117 <? b)); [exact H|].
  destruct (N.of_nat (length (a85_buf s ++ [b])) =? 5) eqn:E.
  - unfold a85I. cbn [fst a85_buf length]. lia.
  - apply N.eqb_neq in E. unfold a85I in *. cbn [fst a85_buf]. rewrite app_length in *. cbn [length] in *. lia.
Qed.

(* ---- ahx ---- *)
Definition ahxI (s : ahx_st) : Prop := ahx_pos s < 2.
Lemma ahx_step_inv : forall s b, ahxI s -> ahxI (fst (fst (ahx_step s b))).
Proof.
  intros s b H. unfold ahx_step.
  destruct (ahx_eod s); [exact H|].
  destruct (ahx_is_ws (c_toupper b)); [exact H|].
  destruct (c_toupper b =? 62).
  { unfold ahx_flush. cbn [ahx_pos]. destruct (ahx_pos s =? 0); cbn [fst]; unfold ahxI in *; cbn [ahx_pos]; lia. }
  match goal with |- context [if ?c then _ else _] => destruct c end; [|exact H].
  destruct (ahx_pos s =? 0); cbn [ahx_pos N.eqb Pos.eqb]; unfold ahx_flush; cbn [ahx_pos N.eqb Pos.eqb fst]; unfold ahxI; cbn [ahx_pos]; lia.
Qed.

(* Pl_RunLength::encode writes m->buf[m->length] with buf[128]: length never exceeds 128 *)
Lemma rle_buf_in_range_lemma : forall cs, (length (rle_buf (st_after rle_step rle_init cs)) <= 128)%nat.
Proof.
  intros cs. apply rle_inv_len. apply st_after_inv; [apply rle_step_inv'|].
  unfold rle_inv. cbn. lia.
Qed.

(* Pl_ASCII85Decoder: inbuf[5], pos < 5 between calls *)
Lemma a85_buf_in_range_lemma : forall cs, (length (a85_buf (st_after a85_step a85_init cs)) < 5)%nat.
Proof.
  intros cs. apply (st_after_inv _ a85_step a85I); [apply a85_step_inv|].
  unfold a85I. cbn. lia.
Qed.

(* Pl_ASCIIHexDecoder: inbuf[3], pos < 2 between calls *)
Lemma ahx_pos_in_range_lemma : forall cs, ahx_pos (st_after ahx_step ahx_init cs) < 2.
Proof.
  intros cs. apply (st_after_inv _ ahx_step ahxI); [apply ahx_step_inv|].
  unfold ahxI. cbn. lia.
Qed.

(* ---- lzw ---- *)
Lemma set_nth_length : forall n x l, length (set_nth n x l) = length l.
Proof.
  induction n as [|n IH]; intros x l; destruct l as [|h t]; cbn [set_nth length]; try reflexivity.
  rewrite IH. reflexivity.
Qed.

Lemma lzw_handle_frame : forall early s code,
  let s' := fst (fst (lzw_handle early s code)) in
  lz_buf s' = lz_buf s /\ lz_next_char s' = lz_next_char s /\
  lz_byte_pos s' = lz_byte_pos s /\ lz_bit_pos s' = lz_bit_pos s.
Proof.
  intros early s code. cbv zeta. unfold lzw_handle.
  repeat match goal with
  | |- context [if ?c then _ else _] => destruct c
  | |- context [match ?x with Some _ => _ | None => _ end] => destruct x
  | |- context [let (_, _) := ?x in _] => destruct x
  end; cbn [fst lz_buf lz_next_char lz_byte_pos lz_bit_pos]; repeat split; reflexivity.
Qed.

Lemma lzw_inv_cs : forall early s, lzw_inv early s -> 9 <= lz_code_size s <= 12.
Proof.
  intros early s [HL Hcs]. rewrite Hcs. unfold lzw_cs_of.
  repeat match goal with |- context [?a <=? ?b] => destruct (N.leb_spec a b) end; lia.
Qed.

Definition lzwI (early : bool) (s : lzw_st) : Prop :=
  lzw_inv early s /\ lz_next_char s < 3 /\ lz_byte_pos s < 3 /\ lz_bit_pos s < 8 /\ length (lz_buf s) = 3%nat.

Lemma mod3_lt : forall a, a mod 3 < 3.
Proof. intros a. apply N.mod_lt. lia. Qed.

Lemma lzw_step_I : forall early s b, lzwI early s -> lzwI early (fst (fst (lzw_step early s b))).
Proof.
  intros early s b (Hinv & Hnc & Hbp & Hbit & Hlen).
  split; [apply lzw_step_inv; exact Hinv|].
  pose proof (lzw_inv_cs early s Hinv) as Hcs.
  unfold lzw_step.
  assert (Hnc' : (if lz_next_char s + 1 =? 3 then 0 else lz_next_char s + 1) < 3).
  { destruct (N.eqb_spec (lz_next_char s + 1) 3); lia. }
  match goal with |- context [if ?c then _ else _ ] =>
    match c with (_ <=? _) => destruct c end end.
  - unfold lzw_send.
    match goal with |- context [lzw_handle early ?s1 ?code] =>
      destruct (lzw_handle_frame early s1 code) as (E1 & E2 & E3 & E4) end.
    rewrite E1, E2, E3, E4. cbn [lz_buf lz_next_char lz_byte_pos lz_bit_pos lz_code_size].
    rewrite set_nth_length.
    split; [exact Hnc'|]. split; [|split; [|exact Hlen]].
    + repeat match goal with |- context [if ?c then _ else _] => destruct c end; apply mod3_lt.
    + set (cs := lz_code_size s) in *. set (bit := lz_bit_pos s) in *.
      destruct (N.ltb_spec 8 (cs - (8 - bit))) as [H8|H8];
      repeat match goal with
      | |- context [?a <? ?b] => destruct (N.ltb_spec a b)
      | |- context [?a =? ?b] => destruct (N.eqb_spec a b)
      end; lia.
  - cbn [fst lz_buf lz_next_char lz_byte_pos lz_bit_pos]. rewrite set_nth_length.
    repeat split; assumption.
Qed.

(* Pl_LZWDecoder: 3-byte ring buffer indices; bits_available never underflows; table bounded *)
Lemma lzw_ring_in_range_lemma : forall early cs,
  let s := st_after (lzw_step early) lzw_init cs in
  lz_next_char s < 3 /\ lz_byte_pos s < 3 /\ lz_bit_pos s < 8 /\ length (lz_buf s) = 3%nat.
Proof.
  intros early cs. cbv zeta.
  assert (H : lzwI early (st_after (lzw_step early) lzw_init cs)).
  { apply st_after_inv; [apply lzw_step_I|].
    split; [split; [cbn; lia|destruct early; reflexivity]|]. cbn. repeat split; lia. }
  destruct H as (_ & H). exact H.
Qed.

(* ---- png ---- *)
Lemma png_run_chunks_inv : forall enc p cs s, png_sinv enc p s ->
  png_sinv enc p (fst (png_run_chunks enc p s cs)).
Proof.
  intros enc p. induction cs as [|c cs IH]; intros s Hs; [exact Hs|].
  cbn [png_run_chunks]. unfold png_write.
  pose proof (png_loop_inv enc p (S (length c)) c s Hs) as H1.
  destruct (png_write_loop (S (length c)) enc p s c) as [s1 o1]. cbn [fst] in H1.
  pose proof (IH s1 H1) as H2.
  destruct (png_run_chunks enc p s1 cs) as [s2 o2]. exact H2.
Qed.

(* Pl_PNGFilter: the row buffer (bytes_per_row + 1) is never overfilled, whatever the chunking *)
Lemma png_cur_in_range_lemma : forall enc p cs, (0 < png_bpr p)%nat ->
  (length (png_cur (fst (png_run_chunks enc p (png_init p) cs))) < png_incoming enc p)%nat.
Proof.
  intros enc p cs Hp. apply png_run_chunks_inv.
  unfold png_sinv, png_init, png_incoming. cbn [png_cur length]. destruct enc; lia.
Qed.

(* ---- bit reader / writer ---- *)
Lemma read_bits_loop_bound : forall fuel r wanted result k, result < 2 ^ k ->
  snd (read_bits_loop fuel r wanted result) < 2 ^ (k + wanted).
Proof.
  induction fuel as [|fuel IH]; intros r wanted result k Hr.
  - cbn [read_bits_loop snd]. eapply N.lt_le_trans; [exact Hr|]. apply N.pow_le_mono_r; lia.
  - cbn [read_bits_loop]. cbv zeta.
    destruct (wanted =? 0).
    { cbn [snd]. eapply N.lt_le_trans; [exact Hr|]. apply N.pow_le_mono_r; lia. }
    set (off1 := br_off r + 1).
    set (tc := N.min wanted off1).
    set (h := hd 0 (br_bytes r)).
    assert (Htc : tc <= wanted) by (unfold tc; lia).
    assert (Htc1 : tc <= off1) by (unfold tc; lia).
    replace (k + wanted) with ((k + tc) + (wanted - tc)) by lia.
    apply IH.
    assert (Hb : (h mod 2 ^ off1) / 2 ^ (off1 - tc) < 2 ^ tc).
    { apply N.div_lt_upper_bound; [apply N.pow_nonzero; lia|].
      rewrite <- N.pow_add_r. replace (off1 - tc + tc) with off1 by lia.
      apply N.mod_lt. apply N.pow_nonzero. lia. }
    eapply N.le_lt_trans; [apply N.mod_le; apply N.pow_nonzero; lia|].
    rewrite N.pow_add_r.
    set (B := h mod 2 ^ off1 / 2 ^ (off1 - tc)) in *.
    set (T := 2 ^ tc) in *. set (K := 2 ^ k) in *.
    assert (HK : (result + 1) * T <= K * T) by (apply N.mul_le_mono_r; lia).
    lia.
Qed.

(* read_bits never reads past the buffer: it fails (exception) instead *)
Lemma read_bits_bounds_lemma : forall r n r' v, read_bits r n = Some (r', v) ->
  n <= br_avail r /\ n <= 32 /\ v < 2 ^ n.
Proof.
  intros r n r' v H. unfold read_bits in H.
  destruct (N.ltb_spec (br_avail r) n) as [H1|H1]; [discriminate|].
  destruct (N.ltb_spec 32 n) as [H2|H2]; [discriminate|].
  split; [exact H1|]. split; [exact H2|].
  pose proof (read_bits_loop_bound (S (N.to_nat n)) r n 0 0) as Hb.
  remember (read_bits_loop (S (N.to_nat n)) r n 0) as x eqn:Ex. clear Ex.
  injection H as H. rewrite H in Hb. cbn [snd] in Hb.
  rewrite N.add_0_l in Hb. apply Hb. cbn. lia.
Qed.

Lemma log2_lt_8 : forall x, x < 256 -> N.log2 x < 8.
Proof.
  intros x Hx. destruct (N.eq_dec x 0) as [->|Hn]; [cbn; lia|].
  apply N.log2_lt_pow2; [lia|]. change (2 ^ 8) with 256. exact Hx.
Qed.

Lemma lor_lt_256 : forall a b, a < 256 -> b < 256 -> N.lor a b < 256.
Proof.
  intros a b Ha Hb. destruct (N.eq_dec (N.lor a b) 0) as [E|E]; [rewrite E; lia|].
  change 256 with (2 ^ 8). apply N.log2_lt_pow2; [lia|].
  rewrite N.log2_lor. apply N.max_lub_lt; apply log2_lt_8; assumption.
Qed.

Lemma write_bits_loop_inv : forall fuel w val bits, bw_ch w < 256 -> bw_off w <= 7 ->
  Forall (fun b => b < 256) (snd (write_bits_loop fuel w val bits)) /\
  bw_ch (fst (write_bits_loop fuel w val bits)) < 256 /\
  bw_off (fst (write_bits_loop fuel w val bits)) <= 7.
Proof.
  induction fuel as [|fuel IH]; intros w val bits Hc Ho.
  - cbn [write_bits_loop fst snd]. split; [constructor|]. split; assumption.
  - cbn [write_bits_loop]. cbv zeta.
    destruct (bits =? 0).
    { cbn [fst snd]. split; [constructor|]. split; assumption. }
    set (btw := N.min bits (bw_off w + 1)).
    set (ch := N.lor (bw_ch w) _).
    assert (Hch : ch < 256).
    { unfold ch. apply lor_lt_256; [exact Hc|]. apply N.mod_lt. lia. }
    destruct (bw_off w + 1 - btw =? 0).
    + specialize (IH bw_init val (bits - btw)).
      destruct (write_bits_loop fuel bw_init val (bits - btw)) as [w' o].
      cbn [fst snd] in *.
      destruct IH as (H1 & H2 & H3); [cbn; lia|cbn; lia|].
      split; [constructor; assumption|]. split; assumption.
    + apply IH; cbn [bw_ch bw_off]; [exact Hch|lia].
Qed.

(* write_bits emits whole bytes only and keeps its partial byte below 256 *)
Lemma write_bits_bytes_lemma : forall w val bits w' out, bw_ch w < 256 -> bw_off w <= 7 ->
  write_bits w val bits = Some (w', out) ->
  Forall (fun b => b < 256) out /\ bw_ch w' < 256 /\ bw_off w' <= 7.
Proof.
  intros w val bits w' out Hc Ho H. unfold write_bits in H.
  destruct (32 <? bits); [discriminate|].
  pose proof (write_bits_loop_inv (S (N.to_nat bits)) w val bits Hc Ho) as Hi.
  remember (write_bits_loop (S (N.to_nat bits)) w val bits) as x eqn:Ex. clear Ex.
  injection H as H. rewrite H in Hi. cbn [fst snd] in Hi. exact Hi.
Qed.
