(* C03 - towards rd_reads_writer_output, continued: read_xref (model) on the OUTPUT of the writer model. *)
From QV Require Import Base.Bytes Lex.TokModel Lex.LexSpec Lex.TokInterp Lex.LexRun Lex.LexProofs
     Obj.Unparse Obj.UnparseProofs Obj.SynSpec Obj.SynMachine Obj.ParseModel Obj.ParseProofs Obj.ParseSim
     Obj.Queue Obj.C01QueueProofs File.WriterArith Obj.WriterModel Obj.WmPrinters File.C02Proofs Obj.C01WriterProofs Obj.C01FileProofs
     File.XrefModel File.RdModel File.C03ProofsRd File.C03ProofsRdW File.C03ProofsRdW2 File.C03ProofsRdW3 File.C03ProofsRdW5
     File.C03ProofsRdX File.C03ProofsRdTr File.C03ProofsRdW6.
From Coq Require Import Lia.
Local Open Scope N_scope.

Lemma rd_read_xref_written_lemma : forall d max_id zs,
  wf_doc d -> w_n d < 2147483647 -> Forall (fun ko : N * N => snd ko < 10 ^ 10) (w_offs d) ->
  let objs := d_objects d in let ren := rw_ren d in
  let o := rw_trailer_obj (rw_tr_entries d) (d_id1 d) (d_id2 d) in
  rw_wf o = true -> rw_nd objs o = true ->
  ints_ok (rd_toks objs ren o) -> refs_ok (rd_toks objs ren o) = true ->
  opens (rd_toks objs ren o) <= 500 -> len (rd_toks objs ren o) < 4294967295 ->
  In (k_Size, SyInt zs) (rw_sy_entries objs ren (rw_tr_entries d)) ->
  (forall sv, ~ In (rw_k_Prev, sv) (rw_sy_entries objs ren (rw_tr_entries d))) ->
  (forall sv, ~ In (rw_k_XRefStm, sv) (rw_sy_entries objs ren (rw_tr_entries d))) ->
  let out := WOUT d in
  let st0 := Build_c3_state [] [] in
  let st1 := rdx_insert max_id st0 1 (w_offs d) in
  exists o' dm,
    R_obj o' (rd_sy objs ren o) /\ o' = MoDict dm /\
    rd_read_xref (S (length out)) out max_id (mkRdXst st0 None [] []) (w_xoff d) []
    = RdGo (mkRdXst (fold_left (c3_entry max_id) [(0, C3Free 65535)] st1)
                    (Some (rd_fixrefs (rd_known (mkRdEnv out (c3_tbl st1) [] max_id false)) (MoDict dm))) [] []).
Proof.
  intros d max_id zs Wd Hn Hoffs objs ren o W ND Hi Hr Ho Hl HSize HPrev HStm out st0 st1.
  pose proof (write_doc_layout_lemma d) as Hlay. fold out in Hlay.
  pose proof (rd_writer_bytes_lemma d Wd) as Hb. fold out in Hb.
  set (TL := dec_of_N (w_xoff d) ++ [10; 37; 37; 69; 79; 70; 10]).
  assert (Hlen : N.of_nat (length (w_offs d)) = w_n d) by (unfold w_offs, w_n; rewrite offs_of_length; reflexivity).
  assert (Htext : w_xref d ++ w_trailer d ++ w_tail d
                  = [120; 114; 101; 102; 10] ++ [48; 32] ++ dec_of_N (N.of_nat (length (w_offs d)) + 1) ++ [10] ++ s_free
                    ++ flat_map (fun ko : N * N => xref_line (snd ko)) (w_offs d) ++ rd_s_trailer
                    ++ (32 :: 60 :: 60 :: flat_map (rw_entry_text objs ren) (rw_tr_entries d)
                        ++ [32; 47; 73; 68; 32; 91] ++ hexstr (d_id1 d) ++ hexstr (d_id2 d) ++ [93] ++ [32; 62; 62]
                        ++ 10 :: rd_s_startxref ++ 10 :: TL)).
  { rewrite Hlen. unfold w_xref, w_trailer, w_tail, w_lines, TL. rewrite (rd_trailer_text_lemma d Wd).
    fold objs. fold ren. rewrite <- !app_assoc. reflexivity. }
  assert (Hat : rd_at out (w_xoff d) = w_xref d ++ w_trailer d ++ w_tail d).
  { rewrite Hlay. rewrite app_assoc. replace (w_xoff d) with (rd_len (w_hdr d ++ w_bodies d)); [apply rd_at_app|].
    unfold w_xoff, rd_len. rewrite app_length. lia. }
  rewrite Htext in Hat.
  assert (Hx0 : w_xoff d <> 0).
  { unfold w_xoff, w_hdr, header. rewrite !app_length. cbn [length]. lia. }
  (* bytes of the pieces, from the bytes of the whole *)
  assert (BTL : bytes_ok TL).
  { assert (E : out = (w_hdr d ++ w_bodies d ++ w_xref d ++ w_trailer d ++ [115; 116; 97; 114; 116; 120; 114; 101; 102; 10]) ++ TL).
    { rewrite Hlay. unfold w_tail, TL. rewrite <- !app_assoc. reflexivity. }
    rewrite E in Hb. exact (bytes_ok_suffix _ _ Hb). }
  assert (Bent : bytes_ok (flat_map (rw_entry_text objs ren) (rw_tr_entries d))).
  { assert (E : out = (w_hdr d ++ w_bodies d ++ w_xref d ++ [116; 114; 97; 105; 108; 101; 114; 32; 60; 60])
                      ++ flat_map (w_tg d) (d_trailer d)
                      ++ ([32; 47; 73; 68; 32; 91] ++ hexstr (d_id1 d) ++ hexstr (d_id2 d) ++ [93] ++ [32; 62; 62; 10]) ++ w_tail d).
    { rewrite Hlay. unfold w_trailer. rewrite <- !app_assoc. reflexivity. }
    rewrite E in Hb. apply bytes_ok_suffix in Hb. unfold bytes_ok in Hb. apply Forall_app in Hb. destruct Hb as [Hb _].
    rewrite (rd_trailer_text_lemma d Wd) in Hb. exact Hb. }
  rewrite Hlen in Hat.
  destruct (rd_read_xref_section_step out max_id (w_xoff d) (w_offs d) objs ren (rw_tr_entries d) (d_id1 d) (d_id2 d) zs TL)
    as (o' & dm & H1 & H2 & H3); try assumption.
  - rewrite Hlen. exact Hat.
  - rewrite Hlen. exact Hn.
  - apply rw_ren_pos.
  - exists o', dm. repeat split; assumption.
Qed.

(* ------------------------------------------------------------------ rd_reads_writer_output: status after this round
   PROVED, for every wf_doc d under the stated side conditions (no real numbers in the objects read through the bridge,
   printed dictionary keys pairwise different, integers within long long, new object numbers <= 2^31-1, at most 500
   container openings and fewer than 2^32-1 tokens per object, offsets < 10^10, "startxref" not starting elsewhere in the
   last 1054 bytes):
     (1a) rd_writer_header: findHeader finds the header at offset 0 with the document's version (C03ProofsRdW2.v);
     (1b) rd_tok_newpos, rd_tok_last, rd_find_startxref_fixed: tell()/getLastOffset() of readToken and the startxref scan
          on `startxref LF v LF %%EOF LF` (C03ProofsRdP.v; the unbounded statement is refuted for v >= 2^63:
          rd_find_startxref_unbounded_refuted - qpdf's QUtil::string_to_ll throws there as the model says);
     (2)  rd_xref_entry_line/_free, rd_table_entries_lines, rd_xref_first_model, rd_table_section_model_step
          (C03ProofsRdX.v), rd_trailer_parses_step (trailer with /ID hex strings through the bridge, C03ProofsRdW5.v),
          rd_trailer_text, rd_writer_bytes (C03ProofsRdTr.v), composed: rd_read_xref_section_step (C03ProofsRdW6.v) and
          rd_read_xref_written (this file): read_xref on write_doc d ends with the table rdx_insert .. (w_offs d), object 0
          recorded free, the trailer dictionary read as rw_trailer_obj (R_obj), no warning, no /Prev;
     (3)  rw_offs_at (explicit tail of every chunk), rd_read_at_written_step (C03ProofsRdW2.v);
     (4)  rd_parse_pos (tell() after Parser::parse), rd_dict_lookup, rd_stream_dict_text, rd_read_at_emitted_stream_step
          (C03ProofsRdW3.v), rd_read_at_written_stream_step (C03ProofsRdW4.v): value, extent and the stream bytes;
     (6, parts) rdt_* (C03ProofsRdT.v: the table is objects 1..n in map order, the final pass removes nothing, lookups,
          no object-stream cache), rd_lookup_written, rd_resolve_written, rd_resolve_written_stream (C03ProofsRdW7.v):
          resolve of every written object returns the document's object (R_obj) / stream bytes with no warning.
   (5) reals: kept as a stated side condition (rw_wf excludes OReal).
   NOT PROVED - the assembly rd_view (write_doc d) = view of d.  What is left is bookkeeping inside rd_view_at:
     - connect rd_find_startxref_fixed and text_to_ll to rd_view_at's first match, max_id = min(2^31-2, size/3) >= n
       (each chunk has at least 3 bytes);
     - c3_tbl of rd_read_xref_written's state = rdt_tbl 1 (w_offs d) (rdt_insert_fresh + rdt_free0), then rdt_sort_id,
       rdt_gen_pass_id; the /Size test (rdt_max_obj, deleted = [0], /Size = n+1 from rd_dict_lookup);
     - no /Encrypt (absent key, as for /Prev), /Root resolved by rd_resolve_written to a dictionary with /Type /Catalog and
       /Pages a dictionary (side conditions on d; lookups through rd_dict_lookup and rd_fixrefs);
     - the fold over the table: for every entry rd_resolve_top = rd_resolve (rdt_no_stm_cache) = rd_resolve_written*;
       rd_fixrefs is the identity on references to written objects (rd_known: the reference is in the table);
     - stating "the view of d": R_obj relates the read values to rd_sy, references under rw_ren. *)
