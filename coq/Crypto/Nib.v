(* Nibbles as an enumerated type, with the bitwise operations, addition and shifts given as tables.
   the tables below are plain case analyses; used by the fast SHA-2 and AES
   so that the extracted code does a constant number of steps per 4 bits and allocates almost
   nothing (constant constructors are immediate values in OCaml). Values: X0 = 0 ... XF = 15. *)
From QV Require Import Base.Bytes.
Local Open Scope N_scope.

Inductive nibble := X0 | X1 | X2 | X3 | X4 | X5 | X6 | X7 | X8 | X9 | XA | XB | XC | XD | XE | XF.

Definition hex_xor (a b : nibble) : nibble :=
  match a, b with
  | X0, X0 => X0 | X0, X1 => X1 | X0, X2 => X2 | X0, X3 => X3 | X0, X4 => X4 | X0, X5 => X5 | X0, X6 => X6 | X0, X7 => X7 | X0, X8 => X8 | X0, X9 => X9 | X0, XA => XA | X0, XB => XB | X0, XC => XC | X0, XD => XD | X0, XE => XE | X0, XF => XF
  | X1, X0 => X1 | X1, X1 => X0 | X1, X2 => X3 | X1, X3 => X2 | X1, X4 => X5 | X1, X5 => X4 | X1, X6 => X7 | X1, X7 => X6 | X1, X8 => X9 | X1, X9 => X8 | X1, XA => XB | X1, XB => XA | X1, XC => XD | X1, XD => XC | X1, XE => XF | X1, XF => XE
  | X2, X0 => X2 | X2, X1 => X3 | X2, X2 => X0 | X2, X3 => X1 | X2, X4 => X6 | X2, X5 => X7 | X2, X6 => X4 | X2, X7 => X5 | X2, X8 => XA | X2, X9 => XB | X2, XA => X8 | X2, XB => X9 | X2, XC => XE | X2, XD => XF | X2, XE => XC | X2, XF => XD
  | X3, X0 => X3 | X3, X1 => X2 | X3, X2 => X1 | X3, X3 => X0 | X3, X4 => X7 | X3, X5 => X6 | X3, X6 => X5 | X3, X7 => X4 | X3, X8 => XB | X3, X9 => XA | X3, XA => X9 | X3, XB => X8 | X3, XC => XF | X3, XD => XE | X3, XE => XD | X3, XF => XC
  | X4, X0 => X4 | X4, X1 => X5 | X4, X2 => X6 | X4, X3 => X7 | X4, X4 => X0 | X4, X5 => X1 | X4, X6 => X2 | X4, X7 => X3 | X4, X8 => XC | X4, X9 => XD | X4, XA => XE | X4, XB => XF | X4, XC => X8 | X4, XD => X9 | X4, XE => XA | X4, XF => XB
  | X5, X0 => X5 | X5, X1 => X4 | X5, X2 => X7 | X5, X3 => X6 | X5, X4 => X1 | X5, X5 => X0 | X5, X6 => X3 | X5, X7 => X2 | X5, X8 => XD | X5, X9 => XC | X5, XA => XF | X5, XB => XE | X5, XC => X9 | X5, XD => X8 | X5, XE => XB | X5, XF => XA
  | X6, X0 => X6 | X6, X1 => X7 | X6, X2 => X4 | X6, X3 => X5 | X6, X4 => X2 | X6, X5 => X3 | X6, X6 => X0 | X6, X7 => X1 | X6, X8 => XE | X6, X9 => XF | X6, XA => XC | X6, XB => XD | X6, XC => XA | X6, XD => XB | X6, XE => X8 | X6, XF => X9
  | X7, X0 => X7 | X7, X1 => X6 | X7, X2 => X5 | X7, X3 => X4 | X7, X4 => X3 | X7, X5 => X2 | X7, X6 => X1 | X7, X7 => X0 | X7, X8 => XF | X7, X9 => XE | X7, XA => XD | X7, XB => XC | X7, XC => XB | X7, XD => XA | X7, XE => X9 | X7, XF => X8
  | X8, X0 => X8 | X8, X1 => X9 | X8, X2 => XA | X8, X3 => XB | X8, X4 => XC | X8, X5 => XD | X8, X6 => XE | X8, X7 => XF | X8, X8 => X0 | X8, X9 => X1 | X8, XA => X2 | X8, XB => X3 | X8, XC => X4 | X8, XD => X5 | X8, XE => X6 | X8, XF => X7
  | X9, X0 => X9 | X9, X1 => X8 | X9, X2 => XB | X9, X3 => XA | X9, X4 => XD | X9, X5 => XC | X9, X6 => XF | X9, X7 => XE | X9, X8 => X1 | X9, X9 => X0 | X9, XA => X3 | X9, XB => X2 | X9, XC => X5 | X9, XD => X4 | X9, XE => X7 | X9, XF => X6
  | XA, X0 => XA | XA, X1 => XB | XA, X2 => X8 | XA, X3 => X9 | XA, X4 => XE | XA, X5 => XF | XA, X6 => XC | XA, X7 => XD | XA, X8 => X2 | XA, X9 => X3 | XA, XA => X0 | XA, XB => X1 | XA, XC => X6 | XA, XD => X7 | XA, XE => X4 | XA, XF => X5
  | XB, X0 => XB | XB, X1 => XA | XB, X2 => X9 | XB, X3 => X8 | XB, X4 => XF | XB, X5 => XE | XB, X6 => XD | XB, X7 => XC | XB, X8 => X3 | XB, X9 => X2 | XB, XA => X1 | XB, XB => X0 | XB, XC => X7 | XB, XD => X6 | XB, XE => X5 | XB, XF => X4
  | XC, X0 => XC | XC, X1 => XD | XC, X2 => XE | XC, X3 => XF | XC, X4 => X8 | XC, X5 => X9 | XC, X6 => XA | XC, X7 => XB | XC, X8 => X4 | XC, X9 => X5 | XC, XA => X6 | XC, XB => X7 | XC, XC => X0 | XC, XD => X1 | XC, XE => X2 | XC, XF => X3
  | XD, X0 => XD | XD, X1 => XC | XD, X2 => XF | XD, X3 => XE | XD, X4 => X9 | XD, X5 => X8 | XD, X6 => XB | XD, X7 => XA | XD, X8 => X5 | XD, X9 => X4 | XD, XA => X7 | XD, XB => X6 | XD, XC => X1 | XD, XD => X0 | XD, XE => X3 | XD, XF => X2
  | XE, X0 => XE | XE, X1 => XF | XE, X2 => XC | XE, X3 => XD | XE, X4 => XA | XE, X5 => XB | XE, X6 => X8 | XE, X7 => X9 | XE, X8 => X6 | XE, X9 => X7 | XE, XA => X4 | XE, XB => X5 | XE, XC => X2 | XE, XD => X3 | XE, XE => X0 | XE, XF => X1
  | XF, X0 => XF | XF, X1 => XE | XF, X2 => XD | XF, X3 => XC | XF, X4 => XB | XF, X5 => XA | XF, X6 => X9 | XF, X7 => X8 | XF, X8 => X7 | XF, X9 => X6 | XF, XA => X5 | XF, XB => X4 | XF, XC => X3 | XF, XD => X2 | XF, XE => X1 | XF, XF => X0
  end.

Definition hex_and (a b : nibble) : nibble :=
  match a, b with
  | X0, X0 => X0 | X0, X1 => X0 | X0, X2 => X0 | X0, X3 => X0 | X0, X4 => X0 | X0, X5 => X0 | X0, X6 => X0 | X0, X7 => X0 | X0, X8 => X0 | X0, X9 => X0 | X0, XA => X0 | X0, XB => X0 | X0, XC => X0 | X0, XD => X0 | X0, XE => X0 | X0, XF => X0
  | X1, X0 => X0 | X1, X1 => X1 | X1, X2 => X0 | X1, X3 => X1 | X1, X4 => X0 | X1, X5 => X1 | X1, X6 => X0 | X1, X7 => X1 | X1, X8 => X0 | X1, X9 => X1 | X1, XA => X0 | X1, XB => X1 | X1, XC => X0 | X1, XD => X1 | X1, XE => X0 | X1, XF => X1
  | X2, X0 => X0 | X2, X1 => X0 | X2, X2 => X2 | X2, X3 => X2 | X2, X4 => X0 | X2, X5 => X0 | X2, X6 => X2 | X2, X7 => X2 | X2, X8 => X0 | X2, X9 => X0 | X2, XA => X2 | X2, XB => X2 | X2, XC => X0 | X2, XD => X0 | X2, XE => X2 | X2, XF => X2
  | X3, X0 => X0 | X3, X1 => X1 | X3, X2 => X2 | X3, X3 => X3 | X3, X4 => X0 | X3, X5 => X1 | X3, X6 => X2 | X3, X7 => X3 | X3, X8 => X0 | X3, X9 => X1 | X3, XA => X2 | X3, XB => X3 | X3, XC => X0 | X3, XD => X1 | X3, XE => X2 | X3, XF => X3
  | X4, X0 => X0 | X4, X1 => X0 | X4, X2 => X0 | X4, X3 => X0 | X4, X4 => X4 | X4, X5 => X4 | X4, X6 => X4 | X4, X7 => X4 | X4, X8 => X0 | X4, X9 => X0 | X4, XA => X0 | X4, XB => X0 | X4, XC => X4 | X4, XD => X4 | X4, XE => X4 | X4, XF => X4
  | X5, X0 => X0 | X5, X1 => X1 | X5, X2 => X0 | X5, X3 => X1 | X5, X4 => X4 | X5, X5 => X5 | X5, X6 => X4 | X5, X7 => X5 | X5, X8 => X0 | X5, X9 => X1 | X5, XA => X0 | X5, XB => X1 | X5, XC => X4 | X5, XD => X5 | X5, XE => X4 | X5, XF => X5
  | X6, X0 => X0 | X6, X1 => X0 | X6, X2 => X2 | X6, X3 => X2 | X6, X4 => X4 | X6, X5 => X4 | X6, X6 => X6 | X6, X7 => X6 | X6, X8 => X0 | X6, X9 => X0 | X6, XA => X2 | X6, XB => X2 | X6, XC => X4 | X6, XD => X4 | X6, XE => X6 | X6, XF => X6
  | X7, X0 => X0 | X7, X1 => X1 | X7, X2 => X2 | X7, X3 => X3 | X7, X4 => X4 | X7, X5 => X5 | X7, X6 => X6 | X7, X7 => X7 | X7, X8 => X0 | X7, X9 => X1 | X7, XA => X2 | X7, XB => X3 | X7, XC => X4 | X7, XD => X5 | X7, XE => X6 | X7, XF => X7
  | X8, X0 => X0 | X8, X1 => X0 | X8, X2 => X0 | X8, X3 => X0 | X8, X4 => X0 | X8, X5 => X0 | X8, X6 => X0 | X8, X7 => X0 | X8, X8 => X8 | X8, X9 => X8 | X8, XA => X8 | X8, XB => X8 | X8, XC => X8 | X8, XD => X8 | X8, XE => X8 | X8, XF => X8
  | X9, X0 => X0 | X9, X1 => X1 | X9, X2 => X0 | X9, X3 => X1 | X9, X4 => X0 | X9, X5 => X1 | X9, X6 => X0 | X9, X7 => X1 | X9, X8 => X8 | X9, X9 => X9 | X9, XA => X8 | X9, XB => X9 | X9, XC => X8 | X9, XD => X9 | X9, XE => X8 | X9, XF => X9
  | XA, X0 => X0 | XA, X1 => X0 | XA, X2 => X2 | XA, X3 => X2 | XA, X4 => X0 | XA, X5 => X0 | XA, X6 => X2 | XA, X7 => X2 | XA, X8 => X8 | XA, X9 => X8 | XA, XA => XA | XA, XB => XA | XA, XC => X8 | XA, XD => X8 | XA, XE => XA | XA, XF => XA
  | XB, X0 => X0 | XB, X1 => X1 | XB, X2 => X2 | XB, X3 => X3 | XB, X4 => X0 | XB, X5 => X1 | XB, X6 => X2 | XB, X7 => X3 | XB, X8 => X8 | XB, X9 => X9 | XB, XA => XA | XB, XB => XB | XB, XC => X8 | XB, XD => X9 | XB, XE => XA | XB, XF => XB
  | XC, X0 => X0 | XC, X1 => X0 | XC, X2 => X0 | XC, X3 => X0 | XC, X4 => X4 | XC, X5 => X4 | XC, X6 => X4 | XC, X7 => X4 | XC, X8 => X8 | XC, X9 => X8 | XC, XA => X8 | XC, XB => X8 | XC, XC => XC | XC, XD => XC | XC, XE => XC | XC, XF => XC
  | XD, X0 => X0 | XD, X1 => X1 | XD, X2 => X0 | XD, X3 => X1 | XD, X4 => X4 | XD, X5 => X5 | XD, X6 => X4 | XD, X7 => X5 | XD, X8 => X8 | XD, X9 => X9 | XD, XA => X8 | XD, XB => X9 | XD, XC => XC | XD, XD => XD | XD, XE => XC | XD, XF => XD
  | XE, X0 => X0 | XE, X1 => X0 | XE, X2 => X2 | XE, X3 => X2 | XE, X4 => X4 | XE, X5 => X4 | XE, X6 => X6 | XE, X7 => X6 | XE, X8 => X8 | XE, X9 => X8 | XE, XA => XA | XE, XB => XA | XE, XC => XC | XE, XD => XC | XE, XE => XE | XE, XF => XE
  | XF, X0 => X0 | XF, X1 => X1 | XF, X2 => X2 | XF, X3 => X3 | XF, X4 => X4 | XF, X5 => X5 | XF, X6 => X6 | XF, X7 => X7 | XF, X8 => X8 | XF, X9 => X9 | XF, XA => XA | XF, XB => XB | XF, XC => XC | XF, XD => XD | XF, XE => XE | XF, XF => XF
  end.

Definition hex_not (a : nibble) : nibble :=
  match a with
  | X0 => XF | X1 => XE | X2 => XD | X3 => XC | X4 => XB | X5 => XA | X6 => X9 | X7 => X8 | X8 => X7 | X9 => X6 | XA => X5 | XB => X4 | XC => X3 | XD => X2 | XE => X1 | XF => X0
  end.

Definition hex_add (a b : nibble) : nibble :=
  match a, b with
  | X0, X0 => X0 | X0, X1 => X1 | X0, X2 => X2 | X0, X3 => X3 | X0, X4 => X4 | X0, X5 => X5 | X0, X6 => X6 | X0, X7 => X7 | X0, X8 => X8 | X0, X9 => X9 | X0, XA => XA | X0, XB => XB | X0, XC => XC | X0, XD => XD | X0, XE => XE | X0, XF => XF
  | X1, X0 => X1 | X1, X1 => X2 | X1, X2 => X3 | X1, X3 => X4 | X1, X4 => X5 | X1, X5 => X6 | X1, X6 => X7 | X1, X7 => X8 | X1, X8 => X9 | X1, X9 => XA | X1, XA => XB | X1, XB => XC | X1, XC => XD | X1, XD => XE | X1, XE => XF | X1, XF => X0
  | X2, X0 => X2 | X2, X1 => X3 | X2, X2 => X4 | X2, X3 => X5 | X2, X4 => X6 | X2, X5 => X7 | X2, X6 => X8 | X2, X7 => X9 | X2, X8 => XA | X2, X9 => XB | X2, XA => XC | X2, XB => XD | X2, XC => XE | X2, XD => XF | X2, XE => X0 | X2, XF => X1
  | X3, X0 => X3 | X3, X1 => X4 | X3, X2 => X5 | X3, X3 => X6 | X3, X4 => X7 | X3, X5 => X8 | X3, X6 => X9 | X3, X7 => XA | X3, X8 => XB | X3, X9 => XC | X3, XA => XD | X3, XB => XE | X3, XC => XF | X3, XD => X0 | X3, XE => X1 | X3, XF => X2
  | X4, X0 => X4 | X4, X1 => X5 | X4, X2 => X6 | X4, X3 => X7 | X4, X4 => X8 | X4, X5 => X9 | X4, X6 => XA | X4, X7 => XB | X4, X8 => XC | X4, X9 => XD | X4, XA => XE | X4, XB => XF | X4, XC => X0 | X4, XD => X1 | X4, XE => X2 | X4, XF => X3
  | X5, X0 => X5 | X5, X1 => X6 | X5, X2 => X7 | X5, X3 => X8 | X5, X4 => X9 | X5, X5 => XA | X5, X6 => XB | X5, X7 => XC | X5, X8 => XD | X5, X9 => XE | X5, XA => XF | X5, XB => X0 | X5, XC => X1 | X5, XD => X2 | X5, XE => X3 | X5, XF => X4
  | X6, X0 => X6 | X6, X1 => X7 | X6, X2 => X8 | X6, X3 => X9 | X6, X4 => XA | X6, X5 => XB | X6, X6 => XC | X6, X7 => XD | X6, X8 => XE | X6, X9 => XF | X6, XA => X0 | X6, XB => X1 | X6, XC => X2 | X6, XD => X3 | X6, XE => X4 | X6, XF => X5
  | X7, X0 => X7 | X7, X1 => X8 | X7, X2 => X9 | X7, X3 => XA | X7, X4 => XB | X7, X5 => XC | X7, X6 => XD | X7, X7 => XE | X7, X8 => XF | X7, X9 => X0 | X7, XA => X1 | X7, XB => X2 | X7, XC => X3 | X7, XD => X4 | X7, XE => X5 | X7, XF => X6
  | X8, X0 => X8 | X8, X1 => X9 | X8, X2 => XA | X8, X3 => XB | X8, X4 => XC | X8, X5 => XD | X8, X6 => XE | X8, X7 => XF | X8, X8 => X0 | X8, X9 => X1 | X8, XA => X2 | X8, XB => X3 | X8, XC => X4 | X8, XD => X5 | X8, XE => X6 | X8, XF => X7
  | X9, X0 => X9 | X9, X1 => XA | X9, X2 => XB | X9, X3 => XC | X9, X4 => XD | X9, X5 => XE | X9, X6 => XF | X9, X7 => X0 | X9, X8 => X1 | X9, X9 => X2 | X9, XA => X3 | X9, XB => X4 | X9, XC => X5 | X9, XD => X6 | X9, XE => X7 | X9, XF => X8
  | XA, X0 => XA | XA, X1 => XB | XA, X2 => XC | XA, X3 => XD | XA, X4 => XE | XA, X5 => XF | XA, X6 => X0 | XA, X7 => X1 | XA, X8 => X2 | XA, X9 => X3 | XA, XA => X4 | XA, XB => X5 | XA, XC => X6 | XA, XD => X7 | XA, XE => X8 | XA, XF => X9
  | XB, X0 => XB | XB, X1 => XC | XB, X2 => XD | XB, X3 => XE | XB, X4 => XF | XB, X5 => X0 | XB, X6 => X1 | XB, X7 => X2 | XB, X8 => X3 | XB, X9 => X4 | XB, XA => X5 | XB, XB => X6 | XB, XC => X7 | XB, XD => X8 | XB, XE => X9 | XB, XF => XA
  | XC, X0 => XC | XC, X1 => XD | XC, X2 => XE | XC, X3 => XF | XC, X4 => X0 | XC, X5 => X1 | XC, X6 => X2 | XC, X7 => X3 | XC, X8 => X4 | XC, X9 => X5 | XC, XA => X6 | XC, XB => X7 | XC, XC => X8 | XC, XD => X9 | XC, XE => XA | XC, XF => XB
  | XD, X0 => XD | XD, X1 => XE | XD, X2 => XF | XD, X3 => X0 | XD, X4 => X1 | XD, X5 => X2 | XD, X6 => X3 | XD, X7 => X4 | XD, X8 => X5 | XD, X9 => X6 | XD, XA => X7 | XD, XB => X8 | XD, XC => X9 | XD, XD => XA | XD, XE => XB | XD, XF => XC
  | XE, X0 => XE | XE, X1 => XF | XE, X2 => X0 | XE, X3 => X1 | XE, X4 => X2 | XE, X5 => X3 | XE, X6 => X4 | XE, X7 => X5 | XE, X8 => X6 | XE, X9 => X7 | XE, XA => X8 | XE, XB => X9 | XE, XC => XA | XE, XD => XB | XE, XE => XC | XE, XF => XD
  | XF, X0 => XF | XF, X1 => X0 | XF, X2 => X1 | XF, X3 => X2 | XF, X4 => X3 | XF, X5 => X4 | XF, X6 => X5 | XF, X7 => X6 | XF, X8 => X7 | XF, X9 => X8 | XF, XA => X9 | XF, XB => XA | XF, XC => XB | XF, XD => XC | XF, XE => XD | XF, XF => XE
  end.

Definition hex_addc (a b : nibble) : bool :=
  match a, b with
  | X0, X0 => false | X0, X1 => false | X0, X2 => false | X0, X3 => false | X0, X4 => false | X0, X5 => false | X0, X6 => false | X0, X7 => false | X0, X8 => false | X0, X9 => false | X0, XA => false | X0, XB => false | X0, XC => false | X0, XD => false | X0, XE => false | X0, XF => false
  | X1, X0 => false | X1, X1 => false | X1, X2 => false | X1, X3 => false | X1, X4 => false | X1, X5 => false | X1, X6 => false | X1, X7 => false | X1, X8 => false | X1, X9 => false | X1, XA => false | X1, XB => false | X1, XC => false | X1, XD => false | X1, XE => false | X1, XF => true
  | X2, X0 => false | X2, X1 => false | X2, X2 => false | X2, X3 => false | X2, X4 => false | X2, X5 => false | X2, X6 => false | X2, X7 => false | X2, X8 => false | X2, X9 => false | X2, XA => false | X2, XB => false | X2, XC => false | X2, XD => false | X2, XE => true | X2, XF => true
  | X3, X0 => false | X3, X1 => false | X3, X2 => false | X3, X3 => false | X3, X4 => false | X3, X5 => false | X3, X6 => false | X3, X7 => false | X3, X8 => false | X3, X9 => false | X3, XA => false | X3, XB => false | X3, XC => false | X3, XD => true | X3, XE => true | X3, XF => true
  | X4, X0 => false | X4, X1 => false | X4, X2 => false | X4, X3 => false | X4, X4 => false | X4, X5 => false | X4, X6 => false | X4, X7 => false | X4, X8 => false | X4, X9 => false | X4, XA => false | X4, XB => false | X4, XC => true | X4, XD => true | X4, XE => true | X4, XF => true
  | X5, X0 => false | X5, X1 => false | X5, X2 => false | X5, X3 => false | X5, X4 => false | X5, X5 => false | X5, X6 => false | X5, X7 => false | X5, X8 => false | X5, X9 => false | X5, XA => false | X5, XB => true | X5, XC => true | X5, XD => true | X5, XE => true | X5, XF => true
  | X6, X0 => false | X6, X1 => false | X6, X2 => false | X6, X3 => false | X6, X4 => false | X6, X5 => false | X6, X6 => false | X6, X7 => false | X6, X8 => false | X6, X9 => false | X6, XA => true | X6, XB => true | X6, XC => true | X6, XD => true | X6, XE => true | X6, XF => true
  | X7, X0 => false | X7, X1 => false | X7, X2 => false | X7, X3 => false | X7, X4 => false | X7, X5 => false | X7, X6 => false | X7, X7 => false | X7, X8 => false | X7, X9 => true | X7, XA => true | X7, XB => true | X7, XC => true | X7, XD => true | X7, XE => true | X7, XF => true
  | X8, X0 => false | X8, X1 => false | X8, X2 => false | X8, X3 => false | X8, X4 => false | X8, X5 => false | X8, X6 => false | X8, X7 => false | X8, X8 => true | X8, X9 => true | X8, XA => true | X8, XB => true | X8, XC => true | X8, XD => true | X8, XE => true | X8, XF => true
  | X9, X0 => false | X9, X1 => false | X9, X2 => false | X9, X3 => false | X9, X4 => false | X9, X5 => false | X9, X6 => false | X9, X7 => true | X9, X8 => true | X9, X9 => true | X9, XA => true | X9, XB => true | X9, XC => true | X9, XD => true | X9, XE => true | X9, XF => true
  | XA, X0 => false | XA, X1 => false | XA, X2 => false | XA, X3 => false | XA, X4 => false | XA, X5 => false | XA, X6 => true | XA, X7 => true | XA, X8 => true | XA, X9 => true | XA, XA => true | XA, XB => true | XA, XC => true | XA, XD => true | XA, XE => true | XA, XF => true
  | XB, X0 => false | XB, X1 => false | XB, X2 => false | XB, X3 => false | XB, X4 => false | XB, X5 => true | XB, X6 => true | XB, X7 => true | XB, X8 => true | XB, X9 => true | XB, XA => true | XB, XB => true | XB, XC => true | XB, XD => true | XB, XE => true | XB, XF => true
  | XC, X0 => false | XC, X1 => false | XC, X2 => false | XC, X3 => false | XC, X4 => true | XC, X5 => true | XC, X6 => true | XC, X7 => true | XC, X8 => true | XC, X9 => true | XC, XA => true | XC, XB => true | XC, XC => true | XC, XD => true | XC, XE => true | XC, XF => true
  | XD, X0 => false | XD, X1 => false | XD, X2 => false | XD, X3 => true | XD, X4 => true | XD, X5 => true | XD, X6 => true | XD, X7 => true | XD, X8 => true | XD, X9 => true | XD, XA => true | XD, XB => true | XD, XC => true | XD, XD => true | XD, XE => true | XD, XF => true
  | XE, X0 => false | XE, X1 => false | XE, X2 => true | XE, X3 => true | XE, X4 => true | XE, X5 => true | XE, X6 => true | XE, X7 => true | XE, X8 => true | XE, X9 => true | XE, XA => true | XE, XB => true | XE, XC => true | XE, XD => true | XE, XE => true | XE, XF => true
  | XF, X0 => false | XF, X1 => true | XF, X2 => true | XF, X3 => true | XF, X4 => true | XF, X5 => true | XF, X6 => true | XF, X7 => true | XF, X8 => true | XF, X9 => true | XF, XA => true | XF, XB => true | XF, XC => true | XF, XD => true | XF, XE => true | XF, XF => true
  end.

Definition hex_inc (a : nibble) : nibble :=
  match a with
  | X0 => X1 | X1 => X2 | X2 => X3 | X3 => X4 | X4 => X5 | X5 => X6 | X6 => X7 | X7 => X8 | X8 => X9 | X9 => XA | XA => XB | XB => XC | XC => XD | XD => XE | XE => XF | XF => X0
  end.

Definition hex_is_f (a : nibble) : bool :=
  match a with
  | X0 => false | X1 => false | X2 => false | X3 => false | X4 => false | X5 => false | X6 => false | X7 => false | X8 => false | X9 => false | XA => false | XB => false | XC => false | XD => false | XE => false | XF => true
  end.

Definition hex_shr1 (lo hi : nibble) : nibble :=
  match lo, hi with
  | X0, X0 => X0 | X0, X1 => X8 | X0, X2 => X0 | X0, X3 => X8 | X0, X4 => X0 | X0, X5 => X8 | X0, X6 => X0 | X0, X7 => X8 | X0, X8 => X0 | X0, X9 => X8 | X0, XA => X0 | X0, XB => X8 | X0, XC => X0 | X0, XD => X8 | X0, XE => X0 | X0, XF => X8
  | X1, X0 => X0 | X1, X1 => X8 | X1, X2 => X0 | X1, X3 => X8 | X1, X4 => X0 | X1, X5 => X8 | X1, X6 => X0 | X1, X7 => X8 | X1, X8 => X0 | X1, X9 => X8 | X1, XA => X0 | X1, XB => X8 | X1, XC => X0 | X1, XD => X8 | X1, XE => X0 | X1, XF => X8
  | X2, X0 => X1 | X2, X1 => X9 | X2, X2 => X1 | X2, X3 => X9 | X2, X4 => X1 | X2, X5 => X9 | X2, X6 => X1 | X2, X7 => X9 | X2, X8 => X1 | X2, X9 => X9 | X2, XA => X1 | X2, XB => X9 | X2, XC => X1 | X2, XD => X9 | X2, XE => X1 | X2, XF => X9
  | X3, X0 => X1 | X3, X1 => X9 | X3, X2 => X1 | X3, X3 => X9 | X3, X4 => X1 | X3, X5 => X9 | X3, X6 => X1 | X3, X7 => X9 | X3, X8 => X1 | X3, X9 => X9 | X3, XA => X1 | X3, XB => X9 | X3, XC => X1 | X3, XD => X9 | X3, XE => X1 | X3, XF => X9
  | X4, X0 => X2 | X4, X1 => XA | X4, X2 => X2 | X4, X3 => XA | X4, X4 => X2 | X4, X5 => XA | X4, X6 => X2 | X4, X7 => XA | X4, X8 => X2 | X4, X9 => XA | X4, XA => X2 | X4, XB => XA | X4, XC => X2 | X4, XD => XA | X4, XE => X2 | X4, XF => XA
  | X5, X0 => X2 | X5, X1 => XA | X5, X2 => X2 | X5, X3 => XA | X5, X4 => X2 | X5, X5 => XA | X5, X6 => X2 | X5, X7 => XA | X5, X8 => X2 | X5, X9 => XA | X5, XA => X2 | X5, XB => XA | X5, XC => X2 | X5, XD => XA | X5, XE => X2 | X5, XF => XA
  | X6, X0 => X3 | X6, X1 => XB | X6, X2 => X3 | X6, X3 => XB | X6, X4 => X3 | X6, X5 => XB | X6, X6 => X3 | X6, X7 => XB | X6, X8 => X3 | X6, X9 => XB | X6, XA => X3 | X6, XB => XB | X6, XC => X3 | X6, XD => XB | X6, XE => X3 | X6, XF => XB
  | X7, X0 => X3 | X7, X1 => XB | X7, X2 => X3 | X7, X3 => XB | X7, X4 => X3 | X7, X5 => XB | X7, X6 => X3 | X7, X7 => XB | X7, X8 => X3 | X7, X9 => XB | X7, XA => X3 | X7, XB => XB | X7, XC => X3 | X7, XD => XB | X7, XE => X3 | X7, XF => XB
  | X8, X0 => X4 | X8, X1 => XC | X8, X2 => X4 | X8, X3 => XC | X8, X4 => X4 | X8, X5 => XC | X8, X6 => X4 | X8, X7 => XC | X8, X8 => X4 | X8, X9 => XC | X8, XA => X4 | X8, XB => XC | X8, XC => X4 | X8, XD => XC | X8, XE => X4 | X8, XF => XC
  | X9, X0 => X4 | X9, X1 => XC | X9, X2 => X4 | X9, X3 => XC | X9, X4 => X4 | X9, X5 => XC | X9, X6 => X4 | X9, X7 => XC | X9, X8 => X4 | X9, X9 => XC | X9, XA => X4 | X9, XB => XC | X9, XC => X4 | X9, XD => XC | X9, XE => X4 | X9, XF => XC
  | XA, X0 => X5 | XA, X1 => XD | XA, X2 => X5 | XA, X3 => XD | XA, X4 => X5 | XA, X5 => XD | XA, X6 => X5 | XA, X7 => XD | XA, X8 => X5 | XA, X9 => XD | XA, XA => X5 | XA, XB => XD | XA, XC => X5 | XA, XD => XD | XA, XE => X5 | XA, XF => XD
  | XB, X0 => X5 | XB, X1 => XD | XB, X2 => X5 | XB, X3 => XD | XB, X4 => X5 | XB, X5 => XD | XB, X6 => X5 | XB, X7 => XD | XB, X8 => X5 | XB, X9 => XD | XB, XA => X5 | XB, XB => XD | XB, XC => X5 | XB, XD => XD | XB, XE => X5 | XB, XF => XD
  | XC, X0 => X6 | XC, X1 => XE | XC, X2 => X6 | XC, X3 => XE | XC, X4 => X6 | XC, X5 => XE | XC, X6 => X6 | XC, X7 => XE | XC, X8 => X6 | XC, X9 => XE | XC, XA => X6 | XC, XB => XE | XC, XC => X6 | XC, XD => XE | XC, XE => X6 | XC, XF => XE
  | XD, X0 => X6 | XD, X1 => XE | XD, X2 => X6 | XD, X3 => XE | XD, X4 => X6 | XD, X5 => XE | XD, X6 => X6 | XD, X7 => XE | XD, X8 => X6 | XD, X9 => XE | XD, XA => X6 | XD, XB => XE | XD, XC => X6 | XD, XD => XE | XD, XE => X6 | XD, XF => XE
  | XE, X0 => X7 | XE, X1 => XF | XE, X2 => X7 | XE, X3 => XF | XE, X4 => X7 | XE, X5 => XF | XE, X6 => X7 | XE, X7 => XF | XE, X8 => X7 | XE, X9 => XF | XE, XA => X7 | XE, XB => XF | XE, XC => X7 | XE, XD => XF | XE, XE => X7 | XE, XF => XF
  | XF, X0 => X7 | XF, X1 => XF | XF, X2 => X7 | XF, X3 => XF | XF, X4 => X7 | XF, X5 => XF | XF, X6 => X7 | XF, X7 => XF | XF, X8 => X7 | XF, X9 => XF | XF, XA => X7 | XF, XB => XF | XF, XC => X7 | XF, XD => XF | XF, XE => X7 | XF, XF => XF
  end.

Definition hex_shr2 (lo hi : nibble) : nibble :=
  match lo, hi with
  | X0, X0 => X0 | X0, X1 => X4 | X0, X2 => X8 | X0, X3 => XC | X0, X4 => X0 | X0, X5 => X4 | X0, X6 => X8 | X0, X7 => XC | X0, X8 => X0 | X0, X9 => X4 | X0, XA => X8 | X0, XB => XC | X0, XC => X0 | X0, XD => X4 | X0, XE => X8 | X0, XF => XC
  | X1, X0 => X0 | X1, X1 => X4 | X1, X2 => X8 | X1, X3 => XC | X1, X4 => X0 | X1, X5 => X4 | X1, X6 => X8 | X1, X7 => XC | X1, X8 => X0 | X1, X9 => X4 | X1, XA => X8 | X1, XB => XC | X1, XC => X0 | X1, XD => X4 | X1, XE => X8 | X1, XF => XC
  | X2, X0 => X0 | X2, X1 => X4 | X2, X2 => X8 | X2, X3 => XC | X2, X4 => X0 | X2, X5 => X4 | X2, X6 => X8 | X2, X7 => XC | X2, X8 => X0 | X2, X9 => X4 | X2, XA => X8 | X2, XB => XC | X2, XC => X0 | X2, XD => X4 | X2, XE => X8 | X2, XF => XC
  | X3, X0 => X0 | X3, X1 => X4 | X3, X2 => X8 | X3, X3 => XC | X3, X4 => X0 | X3, X5 => X4 | X3, X6 => X8 | X3, X7 => XC | X3, X8 => X0 | X3, X9 => X4 | X3, XA => X8 | X3, XB => XC | X3, XC => X0 | X3, XD => X4 | X3, XE => X8 | X3, XF => XC
  | X4, X0 => X1 | X4, X1 => X5 | X4, X2 => X9 | X4, X3 => XD | X4, X4 => X1 | X4, X5 => X5 | X4, X6 => X9 | X4, X7 => XD | X4, X8 => X1 | X4, X9 => X5 | X4, XA => X9 | X4, XB => XD | X4, XC => X1 | X4, XD => X5 | X4, XE => X9 | X4, XF => XD
  | X5, X0 => X1 | X5, X1 => X5 | X5, X2 => X9 | X5, X3 => XD | X5, X4 => X1 | X5, X5 => X5 | X5, X6 => X9 | X5, X7 => XD | X5, X8 => X1 | X5, X9 => X5 | X5, XA => X9 | X5, XB => XD | X5, XC => X1 | X5, XD => X5 | X5, XE => X9 | X5, XF => XD
  | X6, X0 => X1 | X6, X1 => X5 | X6, X2 => X9 | X6, X3 => XD | X6, X4 => X1 | X6, X5 => X5 | X6, X6 => X9 | X6, X7 => XD | X6, X8 => X1 | X6, X9 => X5 | X6, XA => X9 | X6, XB => XD | X6, XC => X1 | X6, XD => X5 | X6, XE => X9 | X6, XF => XD
  | X7, X0 => X1 | X7, X1 => X5 | X7, X2 => X9 | X7, X3 => XD | X7, X4 => X1 | X7, X5 => X5 | X7, X6 => X9 | X7, X7 => XD | X7, X8 => X1 | X7, X9 => X5 | X7, XA => X9 | X7, XB => XD | X7, XC => X1 | X7, XD => X5 | X7, XE => X9 | X7, XF => XD
  | X8, X0 => X2 | X8, X1 => X6 | X8, X2 => XA | X8, X3 => XE | X8, X4 => X2 | X8, X5 => X6 | X8, X6 => XA | X8, X7 => XE | X8, X8 => X2 | X8, X9 => X6 | X8, XA => XA | X8, XB => XE | X8, XC => X2 | X8, XD => X6 | X8, XE => XA | X8, XF => XE
  | X9, X0 => X2 | X9, X1 => X6 | X9, X2 => XA | X9, X3 => XE | X9, X4 => X2 | X9, X5 => X6 | X9, X6 => XA | X9, X7 => XE | X9, X8 => X2 | X9, X9 => X6 | X9, XA => XA | X9, XB => XE | X9, XC => X2 | X9, XD => X6 | X9, XE => XA | X9, XF => XE
  | XA, X0 => X2 | XA, X1 => X6 | XA, X2 => XA | XA, X3 => XE | XA, X4 => X2 | XA, X5 => X6 | XA, X6 => XA | XA, X7 => XE | XA, X8 => X2 | XA, X9 => X6 | XA, XA => XA | XA, XB => XE | XA, XC => X2 | XA, XD => X6 | XA, XE => XA | XA, XF => XE
  | XB, X0 => X2 | XB, X1 => X6 | XB, X2 => XA | XB, X3 => XE | XB, X4 => X2 | XB, X5 => X6 | XB, X6 => XA | XB, X7 => XE | XB, X8 => X2 | XB, X9 => X6 | XB, XA => XA | XB, XB => XE | XB, XC => X2 | XB, XD => X6 | XB, XE => XA | XB, XF => XE
  | XC, X0 => X3 | XC, X1 => X7 | XC, X2 => XB | XC, X3 => XF | XC, X4 => X3 | XC, X5 => X7 | XC, X6 => XB | XC, X7 => XF | XC, X8 => X3 | XC, X9 => X7 | XC, XA => XB | XC, XB => XF | XC, XC => X3 | XC, XD => X7 | XC, XE => XB | XC, XF => XF
  | XD, X0 => X3 | XD, X1 => X7 | XD, X2 => XB | XD, X3 => XF | XD, X4 => X3 | XD, X5 => X7 | XD, X6 => XB | XD, X7 => XF | XD, X8 => X3 | XD, X9 => X7 | XD, XA => XB | XD, XB => XF | XD, XC => X3 | XD, XD => X7 | XD, XE => XB | XD, XF => XF
  | XE, X0 => X3 | XE, X1 => X7 | XE, X2 => XB | XE, X3 => XF | XE, X4 => X3 | XE, X5 => X7 | XE, X6 => XB | XE, X7 => XF | XE, X8 => X3 | XE, X9 => X7 | XE, XA => XB | XE, XB => XF | XE, XC => X3 | XE, XD => X7 | XE, XE => XB | XE, XF => XF
  | XF, X0 => X3 | XF, X1 => X7 | XF, X2 => XB | XF, X3 => XF | XF, X4 => X3 | XF, X5 => X7 | XF, X6 => XB | XF, X7 => XF | XF, X8 => X3 | XF, X9 => X7 | XF, XA => XB | XF, XB => XF | XF, XC => X3 | XF, XD => X7 | XF, XE => XB | XF, XF => XF
  end.

Definition hex_shr3 (lo hi : nibble) : nibble :=
  match lo, hi with
  | X0, X0 => X0 | X0, X1 => X2 | X0, X2 => X4 | X0, X3 => X6 | X0, X4 => X8 | X0, X5 => XA | X0, X6 => XC | X0, X7 => XE | X0, X8 => X0 | X0, X9 => X2 | X0, XA => X4 | X0, XB => X6 | X0, XC => X8 | X0, XD => XA | X0, XE => XC | X0, XF => XE
  | X1, X0 => X0 | X1, X1 => X2 | X1, X2 => X4 | X1, X3 => X6 | X1, X4 => X8 | X1, X5 => XA | X1, X6 => XC | X1, X7 => XE | X1, X8 => X0 | X1, X9 => X2 | X1, XA => X4 | X1, XB => X6 | X1, XC => X8 | X1, XD => XA | X1, XE => XC | X1, XF => XE
  | X2, X0 => X0 | X2, X1 => X2 | X2, X2 => X4 | X2, X3 => X6 | X2, X4 => X8 | X2, X5 => XA | X2, X6 => XC | X2, X7 => XE | X2, X8 => X0 | X2, X9 => X2 | X2, XA => X4 | X2, XB => X6 | X2, XC => X8 | X2, XD => XA | X2, XE => XC | X2, XF => XE
  | X3, X0 => X0 | X3, X1 => X2 | X3, X2 => X4 | X3, X3 => X6 | X3, X4 => X8 | X3, X5 => XA | X3, X6 => XC | X3, X7 => XE | X3, X8 => X0 | X3, X9 => X2 | X3, XA => X4 | X3, XB => X6 | X3, XC => X8 | X3, XD => XA | X3, XE => XC | X3, XF => XE
  | X4, X0 => X0 | X4, X1 => X2 | X4, X2 => X4 | X4, X3 => X6 | X4, X4 => X8 | X4, X5 => XA | X4, X6 => XC | X4, X7 => XE | X4, X8 => X0 | X4, X9 => X2 | X4, XA => X4 | X4, XB => X6 | X4, XC => X8 | X4, XD => XA | X4, XE => XC | X4, XF => XE
  | X5, X0 => X0 | X5, X1 => X2 | X5, X2 => X4 | X5, X3 => X6 | X5, X4 => X8 | X5, X5 => XA | X5, X6 => XC | X5, X7 => XE | X5, X8 => X0 | X5, X9 => X2 | X5, XA => X4 | X5, XB => X6 | X5, XC => X8 | X5, XD => XA | X5, XE => XC | X5, XF => XE
  | X6, X0 => X0 | X6, X1 => X2 | X6, X2 => X4 | X6, X3 => X6 | X6, X4 => X8 | X6, X5 => XA | X6, X6 => XC | X6, X7 => XE | X6, X8 => X0 | X6, X9 => X2 | X6, XA => X4 | X6, XB => X6 | X6, XC => X8 | X6, XD => XA | X6, XE => XC | X6, XF => XE
  | X7, X0 => X0 | X7, X1 => X2 | X7, X2 => X4 | X7, X3 => X6 | X7, X4 => X8 | X7, X5 => XA | X7, X6 => XC | X7, X7 => XE | X7, X8 => X0 | X7, X9 => X2 | X7, XA => X4 | X7, XB => X6 | X7, XC => X8 | X7, XD => XA | X7, XE => XC | X7, XF => XE
  | X8, X0 => X1 | X8, X1 => X3 | X8, X2 => X5 | X8, X3 => X7 | X8, X4 => X9 | X8, X5 => XB | X8, X6 => XD | X8, X7 => XF | X8, X8 => X1 | X8, X9 => X3 | X8, XA => X5 | X8, XB => X7 | X8, XC => X9 | X8, XD => XB | X8, XE => XD | X8, XF => XF
  | X9, X0 => X1 | X9, X1 => X3 | X9, X2 => X5 | X9, X3 => X7 | X9, X4 => X9 | X9, X5 => XB | X9, X6 => XD | X9, X7 => XF | X9, X8 => X1 | X9, X9 => X3 | X9, XA => X5 | X9, XB => X7 | X9, XC => X9 | X9, XD => XB | X9, XE => XD | X9, XF => XF
  | XA, X0 => X1 | XA, X1 => X3 | XA, X2 => X5 | XA, X3 => X7 | XA, X4 => X9 | XA, X5 => XB | XA, X6 => XD | XA, X7 => XF | XA, X8 => X1 | XA, X9 => X3 | XA, XA => X5 | XA, XB => X7 | XA, XC => X9 | XA, XD => XB | XA, XE => XD | XA, XF => XF
  | XB, X0 => X1 | XB, X1 => X3 | XB, X2 => X5 | XB, X3 => X7 | XB, X4 => X9 | XB, X5 => XB | XB, X6 => XD | XB, X7 => XF | XB, X8 => X1 | XB, X9 => X3 | XB, XA => X5 | XB, XB => X7 | XB, XC => X9 | XB, XD => XB | XB, XE => XD | XB, XF => XF
  | XC, X0 => X1 | XC, X1 => X3 | XC, X2 => X5 | XC, X3 => X7 | XC, X4 => X9 | XC, X5 => XB | XC, X6 => XD | XC, X7 => XF | XC, X8 => X1 | XC, X9 => X3 | XC, XA => X5 | XC, XB => X7 | XC, XC => X9 | XC, XD => XB | XC, XE => XD | XC, XF => XF
  | XD, X0 => X1 | XD, X1 => X3 | XD, X2 => X5 | XD, X3 => X7 | XD, X4 => X9 | XD, X5 => XB | XD, X6 => XD | XD, X7 => XF | XD, X8 => X1 | XD, X9 => X3 | XD, XA => X5 | XD, XB => X7 | XD, XC => X9 | XD, XD => XB | XD, XE => XD | XD, XF => XF
  | XE, X0 => X1 | XE, X1 => X3 | XE, X2 => X5 | XE, X3 => X7 | XE, X4 => X9 | XE, X5 => XB | XE, X6 => XD | XE, X7 => XF | XE, X8 => X1 | XE, X9 => X3 | XE, XA => X5 | XE, XB => X7 | XE, XC => X9 | XE, XD => XB | XE, XE => XD | XE, XF => XF
  | XF, X0 => X1 | XF, X1 => X3 | XF, X2 => X5 | XF, X3 => X7 | XF, X4 => X9 | XF, X5 => XB | XF, X6 => XD | XF, X7 => XF | XF, X8 => X1 | XF, X9 => X3 | XF, XA => X5 | XF, XB => X7 | XF, XC => X9 | XF, XD => XB | XF, XE => XD | XF, XF => XF
  end.

Definition N_of_hex (a : nibble) : N :=
  match a with
  | X0 => 0 | X1 => 1 | X2 => 2 | X3 => 3 | X4 => 4 | X5 => 5 | X6 => 6 | X7 => 7 | X8 => 8 | X9 => 9 | XA => 10 | XB => 11 | XC => 12 | XD => 13 | XE => 14 | XF => 15
  end.


Definition hex_of_N (n : N) : nibble :=
  match n with
  | 0 => X0 | 1 => X1 | 2 => X2 | 3 => X3 | 4 => X4 | 5 => X5 | 6 => X6 | 7 => X7
  | 8 => X8 | 9 => X9 | 10 => XA | 11 => XB | 12 => XC | 13 => XD | 14 => XE | _ => XF
  end.

(* a byte as two nibbles: (high, low) *)
Definition hb := (nibble * nibble)%type.

Definition N_of_hb (x : hb) : N :=
  match x with
  | (X0, X0) => 0 | (X0, X1) => 1 | (X0, X2) => 2 | (X0, X3) => 3 | (X0, X4) => 4 | (X0, X5) => 5 | (X0, X6) => 6 | (X0, X7) => 7 | (X0, X8) => 8 | (X0, X9) => 9 | (X0, XA) => 10 | (X0, XB) => 11 | (X0, XC) => 12 | (X0, XD) => 13 | (X0, XE) => 14 | (X0, XF) => 15
  | (X1, X0) => 16 | (X1, X1) => 17 | (X1, X2) => 18 | (X1, X3) => 19 | (X1, X4) => 20 | (X1, X5) => 21 | (X1, X6) => 22 | (X1, X7) => 23 | (X1, X8) => 24 | (X1, X9) => 25 | (X1, XA) => 26 | (X1, XB) => 27 | (X1, XC) => 28 | (X1, XD) => 29 | (X1, XE) => 30 | (X1, XF) => 31
  | (X2, X0) => 32 | (X2, X1) => 33 | (X2, X2) => 34 | (X2, X3) => 35 | (X2, X4) => 36 | (X2, X5) => 37 | (X2, X6) => 38 | (X2, X7) => 39 | (X2, X8) => 40 | (X2, X9) => 41 | (X2, XA) => 42 | (X2, XB) => 43 | (X2, XC) => 44 | (X2, XD) => 45 | (X2, XE) => 46 | (X2, XF) => 47
  | (X3, X0) => 48 | (X3, X1) => 49 | (X3, X2) => 50 | (X3, X3) => 51 | (X3, X4) => 52 | (X3, X5) => 53 | (X3, X6) => 54 | (X3, X7) => 55 | (X3, X8) => 56 | (X3, X9) => 57 | (X3, XA) => 58 | (X3, XB) => 59 | (X3, XC) => 60 | (X3, XD) => 61 | (X3, XE) => 62 | (X3, XF) => 63
  | (X4, X0) => 64 | (X4, X1) => 65 | (X4, X2) => 66 | (X4, X3) => 67 | (X4, X4) => 68 | (X4, X5) => 69 | (X4, X6) => 70 | (X4, X7) => 71 | (X4, X8) => 72 | (X4, X9) => 73 | (X4, XA) => 74 | (X4, XB) => 75 | (X4, XC) => 76 | (X4, XD) => 77 | (X4, XE) => 78 | (X4, XF) => 79
  | (X5, X0) => 80 | (X5, X1) => 81 | (X5, X2) => 82 | (X5, X3) => 83 | (X5, X4) => 84 | (X5, X5) => 85 | (X5, X6) => 86 | (X5, X7) => 87 | (X5, X8) => 88 | (X5, X9) => 89 | (X5, XA) => 90 | (X5, XB) => 91 | (X5, XC) => 92 | (X5, XD) => 93 | (X5, XE) => 94 | (X5, XF) => 95
  | (X6, X0) => 96 | (X6, X1) => 97 | (X6, X2) => 98 | (X6, X3) => 99 | (X6, X4) => 100 | (X6, X5) => 101 | (X6, X6) => 102 | (X6, X7) => 103 | (X6, X8) => 104 | (X6, X9) => 105 | (X6, XA) => 106 | (X6, XB) => 107 | (X6, XC) => 108 | (X6, XD) => 109 | (X6, XE) => 110 | (X6, XF) => 111
  | (X7, X0) => 112 | (X7, X1) => 113 | (X7, X2) => 114 | (X7, X3) => 115 | (X7, X4) => 116 | (X7, X5) => 117 | (X7, X6) => 118 | (X7, X7) => 119 | (X7, X8) => 120 | (X7, X9) => 121 | (X7, XA) => 122 | (X7, XB) => 123 | (X7, XC) => 124 | (X7, XD) => 125 | (X7, XE) => 126 | (X7, XF) => 127
  | (X8, X0) => 128 | (X8, X1) => 129 | (X8, X2) => 130 | (X8, X3) => 131 | (X8, X4) => 132 | (X8, X5) => 133 | (X8, X6) => 134 | (X8, X7) => 135 | (X8, X8) => 136 | (X8, X9) => 137 | (X8, XA) => 138 | (X8, XB) => 139 | (X8, XC) => 140 | (X8, XD) => 141 | (X8, XE) => 142 | (X8, XF) => 143
  | (X9, X0) => 144 | (X9, X1) => 145 | (X9, X2) => 146 | (X9, X3) => 147 | (X9, X4) => 148 | (X9, X5) => 149 | (X9, X6) => 150 | (X9, X7) => 151 | (X9, X8) => 152 | (X9, X9) => 153 | (X9, XA) => 154 | (X9, XB) => 155 | (X9, XC) => 156 | (X9, XD) => 157 | (X9, XE) => 158 | (X9, XF) => 159
  | (XA, X0) => 160 | (XA, X1) => 161 | (XA, X2) => 162 | (XA, X3) => 163 | (XA, X4) => 164 | (XA, X5) => 165 | (XA, X6) => 166 | (XA, X7) => 167 | (XA, X8) => 168 | (XA, X9) => 169 | (XA, XA) => 170 | (XA, XB) => 171 | (XA, XC) => 172 | (XA, XD) => 173 | (XA, XE) => 174 | (XA, XF) => 175
  | (XB, X0) => 176 | (XB, X1) => 177 | (XB, X2) => 178 | (XB, X3) => 179 | (XB, X4) => 180 | (XB, X5) => 181 | (XB, X6) => 182 | (XB, X7) => 183 | (XB, X8) => 184 | (XB, X9) => 185 | (XB, XA) => 186 | (XB, XB) => 187 | (XB, XC) => 188 | (XB, XD) => 189 | (XB, XE) => 190 | (XB, XF) => 191
  | (XC, X0) => 192 | (XC, X1) => 193 | (XC, X2) => 194 | (XC, X3) => 195 | (XC, X4) => 196 | (XC, X5) => 197 | (XC, X6) => 198 | (XC, X7) => 199 | (XC, X8) => 200 | (XC, X9) => 201 | (XC, XA) => 202 | (XC, XB) => 203 | (XC, XC) => 204 | (XC, XD) => 205 | (XC, XE) => 206 | (XC, XF) => 207
  | (XD, X0) => 208 | (XD, X1) => 209 | (XD, X2) => 210 | (XD, X3) => 211 | (XD, X4) => 212 | (XD, X5) => 213 | (XD, X6) => 214 | (XD, X7) => 215 | (XD, X8) => 216 | (XD, X9) => 217 | (XD, XA) => 218 | (XD, XB) => 219 | (XD, XC) => 220 | (XD, XD) => 221 | (XD, XE) => 222 | (XD, XF) => 223
  | (XE, X0) => 224 | (XE, X1) => 225 | (XE, X2) => 226 | (XE, X3) => 227 | (XE, X4) => 228 | (XE, X5) => 229 | (XE, X6) => 230 | (XE, X7) => 231 | (XE, X8) => 232 | (XE, X9) => 233 | (XE, XA) => 234 | (XE, XB) => 235 | (XE, XC) => 236 | (XE, XD) => 237 | (XE, XE) => 238 | (XE, XF) => 239
  | (XF, X0) => 240 | (XF, X1) => 241 | (XF, X2) => 242 | (XF, X3) => 243 | (XF, X4) => 244 | (XF, X5) => 245 | (XF, X6) => 246 | (XF, X7) => 247 | (XF, X8) => 248 | (XF, X9) => 249 | (XF, XA) => 250 | (XF, XB) => 251 | (XF, XC) => 252 | (XF, XD) => 253 | (XF, XE) => 254 | (XF, XF) => 255
  end.


(* the byte of an N below 256 (higher bits ignored), by walking the binary representation *)
Definition bit_of_pos_tail (p : option positive) : bool * option positive :=
  match p with
  | None => (false, None)
  | Some xH => (true, None)
  | Some (xO q) => (false, Some q)
  | Some (xI q) => (true, Some q)
  end.
Definition hex_of_bits (b0 b1 b2 b3 : bool) : nibble :=
  match b3, b2, b1, b0 with
  | false, false, false, false => X0 | false, false, false, true => X1
  | false, false, true, false => X2 | false, false, true, true => X3
  | false, true, false, false => X4 | false, true, false, true => X5
  | false, true, true, false => X6 | false, true, true, true => X7
  | true, false, false, false => X8 | true, false, false, true => X9
  | true, false, true, false => XA | true, false, true, true => XB
  | true, true, false, false => XC | true, true, false, true => XD
  | true, true, true, false => XE | true, true, true, true => XF
  end.
Definition hb_of_N (n : N) : hb :=
  let p := match n with N0 => None | Npos q => Some q end in
  let '(b0, p) := bit_of_pos_tail p in
  let '(b1, p) := bit_of_pos_tail p in
  let '(b2, p) := bit_of_pos_tail p in
  let '(b3, p) := bit_of_pos_tail p in
  let '(b4, p) := bit_of_pos_tail p in
  let '(b5, p) := bit_of_pos_tail p in
  let '(b6, p) := bit_of_pos_tail p in
  let '(b7, _) := bit_of_pos_tail p in
  (hex_of_bits b4 b5 b6 b7, hex_of_bits b0 b1 b2 b3).

Definition hb_xor (x y : hb) : hb := (hex_xor (fst x) (fst y), hex_xor (snd x) (snd y)).
