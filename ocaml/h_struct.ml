(* handlers: Struct/ models (page ranges, ...) *)
open Qvmodel
open Runner

let () =
  register "numrange" (fun args -> match args with
    | [h; mx] ->
      (match parse_numrange (unhexbytes h) (z_of_int (int_of_string mx)) with
       | NrOk l -> "ok " ^ zlist l
       | NrErr (k, p) -> Printf.sprintf "err %d %d" (int_of_n k) (int_of_n p))
    | _ -> "?args");
  register "numrange_spec" (fun args -> match args with
    | [h; mx] ->
      (match range_spec (unhexbytes h) (z_of_int (int_of_string mx)) with
       | Some l -> "ok " ^ zlist l
       | None -> "err")
    | _ -> "?args")

let nats_of (s : string) : nat list = List.map nat_of_int (ints_of s)
let zs_of (s : string) : z list = List.map z_of_int (ints_of s)
let sels_of (s : string) : z list list =
  if s = "-" then [] else List.map (fun x -> zs_of (if x = "" then "-" else x)) (String.split_on_char ';' s)

let () =
  register "collate" (fun args -> match args with
    | [sels; cs] -> "ok " ^ zlist (collate (sels_of sels) (nats_of cs))
    | _ -> "?args");
  register "collate_spec" (fun args -> match args with
    | [sels; cs] -> "ok " ^ zlist (collate_spec (sels_of sels) (nats_of cs))
    | _ -> "?args");
  register "split_chunks" (fun args -> match args with
    | [n; np] -> String.concat ";" (List.map (fun (a, b) -> Printf.sprintf "%d-%d" (int_of_nat a) (int_of_nat b))
                   (split_chunks (nat_of_int (int_of_string n)) (nat_of_int (int_of_string np))))
    | _ -> "?args");
  register "rotate" (fun args -> match args with
    | [old; a; rel] -> (match rotate_angle (z_of_int (int_of_string old)) (z_of_int (int_of_string a)) (rel = "1") with
                        | Some r -> string_of_int (int_of_z r) | None -> "err")
    | _ -> "?args")
