(* C06 proofs, part B: the data path. What the model of qpdf's reader (Pl_AES_PDF in decrypt mode / RC4 under
   the per-object key of QPDF::compute_data_key) makes of a string or stream encrypted by the reference
   encryptor of IsoEnc.v (Algorithm 1 / 1.A): exactly the plaintext, for every key, object, IV and data.
   This is the direction opposite to C05 (there: ISO reader o qpdf writer); the block-level facts about CBC
   over an abstract invertible block cipher come from CbcProofs.v, AES invertibility from AesInv.v. *)
From QV Require Import Base.Bytes Crypto.Nib Filters.Filters Filters.C15ProofsB.
From QV Require Import Crypto.MD5 Crypto.SHA2Fast Crypto.AES Crypto.AesPdf Crypto.KeyDeriv Crypto.IsoRef Crypto.Perms.
From QV Require Import Crypto.C05Proofs Crypto.CbcProofs Crypto.AesInv Crypto.C05ProofsB Crypto.C05ProofsC.
From QV Require Import Crypto.IsoEnc Crypto.DecReader.
From Coq Require Import Arith.
Local Open Scope N_scope.

Opaque aes_cipher aes_inv_cipher aes_key_schedule.

(* ------------------------------------------------------------------ CBC decryption as Pl_AES_PDF runs it *)
Lemma c06_dec_step : forall rks, cipher_ok rks -> forall b prev,
  length b = 16%nat -> byte_list b -> length prev = 16%nat -> byte_list prev ->
  xor_bytes (aes_inv_cipher rks (aes_cipher rks (xor_bytes b prev))) prev = b.
Proof.
  intros rks [Hlen [Hbytes Hinv]] b prev Hb Hbb Hp Hpb.
  rewrite Hinv.
  - apply xor_bytes_invol. congruence.
  - rewrite xor_bytes_length; congruence.
  - apply xor_bytes_bytes; assumption.
Qed.

(* padding stripping disabled: the blocks come back *)
Lemma c06_cbc_dec_nostrip : forall rks, cipher_ok rks -> forall bs prev,
  blocks16 bs -> Forall byte_list bs -> length prev = 16%nat -> byte_list prev ->
  cbc_decrypt_blocks rks true false prev (enc_list rks prev bs) = concat bs.
Proof.
  intros rks Hok. pose proof Hok as [Hlen [Hbytes Hinv]].
  induction bs as [|b t IH]; intros prev H HB Hp Hpb; [reflexivity|].
  inversion H; subst. inversion HB; subst.
  cbn [enc_list cbc_decrypt_blocks concat].
  rewrite (c06_dec_step rks Hok b prev) by assumption.
  destruct t as [|b2 t2].
  - cbn [enc_list concat]. rewrite app_nil_r. reflexivity.
  - assert (Hc : length (aes_cipher rks (xor_bytes b prev)) = 16%nat).
    { apply Hlen. rewrite xor_bytes_length; congruence. }
    specialize (IH (aes_cipher rks (xor_bytes b prev)) H3 H5 Hc (Hbytes _)).
    remember (b2 :: t2) as t eqn:Et.
    destruct (enc_list rks (aes_cipher rks (xor_bytes b prev)) t) as [|e1 et] eqn:Ee.
    + subst t. cbn [enc_list] in Ee. discriminate.
    + f_equal. exact IH.
Qed.

(* padding stripping enabled: only the last block goes through strip_padding *)
Lemma c06_cbc_dec_strip : forall rks, cipher_ok rks -> forall bs lb prev,
  blocks16 bs -> Forall byte_list bs -> length lb = 16%nat -> byte_list lb ->
  length prev = 16%nat -> byte_list prev ->
  cbc_decrypt_blocks rks true true prev (enc_list rks prev (bs ++ [lb])) = concat bs ++ strip_padding lb.
Proof.
  intros rks Hok. pose proof Hok as [Hlen [Hbytes Hinv]].
  induction bs as [|b t IH]; intros lb prev H HB Hl Hlb Hp Hpb.
  - cbn [app enc_list cbc_decrypt_blocks concat].
    rewrite (c06_dec_step rks Hok lb prev) by assumption. reflexivity.
  - inversion H; subst. inversion HB; subst.
    cbn [app enc_list cbc_decrypt_blocks concat].
    rewrite (c06_dec_step rks Hok b prev) by assumption.
    assert (Hc : length (aes_cipher rks (xor_bytes b prev)) = 16%nat).
    { apply Hlen. rewrite xor_bytes_length; congruence. }
    specialize (IH lb (aes_cipher rks (xor_bytes b prev)) H3 H5 Hl Hlb Hc (Hbytes _)).
    destruct (enc_list rks (aes_cipher rks (xor_bytes b prev)) (t ++ [lb])) as [|e1 et] eqn:Ee.
    + destruct t; cbn [app enc_list] in Ee; discriminate.
    + rewrite IH, app_assoc. reflexivity.
Qed.

(* ------------------------------------------------------------------ the padded last block *)
Lemma c06_strip_last : forall tl : list N, (length tl < 16)%nat ->
  strip_padding (tl ++ repeat (N.of_nat (16 - length tl)) (16 - length tl)) = tl.
Proof.
  intros tl Hl. unfold strip_padding.
  set (p := (16 - length tl)%nat).
  assert (Hp : (1 <= p <= 16)%nat) by (subst p; lia).
  assert (Hn : nth 15 (tl ++ repeat (N.of_nat p) p) 0 = N.of_nat p).
  { rewrite app_nth2 by lia. apply nth_repeat_lt || idtac.
    assert (Hlt : (15 - length tl < p)%nat) by (subst p; lia).
    clear - Hlt. revert Hlt. generalize (15 - length tl)%nat as k. generalize (N.of_nat p) as x.
    induction p as [|p IH]; intros x k Hk; [lia|]. destruct k; [reflexivity|]. cbn [repeat nth]. apply IH. lia. }
  rewrite Hn.
  assert (H16 : (N.of_nat p <=? 16) = true) by (apply N.leb_le; lia).
  rewrite H16, Nat2N.id.
  replace (16 - p)%nat with (length tl) by (subst p; lia).
  rewrite skipn_app, firstn_app, Nat.sub_diag, skipn_all, firstn_all.
  cbn [skipn firstn app]. rewrite app_nil_r, forallb_eqb_repeat. reflexivity.
Qed.

Lemma c06_pad16_blocks : forall data, byte_list data ->
  exists bs lb, blocks16 bs /\ Forall byte_list bs /\ length lb = 16%nat /\ byte_list lb /\
    c06_pad16 data = concat (bs ++ [lb]) /\ concat bs ++ strip_padding lb = data.
Proof.
  intros data Hd.
  set (q := (length data / 16)%nat). set (r := (length data mod 16)%nat).
  assert (Hqr : length data = (16 * q + r)%nat) by (subst q r; apply Nat.div_mod; discriminate).
  assert (Hr : (r < 16)%nat) by (subst r; apply Nat.mod_upper_bound; discriminate).
  destruct (split16 q (firstn (16 * q) data)) as [bs [Hc [Hb Hl]]].
  { rewrite firstn_length. lia. }
  set (tl := skipn (16 * q) data).
  assert (Htl : length tl = r) by (subst tl; rewrite skipn_length; lia).
  assert (Hdata : data = concat bs ++ tl) by (rewrite Hc; subst tl; symmetry; apply firstn_skipn).
  exists bs, (tl ++ repeat (N.of_nat (16 - length tl)) (16 - length tl)).
  assert (Hdb : byte_list (concat bs) /\ byte_list tl) by (apply byte_list_app; rewrite <- Hdata; exact Hd).
  destruct Hdb as [Hcb Htb].
  repeat split.
  - exact Hb.
  - apply byte_list_concat. exact Hcb.
  - rewrite app_length, repeat_length. lia.
  - apply byte_list_app. split; [exact Htb|].
    unfold byte_list. apply Forall_forall. intros x Hx. apply repeat_spec in Hx. subst x. lia.
  - unfold c06_pad16. fold r. rewrite Htl. rewrite concat_app. cbn [concat]. rewrite app_nil_r.
    rewrite Hdata at 1. rewrite <- app_assoc. reflexivity.
  - rewrite c06_strip_last by lia. symmetry. exact Hdata.
Qed.

Lemma c06_dec_blocks_full : forall bs, blocks16 bs -> dec_blocks bs = bs.
Proof.
  induction bs as [|b t IH]; intros H; [reflexivity|].
  inversion H; subst. cbn [dec_blocks]. destruct t as [|b2 t2].
  - unfold zero_fill16. rewrite H2. cbn [Nat.sub repeat]. rewrite app_nil_r. reflexivity.
  - f_equal. apply IH. exact H3.
Qed.

(* Pl_AES_PDF(decrypt, CBC, IV taken from the input, padding stripped) applied to IV ++ CBC(padded data) *)
Lemma c06_pl_decrypt_iso_encrypt : forall key iv data,
  cipher_ok (aes_key_schedule key) -> key_len_ok key = true ->
  length iv = 16%nat -> byte_list iv -> byte_list data ->
  pl_aes_decrypt key true (IvWritten []) true (c06_aes_cbc key iv data) = Some data.
Proof.
  intros key iv data Hok Hk Hiv Hivb Hd.
  destruct (c06_pad16_blocks data Hd) as [bs [lb [Hb [HB [Hl [Hlb [Hpad Hres]]]]]]].
  unfold c06_aes_cbc. rewrite Hpad.
  assert (Hall : blocks16 (bs ++ [lb])).
  { unfold blocks16. apply Forall_app. split; [exact Hb|]. constructor; [exact Hl|constructor]. }
  rewrite iso_blocks_concat by exact Hall.
  rewrite iso_cbc_enc_concat.
  set (EL := enc_list (aes_key_schedule key) iv (bs ++ [lb])).
  assert (HEL : blocks16 EL) by (apply enc_list_blocks16; assumption).
  unfold pl_aes_decrypt. rewrite key_len_ok_negb by exact Hk. cbv zeta.
  assert (Hcat : iv ++ concat EL = concat (iv :: EL)) by reflexivity.
  assert (Hne : exists x t, iv ++ concat EL = x :: t).
  { destruct iv as [|x t]; [discriminate|]. exists x, (t ++ concat EL). reflexivity. }
  destruct Hne as [x [t Hxt]]. rewrite Hxt. rewrite <- Hxt. clear x t Hxt.
  assert (Hch : chunks16 (S (length (iv ++ concat EL) / 16)) (iv ++ concat EL) = iv :: EL).
  { rewrite Hcat. apply chunks16_concat.
    - constructor; assumption.
    - rewrite concat_length16 by (constructor; assumption).
      rewrite Nat.mul_comm, Nat.div_mul by discriminate. lia. }
  rewrite Hch. rewrite c06_dec_blocks_full by (constructor; assumption).
  unfold EL. rewrite c06_cbc_dec_strip by assumption. rewrite Hres. reflexivity.
Qed.

(* ------------------------------------------------------------------ one leaf under a method *)
(* the file key fits the method: RC4 any key; AESV2 belongs to V 4 (16-byte file key, per-object key by
   Algorithm 1); AESV3 to V 5 (32-byte file key used directly, Algorithm 1.A); R and V on the same side of 5 *)
Definition c06_method_ok (V R : N) (key : list N) (m : c06_cfm) : Prop :=
  rv_consistent R V /\
  match m with
  | C6None | C6V2 => True
  | C6AESV2 => V <? 5 = true /\ length key = 16%nat
  | C6AESV3 => 5 <=? V = true /\ length key = 32%nat
  end.

Definition c06_use_aes (m : c06_cfm) : bool :=
  match m with C6AESV2 | C6AESV3 => true | _ => false end.

Lemma c06_apply_iso_encrypt : forall st R m num gen iv data,
  c06_method_ok (c6t_V st) R (c6t_key st) m -> m <> C6None ->
  length iv = 16%nat -> byte_list iv -> byte_list data ->
  c06_apply st (c06_use_aes m) num gen (c06_iso_encrypt R (c6t_key st) m num gen iv data) = Some data.
Proof.
  intros st R m num gen iv data [Hrv Hm] Hne Hiv Hivb Hd.
  unfold c06_apply, kd_decrypt_data, c06_iso_encrypt.
  destruct m; try contradiction; cbn [c06_use_aes].
  - (* RC4 *)
    rewrite (object_key_agrees (c06_dict_R R) (c6t_key st) false num gen (c6t_V st)) by (try exact Hrv; left; reflexivity).
    rewrite rc4_involutive_lemma. reflexivity.
  - (* AESV2 *)
    destruct Hm as [HV Hk].
    rewrite (object_key_agrees (c06_dict_R R) (c6t_key st) true num gen (c6t_V st)) by (try exact Hrv; right; lia).
    assert (HL : let k := kd_compute_data_key (c6t_key st) num gen true (c6t_V st) in (length k = 16 \/ length k = 32)%nat).
    { apply data_key_len. left. split; assumption. }
    cbv zeta in HL.
    apply c06_pl_decrypt_iso_encrypt; try assumption.
    + apply cipher_ok_schedule. exact HL.
    + apply key_len_ok_iff. exact HL.
  - (* AESV3 *)
    destruct Hm as [HV Hk].
    unfold kd_compute_data_key. rewrite HV.
    apply c06_pl_decrypt_iso_encrypt; try assumption.
    + apply cipher_ok_schedule. right. exact Hk.
    + apply key_len_ok_iff. right. exact Hk.
Qed.

(* ------------------------------------------------------------------ Algorithm 1: the bytes that go into the per-object key *)
(* data_key_bytes: for every file key, object number below 2^24, generation below 2^16 and V < 5, the key the reader model
   derives (QPDF::compute_data_key) is MD5 over exactly  key ++ the object number as 3 little-endian bytes ++ the
   generation as 2 little-endian bytes (++ "sAlT" for AES), cut to min(n + 5, 16) bytes; the five bytes determine the
   object number and the generation (no two objects share them); and this is the key of Algorithm 1 of the standard
   (IsoRef.iso_object_key) for RC4 with any key length and for AES with keys of at least 11 bytes. For V >= 5 the key is
   the file key itself (Algorithm 1.A). *)
Lemma data_key_bytes_lemma : forall (key : list N) (objid gen : N) (aes : bool) (V : N),
  objid < 16777216 -> gen < 65536 ->
  let b0 := objid mod 256 in let b1 := (objid / 256) mod 256 in let b2 := objid / 65536 in
  let g0 := gen mod 256 in let g1 := gen / 256 in
  let input := key ++ [b0; b1; b2; g0; g1] ++ (if aes then [115; 65; 108; 84] else []) in
  (b0 < 256 /\ b1 < 256 /\ b2 < 256 /\ g0 < 256 /\ g1 < 256) /\
  objid = b0 + 256 * b1 + 65536 * b2 /\ gen = g0 + 256 * g1 /\
  (V <? 5 = true ->
     kd_compute_data_key key objid gen aes V = firstn (Nat.min (length input) 16) (md5 input) /\
     forall R, rv_consistent R V -> (aes = false \/ (11 <= length key)%nat) ->
       iso_object_key (c06_dict_R R) key aes objid gen = firstn (Nat.min (length input) 16) (md5 input)) /\
  (5 <=? V = true -> kd_compute_data_key key objid gen aes V = key).
Proof.
  intros key objid gen aes V Ho Hg. cbv zeta.
  assert (Hb2 : objid / 65536 < 256) by (apply N.div_lt_upper_bound; lia).
  assert (Hg1 : gen / 256 < 256) by (apply N.div_lt_upper_bound; lia).
  assert (E2 : (objid / 65536) mod 256 = objid / 65536) by (apply N.mod_small; exact Hb2).
  assert (E3 : (gen / 256) mod 256 = gen / 256) by (apply N.mod_small; exact Hg1).
  split; [repeat split; try (apply N.mod_lt; discriminate); assumption|].
  split.
  { rewrite (N.div_mod objid 65536) at 1 by discriminate.
    assert (H : objid mod 65536 = objid mod 256 + 256 * ((objid / 256) mod 256)).
    { change 65536 with (256 * 256). rewrite N.mod_mul_r by discriminate. reflexivity. }
    rewrite H. lia. }
  split; [rewrite (N.div_mod gen 256) at 1 by discriminate; lia|].
  assert (Hkd : V <? 5 = true ->
    kd_compute_data_key key objid gen aes V =
    firstn (Nat.min (length (key ++ [objid mod 256; (objid / 256) mod 256; objid / 65536; gen mod 256; gen / 256] ++
                              (if aes then [115; 65; 108; 84] else []))) 16)
           (md5 (key ++ [objid mod 256; (objid / 256) mod 256; objid / 65536; gen mod 256; gen / 256] ++
                 (if aes then [115; 65; 108; 84] else [])))).
  { intros HV. unfold kd_compute_data_key.
    replace (5 <=? V) with false by (symmetry; apply N.leb_gt; apply N.ltb_lt; exact HV).
    rewrite obj_bytes_agree, E2, E3.
    set (ext := key ++ _ ++ _).
    rewrite (firstn_min_length (length ext)), length_md5. rewrite (firstn_min_length (Nat.min _ _)), length_md5.
    reflexivity. }
  split.
  - intros HV. split; [exact (Hkd HV)|].
    intros R Hrv Hk. rewrite (object_key_agrees (c06_dict_R R) key aes objid gen V Hrv Hk). exact (Hkd HV).
  - intros HV. unfold kd_compute_data_key. rewrite HV. reflexivity.
Qed.

Print Assumptions c06_apply_iso_encrypt.
Print Assumptions data_key_bytes_lemma.
