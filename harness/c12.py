# C12 - page selection, merging, splitting, rotation.
# Proof: Props/Properties_C12.v (numrange model = declarative range denotation; collation loop =
# round-robin spec and a permutation; split chunks concatenate to the input; rotation mod 360).
# Tie: QUtil::parse_numrange in-process vs the extracted model AND the extracted specification;
# qpdf CLI --pages/--collate/--split-pages/--rotate on marker documents vs the extracted specs.
# Extension (c12_attr.py, drv_pattr.cc): page trees built in-process, push-down / flattening / rotatePage histories vs the
# extracted model Struct/PageAttr.v and the extracted ISO 7.7.3.4 specification Struct/PageAttrSpec.v; the page-list model
# Struct/PageSel.v vs every --pages job.
import itertools, json, os, re
import common, pdfgen
from common import hexs

ASSUMPTIONS = [
    "std::regex matches (x)?(z|r?\\d+)(?:-(z|r?\\d+))? as ECMAScript defines it (the model implements that one expression by hand)",
    "AcroForm field re-parenting is not modelled (DESIGN C12: oracle-only); the resource-pruning model takes ResourceFinder's result as given (the tokeniser is C16's), forms are not shared or cyclic; the label model takes the number tree as its sorted entry list (C18)",
    "output page lists are read back through qpdf --json-output (qpdf's own reader); strictness of the written file is C02's subject",
    "page-tree model (Struct/PageAttr.v): tree objects have distinct ids, correct /Type and /Parent, indirect dictionary kids; every indirect reference is below the document's next object id; Pages::cache's other repairs are C13's model; no signed overflow in rotatePage (|old + angle| < 2^31)",
]

BODY_ALPHA = "1230-,xzr"


def gen_ranges(chk):
    rng = chk.rng
    cases = []
    maxlen = 4 if chk.tier == "quick" else 5
    suffixes = ["", ":odd", ":even"]
    for L in range(0, maxlen + 1):
        for tup in itertools.product(BODY_ALPHA, repeat=L):
            body = "".join(tup)
            for mx in (0, 3, 12):
                if mx == 0 and L == maxlen and chk.tier == "quick":
                    continue
                cases.append((body + rng.choice(suffixes), mx))
    # malformed suffixes and stray characters
    for s in [":", ":od", ":evenx", "1:odd:even", "1-2:", ":odd", ":even", "1,2:oddd", "1 ", " 1", "1-", "-1", "x", "1,x", "r", "rz", "zr",
              "1-2-3", "1--2", "1,,2", ",1", "1,", "z-z", "rr1", "r0", "r1", "0", "00012", "1,x1", "1,x1,x1", "2147483647", "2147483648",
              "r2147483647", "r2147483648", "99999999999999999999", "1-99999999999999999999", "x1", "1,2,x2,x1", "5-1,x2-3,x4", "1-5,x3-10"]:
        for mx in (0, 1, 5, 12):
            cases.append((s, mx))
    # grammar-derived longer ranges
    n_long = 4000 if chk.tier == "quick" else 150000

    def num(mx):
        k = rng.random()
        if k < 0.12:
            return "z"
        v = rng.randint(1, max(1, mx)) if rng.random() < 0.9 else rng.randint(0, mx + 3)
        s = ("0" * rng.randint(0, 2) if rng.random() < 0.1 else "") + str(v)
        return ("r" + s) if k < 0.3 else s
    for _ in range(n_long):
        mx = rng.choice([0, 1, 2, 5, 9, 10, 17, 40])
        groups = []
        for gi in range(rng.randint(1, 6)):
            g = num(mx)
            if rng.random() < 0.55:
                g += "-" + num(mx)
            if gi > 0 and rng.random() < 0.35:
                g = "x" + g
            elif gi == 0 and rng.random() < 0.03:
                g = "x" + g
            groups.append(g)
        s = ",".join(groups) + rng.choice(["", "", ":odd", ":even"])
        if rng.random() < 0.08 and s:
            i = rng.randrange(len(s))
            s = s[:i] + rng.choice("x,-:rz9 ") + s[i + (rng.random() < 0.5):]
        cases.append((s, mx))
    return cases


def part_numrange(chk, drv, runner):
    cases = gen_ranges(chk)
    lines = ["numrange %s %d" % (hexs(s), mx) for s, mx in cases]
    impl = common.run_lines(drv, lines, shards=8)
    model = common.run_lines(runner, lines, shards=8)
    spec = common.run_lines(runner, ["numrange_spec %s %d" % (hexs(s), mx) for s, mx in cases], shards=8)
    # the specification only says result-or-rejection; the model also predicts error kind/position
    impl_abs = [x if x.startswith("ok") else "err" for x in impl]
    bad = 0
    tie = []
    for i, c in enumerate(cases):
        if impl_abs[i] != spec[i]:
            chk.violation({"kind": "property-fails-on-implementation", "part": "numrange",
                           "case": {"range": c[0], "max": c[1]}, "implementation": impl[i], "specification": spec[i],
                           "model": model[i], "replay": "numrange %s %d" % (hexs(c[0]), c[1])})
            bad += 1
        elif impl[i] != model[i]:
            tie.append(i)
    if tie:
        i = tie[0]
        chk.violation({"kind": "correspondence-broken", "correspondence": "corr:C12:numrange", "differing_cases": len(tie),
                       "first_case": {"range": cases[i][0], "max": cases[i][1]}, "implementation": impl[i], "model": model[i],
                       "specification": spec[i]}, no_input=True)
    nontriv = set()
    for (s, mx), o in zip(cases, impl):
        if o.startswith("ok") and len(o) > 3 and ("," in s or "-" in s or ":" in s):
            nontriv.add((s, mx))
    kinds = {}
    for o in impl:
        k = o.split(" ")[0] + (o.split(" ")[1] if o.startswith("err") else "")
        kinds[k] = kinds.get(k, 0) + 1
    chk.count("numrange", len(cases), nontriv, samples=[{"range": cases[i][0], "max": cases[i][1], "impl": impl[i]} for i in (7, len(cases) // 2, len(cases) - 1)])
    chk.cov["parts"]["numrange"]["distribution"] = kinds
    chk.cov["parts"]["numrange"]["exhaustive_body_length"] = 4 if chk.tier == "quick" else 5


# ---------------------------------------------------------------- CLI part

def effective(objs, ref, key):
    seen = set()
    cur = objs.get((ref.n, ref.g))
    while isinstance(cur, dict):
        if key in cur:
            v = cur[key]
            if isinstance(v, pdfgen.Ref):
                v = objs.get((v.n, v.g))
            return v
        p = cur.get(b"Parent")
        if not isinstance(p, pdfgen.Ref) or (p.n, p.g) in seen:
            return None
        seen.add((p.n, p.g))
        cur = objs.get((p.n, p.g))
    return None


def walk_pages(objs, node_ref, out, depth=0):
    node = objs.get((node_ref.n, node_ref.g))
    if not isinstance(node, dict) or depth > 50:
        return
    t = node.get(b"Type")
    if t == pdfgen.Name(b"Pages"):
        for k in node.get(b"Kids", []):
            walk_pages(objs, k, out, depth + 1)
    else:
        out.append(node_ref)


def read_pages(path):
    """page list of a file as [(marker, mediabox, rotate)] through qpdf --json-output"""
    rc, out, err = common.run_qpdf([path, "--json-output", "--json-stream-data=inline", "--decode-level=generalized", "-"])
    if rc not in (0, 3):
        return None, "qpdf --json-output exit %d: %s" % (rc, err[-300:])
    objs, trailer, meta = pdfgen.load_qjson(out.decode("utf-8"))
    root = objs[(trailer[b"Root"].n, trailer[b"Root"].g)]
    pages = []
    walk_pages(objs, root[b"Pages"], pages)
    res = []
    for p in pages:
        pg = objs[(p.n, p.g)]
        c = pg.get(b"Contents")
        data = b""
        for cr in (c if isinstance(c, list) else [c]):
            if isinstance(cr, pdfgen.Ref):
                s = objs.get((cr.n, cr.g))
                if isinstance(s, pdfgen.Stream) and s.data:
                    data += s.data
        m = re.search(rb"\(([A-Z]\d+)\) Tj", data)
        rot = effective(objs, p, b"Rotate")
        res.append((m.group(1).decode() if m else "?", effective(objs, p, b"MediaBox"), rot if rot is not None else 0))
    cnt = objs[(root[b"Pages"].n, root[b"Pages"].g)].get(b"Count")
    return (res, cnt, (root, objs)), None


def src_pages(doc):
    objs = {(n, 0): o for n, o in doc.objects.items()}
    pages = []
    walk_pages(objs, doc.objects[1][b"Pages"], pages)
    res = []
    for p in pages:
        pg = objs[(p.n, 0)]
        data = objs[(pg[b"Contents"].n, 0)].data
        m = re.search(rb"\(([A-Z]\d+)\) Tj", data)
        rot = effective(objs, p, b"Rotate")
        res.append((m.group(1).decode(), effective(objs, p, b"MediaBox"), rot if rot is not None else 0))
    return res


def gen_range_valid(rng, n):
    def num():
        k = rng.random()
        if k < 0.15:
            return "z"
        v = rng.randint(1, n)
        return ("r%d" % v) if k < 0.35 else str(v)
    groups = []
    for gi in range(rng.randint(1, 3)):
        g = num()
        if rng.random() < 0.5:
            g += "-" + num()
        if gi > 0 and rng.random() < 0.3:
            g = "x" + g
        groups.append(g)
    return ",".join(groups) + rng.choice(["", "", "", ":odd", ":even"])


def part_cli(chk, runner):
    rng = chk.rng
    wd = common.workdir("C12")
    nfiles = 6
    files = []
    for i in range(nfiles):
        n = [1, 2, 4, 5, 7, 9][i]
        marker = "ABCDEF"[i]
        doc = pdfgen.page_doc(n, marker=marker, kids_levels=(2 if i % 2 == 1 or n > 6 else 1),
                              # (file F, 9 pages in groups of 3: pages 4 and 6 carry an explicit /Rotate 0 that overrides the /Rotate 90
                              #  inherited from their /Pages node; a relative rotation must start from 0, not from the ancestor's angle)
                              rotate={2: 90, 5: 270} if i % 3 == 0 else ({3: 180, 4: 45} if i % 3 == 1 else ({4: 0, 6: 0, 8: 0} if n > 6 else None)),
                              mediabox={1: [0, 0, 200, 200 + i]})
        data, _ = pdfgen.write_classic(doc)
        path = os.path.join(wd, "in%s.pdf" % marker)
        open(path, "wb").write(data)
        files.append((path, src_pages(doc)))
    njobs = 120 if chk.tier == "quick" else 2500
    jobs = []
    for j in range(njobs):
        kind = rng.choice(["pages", "pages", "collate", "collate", "split", "rotate"])
        if kind in ("pages", "collate"):
            k = rng.randint(1, 3) if kind == "pages" else rng.randint(2, 3)
            specs = []
            for _ in range(k):
                fi = rng.randrange(nfiles)
                n = len(files[fi][1])
                specs.append((fi, gen_range_valid(rng, n) if rng.random() < 0.85 else ""))
            cs = None
            if kind == "collate":
                r = rng.random()
                cs = [] if r < 0.3 else ([rng.randint(1, 3)] if r < 0.6 else [rng.randint(1, 3) for _ in specs])
            jobs.append(("pages", specs, cs))
        elif kind == "split":
            fi = rng.randrange(nfiles)
            jobs.append(("split", fi, rng.randint(1, 4)))
        else:
            fi = rng.randrange(nfiles)
            n = len(files[fi][1])
            rots = [(rng.choice(["+", "-", ""]), rng.choice([0, 90, 180, 270]), gen_range_valid(rng, n)) for _ in range(rng.randint(1, 2))]
            jobs.append(("rotate", fi, rots))

    # fixed jobs aimed at the case split of rotatePage: relative rotation of pages with own / inherited / explicitly-zero /Rotate
    for fi in range(nfiles):
        n = len(files[fi][1])
        jobs.append(("rotate", fi, [("+", 90, "1-z")]))
        jobs.append(("rotate", fi, [("-", 90, "1-z"), ("+", 180, "r1")]))
        jobs.append(("rotate", fi, [("", 0, "1"), ("+", 90, "1")]))        # absolute 0 first, then relative: starts from the explicit 0
    # expected values from the extracted specifications
    qlines = []
    for job in jobs:
        if job[0] == "pages":
            for fi, r in job[1]:
                qlines.append("numrange_spec %s %d" % (hexs(r if r else "1-z"), len(files[fi][1])))
        elif job[0] == "rotate":
            for sign, ang, r in job[2]:
                qlines.append("numrange_spec %s %d" % (hexs(r), len(files[job[1]][1])))
        else:
            qlines.append("split_chunks %d %d" % (job[2], len(files[job[1]][1])))
    qres = iter(common.run_lines(runner, qlines))
    expected = []
    clines = []
    for job in jobs:
        if job[0] == "pages":
            sels = []
            for fi, r in job[1]:
                o = next(qres)
                sels.append([int(x) for x in o[3:].split(",")] if o.startswith("ok ") and len(o) > 3 else [])
            expected.append(sels)
            if job[2] is not None and len(sels) > 1:
                cs = job[2] if job[2] else [1]
                if len(cs) == 1:
                    cs = cs * len(sels)
                # encode (file index, page) as file*1000+page for the collation spec
                enc = ";".join(",".join(str(1000 * si + p) for p in s) for si, s in enumerate(sels))
                clines.append("collate_spec %s %s" % (enc if enc else "-", ",".join(map(str, cs))))
        elif job[0] == "rotate":
            expected.append([[int(x) for x in o[3:].split(",")] if o.startswith("ok ") and len(o) > 3 else [] for o in [next(qres) for _ in job[2]]])
        else:
            expected.append([tuple(map(int, c.split("-"))) for c in next(qres).split(";") if c])
    cres = iter(common.run_lines(runner, clines))
    # page-list level of handlePageSpecs (extracted Struct/PageSel.v: ps_handle): inputs are identified by file name, 0 = primary
    plines, pidx = [], []
    for idx, (job, exp) in enumerate(zip(jobs, expected)):
        if job[0] != "pages":
            continue
        fids = {}
        for fi, r in job[1]:
            fids.setdefault(fi, len(fids))
        sel_s = ";".join("%d:%s" % (fids[fi], ",".join(str(p - 1) for p in s)) for (fi, r), s in zip(job[1], exp))
        cs = "-" if job[2] is None else ",".join(map(str, job[2] if job[2] else [1]))
        plines.append("psel %d %s %s" % (len(files[job[1][0][0]][1]), sel_s, cs))
        pidx.append((idx, {v: k for k, v in fids.items()}))
    psel = dict(zip([i for i, _ in pidx], zip(common.run_lines(runner, plines), [m for _, m in pidx])))

    def run_job(idx):
        job = jobs[idx]
        out = os.path.join(wd, "out%d.pdf" % idx)
        if job[0] == "pages":
            args = [files[job[1][0][0]][0]]
            if job[2] is not None:
                args.append("--collate" + ("=" + ",".join(map(str, job[2])) if job[2] else ""))
            args.append("--pages")
            for fi, r in job[1]:
                args.append(files[fi][0])
                if r:
                    args.append(r)
            args += ["--", "--static-id", out]
            rc, so, se = common.run_qpdf(args)
            return (rc, se, read_pages(out) if rc in (0, 3) else None, args)
        if job[0] == "split":
            pat = os.path.join(wd, "split%d-%%d.pdf" % idx)
            args = [files[job[1]][0], "--split-pages=%d" % job[2], "--static-id", pat]
            rc, so, se = common.run_qpdf(args)
            outs = sorted(f for f in os.listdir(wd) if f.startswith("split%d-" % idx))
            return (rc, se, [(f, read_pages(os.path.join(wd, f))) for f in outs], args)
        args = [files[job[1]][0]] + ["--rotate=%s%d:%s" % (s, a, r) for s, a, r in job[2]] + ["--static-id", out]
        rc, so, se = common.run_qpdf(args)
        return (rc, se, read_pages(out) if rc in (0, 3) else None, args)

    results = common.par_map(run_job, range(len(jobs)))
    rot_lines, rot_idx = [], []
    nontriv = set()
    for idx, (job, exp, res) in enumerate(zip(jobs, expected, results)):
        rc, se, got, args = res
        desc = {"argv": ["qpdf"] + [a.replace(wd + "/", "") for a in args]}

        def fail(why, **kw):
            chk.violation(dict({"kind": "property-fails-on-implementation", "part": "cli-" + job[0], "case": desc, "why": why,
                                "exit": rc, "stderr": se.decode("latin-1")[-400:]}, **kw))
        if job[0] == "pages":
            sels = exp
            if job[2] is not None and len(sels) > 1:
                o = next(cres)
                seq = [(int(x) // 1000, int(x) % 1000) for x in o[3:].split(",")] if len(o) > 3 else []
            else:
                seq = [(si, p) for si, s in enumerate(sels) for p in s]
            want = [files[job[1][si][0]][1][p - 1] for si, p in seq]
            if rc != 0:
                fail("valid page specification refused or warned")
                continue
            if got is None or got[0] is None:
                fail("output unreadable: %s" % (got[1] if got else ""))
                continue
            have, cnt, _ = got[0]
            if [w[0] for w in want] != [h[0] for h in have]:
                fail("page sequence differs from the range grammar's denotation", expected=[w[0] for w in want], got=[h[0] for h in have])
            elif want != have:
                fail("page attributes (MediaBox/Rotate) changed", expected=want, got=have)
            elif cnt != len(have):
                fail("/Count disagrees with the page list", count=cnt)
            # the extracted model of the page-list loop predicts the same sequence; no page object occupies two positions
            mo, fmap = psel[idx]
            mseq = [files[fmap[int(x.split(".")[0])]][1][int(x.split(".")[1])][0] for x in mo.split(",")] if mo else []
            if mseq != [h[0] for h in have] and [w[0] for w in want] == [h[0] for h in have]:
                chk.violation({"kind": "correspondence-broken", "correspondence": "corr:C12:pagesel", "first_case": desc,
                               "implementation": [h[0] for h in have], "model": mo}, no_input=True)
            root_o, objs_o = got[0][2]
            refs = []
            walk_pages(objs_o, root_o[b"Pages"], refs)
            if len(set((r.n, r.g) for r in refs)) != len(refs):
                fail("a page object occupies two positions of the output page tree")
            if len(want) > 1:
                nontriv.add(tuple(args[1:-1]))
        elif job[0] == "split":
            src = files[job[1]][1]
            if rc != 0:
                fail("split refused")
                continue
            width = len(str(len(src)))
            names = []
            allp = []
            ok = True
            for (f, rp), (a, b) in zip(got, exp):
                nm = "split%d-%s.pdf" % (idx, ("%0*d" % (width, a)) + ("-%0*d" % (width, b) if job[2] > 1 else ""))
                if f != nm or rp[0] is None or [h for h in rp[0][0]] != src[a - 1:b]:
                    ok = False
                if rp[0] is not None:
                    allp += rp[0][0]
            if len(got) != len(exp) or not ok or allp != src:
                fail("split output files do not partition the input as the chunk specification says",
                     expected_chunks=exp, files=[f for f, _ in got], got=[h[0] for h in allp])
            nontriv.add(("split", job[1], job[2]))
        else:
            src = files[job[1]][1]
            if rc != 0 or got is None or got[0] is None:
                fail("rotate refused / unreadable")
                continue
            rot_idx.append((idx, got[0][0]))
            nontriv.add(tuple(args[1:-1]))
    # rotations: fold the model's angle arithmetic over the requested rotations in std::map order?
    # m->rotations is a std::map<range,...>: the CLI applies them in key (range string) order and a
    # repeated identical range replaces the earlier one.
    for idx, have in rot_idx:
        job = jobs[idx]
        src = files[job[1]][1]
        rot = {i: s[2] for i, s in enumerate(src)}
        bymap = {}
        for (sign, ang, r), pages in zip(job[2], expected[idx]):
            bymap[r] = (sign, ang, pages)
        for r in sorted(bymap, key=lambda s: s.encode("latin-1")):
            sign, ang, pages = bymap[r]
            for p in pages:
                a = -ang if sign == "-" else ang
                o = common.run_lines(runner, ["rotate %d %d %d" % (rot[p - 1], a, 1 if sign else 0)])[0]
                rot[p - 1] = int(o)
        want = [(s[0], s[1], rot[i]) for i, s in enumerate(src)]
        if want != have:
            chk.violation({"kind": "property-fails-on-implementation", "part": "cli-rotate", "why": "rotation result differs from the angle specification",
                           "case": {"argv": ["qpdf", os.path.basename(files[job[1]][0])] + ["--rotate=%s%d:%s" % x for x in job[2]]},
                           "expected": want, "got": have})
    chk.count("cli", len(jobs), nontriv, samples=[{"argv": [a.replace(wd + "/", "") for a in results[i][3]]} for i in (0, len(jobs) // 2)])
    kinds = {}
    for j in jobs:
        kinds[j[0]] = kinds.get(j[0], 0) + 1
    chk.cov["parts"]["cli"]["distribution"] = kinds


def run(chk):
    drv = os.path.join(common.DRV, "drv")
    runner = os.path.join(common.EXTRACT, "model_runner")
    chk.cov["rule"] = ("numrange: every body over the alphabet '%s' up to the length bound x max in {0,3,12} x parity suffix, fixed malformed list, "
                       "grammar-derived random ranges with mutations; non-trivial = accepted range with a span, list or parity suffix, distinct by (string,max). "
                       "cli: random --pages/--collate/--split-pages/--rotate jobs over 6 marker documents (nested page trees, inherited Rotate/MediaBox); "
                       "non-trivial = job selecting more than one page, distinct by argv. "
                       "pattr: random page trees built in-process (depth 1-5, chains, empty nodes, each inheritable key present/absent per level, direct/indirect/shared/"
                       "dangling/ill-typed values, explicit /Rotate 0 under an inherited rotation, /Rotate beyond 32 bits or not a multiple of 90, wrong /Count, unknown keys) "
                       "x histories of 1-6 operations (pushInheritedAttributesToPage, getAllPages, findPage, removePage, insert, rotatePage) + fixed cases per case split; "
                       "non-trivial = the object graph changed, distinct by (tree, history). "
                       "rprune: random pages with nested form XObjects (with/without /Type, own/indirect/inherited/no resources, bad tokens, names shared between "
                       "resource types, unknown names) through removeUnreferencedResources; non-trivial = something was pruned. "
                       "plabels: random label trees (missing index 0, gaps, every style, prefixes, /St absent/0/negative/non-integer) x call sequences shaped like "
                       "handlePageSpecs (consecutive runs for the redundancy elision), doSplitPages, and free-form; non-trivial = at least two entries") % BODY_ALPHA
    part_numrange(chk, drv, runner)
    part_cli(chk, runner)
    import c12_forms
    c12_forms.part_forms(chk)
    import c12_res
    c12_res.part_res(chk)
    import c12_attr
    c12_attr.part_attr(chk, drv, runner)
    import c12_prune
    c12_prune.part_prune(chk, drv, runner)
    import c12_labels
    c12_labels.part_labels(chk, drv, runner)


def replay(chk, rep):
    print(json.dumps(rep, indent=1))
    return 0
