# C09 extension - the fixpoint clause inside the model, plain output mode
# (qpdf --static-id --object-streams=disable --compress-streams=n --decode-level=none).
# Model: coq/Sys/FixpointModel.v (fx_doc_of_file: what qpdf holds after reading a file, as a writer-model document),
# composed with Obj/WriterModel.v write_doc and File/ReadStrict.v read_strict; theorems in coq/Sys/C09ProofsB.v.
# Tie (this file): three generations g1, g2, g3 of the real qpdf against three generations of the extracted model,
# byte for byte, on generated documents aimed at the case splits of the modelled code:
#   - documents of filecheck.gen_docs (the generator of C01's byte-exact part): numbering not in first-encounter order,
#     shared / cyclic references, null dictionary entries, direct /Info, odd strings / names / reals, raw filtered streams;
#   - aimed variants: unreachable objects, dangling references in dictionaries, references to explicit null objects,
#     /ID absent / present / with an EMPTY first string / indirect array / indirect first element / not an array;
#   - two ways into the model: `fx_gen` (the first document from the generator's ground truth, as C01 does) and `fx_genp`
#     (the first document read by the model itself from the input file, written with sorted dictionary keys).
# Specification side (independent of the model): generation 2 = generation 3 of the real qpdf by plain byte comparison.
# Hook (one import + one call, at the end of c09.run):   import c09fix; c09fix.run_part(chk, wd, runner)
import os, random
import common, filecheck, pdfgen, wmodel
from pdfgen import Name, Ref, Str, Stream

PLAIN = ["--static-id", "--object-streams=disable", "--compress-streams=n", "--decode-level=none"]
STATIC_ID = bytes.fromhex("31415926535897932384626433832795")


def sortd(o):
    """the same object with dictionary keys in byte order, recursively (std::map order of QPDF_Dictionary)"""
    if isinstance(o, Stream):
        return Stream(sortd(o.d), o.data)
    if isinstance(o, dict):
        return {k: sortd(o[k]) for k in sorted(o)}
    if isinstance(o, list):
        return [sortd(x) for x in o]
    return o


def write_sorted(doc, idv):
    """classic one-section file with sorted dictionary keys. idv: None or an object to use as the trailer's /ID value,
    plus objects to add (returned doc is a copy)"""
    out = bytearray(b"%PDF-" + doc.version + b"\n%\xbf\xf7\xa2\xfe\n")
    offs = {}
    for n in sorted(doc.objects):
        offs[n] = len(out)
        out += pdfgen.ser_indirect(n, sortd(doc.objects[n]))
    size = max(doc.objects) + 1
    xoff = len(out)
    out += b"xref\n0 %d\n" % size
    for i in range(size):
        out += b"0000000000 65535 f \n" if i == 0 else (b"%010d 00000 n \n" % offs[i] if i in offs else b"0000000000 00000 f \n")
    tr = dict(doc.trailer)
    tr[b"Size"] = size
    if idv is not None:
        tr[b"ID"] = idv
    out += b"trailer\n" + pdfgen.ser(sortd(tr)) + b"\nstartxref\n%d\n%%%%EOF\n" % xoff
    return bytes(out)


def copy_doc(d):
    import copy
    return copy.deepcopy(d)


ID_VARIANTS = ["direct", "absent", "empty-first", "indirect-array", "indirect-first", "not-array", "first-not-string", "one-element"]


def apply_id_variant(doc, v, rng):
    """returns (the /ID value for the trailer or None, the first element qpdf must keep or None)"""
    a = bytes(rng.randrange(256) for _ in range(rng.choice([1, 16, 16, 20])))
    b = bytes(rng.randrange(256) for _ in range(16))
    if v == "direct":
        return [Str(a), Str(b)], a
    if v == "absent":
        return None, None
    if v == "empty-first":
        return [Str(b""), Str(b)], None
    if v == "indirect-array":
        return doc.add([Str(a), Str(b)]), a
    if v == "indirect-first":
        return [doc.add(Str(a)), Str(b)], a
    if v == "not-array":
        return Str(a), None
    if v == "first-not-string":
        return [7, Str(b)], None
    if v == "one-element":
        return [Str(a)], a
    raise ValueError(v)


def aim(doc, rng, kinds):
    """aimed variants of a ground-truth document (in place); returns the list of what was added"""
    done = []
    if "unreachable" in kinds:
        for _ in range(rng.choice([1, 3])):
            doc.add(rng.choice([{b"Garbage": Str(b"not referenced")}, [1, 2, 3], Stream({b"Marker": -1}, b"unreferenced stream")]))
        done.append("unreachable")
    if "dangling-dict" in kinds:
        doc.objects[1][b"Dangling"] = Ref(max(doc.objects) + 50)
        done.append("dangling-dict")
    if "null-object" in kinds:
        r = doc.add(None)
        doc.objects[1][b"ToNull"] = r                      # dictionary entry whose value is a reference to null: dropped
        doc.objects[1][b"ArrNull"] = [r, None, 5]          # array elements stay, the null object is written
        done.append("null-object")
    if "late-root" in kinds:
        # the catalog gets the highest number: generation 1 renumbers everything
        hi = max(doc.objects) + 1
        doc.objects[hi] = doc.objects.pop(1)
        def ren(o):
            if isinstance(o, Ref):
                return Ref(hi) if o.n == 1 else o
            if isinstance(o, Stream):
                return Stream(ren(o.d), o.data)
            if isinstance(o, dict):
                return {k: ren(v) for k, v in o.items()}
            if isinstance(o, list):
                return [ren(x) for x in o]
            return o
        for k in list(doc.objects):
            doc.objects[k] = ren(doc.objects[k])
        doc.trailer = ren(doc.trailer)
        done.append("late-root")
    return done


def qpdf3(p):
    """three generations of the real qpdf; returns list of exit statuses"""
    rcs = []
    src = p
    for g in (1, 2, 3):
        dst = "%s.r%d" % (p, g)
        rc, so, se = common.run_qpdf(PLAIN + [src, dst])
        rcs.append(rc)
        if rc not in (0, 3) or not os.path.exists(dst):      # 3 = warnings, the output was written
            break
        src = dst
    return rcs


def first_diff(a, b):
    i = next((i for i, (x, y) in enumerate(zip(a, b)) if x != y), min(len(a), len(b)))
    return {"first_difference_at": i, "left": a[max(0, i - 40):i + 40].hex(), "right": b[max(0, i - 40):i + 40].hex()}


def run_part(chk, wd, runner, n_docs=None):
    quick = chk.tier == "quick"
    rng = random.Random("c09fix/%d" % chk.rng.getrandbits(48))
    n = n_docs or (40 if quick else 300)
    cases = []          # (name, path, mode, what)
    kinds_cycle = [[], ["unreachable"], ["dangling-dict"], ["null-object"], ["late-root"], ["unreachable", "null-object", "late-root"]]
    k = 0
    for name, data, doc in filecheck.gen_docs(rng, n):
        if b"Extensions" in doc.objects[1]:
            continue                                   # outside the plain writer model (C01: the writer rewrites /Extensions /ADBE)
        # (a) the generator's own file, the model's first document from the ground truth (fx_gen), as in C01's byte-exact part
        has_id = b"/ID" in data
        what = aim(doc, rng, kinds_cycle[k % len(kinds_cycle)])
        if what:
            data, _ = pdfgen.write_classic(doc, with_id=(b"0123456789abcdef", b"fedcba9876543210") if has_id else None)
        p = os.path.join(wd, "fx_%s.pdf" % name)
        open(p, "wb").write(data)
        wmodel.describe(doc, p + ".doc", b"0123456789abcdef" if has_id else None)
        cases.append((name, p, "fx_gen", ",".join(what + ["id" if has_id else "no-id"])))
        # (b) the same document as a sorted-key file that the model reads itself (fx_genp), with an /ID variant
        if True:
            d2 = copy_doc(doc)
            v = ID_VARIANTS[k % len(ID_VARIANTS)]
            idv, keep = apply_id_variant(d2, v, rng)
            p2 = os.path.join(wd, "fxp_%s.pdf" % name)
            open(p2, "wb").write(write_sorted(d2, idv))
            cases.append((name + "/sorted", p2, "fx_genp", ",".join(what + ["id:" + v])))
        k += 1
    mres = common.run_lines(runner, ["%s %s %s" % (mode, p + (".doc" if mode == "fx_gen" else ""), p) for _, p, mode, _ in cases],
                            shards=4 if len(cases) > 64 else 1)
    rcs = common.par_map(lambda c: qpdf3(c[1]), cases, workers=4)
    corr, compared, g12 = [], 0, 0
    flags = {"wf0": 0, "wf1": 0, "nf1": 0, "nf2": 0, "same_doc": 0, "norm1": 0, "norm2": 0}
    for (name, p, mode, what), mo, rc in zip(cases, mres, rcs):
        case = {"input": p, "way_into_the_model": mode, "aimed_at": what, "command": "qpdf " + " ".join(PLAIN) + " in out (three times)"}
        if len(rc) == 3 and rc[2] in (0, 3):
            r = [open("%s.r%d" % (p, g), "rb").read() for g in (1, 2, 3)]
            # specification: the fixpoint clause itself, judged on the real outputs only
            if r[1] != r[2]:
                chk.violation(dict(case, kind="property-fails-on-implementation", why="generation 2 and generation 3 differ in the plain mode",
                                   qpdf_exit=rc, **first_diff(r[1], r[2])), signature="fx-plain:gen2!=gen3")
                continue
        if rc != [0, 0, 0]:
            if mo.startswith("ok"):
                corr.append(dict(case, qpdf_exit=rc, model=mo[:120], note="qpdf failed or warned on a generated input or on its own output"))
            continue
        if not mo.startswith("ok"):
            corr.append(dict(case, model=mo[:200], note="the model's strict reader refused a generation that qpdf read"))
            continue
        m = [open("%s.m%d" % (p, g), "rb").read() for g in (1, 2, 3)]
        compared += 1
        bad = [g for g in (0, 1, 2) if m[g] != r[g]]
        if bad:
            g = bad[0]
            corr.append(dict(case, generation=g + 1, **{("model" if kk == "left" else "implementation" if kk == "right" else kk): vv
                                                       for kk, vv in first_diff(m[g], r[g]).items()}))
            continue
        if r[0] == r[1]:
            g12 += 1
        for f in flags:
            if (" %s=1" % f) in mo:
                flags[f] += 1
    if corr:
        chk.violation({"kind": "correspondence-broken", "correspondence": "corr:C09:fx-three-generations", "differing_cases": len(corr),
                       "first_cases": corr[:3], "note": "the three generations of qpdf " + " ".join(PLAIN) + " differ byte-wise from the three "
                       "generations of the extracted model (write_doc, read_strict, fx_doc_of_file) while generation 2 = generation 3 holds on the real outputs"},
                      no_input=True)
    chk.count("fx-three-generations", compared, set((c[2], c[3]) for c in cases), samples=[{"input": cases[0][1], "aimed_at": cases[0][3]}] if cases else [])
    part = chk.cov["parts"]["fx-three-generations"]
    part["cases_generated"] = len(cases)
    part["real_generation1_equals_generation2"] = g12
    part["model_first_document_wf_doc_b"] = flags["wf0"]
    part["model_generation1_document_wf_doc_b"] = flags["wf1"]
    part["model_generation1_document_in_normal_form"] = flags["nf1"]
    part["model_generation2_document_in_normal_form"] = flags["nf2"]
    part["model_documents_of_generation_1_and_2_identical"] = flags["same_doc"]
    part["model_fx_read_write_equals_fx_norm"] = flags["norm1"]              # the statement of theorem fx_read_write on these documents
    part["model_fx_norm_is_identity_on_generation1_document"] = flags["norm2"]
    return compared, len(corr)
