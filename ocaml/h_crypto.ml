(* handlers: Crypto/ models (qpdf's key derivation, Pl_AES_PDF) and the ISO reference reader *)
open Qvmodel
open Runner

let cchunks (s : string) : n list =
  if s = "_" then [] else List.concat (List.map unhexbytes (String.split_on_char ',' s))

let ivmode (s : string) : iv_mode =
  if s = "z" then IvZero
  else if s.[0] = 'g' then IvGiven (unhexbytes (String.sub s 2 (String.length s - 2)))
  else IvWritten (unhexbytes (String.sub s 2 (String.length s - 2)))

let optbytes (o : n list option) : string = match o with Some l -> hexbytes l | None -> "!exception"
let b01 (b : bool) : string = if b then "1" else "0"
let n_of_string (s : string) : n = n_of_int (int_of_string s)

let mk_ed v r kl p em id1 o u oe ue perms : enc_data =
  { ed_V = n_of_string v; ed_R = n_of_string r; ed_len = n_of_string kl; ed_P = n_of_string p;
    ed_O = unhexbytes o; ed_U = unhexbytes u; ed_OE = unhexbytes oe; ed_UE = unhexbytes ue;
    ed_Perms = unhexbytes perms; ed_id1 = unhexbytes id1; ed_encmeta = (em = "1") }

let () =
  register "md5" (fun args -> match args with
    | [cs] -> hexbytes (md5 (cchunks cs))
    | _ -> "?args");
  register "sha2" (fun args -> match args with
    | [bits; cs] ->
      let d = cchunks cs in
      hexbytes (match bits with "256" -> sha256f d | "384" -> sha384f d | _ -> sha512f d)
    | _ -> "?args");
  register "aespl" (fun args -> match args with
    | [dir; key; cbc; iv; pad; cs] ->
      let f = if dir = "e" then pl_aes_encrypt else pl_aes_decrypt in
      optbytes (f (unhexbytes key) (cbc = "1") (ivmode iv) (pad = "1") (cchunks cs))
    | _ -> "?args");
  register "datakey" (fun args -> match args with
    | [key; objid; gen; aes; v; _r] ->
      hexbytes (kd_compute_data_key (unhexbytes key) (n_of_string objid) (n_of_string gen) (aes = "1") (n_of_string v))
    | _ -> "?args");
  register "ou" (fun args -> match args with
    | [v; r; kl; p; em; id1; u; o] ->
      let ed = mk_ed v r kl p em id1 "-" "-" "-" "-" "-" in
      let ed' = kd_compute_O_U ed (unhexbytes u) (unhexbytes o) in
      hexbytes ed'.ed_O ^ " " ^ hexbytes ed'.ed_U ^ " " ^ hexbytes (kd_key_from_password ed' (unhexbytes u))
    | _ -> "?args");
  register "v5" (fun args -> match args with
    | [r; p; em; id1; u; o; rnd] ->
      let ed = mk_ed "5" r "32" p em id1 "-" "-" "-" "-" "-" in
      let q = kd_compute_parameters_V5 ed (unhexbytes u) (unhexbytes o) (unhexbytes rnd) in
      String.concat " " [hexbytes q.v5_key; hexbytes q.v5_O; hexbytes q.v5_U; hexbytes q.v5_OE; hexbytes q.v5_UE;
                         hexbytes q.v5_Perms; "68"]
    | _ -> "?args");
  register "chk" (fun args -> match args with
    | [v; r; kl; p; em; id1; o; u; oe; ue; perms; pw] ->
      let ed = mk_ed v r kl p em id1 o u oe ue perms in
      let pw = unhexbytes pw in
      if int_of_string v >= 5 then begin
        let cu = kd_check_user_V5 ed pw and co = kd_check_owner_V5 ed pw in
        let (k, pv) = kd_recover_key_V5 ed pw in
        String.concat " " [b01 cu; b01 co; "-"; hexbytes k; b01 pv]
      end else begin
        let cu = kd_check_user_V4 ed pw in
        let (co, rcv) = match kd_check_owner_V4 ed pw with Some x -> (true, x) | None -> (false, []) in
        String.concat " " [b01 cu; b01 co; hexbytes rcv; hexbytes (kd_key_from_password ed pw)]
      end
    | _ -> "?args")

(* ---- the ISO reference reader (IsoRef.v) ---- *)
let mk_iso r kl p em id1 o u oe ue perms : iso_dict =
  { iso_R = n_of_string r; iso_keylen = n_of_string kl; iso_P = n_of_string p;
    iso_O = unhexbytes o; iso_U = unhexbytes u; iso_OE = unhexbytes oe; iso_UE = unhexbytes ue;
    iso_Perms = unhexbytes perms; iso_id = unhexbytes id1; iso_encmeta = (em = "1") }

let opt_of_token (t : string) : enc_opt =
  let yn v = (v = "y") in
  match String.split_on_char '=' t with
  | ["acc"; v] -> OAccessibility (yn v)
  | ["ext"; v] -> OExtract (yn v)
  | ["printyn"; v] -> OPrintYN (yn v)
  | ["print"; "full"] -> OPrint PrFull | ["print"; "low"] -> OPrint PrLow | ["print"; _] -> OPrint PrNone
  | ["modyn"; v] -> OModifyYN (yn v)
  | ["mod"; "all"] -> OModify MdAll | ["mod"; "annotate"] -> OModify MdAnnotate | ["mod"; "form"] -> OModify MdForm
  | ["mod"; "assembly"] -> OModify MdAssembly | ["mod"; _] -> OModify MdNone
  | ["ann"; v] -> OAnnotate (yn v)
  | ["asm"; v] -> OAssemble (yn v)
  | ["form"; v] -> OForm (yn v)
  | ["other"; v] -> OModifyOther (yn v)
  | _ -> failwith ("opt " ^ t)

let () =
  (* isoopen R keylen P encmeta id O U OE UE Perms pw -> "user|owner|none key perms-ok" *)
  register "isoopen" (fun args -> match args with
    | [r; kl; p; em; id1; o; u; oe; ue; perms; pw] ->
      let d = mk_iso r kl p em id1 o u oe ue perms in
      let pw = unhexbytes pw in
      if int_of_string r <= 4 then begin
        let au = iso_auth_user_V4 d pw in
        let ao = iso_auth_owner_V4 d pw in
        match iso_open_V4 d pw with
        | Some k -> (if au then "user" else "owner") ^ (if au && ao then "+owner" else "") ^ " " ^ hexbytes k ^ " -"
        | None -> "none - -"
      end else begin
        match iso_open_V5 d pw with
        | Some (k, ow) -> (if ow then "owner" else "user") ^ " " ^ hexbytes k ^ " " ^ b01 (iso_perms_ok d k)
        | None -> "none - -"
      end
    | _ -> "?args");
  (* isodec R aes filekey num gen data -> plaintext | none *)
  register "isodec" (fun args -> match args with
    | [r; aes; key; num; gen; data] ->
      let d = mk_iso r "16" "0" "1" "-" "-" "-" "-" "-" "-" in
      (match iso_decrypt_data d (unhexbytes key) (aes = "1") (n_of_string num) (n_of_string gen) (unhexbytes data) with
       | Some l -> "ok " ^ hexbytes l
       | None -> "none")
    | _ -> "?args");
  (* isokey R aes filekey num gen -> Algorithm 1 / 1.A *)
  register "isokey" (fun args -> match args with
    | [r; aes; key; num; gen] ->
      let d = mk_iso r "16" "0" "1" "-" "-" "-" "-" "-" "-" in
      hexbytes (iso_object_key d (unhexbytes key) (aes = "1") (n_of_string num) (n_of_string gen))
    | _ -> "?args");
  (* kdenc V aes filekey num gen iv data -> what the model of the writer emits *)
  register "kdenc" (fun args -> match args with
    | [v; aes; key; num; gen; iv; data] ->
      optbytes (kd_encrypt_data (unhexbytes key) (n_of_string v) (aes = "1") (n_of_string num) (n_of_string gen)
                  (unhexbytes iv) (unhexbytes data))
    | _ -> "?args");
  register "kddec" (fun args -> match args with
    | [v; aes; key; num; gen; data] ->
      optbytes (kd_decrypt_data (unhexbytes key) (n_of_string v) (aes = "1") (n_of_string num) (n_of_string gen) (unhexbytes data))
    | _ -> "?args");
  (* wp: same arguments as the driver's wp; model of the writer's scheme set-up *)
  register "wp" (fun args ->
    let a = Array.of_list args in
    let b i = a.(i) = "1" in
    let r = n_of_string a.(0) in
    let ri = int_of_string a.(0) in
    let p =
      if ri = 2 then writer_P_R2 (b 1) (b 2) (b 3) (b 4)
      else writer_P_R3 r (b 1) (b 2) (b 3) (b 4) (b 5) (b 6)
             (match a.(7) with "0" -> PrFull | "1" -> PrLow | _ -> PrNone) MdAll in
    let aes = if ri = 4 then b 9 else ri >= 5 in
    let encmeta = if ri >= 4 then b 8 else true in
    let pv = int_of_n p in
    let signed = if pv >= 0x80000000 then pv - 0x100000000 else pv in
    let (minor, ext) = writer_min_version r aes in
    String.concat " " [string_of_int signed; string_of_int (int_of_n (writer_V r));  a.(0);
                       string_of_int (int_of_n (writer_len r)); "1." ^ string_of_int (int_of_n minor);
                       string_of_int (int_of_n ext); (if ri < 4 then "none" else if not aes then "V2" else if ri = 4 then "AESV2" else "AESV3");
                       (if encmeta then "true" else "false")]);
  (* jobp keylen R opt,opt,... -> "P(model of the job) P(manual table)" as unsigned *)
  register "jobp" (fun args -> match args with
    | [kl; r; opts] ->
      let ol = if opts = "-" then [] else List.map opt_of_token (String.split_on_char ',' opts) in
      string_of_int (int_of_n (job_P (n_of_string kl) (n_of_string r) ol)) ^ " " ^
      string_of_int (int_of_n (manual_P (n_of_string r) ol))
    | _ -> "?args");
  (* gate keylen R aes allow_weak allow_insecure user owner -> 1 refused / 0 *)
  register "gate" (fun args -> match args with
    | [kl; r; aes; aw; ai; u; o] ->
      b01 (job_refuses (n_of_string kl) (n_of_string r) (aes = "1") (aw = "1") (ai = "1") (unhexbytes u) (unhexbytes o))
    | _ -> "?args");
  (* minver R aes -> "minor ext iso-minor iso-ext ok" *)
  register "minver" (fun args -> match args with
    | [r; aes] ->
      let (m, e) = writer_min_version (n_of_string r) (aes = "1") in
      let (im, ie) = iso_min_version (n_of_string r) (aes = "1") in
      String.concat " " [string_of_int (int_of_n m); string_of_int (int_of_n e); string_of_int (int_of_n im);
                         string_of_int (int_of_n ie); b01 (version_le (im, ie) (m, e))]
    | _ -> "?args")

(* leafenc encmeta class -> "writer-model iso-requirement" *)
let leaf_of_string = function
  | "string" -> LfString | "streamdict" -> LfStreamDictString | "ostring" -> LfStringInObjStm
  | "sigcontents" -> LfSigContents | "encdict" -> LfEncDictString | "trailer" -> LfTrailerString
  | "metadict" -> LfMetaDictString | "stream" -> LfStreamData | "objstm" -> LfObjStmData
  | "hint" -> LfHintStreamData | "metastream" -> LfMetaStreamData | "xref" -> LfXRefStreamData
  | s -> failwith ("leaf " ^ s)
let () =
  register "leafenc" (fun args -> match args with
    | [em; cls] -> b01 (writer_encrypts (em = "1") (leaf_of_string cls)) ^ " " ^ b01 (iso_requires_encrypted (em = "1") (leaf_of_string cls))
    | _ -> "?args")
