(* C16, specification side (continued): the values the ISO lexer reads are byte strings; names contain no NUL. *)
From Coq Require Import FunInd.
From QV Require Import Base.Bytes Lex.TokModel Lex.LexSpec Lex.TokInterp Lex.LexRun Lex.LexProofs Obj.Unparse Obj.UnparseProofs Struct.ContentSem Struct.C16ProofsA.
Local Open Scope N_scope.

Lemma consb_bytes b x v rest : consb b x = Some (v, rest) -> b < 256 ->
  (forall v' , x = Some (v', rest) -> bytes_ok v') -> bytes_ok v.
Proof.
  intros H Hb Hx. destruct (consb_some _ _ _ _ H) as (v' & -> & ->). constructor; [exact Hb|]. apply Hx. reflexivity.
Qed.

Lemma oct_bound c : oct_digit c = true -> 48 <= c <= 55.
Proof. unfold oct_digit. intros H. apply andb_true_iff in H. destruct H as [A B]. apply N.leb_le in A, B. lia. Qed.

Lemma lit_string_bytes : forall d inp v rest, lit_string d inp = Some (v, rest) -> bytes_ok inp -> bytes_ok v.
Proof.
  intros d inp. functional induction (lit_string d inp); intros v rest H Hb;
    try discriminate; try (cbn in H; discriminate).
  all: try match type of H with Some _ = Some _ => injection H as <- <-; constructor end.
  all: unfold bytes_ok in *.
  all: repeat match goal with
              | Hb : Forall _ (_ :: _) |- _ => let h1 := fresh "Hb1" in let h2 := fresh "Hb2" in inversion Hb as [|? ? h1 h2]; subst; clear Hb
              end.
  all: try (eapply IHo; [exact H|]; repeat constructor; assumption).
  all: try (apply consb_some in H; destruct H as (v' & H & ->); constructor;
            [|eapply IHo; [exact H|]; repeat constructor; assumption]).
  all: try lia.
  all: try (apply N.mod_lt; lia).
  all: repeat match goal with E : oct_digit _ = true |- _ => apply oct_bound in E end; try lia.
Qed.

Lemma hex_value_lt b v : hex_value b = Some v -> v < 16.
Proof.
  unfold hex_value. intros H.
  destruct ((48 <=? b) && (b <=? 57)) eqn:E1.
  { injection H as <-. apply andb_true_iff in E1. destruct E1 as [A B]. apply N.leb_le in A, B. lia. }
  destruct ((65 <=? b) && (b <=? 70)) eqn:E2.
  { injection H as <-. apply andb_true_iff in E2. destruct E2 as [A B]. apply N.leb_le in A, B. lia. }
  destruct ((97 <=? b) && (b <=? 102)) eqn:E3; [|discriminate].
  injection H as <-. apply andb_true_iff in E3. destruct E3 as [A B]. apply N.leb_le in A, B. lia.
Qed.

Lemma hex_digits_lt : forall body ds, hex_digits body = Some ds -> Forall (fun v => v < 16) ds.
Proof.
  induction body as [|b r IH]; intros ds H; cbn [hex_digits] in H.
  - injection H as <-. constructor.
  - destruct (iso_white b); [exact (IH _ H)|].
    destruct (hex_value b) as [v|] eqn:Ev; [|discriminate]. destruct (hex_digits r) as [ds'|]; [|discriminate].
    injection H as <-. constructor; [exact (hex_value_lt _ _ Ev)|apply IH; reflexivity].
Qed.

Lemma hex_pairs_bytes : forall n ds, (length ds <= n)%nat -> Forall (fun v => v < 16) ds -> bytes_ok (hex_pairs ds).
Proof.
  induction n as [|n IH]; intros ds Hl Hd.
  - destruct ds; [constructor|cbn in Hl; lia].
  - destruct ds as [|a [|b r]]; cbn [hex_pairs].
    + constructor.
    + inversion Hd; subst. repeat constructor. lia.
    + inversion Hd as [|? ? Ha Hd']; subst. inversion Hd' as [|? ? Hb' Hd'']; subst.
      constructor; [lia|]. apply IH; [cbn in Hl; lia|exact Hd''].
Qed.

Lemma name_decode_props : forall n w nm, (length w <= n)%nat -> name_decode w = Some nm -> bytes_ok w -> forallb iso_regular w = true ->
  bytes_ok nm /\ ~ In 0 nm.
Proof.
  induction n as [|n IH]; intros w nm Hl H Hb Hr.
  - destruct w; [|cbn in Hl; lia]. injection H as <-. split; [constructor|intros []].
  - destruct w as [|b r]; [injection H as <-; split; [constructor|intros []]|].
    cbn [name_decode] in H. cbn [length] in Hl. inversion Hb as [|? ? Hb1 Hb2]; subst.
    cbn [forallb] in Hr. apply andb_true_iff in Hr. destruct Hr as [Hr1 Hr2].
    destruct (b =? 35) eqn:E35.
    + destruct r as [|h1 [|h2 r2]]; try discriminate. cbn [length] in Hl.
      destruct (hex_value h1) as [a|] eqn:E1; [|discriminate]. destruct (hex_value h2) as [b'|] eqn:E2; [|discriminate].
      destruct (name_decode r2) as [n2|] eqn:E3; [|discriminate].
      destruct (16 * a + b' =? 0) eqn:E0; [discriminate|]. injection H as <-.
      inversion Hb2 as [|? ? ? Hb3]; subst. inversion Hb3 as [|? ? ? Hb4]; subst.
      cbn [forallb] in Hr2. apply andb_true_iff in Hr2. destruct Hr2 as [_ Hr3]. apply andb_true_iff in Hr3. destruct Hr3 as [_ Hr4].
      destruct (IH r2 n2 ltac:(lia) E3 Hb4 Hr4) as [A B].
      pose proof (hex_value_lt _ _ E1). pose proof (hex_value_lt _ _ E2). apply N.eqb_neq in E0.
      split. { constructor. { change (16 * a + b' < 256). lia. } exact A. } intros [X|X]; [exact (E0 X)|exact (B X)].
    + destruct (name_decode r) as [n2|] eqn:E3; [|discriminate]. injection H as <-.
      destruct (IH r n2 ltac:(lia) E3 Hb2 Hr2) as [A B].
      split; [constructor; assumption|]. intros [X|X]; [|exact (B X)]. subst b. vm_compute in Hr1. discriminate.
Qed.

(* the value of a token read by the specification lexer from bytes consists of bytes *)
Lemma token_value_props s t rest : spec_token_at s = LexTok t rest -> bytes_ok s ->
  match t with
  | PStr v => bytes_ok v
  | PName n => bytes_ok n /\ ~ In 0 n
  | _ => True
  end.
Proof.
  intros H Hb. destruct s as [|b r]; [discriminate|]. inversion Hb as [|? ? Hb1 Hb2]; subst. cbn [spec_token_at] in H.
  destruct (b =? 40).
  { destruct (lit_string 0 r) as [[v rest0]|] eqn:El; [|discriminate]. injection H as <- <-. eapply lit_string_bytes; eassumption. }
  destruct (b =? 60).
  { destruct r as [|c r1]; [discriminate|]. destruct (c =? 60); [injection H as <- <-; exact I|].
    unfold hex_string in H. destruct (span_while (fun b => negb (b =? 62)) (c :: r1)) as [body rest0] eqn:Esp.
    destruct rest0 as [|x rest1]; [discriminate|].
    destruct (span_while_spec _ _ _ _ Esp) as (_ & _ & Hx). cbv beta in Hx. apply negb_false_iff, N.eqb_eq in Hx. subst x. cbv iota in H.
    destruct (hex_digits body) as [ds|] eqn:Ehd; [|discriminate]. injection H as <- <-.
    apply (hex_pairs_bytes (length ds)); [lia|]. eapply hex_digits_lt, Ehd. }
  destruct (b =? 62). { destruct r as [|c r1]; [discriminate|]. destruct (c =? 62); [injection H as <- <-; exact I|discriminate]. }
  destruct (b =? 91); [injection H as <- <-; exact I|]. destruct (b =? 93); [injection H as <- <-; exact I|].
  destruct (b =? 123); [injection H as <- <-; exact I|]. destruct (b =? 125); [injection H as <- <-; exact I|].
  destruct (b =? 47).
  { destruct (span_while iso_regular r) as [w rest0] eqn:Esp. destruct (name_decode w) as [nm|] eqn:End; [|discriminate].
    injection H as <- <-. destruct (span_while_spec _ _ _ _ Esp) as (-> & Hreg & _).
    apply bytes_ok_app in Hb2. destruct Hb2 as [Hbw _]. apply (name_decode_props (length w) w nm); auto. }
  destruct (iso_regular b); [|discriminate]. destruct (span_while iso_regular (b :: r)) as [w rest0]. injection H as <- <-.
  unfold token_of_run. destruct (number_of_run w) as [t|] eqn:En.
  - unfold number_of_run in En. destruct (match w with b0 :: r0 => if b0 =? 43 then (false, r0) else if b0 =? 45 then (true, r0) else (false, w) | [] => (false, w) end) as [neg body].
    destruct (split_at_dot body) as [ip [fp|]].
    + destruct (all_digits ip && all_digits fp && (nonempty ip || nonempty fp)); [injection En as <-; exact I|discriminate].
    + destruct (nonempty ip && all_digits ip); [injection En as <-; exact I|discriminate].
  - destruct (list_eqb N.eqb w kw_true); [exact I|]. destruct (list_eqb N.eqb w kw_false); [exact I|].
    destruct (list_eqb N.eqb w kw_null); exact I.
Qed.
