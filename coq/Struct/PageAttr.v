(* C12 (extension) - model of the inheritable-attribute code of libqpdf/QPDF_pages.cc and
   QPDFObjectHandle.cc, on page trees of arbitrary depth and shape:

     Pages::cache / getAllPagesInternal          (only the /MediaBox and /Resources repair of pages: the
                                                  media_box / resources flags carried down the walk)
     Pages::pushInheritedAttributesToPage        (pushed flag, allow_changes, warn_skipped_keys)
     Pages::pushInheritedAttributesToPageInternal (per-key ancestor stack key_ancestors, push / fill / pop)
     Pages::flattenPagesTree, insertPageobjToPage, Pages::find, Pages::erase, Pages::insert (of a new direct page)
     QPDFObjectHandle::rotatePage                (walk up /Parent for the old angle, relative/absolute, C++ %)

   Written FROM THE C++ (as it is).  Conventions:
   - an object (pa_obj) is classified by what the code asks of it: null, integer z, or a non-integer object of
     kind 0 = other scalar (name/real/string/bool), 1 = rectangle (array of 4 numbers), 2 = dictionary,
     3 = other array; the content code c only identifies the object;
   - a value (pa_val) is a direct object or an indirect reference PaI i; the store maps ids to objects
     (absent id = null, QPDF::getObject of an unknown id);
   - a dictionary of a page-tree object is its four inheritable slots in std::map order
     /CropBox < /MediaBox < /Resources < /Rotate (pa_quad) plus the list of its other, non-structural keys
     (key codes, ascending); /Type /Parent /Kids /Count are the fields of the tree constructors;
   - the tree is a rose tree: a kid that isDictionaryOfType("/Pages") (= hasKey("/Kids") after cache()) is a
     PaNode, every other kid a PaPage.  Domain: object ids of tree objects are distinct, /Type values are
     right, every /Parent names the node whose /Kids lists the object (rotatePage walks /Parent; the model
     walks the enclosing nodes), /Kids holds indirect dictionaries only.  Pages::cache's other repairs
     (duplicates, direct kids, /Type, /Annots) are C13's subject (Struct/PgModel.v);
   - all_pages is not stored: in the modelled domain it is the list of leaves in document order (pa_pages),
     non-empty iff pa_cached and the tree has a page;
   - exceptions are values (pa_err); state changes made before a throw stay.
   No proofs in this file. *)
From QV Require Import Base.Bytes Struct.PageOps.
From Coq Require Import List ZArith NArith Bool.
Import ListNotations.
Local Open Scope N_scope.

(* ---------------------------------------------------------------- objects, values, store *)
Inductive pa_obj : Type :=
| PaoNull
| PaoInt (z : Z)
| PaoOther (kind : N) (c : N).

Inductive pa_val : Type :=
| PaD (o : pa_obj)
| PaI (i : N).

Definition pa_store := list (N * pa_obj).

Fixpoint pa_lookup (st : pa_store) (i : N) : pa_obj :=
  match st with
  | [] => PaoNull
  | (j, o) :: st' => if j =? i then o else pa_lookup st' i
  end.

Definition pa_den (st : pa_store) (v : pa_val) : pa_obj :=
  match v with PaD o => o | PaI i => pa_lookup st i end.

Definition pa_is_null (o : pa_obj) : bool := match o with PaoNull => true | _ => false end.
(* QPDFObjectHandle::isScalar: bool, integer, name, null, real, string *)
Definition pa_is_scalar (o : pa_obj) : bool :=
  match o with PaoNull => true | PaoInt _ => true | PaoOther k _ => k =? 0 end.
Definition pa_is_rect (o : pa_obj) : bool := match o with PaoOther 1 _ => true | _ => false end.
Definition pa_is_dict (o : pa_obj) : bool := match o with PaoOther 2 _ => true | _ => false end.

(* ---------------------------------------------------------------- the four inheritable keys *)
Inductive pa_ik : Type := PaCrop | PaMedia | PaRes | PaRot.
Definition pa_iks : list pa_ik := [PaCrop; PaMedia; PaRes; PaRot].   (* std::map / std::set order *)

Record pa_quad (A : Type) : Type := PaQuad { pa_q0 : A; pa_q1 : A; pa_q2 : A; pa_q3 : A }.
Arguments PaQuad {A}. Arguments pa_q0 {A}. Arguments pa_q1 {A}. Arguments pa_q2 {A}. Arguments pa_q3 {A}.

Definition pa_qget {A} (q : pa_quad A) (k : pa_ik) : A :=
  match k with PaCrop => pa_q0 q | PaMedia => pa_q1 q | PaRes => pa_q2 q | PaRot => pa_q3 q end.
Definition pa_qset {A} (q : pa_quad A) (k : pa_ik) (a : A) : pa_quad A :=
  match k with
  | PaCrop => PaQuad a (pa_q1 q) (pa_q2 q) (pa_q3 q)
  | PaMedia => PaQuad (pa_q0 q) a (pa_q2 q) (pa_q3 q)
  | PaRes => PaQuad (pa_q0 q) (pa_q1 q) a (pa_q3 q)
  | PaRot => PaQuad (pa_q0 q) (pa_q1 q) (pa_q2 q) a
  end.
Definition pa_qinit {A} (f : pa_ik -> A) : pa_quad A := PaQuad (f PaCrop) (f PaMedia) (f PaRes) (f PaRot).
Definition pa_qconst {A} (a : A) : pa_quad A := PaQuad a a a a.

Record pa_dict : Type := PaDict { pa_attrs : pa_quad (option pa_val); pa_oth : list N }.

Definition pa_get (d : pa_dict) (k : pa_ik) : option pa_val := pa_qget (pa_attrs d) k.
Definition pa_set (d : pa_dict) (k : pa_ik) (v : pa_val) : pa_dict :=
  PaDict (pa_qset (pa_attrs d) k (Some v)) (pa_oth d).
Definition pa_erase (d : pa_dict) (k : pa_ik) : pa_dict :=
  PaDict (pa_qset (pa_attrs d) k None) (pa_oth d).
(* getKey(k) resolved: null when the key is missing *)
Definition pa_getden (st : pa_store) (d : pa_dict) (k : pa_ik) : pa_obj :=
  match pa_get d k with Some v => pa_den st v | None => PaoNull end.
(* BaseHandle::contains / membership in getKeys(): the key exists and its value is not null *)
Definition pa_contains (st : pa_store) (d : pa_dict) (k : pa_ik) : bool := negb (pa_is_null (pa_getden st d k)).

(* ---------------------------------------------------------------- page tree *)
Inductive pa_tree : Type :=
| PaPage (id : N) (parent : option N) (d : pa_dict)
| PaNode (id : N) (parent : option N) (count : option Z) (d : pa_dict) (kids : list pa_tree).

Definition pa_id (t : pa_tree) : N := match t with PaPage i _ _ => i | PaNode i _ _ _ _ => i end.

(* leaves in document order: the order of all_pages.emplace_back in getAllPagesInternal *)
Fixpoint pa_pages (t : pa_tree) : list pa_tree :=
  match t with
  | PaPage _ _ _ => [t]
  | PaNode _ _ _ _ kids => flat_map pa_pages kids
  end.
Definition pa_page_ids (t : pa_tree) : list N := map pa_id (pa_pages t).

(* ---------------------------------------------------------------- Pages::cache: repair of /MediaBox and /Resources *)
Definition pa_default_rect : pa_obj := PaoOther 1 612.   (* [0 0 612 792] *)
Definition pa_empty_dict : pa_obj := PaoOther 2 0.       (* << >> *)

Definition pa_repair_page (st : pa_store) (mb rs : bool) (d : pa_dict) : pa_dict :=
  let d1 := if negb mb && negb (pa_is_rect (pa_getden st d PaMedia)) then pa_set d PaMedia (PaD pa_default_rect) else d in
  if negb rs && negb (pa_is_dict (pa_getden st d1 PaRes)) then pa_set d1 PaRes (PaD pa_empty_dict) else d1.

Fixpoint pa_repair (st : pa_store) (mb rs : bool) (t : pa_tree) : pa_tree :=
  match t with
  | PaPage i p d => PaPage i p (pa_repair_page st mb rs d)
  | PaNode i p c d kids =>
      let mb' := mb || pa_is_rect (pa_getden st d PaMedia) in
      let rs' := rs || pa_is_dict (pa_getden st d PaRes) in
      PaNode i p c d (map (pa_repair st mb' rs') kids)
  end.

(* ---------------------------------------------------------------- pushInheritedAttributesToPageInternal *)
Definition pa_stk := pa_quad (list pa_val).     (* key_ancestors: head = back() ; [] = key not in the map *)
Definition pa_stk_empty : pa_stk := pa_qconst [].

Record pa_pst : Type := PaPst {
  pa_pnext : N;                (* next object id (makeIndirectObject) *)
  pa_pstore : pa_store;
  pa_pwarn : list (N * N)      (* "Unknown key ... is being discarded" warnings, newest first: (node id, key code) *)
}.

(* one inheritable key of the loop over cur_pages.getKeys() *)
Definition pa_push_key (k : pa_ik) (acc : pa_dict * pa_stk * pa_pst * list pa_ik)
  : pa_dict * pa_stk * pa_pst * list pa_ik :=
  let '(d, stk, ps, pushed) := acc in
  match pa_get d k with
  | None => acc
  | Some v =>
      if pa_is_null (pa_den (pa_pstore ps) v) then acc          (* getKeys() leaves null-valued keys out *)
      else
        let '(v', ps') :=
          match v with
          | PaD o => if pa_is_scalar o then (v, ps)
                     else (PaI (pa_pnext ps),
                           PaPst (pa_pnext ps + 1) ((pa_pnext ps, o) :: pa_pstore ps) (pa_pwarn ps))
          | PaI _ => (v, ps)
          end in
        (pa_erase d k, pa_qset stk k (v' :: pa_qget stk k), ps', k :: pushed)
  end.

(* a page: every key that has ancestors and is not contained in the page gets values.back() *)
Definition pa_fill_key (st : pa_store) (stk : pa_stk) (d : pa_dict) (k : pa_ik) : pa_dict :=
  match pa_qget stk k with
  | [] => d
  | v :: _ => if pa_contains st d k then d else pa_set d k v
  end.
Definition pa_fill (st : pa_store) (stk : pa_stk) (d : pa_dict) : pa_dict :=
  fold_left (pa_fill_key st stk) pa_iks d.

Definition pa_pop (stk : pa_stk) (pushed : list pa_ik) : pa_stk :=
  fold_left (fun s k => pa_qset s k (tl (pa_qget s k))) pushed stk.

Definition pa_add_warn (warn : bool) (i : N) (p : option N) (d : pa_dict) (ps : pa_pst) : pa_pst :=
  match p with
  | Some _ => if warn then PaPst (pa_pnext ps) (pa_pstore ps) (rev' (map (fun k => (i, k)) (pa_oth d)) ++ pa_pwarn ps) else ps
  | None => ps
  end.

Fixpoint pa_push_tree (warn : bool) (t : pa_tree) (stk : pa_stk) (ps : pa_pst) {struct t} : pa_tree * pa_stk * pa_pst :=
  match t with
  | PaPage i p d => (PaPage i p (pa_fill (pa_pstore ps) stk d), stk, ps)
  | PaNode i p c d kids =>
      let '(d1, stk1, ps1, pushed) := fold_left (fun a k => pa_push_key k a) pa_iks (d, stk, ps, []) in
      let ps2 := pa_add_warn warn i p d ps1 in
      let '(kids', stk2, ps3) :=
        (fix go (l : list pa_tree) (s : pa_stk) (q : pa_pst) {struct l} : list pa_tree * pa_stk * pa_pst :=
           match l with
           | [] => ([], s, q)
           | kid :: l' =>
               let '(kid', s1, q1) := pa_push_tree warn kid s q in
               let '(l'', s2, q2) := go l' s1 q1 in
               (kid' :: l'', s2, q2)
           end) kids stk1 ps2 in
      (PaNode i p c d1 kids', pa_pop stk2 pushed, ps3)
  end.

(* allow_changes = false: the walk throws at the first /Pages node that has an inheritable key *)
Fixpoint pa_has_inh (st : pa_store) (t : pa_tree) : bool :=
  match t with
  | PaPage _ _ _ => false
  | PaNode _ _ _ d kids =>
      existsb (pa_contains st d) pa_iks || existsb (pa_has_inh st) kids
  end.

(* ---------------------------------------------------------------- document state and operations *)
Inductive pa_err : Type := PaEQ (* QPDFExc *) | PaERt (* std::runtime_error *) | PaEUnm (* outside the model *).

Record pa_doc : Type := PaDoc {
  pa_root : pa_tree;
  pa_st : pa_store;
  pa_next : N;
  pa_cached : bool;               (* cache() has filled all_pages *)
  pa_pushed : bool;               (* pushed_inherited_attributes_to_pages *)
  pa_pos : list (N * Z);          (* pageobj_to_pages_pos *)
  pa_det : list pa_tree           (* pages removed from the tree (objects that still exist) *)
}.

Inductive pa_res : Type :=
| PaROk
| PaRPos (z : Z)
| PaRIds (l : list N)
| PaRWarn (l : list (N * N))
| PaRErr (e : pa_err).

Definition pa_cache (doc : pa_doc) : pa_doc :=
  if pa_cached doc then doc
  else PaDoc (pa_repair (pa_st doc) false false (pa_root doc)) (pa_st doc) (pa_next doc) true
             (pa_pushed doc) (pa_pos doc) (pa_det doc).

(* Pages::pushInheritedAttributesToPage(allow_changes, warn_skipped_keys) *)
Definition pa_op_push (allow warn : bool) (doc : pa_doc) : pa_doc * pa_res :=
  if pa_pushed doc && negb warn then (doc, PaROk)
  else
    let doc1 := pa_cache doc in
    if allow then
      let '(t', _, ps') := pa_push_tree warn (pa_root doc1) pa_stk_empty (PaPst (pa_next doc1) (pa_st doc1) []) in
      (PaDoc t' (pa_pstore ps') (pa_pnext ps') true true (pa_pos doc1) (pa_det doc1),
       if warn then PaRWarn (rev' (pa_pwarn ps')) else PaROk)
    else if pa_has_inh (pa_st doc1) (pa_root doc1) then (doc1, PaRErr PaEQ)
    else if warn then (doc1, PaRErr PaEUnm)     (* combination not used by the library; warnings before a throw not modelled *)
    else (PaDoc (pa_root doc1) (pa_st doc1) (pa_next doc1) true true (pa_pos doc1) (pa_det doc1), PaROk).

Definition pa_set_parent (r : N) (t : pa_tree) : pa_tree :=
  match t with
  | PaPage i _ d => PaPage i (Some r) d
  | PaNode i _ c d k => PaNode i (Some r) c d k
  end.

Fixpoint pa_number (l : list N) (from : Z) : list (N * Z) :=
  match l with [] => [] | i :: l' => (i, from) :: pa_number l' (from + 1)%Z end.

Fixpoint pa_nodupb (l : list N) : bool :=
  match l with [] => true | i :: l' => negb (existsb (N.eqb i) l') && pa_nodupb l' end.

(* getUIntValue of /Count: not an integer -> 0 (type warning), negative -> 0 (warning) *)
Definition pa_count_uint (c : option Z) : Z :=
  match c with Some z => if (z <? 0)%Z then 0%Z else z | None => 0%Z end.

(* Pages::flattenPagesTree; the error (if any) is thrown AFTER the tree has been rewritten *)
Definition pa_flatten (doc : pa_doc) : pa_doc * option pa_err :=
  match pa_pos doc with
  | _ :: _ => (doc, None)
  | [] =>
      let doc1 := fst (pa_op_push true true doc) in
      match pa_root doc1 with
      | PaPage _ _ _ => (doc1, Some PaEUnm)
      | PaNode r p c d kids =>
          let pgs := pa_pages (pa_root doc1) in
          let ids := map pa_id pgs in
          if negb (pa_nodupb ids) then (doc1, Some PaEUnm)   (* insertPageobjToPage would throw half way; cache() excludes it *)
          else
            let doc2 := PaDoc (PaNode r p c d (map (pa_set_parent r) pgs)) (pa_st doc1) (pa_next doc1)
                              (pa_cached doc1) (pa_pushed doc1) (pa_number ids 0) (pa_det doc1) in
            if (pa_count_uint c =? Z.of_nat (length pgs))%Z then (doc2, None) else (doc2, Some PaERt)
      end
  end.

Fixpoint pa_pos_find (m : list (N * Z)) (i : N) : option Z :=
  match m with [] => None | (j, z) :: m' => if j =? i then Some z else pa_pos_find m' i end.

(* Pages::find(og) *)
Definition pa_op_find (i : N) (doc : pa_doc) : pa_doc * pa_res :=
  match pa_flatten doc with
  | (doc1, Some e) => (doc1, PaRErr e)
  | (doc1, None) =>
      match pa_pos_find (pa_pos doc1) i with
      | Some z => (doc1, PaRPos z)
      | None => (doc1, PaRErr PaEQ)
      end
  end.

Fixpoint pa_remove_nth {A} (n : nat) (l : list A) : list A :=
  match l, n with
  | [], _ => []
  | _ :: l', O => l'
  | x :: l', S n' => x :: pa_remove_nth n' l'
  end.
Fixpoint pa_insert_nth {A} (n : nat) (a : A) (l : list A) : list A :=
  match n, l with
  | O, _ => a :: l
  | S n', x :: l' => x :: pa_insert_nth n' a l'
  | S _, [] => [a]
  end.

Definition pa_kids (t : pa_tree) : list pa_tree := match t with PaNode _ _ _ _ k => k | PaPage _ _ _ => [] end.
Definition pa_with_kids (t : pa_tree) (k : list pa_tree) : pa_tree :=
  match t with
  | PaNode i p _ d _ => PaNode i p (Some (Z.of_nat (length k))) d k     (* /Count := number of kids *)
  | PaPage _ _ _ => t
  end.

(* Pages::erase(page): findPage (flattens), kids.eraseItem(pos), /Count, all_pages, pageobj_to_pages_pos *)
Definition pa_op_remove (i : N) (doc : pa_doc) : pa_doc * pa_res :=
  match pa_op_find i doc with
  | (doc1, PaRPos z) =>
      let kids := pa_kids (pa_root doc1) in
      let n := Z.to_nat z in
      let kids' := pa_remove_nth n kids in
      (PaDoc (pa_with_kids (pa_root doc1) kids') (pa_st doc1) (pa_next doc1) (pa_cached doc1) (pa_pushed doc1)
             (pa_number (map pa_id kids') 0)
             (firstn 1 (skipn n kids) ++ pa_det doc1), PaROk)
  | (doc1, r) => (doc1, r)
  end.

(* Pages::insert(newpage, pos) for a new DIRECT page dictionary d *)
Definition pa_op_insert (pos : Z) (d : pa_dict) (doc : pa_doc) : pa_doc * pa_res :=
  match pa_flatten doc with
  | (doc1, Some e) => (doc1, PaRErr e)
  | (doc1, None) =>
      let id := pa_next doc1 in
      let kids := pa_kids (pa_root doc1) in
      if (pos <? 0)%Z || (Z.of_nat (length kids) <? pos)%Z then
        (PaDoc (pa_root doc1) (pa_st doc1) (id + 1) (pa_cached doc1) (pa_pushed doc1) (pa_pos doc1)
               (PaPage id None d :: pa_det doc1), PaRErr PaERt)    (* made indirect before the range check *)
      else
        let kids' := pa_insert_nth (Z.to_nat pos) (PaPage id (Some (pa_id (pa_root doc1))) d) kids in
        (PaDoc (pa_with_kids (pa_root doc1) kids') (pa_st doc1) (id + 1) (pa_cached doc1) (pa_pushed doc1)
               (pa_number (map pa_id kids') 0) (pa_det doc1), PaROk)
  end.

(* getAllPages() *)
Definition pa_op_all (doc : pa_doc) : pa_doc * pa_res :=
  let doc1 := pa_cache doc in (doc1, PaRIds (pa_page_ids (pa_root doc1))).

(* ---------------------------------------------------------------- QPDFObjectHandle::rotatePage *)
(* Integer::value<int>: out of range -> INT_MIN / INT_MAX (with a warning) *)
Definition pa_clamp_int (z : Z) : Z :=
  if (z <? -2147483648)%Z then (-2147483648)%Z else if (2147483647 <? z)%Z then 2147483647%Z else z.

(* the while loop: chain = the page's dictionary, then the dictionaries its /Parent links lead through *)
Fixpoint pa_old_angle (st : pa_store) (chain : list pa_dict) : Z :=
  match chain with
  | [] => 0%Z
  | d :: up =>
      match pa_getden st d PaRot with
      | PaoInt z => pa_clamp_int z           (* getValueAsInt succeeded: break *)
      | _ => pa_old_angle st up              (* not an integer: go to /Parent if it is a dictionary *)
      end
  end.

Definition pa_rotate_dict (st : pa_store) (angle : Z) (rel : bool) (chain : list pa_dict) (d : pa_dict) : pa_dict :=
  match rotate_angle (pa_old_angle st (d :: chain)) angle rel with
  | Some r => pa_set d PaRot (PaD (PaoInt r))
  | None => d
  end.

Fixpoint pa_rotate_tree (st : pa_store) (id : N) (angle : Z) (rel : bool) (chain : list pa_dict) (t : pa_tree) : pa_tree :=
  match t with
  | PaPage i p d => if i =? id then PaPage i p (pa_rotate_dict st angle rel chain d) else t
  | PaNode i p c d kids => PaNode i p c d (map (pa_rotate_tree st id angle rel (d :: chain)) kids)
  end.

Definition pa_tree_dict (t : pa_tree) : pa_dict := match t with PaPage _ _ d => d | PaNode _ _ _ d _ => d end.

Definition pa_rotate_det (st : pa_store) (root : pa_tree) (id : N) (angle : Z) (rel : bool) (t : pa_tree) : pa_tree :=
  match t with
  | PaPage i p d =>
      if i =? id then
        PaPage i p (pa_rotate_dict st angle rel
                      (match p with Some _ => [pa_tree_dict root] | None => [] end) d)
      else t
  | _ => t
  end.

Definition pa_op_rotate (id : N) (angle : Z) (rel : bool) (doc : pa_doc) : pa_doc * pa_res :=
  if negb (c_rem angle 90 =? 0)%Z then (doc, PaRErr PaERt)
  else if negb (existsb (N.eqb id) (pa_page_ids (pa_root doc) ++ map pa_id (pa_det doc))) then (doc, PaRErr PaEUnm)
  else
    (PaDoc (pa_rotate_tree (pa_st doc) id angle rel [] (pa_root doc)) (pa_st doc) (pa_next doc) (pa_cached doc)
           (pa_pushed doc) (pa_pos doc) (map (pa_rotate_det (pa_st doc) (pa_root doc) id angle rel) (pa_det doc)), PaROk).

(* ---------------------------------------------------------------- histories *)
Inductive pa_op : Type :=
| PaOpPush (allow warn : bool)
| PaOpFind (i : N)
| PaOpRemove (i : N)
| PaOpInsert (pos : Z) (d : pa_dict)
| PaOpAll
| PaOpRotate (i : N) (angle : Z) (rel : bool).

Definition pa_step (o : pa_op) (doc : pa_doc) : pa_doc * pa_res :=
  match o with
  | PaOpPush a w => pa_op_push a w doc
  | PaOpFind i => pa_op_find i doc
  | PaOpRemove i => pa_op_remove i doc
  | PaOpInsert pos d => pa_op_insert pos d doc
  | PaOpAll => pa_op_all doc
  | PaOpRotate i a r => pa_op_rotate i a r doc
  end.

Fixpoint pa_run (ops : list pa_op) (doc : pa_doc) : pa_doc * list pa_res :=
  match ops with
  | [] => (doc, [])
  | o :: ops' =>
      let '(doc1, r) := pa_step o doc in
      let '(doc2, rs) := pa_run ops' doc1 in
      (doc2, r :: rs)
  end.
