(* C15 - tie between the C++ source and the filter models: the definitions generated on every run from the clang AST
   of abs_diff and Pl_PNGFilter::PaethPredictor (libqpdf/Pl_PNGFilter.cc), of the cast helpers of Pl_Base64.cc, and
   the constants read out of Pl_LZWDecoder::handleCode, against Filters/Filters.v. *)
From QV Require Import Base.Bytes Filters.Filters.
From Coq Require Import Lia ZifyBool.
From QV Require Import Base.LeafSem Base.LeafSemFacts Gen.Leaf.
Local Open Scope N_scope.

(* abs_diff(int, int): equal to the model wherever the C++ subtraction does not leave `int` *)
Lemma abs_diff_src_lemma : forall a b, (-1073741824 <= a < 1073741824)%Z -> (-1073741824 <= b < 1073741824)%Z ->
  lf_abs_diff a b = abs_diff a b.
Proof.
  intros a b Ha Hb. unfold lf_abs_diff, abs_diff.
  rewrite !lf_wrap_s_32_small by lia. reflexivity.
Qed.

(* PaethPredictor(int a, int b, int c) on the values its callers pass (bytes): the model's paeth *)
Lemma paeth_src_lemma : forall a b c, a < 256 -> b < 256 -> c < 256 ->
  lf_PaethPredictor (Z.of_N a) (Z.of_N b) (Z.of_N c) = Z.of_N (paeth a b c).
Proof.
  (* by the meaning of the comparisons, not by the shape of the conditionals: an equivalent rewrite of the C++
     (another tie-break that selects the same value) keeps this proof *)
  intros a b c Ha Hb Hc. unfold lf_PaethPredictor, paeth, lf_abs_diff, abs_diff. cbv zeta.
  repeat match goal with
         | |- context [lf_wrap_s 32 ?x] => rewrite (lf_wrap_s_32_small x) by (repeat destruct (_ >? _)%Z; lia)
         end.
  repeat match goal with
         | |- context [(?x >? ?y)%Z] => destruct (x >? y)%Z eqn:?
         end;
  repeat match goal with
         | |- context [if ?t then _ else _] => destruct t eqn:?
         end; lia.
Qed.

(* the same for every int for which no intermediate result leaves `int` (|a|,|b|,|c| < 2^28) *)
Lemma paeth_src_wide_lemma : forall a b c,
  (-268435456 <= a < 268435456)%Z -> (-268435456 <= b < 268435456)%Z -> (-268435456 <= c < 268435456)%Z ->
  lf_PaethPredictor a b c =
  (let p := a + b - c in
   if (abs_diff p a <=? abs_diff p b) && (abs_diff p a <=? abs_diff p c) then a
   else if abs_diff p b <=? abs_diff p c then b else c)%Z.
Proof.
  intros a b c Ha Hb Hc. unfold lf_PaethPredictor, lf_abs_diff, abs_diff. cbv zeta.
  repeat match goal with
         | |- context [lf_wrap_s 32 ?x] => rewrite (lf_wrap_s_32_small x) by (repeat destruct (_ >? _)%Z; lia)
         end.
  repeat match goal with
         | |- context [(?x >? ?y)%Z] => destruct (x >? y)%Z eqn:?
         end;
  repeat match goal with
         | |- context [if ?t then _ else _] => destruct t eqn:?
         end; lia.
Qed.

(* Pl_Base64.cc: to_c, to_uc, to_i are the conversions the model leaves implicit; identities on the values they get *)
Lemma b64_casts_src_lemma :
  (forall v, 0 <= v < 128 -> lf_b64_to_c v = v)%Z /\
  (forall v, lf_b64_to_uc v = v mod 256)%Z /\
  (forall v, 0 <= v < 256 -> lf_b64_to_uc v = v)%Z /\
  (forall v, lf_b64_to_i v = v)%Z.
Proof.
  split; [|split; [|split]].
  - intros v H. unfold lf_b64_to_c. apply lf_wrap_s_8_small. lia.
  - intros v. reflexivity.
  - intros v H. unfold lf_b64_to_uc. apply lf_wrap_u_small. change (2 ^ 8)%Z with 256%Z. lia.
  - intros v. reflexivity.
Qed.

(* Pl_LZWDecoder::handleCode: the indices at which the code size grows, the code size after a clear code and the
   index at which the table is full are the constants the model's lzw step (Filters.v, lzw_handle_code) is written with *)
Lemma lzw_constants_src_lemma :
  (forall change : N, ((change =? 511) || (change =? 1023) || (change =? 2047)) =
                      existsb (fun t => (Z.of_N change =? t)%Z) lf_lzw_thresholds) /\
  lf_lzw_initial_code_size = 9%Z /\ lf_lzw_table_full = 4096%Z.
Proof.
  split; [|split; reflexivity].
  intros change. unfold lf_lzw_thresholds. cbn [existsb].
  destruct (N.eqb_spec change 511); destruct (N.eqb_spec change 1023); destruct (N.eqb_spec change 2047);
    destruct (Z.eqb_spec (Z.of_N change) 511); destruct (Z.eqb_spec (Z.of_N change) 1023);
    destruct (Z.eqb_spec (Z.of_N change) 2047); try reflexivity; lia.
Qed.
