(* C16: the list of content streams of a page (arrayOrStreamToStreamArray / pipeContentStreams / coalesceContentStreams /
   filterPageContents, Struct/ContentList.v) against the meaning of /Contents (ISO 32000-1 Table 30, Struct/ContentListSpec.v). *)
From QV Require Import Base.Bytes Lex.TokModel Struct.ContentNorm Struct.ContentSem Struct.ContentRel Struct.ContentObj Struct.ContentList Struct.ContentListSpec Struct.C16ProofsC Struct.C16Proofs.
Local Open Scope N_scope.

Lemma c16h_object_lookup : forall st n, c16s_object st n = c16_lookup st n.
Proof.
  unfold c16s_object. induction st as [|[k o] r IH]; intros n; [reflexivity|].
  cbn [find fst c16_lookup]. destruct (k =? n); [reflexivity|apply IH].
Qed.

Lemma c16h_stream_of_kind : forall st it d,
  c16s_stream_of st it = Some d -> exists n, it = CvRef n /\ c16_kind_of st it = CkStream n d.
Proof.
  intros st it d H. destruct it as [n|items| |]; try discriminate. exists n. split; [reflexivity|].
  cbn in H |- *. rewrite c16h_object_lookup in H. destruct (c16_lookup st n) as [[d'|?| |]|]; try discriminate.
  injection H as ->. reflexivity.
Qed.

Lemma c16h_kind_stream_of : forall st it n d,
  c16_kind_of st it = CkStream n d -> it = CvRef n /\ c16s_stream_of st it = Some d.
Proof.
  intros st it n d H. destruct it as [m|items| |]; try discriminate. cbn in H |- *. rewrite c16h_object_lookup.
  destruct (c16_lookup st m) as [[d'|?| |]|]; try discriminate. injection H as -> ->. split; reflexivity.
Qed.

Lemma c16h_is_stream_kind : forall st it,
  c16s_is_stream st it = true <-> exists n d, c16_kind_of st it = CkStream n d.
Proof.
  intros st it. unfold c16s_is_stream. split.
  - destruct (c16s_stream_of st it) as [d|] eqn:E; [|discriminate]. intros _.
    destruct (c16h_stream_of_kind _ _ _ E) as (n & _ & K). eauto.
  - intros (n & d & K). destruct (c16h_kind_stream_of _ _ _ _ K) as (_ & ->). reflexivity.
Qed.

(* the array loop on an array whose elements all designate streams: one result entry per element, no warning *)
Lemma c16h_array_items_all : forall st items tss,
  c16s_concat_sem st items = Some tss ->
  forall i, exists ds tsl,
    c16_array_items st items i = (ds, []) /\ length ds = length items /\
    Forall2 (fun s ts => c16_sem s = Some ts) (map snd ds) tsl /\ tss = concat tsl.
Proof.
  induction items as [|it r IH]; intros tss H i.
  - injection H as <-. exists [], []. cbn. repeat split; constructor.
  - cbn [c16s_concat_sem] in H. destruct (c16s_stream_of st it) as [d|] eqn:Es; [|discriminate].
    destruct (c16_sem d) as [a|] eqn:Ea; [|discriminate].
    destruct (c16s_concat_sem st r) as [b|] eqn:Eb; [|discriminate]. injection H as <-.
    destruct (IH b eq_refl (i + 1)) as (ds & tsl & A & L & F & C).
    destruct (c16h_stream_of_kind _ _ _ Es) as (n & _ & K).
    exists ((n, d) :: ds), (a :: tsl). cbn [c16_array_items]. rewrite A, K. cbn [map snd concat length].
    repeat split; [congruence|constructor; assumption|congruence].
Qed.

(* coalesce_with_repeats (DESIGN C16, ISO 32000-1 Table 30).  Whatever the /Contents entry of a page looks like - a
   stream, a direct or an indirect array, absent - and whichever objects its array lists, IN PARTICULAR THE SAME STREAM
   OBJECT SEVERAL TIMES (adjacent or not; nothing is assumed about the object numbers): if the standard gives the page a
   reading ts (every element a stream, every stream reads on its own; an object listed k times contributes k times), then
   what pipePageContents / the CoalesceProvider / filterPageContents hand on reads as exactly ts, and
   arrayOrStreamToStreamArray raises no warning.  For all object tables and all /Contents values. *)
Lemma coalesce_with_repeats_lemma : forall st v ts,
  c16_spec_page st v = Some ts ->
  c16_sem (c16_page_content st v) = Some ts /\ c16_page_warnings st v = [].
Proof.
  intros st v ts H. unfold c16_page_content, c16_page_warnings, c16_stream_array.
  assert (Harr : forall items, c16s_concat_sem st items = Some ts ->
            c16_sem (c16_coalesce (map snd (fst (c16_array_items st items 0)))) = Some ts /\ snd (c16_array_items st items 0) = []).
  { intros items Hc. destruct (c16h_array_items_all _ _ _ Hc 0) as (ds & tsl & A & _ & F & ->). rewrite A. cbn [fst snd].
    split; [apply coalesce_tokens_lemma; exact F|reflexivity]. }
  destruct v as [n|items| |]; cbn [c16_spec_page] in H; cbn [c16_kind_of].
  - rewrite c16h_object_lookup in H. destruct (c16_lookup st n) as [[d|items| |]|].
    + cbn [fst snd map]. rewrite coalesce_single_lemma. split; [exact H|reflexivity].
    + apply Harr, H.
    + injection H as <-. split; reflexivity.
    + discriminate.
    + injection H as <-. split; reflexivity.
  - apply Harr, H.
  - injection H as <-. split; reflexivity.
  - discriminate.
Qed.

(* the same in list form: an array of references rs (any list of object numbers, repetitions allowed) whose objects
   are streams with data dss reading as tss: the list qpdf works on IS rs - same length, same order, same
   multiplicities - and the coalesced content reads as the concatenation over the list. *)
Lemma coalesce_with_repeats_list_lemma : forall st rs dss tss,
  Forall2 (fun r d => c16_lookup st r = Some (CoStream d)) rs dss ->
  Forall2 (fun d ts => c16_sem d = Some ts) dss tss ->
  c16_page_streams st (CvArr (map CvRef rs)) = rs /\
  c16_page_content st (CvArr (map CvRef rs)) = c16_coalesce dss /\
  c16_sem (c16_page_content st (CvArr (map CvRef rs))) = Some (concat tss) /\
  c16_page_warnings st (CvArr (map CvRef rs)) = [].
Proof.
  intros st rs dss tss H1 H2.
  assert (A : forall i, c16_array_items st (map CvRef rs) i = (combine rs dss, [])).
  { clear H2. induction H1 as [|r d rs dss Hr _ IH]; intros i; [reflexivity|].
    cbn [map c16_array_items c16_kind_of combine]. rewrite IH, Hr. reflexivity. }
  assert (L : length rs = length dss) by (clear -H1; induction H1; cbn; congruence).
  unfold c16_page_streams, c16_page_content, c16_page_warnings, c16_stream_array. cbn [c16_kind_of]. rewrite A. cbn [fst snd].
  assert (M1 : map fst (combine rs dss) = rs).
  { clear -L. revert dss L. induction rs as [|r rs IH]; intros [|d dss] L; try discriminate; [reflexivity|]. cbn. f_equal. apply IH. cbn in L. congruence. }
  assert (M2 : map snd (combine rs dss) = dss).
  { clear -L. revert dss L. induction rs as [|r rs IH]; intros [|d dss] L; try discriminate; [reflexivity|]. cbn. f_equal. apply IH. cbn in L. congruence. }
  rewrite M1, M2. repeat split. apply coalesce_tokens_lemma, H2.
Qed.

(* multiplicity: an object number occurs in the list qpdf works on as often as in the array *)
Lemma page_streams_multiplicity_lemma : forall st rs dss r,
  Forall2 (fun r d => c16_lookup st r = Some (CoStream d)) rs dss ->
  count_occ N.eq_dec (c16_page_streams st (CvArr (map CvRef rs))) r = count_occ N.eq_dec rs r.
Proof.
  intros st rs dss r H.
  assert (A : forall i, c16_array_items st (map CvRef rs) i = (combine rs dss, [])).
  { induction H as [|r0 d rs dss Hr _ IH]; intros i; [reflexivity|].
    cbn [map c16_array_items c16_kind_of combine]. rewrite IH, Hr. reflexivity. }
  assert (L : length rs = length dss) by (clear -H; induction H; cbn; congruence).
  unfold c16_page_streams, c16_stream_array. cbn [c16_kind_of]. rewrite A. cbn [fst].
  f_equal. clear -L. revert dss L. induction rs as [|x rs IH]; intros [|d dss] L; try discriminate; [reflexivity|]. cbn. f_equal. apply IH. cbn in L. congruence.
Qed.

(* the smallest instance, spelt out: /Contents [r r] draws the stream twice *)
Lemma repeated_stream_twice_lemma : forall st r d ts,
  c16_lookup st r = Some (CoStream d) -> c16_sem d = Some ts ->
  c16_page_streams st (CvArr [CvRef r; CvRef r]) = [r; r] /\
  c16_sem (c16_page_content st (CvArr [CvRef r; CvRef r])) = Some (ts ++ ts).
Proof.
  intros st r d ts Hl Hs.
  destruct (coalesce_with_repeats_list_lemma st [r; r] [d; d] [ts; ts]) as (A & _ & C & _).
  - repeat constructor; exact Hl.
  - repeat constructor; exact Hs.
  - cbn [map concat] in A, C. rewrite app_nil_r in C. split; assumption.
Qed.

(* no array element is dropped silently: every element is either in the list of streams or warned about *)
Lemma array_entry_used_or_warned_lemma : forall st items,
  (length (c16_page_streams st (CvArr items)) + length (c16_page_warnings st (CvArr items)) = length items)%nat.
Proof.
  intros st items. unfold c16_page_streams, c16_page_warnings, c16_stream_array. cbn [c16_kind_of].
  generalize 0. induction items as [|it r IH]; intros i; [reflexivity|].
  cbn [c16_array_items]. specialize (IH (i + 1)). destruct (c16_array_items st r (i + 1)) as [res ws].
  cbn [fst snd] in IH. destruct (c16_kind_of st it); cbn [fst snd map length]; rewrite ?map_length in *; lia.
Qed.

(* a /Contents value the standard does not allow (an element that is not a stream, a value that is neither a stream nor
   an array) is reported, a value it allows is processed silently *)
Lemma contents_wf_iff_silent_lemma : forall st v,
  c16_spec_contents_wf st v = true <-> c16_page_warnings st v = [].
Proof.
  intros st v. unfold c16_page_warnings, c16_stream_array.
  assert (Harr : forall items i, forallb (c16s_is_stream st) items = true <-> snd (c16_array_items st items i) = []).
  { induction items as [|it r IH]; intros i; [split; reflexivity|].
    cbn [forallb c16_array_items]. specialize (IH (i + 1)). destruct (c16_array_items st r (i + 1)) as [res ws]. cbn [snd] in IH.
    rewrite Bool.andb_true_iff, IH, c16h_is_stream_kind. split.
    - intros ((n & d & ->) & ->). reflexivity.
    - destruct (c16_kind_of st it) as [n d| | | |]; cbn [snd]; try discriminate. intros ->. split; [eauto|reflexivity]. }
  destruct v as [n|items| |]; cbn [c16_spec_contents_wf c16_kind_of].
  - rewrite c16h_object_lookup. destruct (c16_lookup st n) as [[d|items| |]|]; cbn [snd];
      [split; reflexivity|apply Harr|split; reflexivity|split; discriminate|split; reflexivity].
  - apply Harr.
  - split; reflexivity.
  - split; discriminate.
Qed.

(* /Contents may be an indirect array: the same list as for the array written in place *)
Lemma indirect_array_same_lemma : forall st n items,
  c16_lookup st n = Some (CoArr items) ->
  c16_stream_array st (CvRef n) = c16_stream_array st (CvArr items).
Proof. intros st n items H. unfold c16_stream_array. cbn [c16_kind_of]. rewrite H. reflexivity. Qed.

(* --coalesce-contents: the stream that replaces an array reads as the page did *)
Lemma coalesce_contents_tokens_lemma : forall st v d ts,
  c16_coalesce_contents st v = Some d -> c16_spec_page st v = Some ts -> c16_sem d = Some ts.
Proof.
  intros st v d ts Hc Hs. unfold c16_coalesce_contents in Hc. destruct (c16_kind_of st v); try discriminate.
  injection Hc as <-. apply (coalesce_with_repeats_lemma _ _ _ Hs).
Qed.

(* ... and a page whose /Contents is already a single stream, or absent, is left alone *)
Lemma coalesce_contents_only_arrays_lemma : forall st v,
  c16_coalesce_contents st v = None <-> (forall items, c16_kind_of st v <> CkArr items).
Proof.
  intros st v. unfold c16_coalesce_contents. destruct (c16_kind_of st v); split; intros H; try reflexivity; try discriminate; try (intros items; discriminate).
  exfalso. apply (H items). reflexivity.
Qed.

(* filterPageContents(ContentNormalizer) on the whole page (what --coalesce-contents with --qdf / --normalize-content
   writes): inside the hypotheses of normalize_preserves_tokens_partial the page still reads as ts, without a warning *)
Lemma page_filter_preserves_tokens_lemma : forall st v ts,
  c16_spec_page st v = Some ts -> c16_clean (c16_page_content st v) = true ->
  c16_sem (fst (fst (c16_page_filter st v))) = Some ts /\ c16_warnings (c16_page_content st v) = [] /\ c16_page_warnings st v = [].
Proof.
  intros st v ts Hs Hc. destruct (coalesce_with_repeats_lemma _ _ _ Hs) as (A & B).
  destruct (normalize_preserves_tokens_partial_lemma _ _ Hc A) as (C & D).
  split; [exact C|]. split; assumption.
Qed.

(* addPageContents keeps the page's list (with its repetitions) and puts the new stream at the requested end *)
Lemma add_page_contents_keeps_list_lemma : forall st v first fresh,
  c16_add_page_contents st v first fresh =
    (if first then [fresh] else []) ++ c16_page_streams st v ++ (if first then [] else [fresh]).
Proof. intros st v [|] fresh; unfold c16_add_page_contents; cbn [app]; [rewrite app_nil_r|]; reflexivity. Qed.

(* ... and the page then reads as before with the new stream's tokens in front of / behind it *)
Lemma add_page_contents_tokens_lemma : forall st v ts first newdata nts,
  c16_spec_page st v = Some ts -> c16_sem newdata = Some nts ->
  c16_sem (c16_add_page_content st v first newdata) = Some (if first then nts ++ ts else ts ++ nts).
Proof.
  intros st v ts first newdata nts Hs Hn. unfold c16_add_page_content.
  assert (H : exists tsl, Forall2 (fun s t => c16_sem s = Some t) (map snd (fst (c16_stream_array st v))) tsl /\ ts = concat tsl).
  { unfold c16_stream_array.
    assert (Harr : forall items, c16s_concat_sem st items = Some ts ->
              exists tsl, Forall2 (fun s t => c16_sem s = Some t) (map snd (fst (c16_array_items st items 0))) tsl /\ ts = concat tsl).
    { intros items Hc. destruct (c16h_array_items_all _ _ _ Hc 0) as (ds & tsl & A & _ & F & ->). rewrite A. exists tsl. split; [exact F|reflexivity]. }
    destruct v as [n|items| |]; cbn [c16_spec_page] in Hs; cbn [c16_kind_of].
    - rewrite c16h_object_lookup in Hs. destruct (c16_lookup st n) as [[d|items| |]|].
      + exists [ts]. cbn. rewrite app_nil_r. split; [repeat constructor; exact Hs|reflexivity].
      + apply Harr, Hs.
      + injection Hs as <-. exists []. split; constructor.
      + discriminate.
      + injection Hs as <-. exists []. split; constructor.
    - apply Harr, Hs.
    - injection Hs as <-. exists []. split; constructor.
    - discriminate. }
  destruct H as (tsl & F & ->). destruct first.
  - change (nts ++ concat tsl) with (concat (nts :: tsl)). apply coalesce_tokens_lemma. constructor; assumption.
  - replace (concat tsl ++ nts) with (concat (tsl ++ [nts])) by (rewrite concat_app; cbn; rewrite app_nil_r; reflexivity).
    apply coalesce_tokens_lemma. apply Forall2_app; [exact F|repeat constructor; exact Hn].
Qed.
