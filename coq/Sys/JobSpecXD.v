(* C19 - specification: the second command-line spelling of --encrypt (manual/cli.rst, "Encryption":
        --encrypt [--user-password=user-password] [--owner-password=owner-password] --bits=key-length [options] --
   "the older syntax --encrypt user-password owner-password key-length [options] -- is also supported").  The job, its denotation and
   its job JSON are those of Sys/JobSpec.v / Sys/JobSpecX.v; only the words differ.  No proofs here. *)
From Coq Require Import String.
From Coq Require Import List NArith Bool.
From QV Require Import Base.Bytes Sys.JobTypes Sys.JobTableSpec Sys.JobSpec Sys.JobPagesSpec Sys.JobSpecX.
Import ListNotations.
Open Scope N_scope.

Definition xd_enc_argv (u o bits : bstr) (l : list (aentry * bstr)) : list bstr :=
  B"--encrypt" :: (B"--user-password=" ++ u) :: (B"--owner-password=" ++ o) :: (B"--bits=" ++ bits) ::
  map (fun p => word_of (fst p) (snd p)) l ++ [B"--"].

Definition xd_argv_of_item (named : bool) (it : xj_item) : list bstr :=
  match it with
  | XjBase (IEncrypt u o bits l) => xd_enc_argv u o bits l
  | _ => xj_argv_of_item named it
  end.
Definition xd_render_argv (named : bool) (j : list xj_item) : list bstr := flat_map (xd_argv_of_item named) j.

(* ---- the password options are optional ("[--user-password=user-password] [--owner-password=owner-password]"): a password option
   that is left out stands for the empty password *)
Definition xd_pw_word (flag v : bstr) : list bstr :=
  match v with [] => [] | _ => [B"--" ++ flag ++ 61 :: v] end.

Definition xo_enc_argv (u o bits : bstr) (l : list (aentry * bstr)) : list bstr :=
  B"--encrypt" :: xd_pw_word B"user-password" u ++ xd_pw_word B"owner-password" o ++
  (B"--bits=" ++ bits) :: map (fun p => word_of (fst p) (snd p)) l ++ [B"--"].

Definition xo_argv_of_item (named : bool) (it : xj_item) : list bstr :=
  match it with
  | XjBase (IEncrypt u o bits l) => xo_enc_argv u o bits l
  | _ => xj_argv_of_item named it
  end.
Definition xo_render_argv (named : bool) (j : list xj_item) : list bstr := flat_map (xo_argv_of_item named) j.

(* the number of encryption requests of a job (job JSON has one key "encrypt") *)
Fixpoint xo_count_enc (j : list xj_item) : nat :=
  match j with
  | [] => O
  | XjBase (IEncrypt _ _ _ _) :: r => S (xo_count_enc r)
  | _ :: r => xo_count_enc r
  end.
