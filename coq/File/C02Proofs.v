(* Proofs for C02: the arithmetic of the writer against the strict reader's decoding functions
   (File/ReadStrict.v: xref_entry, be_value) and the PDF rules. Statements are fixed. *)
From QV Require Import Base.Bytes File.StrictSyntax File.ReadStrict File.WriterArith.
From Coq Require Import Lia ZifyBool ZifyNat ZifyN.
Local Open Scope N_scope.

Ltac divmod_lia := Zify.zify; Z.div_mod_to_equations; lia.

(* ---------- bytes_needed ---------- *)
Lemma bnf_zero : forall f, bytes_needed_fuel f 0 = 0.
Proof. destruct f; reflexivity. Qed.

Lemma bnf_spec : forall f n, n < 256 ^ N.of_nat f ->
  n < 256 ^ bytes_needed_fuel (S f) n /\ (0 < n -> 256 ^ (bytes_needed_fuel (S f) n - 1) <= n).
Proof.
  induction f as [|f IH]; intros n Hn.
  - change (256 ^ N.of_nat 0) with 1 in Hn. assert (n = 0) by lia. subst n.
    cbn. split; [reflexivity | intros H; inversion H].
  - rewrite Nat2N.inj_succ, N.pow_succ_r' in Hn.
    change (bytes_needed_fuel (S (S f)) n) with (if n =? 0 then 0 else 1 + bytes_needed_fuel (S f) (n / 256)).
    destruct (n =? 0) eqn:En.
    + apply N.eqb_eq in En. subst n. split; [reflexivity | intros H; inversion H].
    + apply N.eqb_neq in En.
      assert (Hq : n / 256 < 256 ^ N.of_nat f).
      { apply N.div_lt_upper_bound; lia. }
      specialize (IH _ Hq). destruct IH as [IH1 IH2].
      set (b := bytes_needed_fuel (S f) (n / 256)) in *.
      split.
      * replace (1 + b) with (N.succ b) by lia. rewrite N.pow_succ_r'.
        assert (n < 256 * (n / 256 + 1)) by divmod_lia.
        assert (256 * (n / 256 + 1) <= 256 * 256 ^ b) by (apply N.mul_le_mono_l; lia).
        lia.
      * intros _. replace (1 + b - 1) with b by lia.
        destruct (N.eq_dec (n / 256) 0) as [Ez|Ez].
        -- unfold b. rewrite Ez, bnf_zero. cbn. lia.
        -- assert (Hb : 0 < b).
           { unfold b. cbn [bytes_needed_fuel]. apply N.eqb_neq in Ez. rewrite Ez. lia. }
           assert (H1 : 256 ^ (b - 1) <= n / 256) by (apply IH2; lia).
           replace b with (N.succ (b - 1)) by lia. rewrite N.pow_succ_r'.
           assert (256 * (n / 256) <= n) by (apply N.mul_div_le; lia).
           assert (256 * 256 ^ (b - 1) <= 256 * (n / 256)) by (apply N.mul_le_mono_l; exact H1).
           lia.
Qed.

(* bytesNeeded(n) is the least number of bytes that hold n: crossing 2^8, 2^16, 2^24 ... for every n *)
Lemma bytes_needed_spec_lemma : forall n, n < 2 ^ 63 ->
  n < 256 ^ bytes_needed n /\ (0 < n -> 256 ^ (bytes_needed n - 1) <= n).
Proof.
  intros n Hn. unfold bytes_needed. apply (bnf_spec 8).
  change (256 ^ N.of_nat 8) with (2 ^ 64).
  assert (2 ^ 63 < 2 ^ 64) by (vm_compute; reflexivity). lia.
Qed.

Lemma bytes_needed_mono_lemma : forall a b, a <= b -> b < 2 ^ 63 -> bytes_needed a <= bytes_needed b.
Proof.
  intros a b Hab Hb.
  destruct (N.eq_dec a 0) as [Ea|Ea].
  - subst a. unfold bytes_needed. rewrite bnf_zero. lia.
  - assert (Ha : a < 2 ^ 63) by lia.
    destruct (bytes_needed_spec_lemma a Ha) as [_ HA].
    destruct (bytes_needed_spec_lemma b Hb) as [HB _].
    assert (HA' : 256 ^ (bytes_needed a - 1) <= a) by (apply HA; lia).
    assert (Hlt : 256 ^ (bytes_needed a - 1) < 256 ^ bytes_needed b) by lia.
    apply N.pow_lt_mono_r_iff in Hlt; lia.
Qed.

(* ---------- write_binary ---------- *)
Lemma be_value_unfold : forall l, be_value l = fold_left (fun acc b => acc * 256 + b) l 0.
Proof. destruct l; reflexivity. Qed.

Fixpoint le_value (l : list N) : N :=
  match l with [] => 0 | b :: t => b + 256 * le_value t end.

Lemma be_value_rev : forall l, be_value (rev l) = le_value l.
Proof.
  intros l. rewrite be_value_unfold.
  induction l as [|b t IH]; [reflexivity|].
  cbn [rev le_value]. rewrite fold_left_app, IH. cbn [fold_left]. lia.
Qed.

Lemma le_value_wbr : forall w v, v < 256 ^ N.of_nat w -> le_value (write_binary_rev w v) = v.
Proof.
  induction w as [|w IH]; intros v Hv.
  - change (256 ^ N.of_nat 0) with 1 in Hv. cbn. lia.
  - rewrite Nat2N.inj_succ, N.pow_succ_r' in Hv.
    cbn [write_binary_rev le_value]. rewrite IH.
    + divmod_lia.
    + apply N.div_lt_upper_bound; lia.
Qed.

Lemma wbr_length : forall w v, length (write_binary_rev w v) = w.
Proof. induction w as [|w IH]; intros v; cbn [write_binary_rev length]; [reflexivity | rewrite IH; reflexivity]. Qed.

Lemma wbr_bytes : forall w v, Forall (fun b => b < 256) (write_binary_rev w v).
Proof.
  induction w as [|w IH]; intros v; cbn [write_binary_rev]; constructor.
  - apply N.mod_lt. lia.
  - apply IH.
Qed.

(* a field written with writeBinary is read back by the strict reader's big-endian decoder *)
Lemma write_binary_read_lemma : forall v w, v < 256 ^ N.of_nat w ->
  be_value (write_binary v w) = v /\ length (write_binary v w) = w /\ Forall (fun b => b < 256) (write_binary v w).
Proof.
  intros v w Hv. unfold write_binary. rewrite rev'_rev. repeat split.
  - rewrite be_value_rev. apply le_value_wbr. exact Hv.
  - rewrite rev_length. apply wbr_length.
  - apply Forall_rev. apply wbr_bytes.
Qed.

(* hence every offset up to max_offset + hint_length and every id up to max_id fits its field *)
Lemma f1_size_adequate_lemma : forall max_offset hint max_id v,
  max_offset + hint < 2 ^ 63 -> max_id < 2 ^ 63 ->
  (v <= max_offset + hint \/ v <= max_id) ->
  be_value (write_binary v (N.to_nat (f1_size max_offset hint max_id))) = v.
Proof.
  intros mo hint mid v H1 H2 Hv.
  apply write_binary_read_lemma. rewrite N2Nat.id. unfold f1_size.
  set (x := bytes_needed (mo + hint)). set (y := bytes_needed mid).
  assert (Hx : 256 ^ x <= 256 ^ N.max x y) by (apply N.pow_le_mono_r; lia).
  assert (Hy : 256 ^ y <= 256 ^ N.max x y) by (apply N.pow_le_mono_r; lia).
  destruct Hv as [Hv|Hv].
  - assert (Hv' : v < 2 ^ 63) by lia.
    destruct (bytes_needed_spec_lemma v Hv') as [Hs _].
    assert (Hm : bytes_needed v <= x) by (apply bytes_needed_mono_lemma; assumption).
    assert (256 ^ bytes_needed v <= 256 ^ x) by (apply N.pow_le_mono_r; lia). lia.
  - assert (Hv' : v < 2 ^ 63) by lia.
    destruct (bytes_needed_spec_lemma v Hv') as [Hs _].
    assert (Hm : bytes_needed v <= y) by (apply bytes_needed_mono_lemma; assumption).
    assert (256 ^ bytes_needed v <= 256 ^ y) by (apply N.pow_le_mono_r; lia). lia.
Qed.

(* ---------- decimal printing ---------- *)
Lemma ddf_acc : forall fuel n acc, dec_digits_fuel fuel n acc = dec_digits_fuel fuel n [] ++ acc.
Proof.
  induction fuel as [|f IH]; intros n acc; [reflexivity|].
  cbn [dec_digits_fuel]. cbv zeta. destruct (n / 10 =? 0) eqn:E; [reflexivity|].
  rewrite (IH _ [_]), (IH _ (_ :: acc)). rewrite <- app_assoc. reflexivity.
Qed.

Lemma dec_value_snoc : forall ds d, dec_value (ds ++ [d]) = dec_value ds * 10 + digit_val d.
Proof. intros ds d. rewrite dec_value_app. reflexivity. Qed.

Lemma ddf_value : forall fuel n, n < 2 ^ N.of_nat fuel -> dec_value (dec_digits_fuel fuel n []) = n.
Proof.
  induction fuel as [|f IH]; intros n Hn.
  - change (2 ^ N.of_nat 0) with 1 in Hn. cbn. lia.
  - rewrite Nat2N.inj_succ, N.pow_succ_r' in Hn.
    cbn [dec_digits_fuel]. cbv zeta. destruct (n / 10 =? 0) eqn:E.
    + apply N.eqb_eq in E. unfold dec_value, digit_val. cbn [fold_left]. divmod_lia.
    + apply N.eqb_neq in E. rewrite ddf_acc, dec_value_snoc, IH.
      * unfold digit_val. divmod_lia.
      * divmod_lia.
Qed.

Lemma is_digit_mod10 : forall n, is_digit (48 + n mod 10) = true.
Proof.
  intros n. unfold is_digit. assert (n mod 10 < 10) by (apply N.mod_lt; lia).
  apply andb_true_iff. split; apply N.leb_le; lia.
Qed.

Lemma ddf_digits : forall fuel n acc, all_digits acc = true -> all_digits (dec_digits_fuel fuel n acc) = true.
Proof.
  induction fuel as [|f IH]; intros n acc Hacc; [exact Hacc|].
  cbn [dec_digits_fuel]. cbv zeta.
  assert (Hc : all_digits ((48 + n mod 10) :: acc) = true).
  { cbn [all_digits]. rewrite is_digit_mod10, Hacc. reflexivity. }
  destruct (n / 10 =? 0); [exact Hc | apply IH; exact Hc].
Qed.

Lemma ddf_length_ge : forall fuel n acc, (length acc <= length (dec_digits_fuel fuel n acc))%nat.
Proof.
  induction fuel as [|f IH]; intros n acc; [cbn; lia|].
  cbn [dec_digits_fuel]. cbv zeta. destruct (n / 10 =? 0).
  - cbn [length]. lia.
  - specialize (IH (n / 10) ((48 + n mod 10) :: acc)). cbn [length] in IH. lia.
Qed.

(* the decimal printer prints the number (value read back) with no leading zero except for 0 *)
Lemma dec_of_N_value_lemma : forall n, dec_value (dec_of_N n) = n /\ all_digits (dec_of_N n) = true
  /\ (0 < length (dec_of_N n))%nat.
Proof.
  intros n. unfold dec_of_N. repeat split.
  - apply ddf_value. rewrite Nat2N.inj_succ, N2Nat.id.
    destruct (N.eq_dec n 0) as [E|E]; [subst n; reflexivity|].
    apply N.log2_spec. lia.
  - apply ddf_digits. reflexivity.
  - cbn [dec_digits_fuel]. cbv zeta. destruct (n / 10 =? 0).
    + cbn [length]. lia.
    + pose proof (ddf_length_ge (N.to_nat (N.log2 n)) (n / 10) [48 + n mod 10]) as H.
      cbn [length] in H. lia.
Qed.

(* ---------- xref line ---------- *)
Lemma ddf_length_le : forall fuel n k, n < 10 ^ N.of_nat (S k) ->
  (length (dec_digits_fuel fuel n []) <= S k)%nat.
Proof.
  induction fuel as [|f IH]; intros n k Hn; [cbn; lia|].
  cbn [dec_digits_fuel]. cbv zeta. destruct (n / 10 =? 0) eqn:E; [cbn [length]; lia|].
  apply N.eqb_neq in E. rewrite ddf_acc, app_length. cbn [length].
  rewrite Nat2N.inj_succ, N.pow_succ_r' in Hn.
  destruct k as [|k].
  - change (10 ^ N.of_nat 0) with 1 in Hn. exfalso. apply E. divmod_lia.
  - assert (Hq : n / 10 < 10 ^ N.of_nat (S k)) by (apply N.div_lt_upper_bound; lia).
    specialize (IH _ _ Hq). lia.
Qed.

Lemma all_digits_app : forall a b, all_digits (a ++ b) = all_digits a && all_digits b.
Proof.
  induction a as [|x a IH]; intros b; [reflexivity|].
  cbn [app all_digits]. rewrite IH, andb_assoc. reflexivity.
Qed.

Lemma all_digits_zeros : forall k, all_digits (repeat 48 k) = true.
Proof. induction k as [|k IH]; [reflexivity|]. cbn [repeat all_digits]. rewrite IH. reflexivity. Qed.

Lemma dec_value_zeros : forall k, dec_value (repeat 48 k) = 0.
Proof.
  induction k as [|k IH]; [reflexivity|].
  change (repeat 48 (S k)) with ([48] ++ repeat 48 k). rewrite dec_value_app.
  change (dec_value [48]) with 0. exact IH.
Qed.

Lemma pad_props : forall off, off < 10 ^ 10 ->
  length (int_to_string_pad off 10) = 10%nat /\
  all_digits (int_to_string_pad off 10) = true /\
  dec_value (int_to_string_pad off 10) = off.
Proof.
  intros off Hoff. unfold int_to_string_pad. cbv zeta.
  destruct (dec_of_N_value_lemma off) as [Hv [Hd _]].
  assert (Hl : (length (dec_of_N off) <= 10)%nat).
  { unfold dec_of_N. apply ddf_length_le. exact Hoff. }
  repeat split.
  - rewrite app_length, repeat_length. lia.
  - rewrite all_digits_app, all_digits_zeros, Hd. reflexivity.
  - rewrite dec_value_app, dec_value_zeros. exact Hv.
Qed.

Lemma xref_entry_inuse : forall o rest, length o = 10%nat -> all_digits o = true ->
  xref_entry ((o ++ [32; 48; 48; 48; 48; 48; 32; 110; 32; 10]) ++ rest) = Some (XInUse (dec_value o) 0, rest).
Proof.
  intros o rest Hl Hd.
  destruct o as [|d0 [|d1 [|d2 [|d3 [|d4 [|d5 [|d6 [|d7 [|d8 [|d9 [|d10 o]]]]]]]]]]]; try discriminate Hl.
  unfold xref_entry. cbn [app take_n]. cbn [firstn skipn nth].
  rewrite Hd. reflexivity.
Qed.

(* a classic xref line for an offset below 10^10 is exactly 20 bytes and the strict reader reads
   it as an in-use entry pointing at that offset, generation 0 *)
Lemma xref_line_read_lemma : forall off rest, off < 10 ^ 10 ->
  length (xref_line off) = 20%nat /\
  xref_entry (xref_line off ++ rest) = Some (XInUse off 0, rest).
Proof.
  intros off rest Hoff. destruct (pad_props off Hoff) as [Hl [Hd Hv]].
  unfold xref_line. split.
  - rewrite app_length, Hl. reflexivity.
  - rewrite xref_entry_inuse by assumption. rewrite Hv. reflexivity.
Qed.

(* object streams never exceed 100 members and hold everything *)
Lemma ostream_le_100_lemma : forall k, 0 < k ->
  n_per_stream k <= 100 /\ k <= n_per_stream k * n_object_streams k /\ 0 < n_per_stream k.
Proof.
  intros k Hk. unfold n_per_stream. set (n := n_object_streams k).
  assert (Hn1 : 1 <= n) by (unfold n, n_object_streams; divmod_lia).
  assert (Hn2 : k <= 100 * n) by (unfold n, n_object_streams; divmod_lia).
  destruct (n =? 0) eqn:En; [apply N.eqb_eq in En; lia|].
  set (p := k / n).
  assert (Hp1 : n * p <= k) by (apply N.mul_div_le; lia).
  assert (Hp2 : k < n * N.succ p) by (apply N.mul_succ_div_gt; lia).
  assert (Hp3 : p <= 100).
  { unfold p. apply N.div_le_upper_bound; lia. }
  destruct (p * n <? k) eqn:Elt.
  - apply N.ltb_lt in Elt. repeat split.
    + assert (p * n < 100 * n) by lia.
      assert (p < 100) by (apply N.mul_lt_mono_pos_r with (p := n); lia). lia.
    + lia.
    + lia.
  - apply N.ltb_ge in Elt. repeat split.
    + exact Hp3.
    + lia.
    + destruct (N.eq_dec p 0) as [E|E]; [|lia]. rewrite E in Elt. lia.
Qed.

(* AES-CBC with PDF padding: 16-byte IV + data padded to the next multiple of 16 (a full block when
   already a multiple) *)
Lemma aes_length_lemma : forall n, adjust_aes_length n = 16 + 16 * (n / 16 + 1).
Proof.
  intros n. unfold adjust_aes_length.
  change 15 with (N.ones 4). rewrite N.land_ones. change (2 ^ 4) with 16.
  divmod_lia.
Qed.
