(* handlers: Obj/ models (object queue) *)
open Qvmodel
open Runner

let () =
  (* queue <id:c1,c2;id:...> <r1,r2,...>  ->  written ids, then id=number pairs *)
  register "queue" (fun args -> match args with
    | [g; roots] ->
      let graph = if g = "-" then [] else
          List.map (fun item -> match String.split_on_char ':' item with
              | [k; cs] -> (n_of_int (int_of_string k), List.map n_of_int (ints_of (if cs = "" then "-" else cs)))
              | [k] -> (n_of_int (int_of_string k), [])
              | _ -> failwith "graph") (String.split_on_char ';' g) in
      let rs = List.map n_of_int (ints_of roots) in
      let w = written graph rs in
      nlist w ^ " " ^ String.concat "," (List.map (fun x ->
          match renumber graph rs x with Some v -> Printf.sprintf "%d=%d" (int_of_n x) (int_of_n v) | None -> "") w)
    | _ -> "?args")
