#!/usr/bin/env python3
# lists forbidden constructs (Axiom, Parameter, Admitted, admit, disabled kernel checks, native_compute, extraction
# directives outside Extract.v, Variable/Hypothesis outside a section) in the Coq development; exit 1 if any
import os, sys
sys.path.insert(0, os.path.join(os.path.dirname(os.path.dirname(os.path.abspath(__file__))), "harness"))
import common
h = common.audit_coq()
print("\n".join(h) if h else "audit clean: %d files" % len(common.coq_files()))
sys.exit(1 if h else 0)
