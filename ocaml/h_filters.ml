(* handlers: Filters/ models *)
open Qvmodel
open Runner

let chunks_of (s : string) : n list list =
  if s = "_" then [] else List.map unhexbytes (String.split_on_char ',' s)

let fres ((o, e) : n list * bool) : string = hexbytes o ^ " " ^ (if e then "1" else "0")

let () =
  register "filt" (fun args -> match args with
    | [name; ps; cs] ->
      let p = Array.of_list (List.map n_of_int (ints_of ps)) in
      let chunks = chunks_of cs in
      (match name with
       | "ahx" -> fres (ahx_run chunks)
       | "a85" -> fres (a85_run chunks)
       | "rle" -> fres (rle_run chunks)
       | "rld" -> fres (rld_run chunks)
       | "pngd" | "pnge" ->
         (match png_make p.(0) p.(1) p.(2) with
          | None -> "- ctor"
          | Some pp -> fres (png_run (name = "pnge") pp chunks, false))
       | "tiffd" | "tiffe" ->
         (match tiff_make p.(0) p.(1) p.(2) with
          | None -> "- ctor"
          | Some pp -> fres (tiff_run (name = "tiffe") pp chunks))
       | "b64d" -> fres (b64_decode chunks)
       | "b64e" -> fres (b64_encode_run chunks)
       | "lzw" -> fres (lzw_run (p.(0) <> N0) chunks)
       | _ -> "?unknown-filter")
    | _ -> "?args");
  register "rc4" (fun args -> match args with
    | [k; d] -> hexbytes (rc4 (unhexbytes k) (unhexbytes d))
    | _ -> "?args")

(* reference codecs (FilterSpec.v / LzwSpec.v) *)
let rec chunk_rows (bpr : int) (d : n list) : n list list =
  if d = [] then [] else
  let rec take k l acc = if k = 0 then (List.rev acc, l) else match l with [] -> (List.rev acc, []) | x :: t -> take (k-1) t (x :: acc) in
  let (r, rest) = take bpr d [] in r :: chunk_rows bpr rest

let () =
  register "ref" (fun args -> match args with
    | name :: ps :: data :: rest ->
      let p = Array.of_list (List.map n_of_int (ints_of ps)) in
      let d = unhexbytes data in
      (match name with
       | "ahx_enc" ->
         (* style: rest = list of "l|u" flags cycled, with fixed white-space pattern chosen by the caller as hex,hex *)
         let style = match rest with
           | [st] -> List.map (fun item -> match String.split_on_char '/' item with
               | [l; w1; w2] -> ((l = "l", unhexbytes w1), unhexbytes w2)
               | _ -> ((false, []), [])) (String.split_on_char ',' st)
           | _ -> [] in
         hexbytes (ref_ahx_encode d style)
       | "a85_enc" -> hexbytes (ref_a85_encode d)
       | "rl_dec" -> hexbytes (ref_rl_decode d)
       | "rl_enc" -> hexbytes (ref_rl_encode d)
       | "png_enc" ->
         (match png_make p.(0) p.(1) p.(2), rest with
          | Some pp, [fts] ->
            let rows = chunk_rows (int_of_nat pp.png_bpr) d in
            let fl = List.map n_of_int (ints_of fts) in
            let rec zip a b = match a, b with x :: a', y :: b' -> (x, y) :: zip a' b' | _, _ -> [] in
            hexbytes (ref_png_encode pp (zip fl rows))
          | _ -> "?png")
       | "png_dec_up" ->
         (match png_make p.(0) p.(1) p.(2) with
          | Some pp -> hexbytes (ref_png_decode_up pp.png_bpr (nat_of_int (List.length d + 1)) d (zeros pp.png_bpr))
          | None -> "?png")
       | "tiff8_enc" ->
         (match tiff_make p.(0) p.(1) p.(2) with
          | Some tp -> hexbytes (List.concat (List.map (ref_tiff8_encode_row tp.tf_spp) (chunk_rows (int_of_nat tp.tf_bpr) d)))
          | None -> "?tiff")
       | "b64_dec" -> hexbytes (ref_b64_decode d)
       | "lzw_enc" -> hexbytes (ref_lzw_encode (p.(0) <> N0) d)
       | _ -> "?unknown-ref")
    | _ -> "?args")
