(* handlers: Sys/Guards.v (C04 guard logic).  I/O only: text <-> extracted types.
   graphs: nodes separated by ';', fields by ':', id lists by ',' ("-" = empty, "~" = absent) *)
open Qvmodel
open Runner

let ni s = n_of_int (int_of_string s)
let b01 s = (s = "1")
let sb b = if b then "1" else "0"
let nl s = if s = "-" || s = "" || s = "~" then [] else List.map ni (String.split_on_char ',' s)
let nodes s f = if s = "-" || s = "" then [] else List.map (fun t -> f (String.split_on_char ':' t)) (String.split_on_char ';' s)
let sn x = string_of_int (int_of_n x)

(* big integers as sign + binary digits, most significant first: "0", "b101", "-b11" *)
let z_of_bits (s : string) : z =
  let neg = String.length s > 0 && s.[0] = '-' in
  let s = if neg then String.sub s 1 (String.length s - 1) else s in
  if s = "0" then Z0 else begin
    let p = ref XH in
    (* s = "b1...." *)
    for i = 2 to String.length s - 1 do
      p := if s.[i] = '1' then XI !p else XO !p
    done;
    if neg then Zneg !p else Zpos !p
  end
let bits_of_z (v : z) : string =
  let rec pb p acc = match p with XH -> "1" ^ acc | XO q -> pb q ("0" ^ acc) | XI q -> pb q ("1" ^ acc) in
  match v with Z0 -> "0" | Zpos p -> "b" ^ pb p "" | Zneg p -> "-b" ^ pb p ""

let () =
  (* c4xref <start> <S:kind:bad:stm:prev:lead:gap;...>  ->  <outcome> <starts of the sections read, in order> v=<offsets read_xref was
     asked to read, in order> ws=<white-space warnings> *)
  register "c4xref" (fun a -> match a with
    | [start; ns] ->
      let g = nodes ns (function
        | [off; k; bad; stm; prev; lead; gap] ->
          (z_of_int (int_of_string off),
           { c4x_kind = (if k = "T" then C4xTable else C4xStream); c4x_bad = b01 bad;
             c4x_stm = z_of_int (int_of_string stm); c4x_prev = z_of_int (int_of_string prev);
             c4x_lead = z_of_int (int_of_string lead); c4x_gap = z_of_int (int_of_string gap) })
        | _ -> failwith "xnode") in
      let o = c4_read_xref g (z_of_int (int_of_string start)) in
      let zl l = match l with [] -> "-" | _ -> zlist (List.rev l) in
      (match o.c4xo_res with C4xOk -> "ok" | C4xLoop -> "loop" | C4xNotFound -> "notfound" | C4xDamaged -> "damaged" | C4xFuel -> "FUEL")
      ^ " " ^ zl o.c4xo_reads ^ " v=" ^ zl o.c4xo_visited ^ " ws=" ^ sn o.c4xo_ws
    | _ -> "?args");
  (* c4jimp <streams: n.g,...|-> <frame_err 0|1> <entries separated by ';'>
       entry:  o/<n>/<g>/<members separated by ','> | bad | throw/<q|u|r|l|s>
       member: r.<n>.<g> (value = reference) | d.<ok> (direct value) | s.<isdict><dict><data><datafile><suberr> | i
     -> <none|runtime|logic|other|...> refused=<n> streams=<n.g,...> *)
  register "c4jimp" (fun a -> match a with
    | [tbl; fe; es] ->
      let og s = match String.split_on_char '.' s with [n; g] -> (ni n, ni g) | _ -> failwith "og" in
      let tb = if tbl = "-" then [] else List.map og (String.split_on_char ',' tbl) in
      let exn c = (match c with "q" -> C4eQPDFExc | "u" -> C4eUsage | "r" -> C4eRuntime | "l" -> C4eLogic | _ -> C4eOtherStd) in
      let member s = match String.split_on_char '.' s with
        | ["r"; n; g] -> C4jValRef (ni n, ni g)
        | ["d"; ok] -> C4jValDirect (b01 ok)
        | ["s"; f] -> C4jStream (f.[0] = '1', f.[1] = '1', f.[2] = '1', f.[3] = '1', f.[4] = '1')
        | ["i"] -> C4jIgnored
        | _ -> failwith "jmember" in
      let entry s = match String.split_on_char '/' s with
        | ["bad"] -> C4jBadEntry
        | ["throw"; c] -> C4jThrows (exn c)
        | ["o"; n; g; ms] -> C4jObj (ni n, ni g, (if ms = "" || ms = "-" then [] else List.map member (String.split_on_char ',' ms)))
        | _ -> failwith "jentry" in
      let es' = if es = "-" then [] else List.map entry (String.split_on_char ';' es) in
      let ((x, refused), t) = c4_import_json tb (b01 fe) es' in
      (match x with C4eNone -> "none" | C4eQPDFExc -> "QPDFExc" | C4eUsage -> "usage" | C4eRuntime -> "runtime" | C4eLogic -> "logic" | C4eOtherStd -> "other")
      ^ " refused=" ^ sn refused ^ " streams="
      ^ (match t with [] -> "-" | _ -> String.concat "," (List.map (fun (n, g) -> sn n ^ "." ^ sn g) t))
    | _ -> "?args");
  (* c4png <decode> <limit> <columns> <samples_per_pixel> <bits_per_sample>  (numbers as 0 / b<binary digits>) -> err | ok bpr=<n> alloc=<n> incoming=<n> *)
  register "c4png" (fun a -> match a with
    | [dec; limit; cols; spp; bps] ->
      let zi = z_of_bits in
      (match c4_png_ctor (b01 dec) (zi limit) (zi cols) (zi spp) (zi bps) with
       | None -> "err"
       | Some p -> "ok bpr=" ^ bits_of_z p.c4png_bpr ^ " alloc=" ^ bits_of_z p.c4png_alloc ^ " incoming=" ^ bits_of_z p.c4png_incoming)
    | _ -> "?args");
  register "c4pages" (fun a -> match a with
    | [recon; root; ns] ->
      let g = nodes ns (function
        | [id; inter; karr; parent; kids] ->
          (ni id, { c4p_interior = b01 inter; c4p_karr = ni karr; c4p_kids = nl kids; c4p_parent = ni parent })
        | _ -> failwith "pnode") in
      let (r, st) = c4_pages g (b01 recon) (ni root) in
      (match r with C4pOk -> "ok" | C4pLoop -> "loop" | C4pDeep -> "deep" | C4pNoKids -> "nokids" | C4pFuel -> "FUEL")
      ^ Printf.sprintf " pages=%s copies=%s skipped=%s calls=%s maxlevel=%d" (sn st.c4ps_pages) (sn st.c4ps_copies)
          (sn st.c4ps_skipped) (sn st.c4ps_calls) (int_of_nat st.c4ps_maxlevel)
    | _ -> "?args");
  (let nn_graph ns = nodes ns (function
     | [id; items; hasitems; pick; klo; khi; kids] ->
       (ni id, { c4n_items = ni items; c4n_hasitems = b01 hasitems; c4n_kids = nl kids;
                 c4n_pick = (if pick = "-1" then None else Some (nat_of_int (int_of_string pick)));
                 c4n_klo = ni klo; c4n_khi = ni khi })
     | _ -> failwith "nnode") in
   register "c4nniter" (fun a -> match a with
     | [cap; root; ns] ->
       let g = nn_graph ns in
       let (st, fin) = c4_nn_iter (nat_of_int (int_of_string cap)) g (ni root) in
       Printf.sprintf "entries=%s leaves=%s warns=%s done=%s" (sn st.c4i_entries) (sn st.c4i_leaves) (sn st.c4i_warns) (sb fin)
     | _ -> "?args");
   register "c4nnopen" (fun a -> match a with
     | [cap; root; ns] ->
       let g = nn_graph ns in
       let we e = (match e with C4wDone -> "done" | C4wStopped -> "stopped" | C4wFuel -> "FUEL") in
       let ((v, ve), r) = c4_nn_open (nat_of_int (int_of_string cap)) g (ni root) in
       Printf.sprintf "valid=%s vleaves=%s vwarns=%s vend=%s" (sb (not v.c4v_err)) (sn v.c4v_leaves) (sn v.c4v_warns) (we ve) ^
       (match r with
        | None -> " repaired=0"
        | Some (st, e) -> Printf.sprintf " repaired=1 rleaves=%s reent=%s distinct=%s rwarns=%s gaveup=%s rend=%s" (sn st.c4rp_leaves)
                            (sn st.c4rp_reent) (sn st.c4rp_distinct) (sn st.c4rp_warns) (sb st.c4rp_gaveup) (we e))
     | _ -> "?args");
   register "c4nnfind" (fun a -> match a with
     | [root; ns] ->
       let g = nn_graph ns in
       let fuel = S (nat_of_int (List.length g)) in
       let pre = (match c4_deepen fuel g (ni root) true true [] [] with
         | C4dLeaf (_, l) -> "leaf:" ^ sn l | C4dEmpty (_, _) -> "empty"
         | C4dFail w -> (match w with C4dLoop -> "w-loop" | C4dNonDict -> "w-nondict" | C4dNeither -> "w-neither" | C4dBadKid -> "w-badkid")
         | C4dFuel -> "FUEL") in
       let (r, steps) = c4_nn_find fuel g (ni root) [] N0 in
       pre ^ " " ^ (match r with C4fLeaf l -> "leaf:" ^ sn l | C4fLoop -> "loop" | C4fBadNode -> "badnode" | C4fMinus1 -> "minus1" | C4fFuel -> "FUEL")
       ^ " steps=" ^ sn steps
     | _ -> "?args"));
  register "c4outl" (fun a -> match a with
    | [first; ns] ->
      let g = nodes ns (function
        | [id; f; nx] -> (ni id, { c4o_first = ni f; c4o_next = ni nx })
        | _ -> failwith "onode") in
      let st = c4_outlines g (ni first) in
      Printf.sprintf "made=%s warn=%s cut=%s exp=%d fuel=%s" (sn st.c4os_made) (sn st.c4os_warn) (sn st.c4os_cut)
        (List.length st.c4os_exp) (sb st.c4os_fuel_out)
    | _ -> "?args");
  register "c4acro" (fun a -> match a with
    | [fields; ns] ->
      let g = nodes ns (function
        | [id; t; ft; wid; parent; kids] ->
          (ni id, { c4f_T = b01 t; c4f_FT = b01 ft; c4f_kids = (if kids = "~" then None else Some (nl kids));
                    c4f_wid = b01 wid; c4f_parent = ni parent })
        | _ -> failwith "fnode") in
      let st = c4_acroform g (nl fields) in
      Printf.sprintf "calls=%s loop=%s two=%s parent=%s kind=%s exp=%d maxdepth=%d ann=%s" (sn st.c4fs_calls) (sn st.c4fs_wloop)
        (sn st.c4fs_wtwo) (sn st.c4fs_wparent) (sn st.c4fs_wkind) (List.length st.c4fs_exp) (int_of_nat st.c4fs_maxdepth)
        (match st.c4fs_ann with [] -> "-" | l -> String.concat "," (List.map string_of_int (List.sort_uniq compare (List.map int_of_n l))))
    | _ -> "?args");
  register "c4nest" (fun a -> match a with
    | [mx; toks] ->
      let tl = List.init (String.length toks) (fun i -> match toks.[i] with 'o' -> C4tOpen | 'c' -> C4tClose | _ -> C4tOther) in
      (match c4_nest (ni mx) tl with
       | C4nDone d -> "done " ^ sn d | C4nLimit d -> "limit " ^ sn d | C4nEof d -> "eof " ^ sn d)
    | _ -> "?args");
  register "c4bad" (fun a -> match a with
    | [limd; limn; sanity; mx; evs] ->
      let el = nodes evs (function
        | [bad; sc; ol; di; arr] -> { c4e_bad = b01 bad; c4e_scalar = b01 sc; c4e_olist = ni ol; c4e_dict = ni di; c4e_in_array = b01 arr }
        | _ -> failwith "bev") in
      let (r, nbad) = c4_bad_run (ni limd) (ni limn) (b01 sanity) el { c4b_max = ni mx; c4b_good = Z0; c4b_bad = Z0 } N0 in
      (match r with
       | C4bGoOn s -> Printf.sprintf "goon max=%s good=%d bad=%d" (sn s.c4b_max) (int_of_z s.c4b_good) (int_of_z s.c4b_bad)
       | C4bContainer -> "container" | C4bBudget -> "budget" | C4bGiveUp -> "giveup") ^ " nbad=" ^ sn nbad
    | _ -> "?args");
  register "c4conv" (fun a -> match a with
    | [fs; fb; ts; tb; v] ->
      (match c4_convert (b01 fs) (ni fb) (b01 ts) (ni tb) (z_of_bits v) with
       | Some r -> "ok " ^ bits_of_z r | None -> "range")
    | _ -> "?args");
  register "c4fits" (fun a -> match a with
    | [fs; fb; ts; tb; v] ->
      sb (c4_fits (b01 fs) (ni fb) (b01 ts) (ni tb) (z_of_bits v)) ^ " " ^
      (match c4_util_to (b01 fs) (ni fb) (b01 ts) (ni tb) (z_of_bits v) with Some r -> "ok " ^ bits_of_z r | None -> "range")
    | _ -> "?args");
  register "c4recon" (fun a -> match a with
    | [evs] ->
      let el = nodes evs (function [f; l] -> { c4r_found_startxref = b01 f; c4r_late_ok = b01 l } | _ -> failwith "rev") in
      let s = c4_recon_run el in
      Printf.sprintf "flag=%s scans=%s rethrown=%s" (sb s.c4r_flag) (sn s.c4r_scans) (sn s.c4r_rethrown)
    | _ -> "?args");
  register "c4trap" (fun a -> match a with
    | [e; w] ->
      let ex = (match e with "none" -> C4eNone | "qpdfexc" -> C4eQPDFExc | "usage" -> C4eUsage | "runtime" -> C4eRuntime
                            | "logic" -> C4eLogic | _ -> C4eOtherStd) in
      let (errs, code) = c4_trap_c ex in
      Printf.sprintf "c=%s,%s cli=%s" (sb errs) (sn code) (sn (c4_trap_cli ex (b01 w)))
    | _ -> "?args")
