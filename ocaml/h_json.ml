(* handlers: Json/ model (JsonEmit.v) and specification (JsonSpec.v). I/O only. *)
open Qvmodel
open Runner

let read_file_bytes (path : string) : string =
  let ic = open_in_bin path in
  let n = in_channel_length ic in
  let s = really_input_string ic n in
  close_in ic; s

let both (p : n list) (f : n list) : string = hexbytes p ^ " " ^ hexbytes f

(* tree encoding: see harness/drv_json.cc *)
let parse_tree (s : string) : jobj =
  let toks = Array.of_list (String.split_on_char ',' s) in
  let pos = ref 0 in
  let rec go () : jobj =
    let t = toks.(!pos) in
    incr pos;
    let rest = String.sub t 1 (String.length t - 1) in
    match t.[0] with
    | 'n' -> JNull
    | 't' -> JBool true
    | 'f' -> JBool false
    | 'i' -> JInt (z_of_int (int_of_string rest))
    | 'r' -> JReal (unhexbytes rest)
    | 's' -> JStr (unhexbytes rest)
    | 'N' -> JName (unhexbytes rest)
    | 'R' -> (match String.split_on_char '.' rest with
              | [a; b] -> JRef (n_of_int (int_of_string a), n_of_int (int_of_string b))
              | _ -> failwith "ref")
    | '[' ->
      let items = ref [] in
      while toks.(!pos) <> "]" do items := go () :: !items done;
      incr pos;
      JArr (List.rev !items)
    | '{' ->
      let items = ref [] in
      while toks.(!pos) <> "}" do
        let k = toks.(!pos) in
        incr pos;
        let key = unhexbytes (String.sub k 1 (String.length k - 1)) in
        let v = go () in
        items := (key, v) :: !items
      done;
      incr pos;
      JDict (List.rev !items)
    | _ -> failwith "tree"
  in
  go ()

let bb (b : bool) : string = if b then "1" else "0"

let () =
  register "jreal" (fun args -> match args with
    | [h] -> let v = unhexbytes h in both (jm_real_pinned v) (jm_real v)
    | _ -> "?args");
  register "jstr" (fun args -> match args with
    | [v; h] -> let ver = n_of_int (int_of_string v) in let s = unhexbytes h in
      both (jm_string_json_pinned ver s) (jm_string_json ver s)
    | _ -> "?args");
  register "jname" (fun args -> match args with
    | [v; h] -> let ver = n_of_int (int_of_string v) in let s = unhexbytes h in
      both (jm_name_json_pinned ver s) (jm_name_json ver s)
    | _ -> "?args");
  register "jobj" (fun args -> match args with
    | [v; d; t] ->
      let ver = n_of_int (int_of_string v) in
      let indent = nat_of_int (2 * int_of_string d) in
      let o = parse_tree t in
      both (jm_emit false ver indent o) (jm_emit true ver indent o)
    | _ -> "?args");
  register "janalyze" (fun args -> match args with
    | [h] -> let s = unhexbytes h in
      let (a, b) = jm_analyze_pinned s in let (c, d) = jm_analyze s in
      bb a ^ bb b ^ " " ^ bb c ^ bb d
    | _ -> "?args");
  register "jimp" (fun args -> match args with
    | [h] ->
      let show r = (match r with
              | ImpRef (a, b) -> Printf.sprintf "ref,%d,%d" (int_of_n a) (int_of_n b)
              | ImpString s -> "str," ^ hexbytes s
              | ImpName s -> "name," ^ hexbytes s
              | ImpError -> "err") in
      let t = unhexbytes h in
      show (jm_import_token true t) ^ " " ^ show (jm_import_token false t)
    | _ -> "?args");
  register "jutil" (fun args -> match args with
    | ["toutf8"; a] -> hexbytes (jm_to_utf8 (n_of_int (int_of_string a)))
    | ["toutf16"; a] -> hexbytes (jm_to_utf16 (n_of_int (int_of_string a)))
    | [f; h] ->
      let s = unhexbytes h in
      (match f with
       | "u16to8" -> hexbytes (jm_utf16_to_utf8 s)
       | "pd2u8" -> hexbytes (jm_pdf_doc_to_utf8 s)
       | "u8topd" -> let (ok, r) = jm_utf8_to_pdf_doc s in bb ok ^ " " ^ hexbytes r
       | "u8to16" -> hexbytes (jm_utf8_to_utf16 s)
       | "newu" -> hexbytes (jm_new_unicode_string s)
       | "nextcp" ->
         let ((cp, err), rest) = jm_next_codepoint s in
         Printf.sprintf "%d %s %d" (int_of_n cp) (bb err) (List.length s - List.length rest)
       | "encstr" -> hexbytes (jm_encode_string s)
       | "norm" -> hexbytes (jm_normalize s)
       | "hexenc" -> hexbytes (jm_hex_encode s)
       | "hexdec" -> hexbytes (jm_hex_decode s)
       | "jparse" -> (match jm_parse_string_token s with Some v -> "1 " ^ hexbytes v | None -> "0 -")
       | "usehex" -> bb (jm_use_hex_string s)
       | _ -> "?unknown-function")
    | _ -> "?args")

(* specification oracles *)
let cps (l : n list) : string = if l = [] then "-" else String.concat "," (List.map (fun x -> string_of_int (int_of_n x)) l)

let () =
  register "jvalid" (fun args -> match args with
    | [h] -> string_of_int (int_of_n (json_verdict (unhexbytes h)))
    | _ -> "?args");
  register "jvalidf" (fun args -> match args with
    | [path] -> string_of_int (int_of_n (json_verdict (bytes_of_string (read_file_bytes path))))
    | _ -> "?args");
  register "u8valid" (fun args -> match args with
    | [h] -> bb (utf8_valid (unhexbytes h))
    | _ -> "?args");
  register "jnumber" (fun args -> match args with
    | [h] -> bb (json_number (unhexbytes h))
    | _ -> "?args");
  register "jnumval" (fun args -> match args with
    | [h] -> (match json_number_value (unhexbytes h) with
              | Some ((neg, m), f) -> Printf.sprintf "%s %s %d" (bb neg) (cps [m]) (int_of_n f)
              | None -> "none")
    | _ -> "?args");
  register "jstrval" (fun args -> match args with
    | [h] -> (match json_string_value (unhexbytes h) with Some v -> "1 " ^ hexbytes v | None -> "0 -")
    | _ -> "?args");
  register "jtext" (fun args -> match args with
    | [h] -> (match text_of (unhexbytes h) with Some t -> "1 " ^ cps t | None -> "0 -")
    | _ -> "?args");
  register "jwfbom" (fun args -> match args with
    | [h] -> bb (well_formed_for_its_bom (unhexbytes h))
    | _ -> "?args")

(* ---- document-level import (Json/JsonReactor.v): the JSON tree parsed by the harness, the imported document as text ----
   JSON tree tokens (','-separated): n t f #<hex spelling> s<hex value> [ ... ] { k<hex> value ... }
   (the tree as it is, then the tree after the proposed repair of C14-F3)
   document: none | ok;v=<hex version>;t=<tree>;<num>.<gen>=v:<tree>;<num>.<gen>=s:<dict tree>:<D hex bytes | F hex file name>
   (object trees in the token format of drv_json.cc; hex of the empty string is empty) *)
let phex (l : n list) : string = let h = hexbytes l in if h = "-" then "" else h
let punhex (h : string) : n list = if h = "" then [] else unhexbytes h

let parse_jr (s : string) : jr_json =
  let toks = Array.of_list (String.split_on_char ',' s) in
  let pos = ref 0 in
  let rec go () : jr_json =
    let t = toks.(!pos) in
    incr pos;
    let rest = String.sub t 1 (String.length t - 1) in
    match t.[0] with
    | 'n' -> JrNull
    | 't' -> JrBool true
    | 'f' -> JrBool false
    | '#' -> JrNum (punhex rest)
    | 's' -> JrStr (punhex rest)
    | '[' ->
      let items = ref [] in
      while toks.(!pos) <> "]" do items := go () :: !items done;
      incr pos;
      JrArr (List.rev !items)
    | '{' ->
      let items = ref [] in
      while toks.(!pos) <> "}" do
        let k = toks.(!pos) in
        incr pos;
        let key = punhex (String.sub k 1 (String.length k - 1)) in
        let v = go () in
        items := (key, v) :: !items
      done;
      incr pos;
      JrObj (List.rev !items)
    | _ -> failwith "jr tree"
  in
  go ()

let rec toks_jobj (acc : string list) (o : jobj) : string list =
  match o with
  | JNull -> "n" :: acc
  | JBool true -> "t" :: acc
  | JBool false -> "f" :: acc
  | JInt z -> ("i" ^ string_of_bytes (dec_of_Z z)) :: acc
  | JReal s -> ("r" ^ phex s) :: acc
  | JStr s -> ("s" ^ phex s) :: acc
  | JName s -> ("N" ^ phex s) :: acc
  | JRef (a, g) -> (Printf.sprintf "R%d.%d" (int_of_n a) (int_of_n g)) :: acc
  | JArr l -> "]" :: List.fold_left toks_jobj ("[" :: acc) l
  | JDict d -> "}" :: List.fold_left (fun ac (k, v) -> toks_jobj (("k" ^ phex k) :: ac) v) ("{" :: acc) d
let show_jobj (b : Buffer.t) (o : jobj) : unit =
  Buffer.add_string b (String.concat "," (List.rev (toks_jobj [] o)))

let show_doc (r : jr_doc option * bool) : string =
  match r with
  | (_, true) -> "unmodelled"
  | (None, _) -> "none"
  | (Some d, _) ->
    let b = Buffer.create 256 in
    Buffer.add_string b ("ok;v=" ^ phex d.jd_version ^ ";t=");
    show_jobj b d.jd_trailer;
    List.iter (fun ((num, gen), p) ->
      Buffer.add_string b (Printf.sprintf ";%d.%d=" (int_of_n num) (int_of_n gen));
      match p with
      | JrValue o -> Buffer.add_string b "v:"; show_jobj b o
      | JrStream (dict, data) ->
        Buffer.add_string b "s:"; show_jobj b (JDict (List.filter (fun (k, _) -> phex k <> "2f4c656e677468") dict));   (* without /Length *)
        (match jr_stream_view dict data with
         | JrBytes x -> Buffer.add_string b (":D" ^ phex x)
         | JrNamedFile (name, None) -> Buffer.add_string b (":F" ^ phex name)
         | JrNamedFile (name, Some n) -> Buffer.add_string b (":F" ^ phex name ^ "#" ^ string_of_int (int_of_n n))
         | JrDataError -> Buffer.add_string b ":E"))
      d.jd_objs;
    Buffer.contents b

let () =
  register "jrimp" (fun args -> match args with
    | [a] -> let j = parse_jr a in show_doc (jr_create false false j) ^ " " ^ show_doc (jr_create false true j)
    | [a; c] -> let j1 = parse_jr a in let j2 = parse_jr c in
      show_doc (jr_create_update false false j1 j2) ^ " " ^ show_doc (jr_create_update false true j1 j2)
    | _ -> "?args");
  (* the domain of the member-order theorems, decided on two parsed texts: 1 = both well-formed and equal after sorting *)
  register "jrsame" (fun args -> match args with
    | [a; c] -> let j1 = parse_jr a in let j2 = parse_jr c in
      bb (jr_same_up_to_order true j1 j2) ^ bb (jr_same_up_to_order false j1 j2)
    | _ -> "?args")
