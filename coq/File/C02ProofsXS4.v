(* C02 extension, part 4: byte accounting of the object-stream / xref-stream layout, and the section-level reading of
   the cross-reference stream by the strict reader. *)
From QV Require Import Base.Bytes File.StrictSyntax File.ReadStrict File.WriterArith File.C02Proofs.
From QV Require Import Obj.Queue Obj.WriterModel Obj.WmPrinters Obj.WriterModelXS Obj.C01RoundtripProofs Obj.C01FileProofs.
From QV Require Import File.C02ProofsXS File.C02ProofsXS2 File.C02ProofsXS3.
From Coq Require Import Lia.
Local Open Scope N_scope.

(* regions of the items laid out one after the other from [pos] *)
Fixpoint xr_regs (chunk : xs_item -> list N) (items : list xs_item) (pos : N) : list (N * N) :=
  match items with
  | [] => []
  | it :: t => (pos, pos + N.of_nat (length (chunk it))) :: xr_regs chunk t (pos + N.of_nat (length (chunk it)))
  end.

Lemma xr_regions_chain : forall chunk file total items pos l,
  regions_ok file pos (xr_regs chunk items pos ++ l) total
  = regions_ok file (pos + N.of_nat (length (concat (map chunk items)))) l total.
Proof.
  intros chunk file total. induction items as [|it t IH]; intros pos l.
  - cbn. rewrite N.add_0_r. reflexivity.
  - cbn [xr_regs app regions_ok fst snd]. rewrite N.ltb_irrefl, gap_ok_refl. cbn [negb].
    rewrite IH. cbn [map concat]. rewrite app_length. f_equal. lia.
Qed.

Definition xr_xref_len (d : doc) : N := N.of_nat (length (xs_xref_object WUS WUN d (xs_L d))).

(* the regions the strict reader accounts for in the modelled output, in file order: header, one region per written item
   (uncompressed object or object stream), the cross-reference stream object, startxref .. %%EOF *)
Definition xr_regions (d : doc) : list (N * N) :=
  let L := xs_L d in
  let h := N.of_nat (length (xs_l_hdr L)) in
  (0, h) :: xr_regs (xs_chunk' d) (xs_l_items L) h
  ++ [(xs_l_xref_off L, xs_l_xref_off L + xr_xref_len d); (xs_l_xref_off L + xr_xref_len d, N.of_nat (length (xs_out d)))].

(* Byte accounting: the regions - header, every written item at its recorded position, the cross-reference stream, the
   tail - follow each other without gap and without overlap and end at the end of the file: no byte is unaccounted for. *)
Lemma xs_regions_ok_lemma : forall d, xs_eligible d <> [] ->
  regions_ok (xs_out d) 0 (xr_regions d) (N.of_nat (length (xs_out d))) = None.
Proof.
  intros d Hel. unfold xr_regions. cbv zeta.
  set (h := N.of_nat (length (xs_l_hdr (xs_L d)))).
  cbn [regions_ok fst snd]. change (0 <? 0) with false. rewrite gap_ok_refl. cbn [negb].
  rewrite xr_regions_chain.
  assert (Hoff : h + N.of_nat (length (concat (map (xs_chunk' d) (xs_l_items (xs_L d))))) = xs_l_xref_off (xs_L d)).
  { unfold h. rewrite xs_L_eq. cbn [xs_l_hdr xs_l_items xs_l_xref_off]. unfold xs_E. rewrite xs_emit_end, xs_emit_bytes. reflexivity. }
  rewrite Hoff. cbn [regions_ok fst snd]. rewrite N.ltb_irrefl, gap_ok_refl. cbn [negb].
  rewrite N.ltb_irrefl, gap_ok_refl. cbn [negb]. rewrite gap_ok_refl. reflexivity.
Qed.

(* ---------- keys of the cross-reference stream dictionary ---------- *)
Lemma xk_pdict_keys : forall objs ren l k, In k (map fst (pdict objs ren l)) -> In k (map fst l).
Proof.
  induction l as [|kv t IH]; intros k H; [contradiction|]. cbn [pdict] in H.
  destruct (is_null_val objs (snd kv)); [right; apply IH; exact H|].
  cbn [map fst] in H. destruct H as [H | H]; [left; exact H | right; apply IH; exact H].
Qed.
Lemma xk_pdict_nodup : forall objs ren l, NoDup (map fst l) -> NoDup (map fst (pdict objs ren l)).
Proof.
  induction l as [|kv t IH]; intros H; [constructor|]. cbn [map] in H. inversion H as [|? ? H1 H2]; subst.
  cbn [pdict]. destruct (is_null_val objs (snd kv)); [apply IH; exact H2|]. cbn [map fst]. constructor; [| apply IH; exact H2].
  intros Hin. apply H1. apply (xk_pdict_keys objs ren). exact Hin.
Qed.
Lemma xk_pdict_in : forall objs ren l k v, In (k, v) l -> is_null_val objs v = false -> In (k, to_pobj objs ren v) (pdict objs ren l).
Proof.
  induction l as [|kv t IH]; intros k v H Hn; [contradiction|]. cbn [pdict]. destruct H as [-> | H].
  - cbn [snd fst]. rewrite Hn. left. reflexivity.
  - destruct (is_null_val objs (snd kv)); [| right]; apply IH; assumption.
Qed.
Lemma xk_sub_keys : forall s l, map fst (map (xp_sub s) l) = map fst l.
Proof.
  intros s l. rewrite map_map. apply map_ext. intros kv. unfold xp_sub. destruct (beqb (fst kv) k_Size); reflexivity.
Qed.

(* the keys that the writer's trimmed trailer never carries (trimmed_trailer() erases them) *)
Definition xr_reserved : list (list N) :=
  [n_Type; n_Length; n_W; n_Index; n_Filter; n_Prev; [73; 68]].
Definition xr_trailer_trimmed (d : doc) : Prop := forall k, In k xr_reserved -> ~ In k (map fst (d_trailer d)).

Lemma xk_dict_keys : forall d k, In k (map fst (xp_xref_dict d)) ->
  k = n_Type \/ k = n_Length \/ k = n_W \/ k = [73; 68] \/ In k (map fst (d_trailer d)).
Proof.
  intros d k H. unfold xp_xref_dict in H. cbv zeta in H. rewrite map_app in H. apply in_app_or in H. destruct H as [H | H].
  - apply xk_pdict_keys in H. unfold xp_xref_entries in H. rewrite map_app in H. apply in_app_or in H. destruct H as [H | H].
    + cbn in H. destruct H as [<- | [<- | [<- | []]]]; auto.
    + rewrite xk_sub_keys in H. auto 6.
  - cbn in H. destruct H as [<- | []]. auto 6.
Qed.

Lemma xk_dict_nodup : forall d, NoDup (map fst (d_trailer d)) -> xr_trailer_trimmed d -> NoDup (map fst (xp_xref_dict d)).
Proof.
  intros d Hnd Htt. unfold xp_xref_dict. cbv zeta. rewrite map_app.
  assert (H1 : NoDup (map fst (xp_xref_entries d (N.of_nat (length (xp_xref_data (xs_L d)))) (xs_l_f1 (xs_L d)) (xs_l_f2 (xs_L d)) (xs_l_xref_id (xs_L d) + 1)))).
  { unfold xp_xref_entries. rewrite map_app, xk_sub_keys. cbn [map fst app].
    assert (T1 : ~ In n_Type (map fst (d_trailer d))) by (apply Htt; cbn; auto).
    assert (T2 : ~ In n_Length (map fst (d_trailer d))) by (apply Htt; cbn; auto).
    assert (T3 : ~ In n_W (map fst (d_trailer d))) by (apply Htt; cbn; auto 6).
    constructor; [intros [H | [H | H]]; [discriminate | discriminate | exact (T1 H)]|].
    constructor; [intros [H | H]; [discriminate | exact (T2 H)]|].
    constructor; [exact T3 | exact Hnd]. }
  apply (xk_pdict_nodup (d_objects d) (xs_l_ren (xs_L d))) in H1.
  cbn [map fst]. 
  assert (Hid : ~ In [73; 68] (map fst (pdict (d_objects d) (xs_l_ren (xs_L d))
            (xp_xref_entries d (N.of_nat (length (xp_xref_data (xs_L d)))) (xs_l_f1 (xs_L d)) (xs_l_f2 (xs_L d)) (xs_l_xref_id (xs_L d) + 1))))).
  { intros H. apply xk_pdict_keys in H. unfold xp_xref_entries in H. rewrite map_app, xk_sub_keys in H. apply in_app_or in H.
    destruct H as [H | H]; [cbn in H; destruct H as [H | [H | [H | []]]]; discriminate|].
    revert H. apply Htt. cbn. auto 10. }
  clear - H1 Hid. induction (map fst _) as [|a l IH]; [constructor; [intros [] | constructor]|].
  inversion H1 as [|? ? Ha Hl]; subst. cbn [app]. constructor.
  - intros H. apply in_app_or in H. destruct H as [H | [<- | []]]; [exact (Ha H) | apply Hid; left; reflexivity].
  - apply IH; [exact Hl | intros H; apply Hid; right; exact H].
Qed.

Lemma xr_at_off_suffix : forall (pre rest : list N),
  at_off (pre ++ rest) (offset_of (N.of_nat (length (pre ++ rest))) rest) = rest.
Proof.
  intros pre rest. unfold at_off, offset_of. rewrite app_length.
  replace (N.to_nat (N.of_nat (length pre + length rest) - N.of_nat (length rest))) with (length pre) by lia.
  apply xs_skipn_exact.
Qed.

Lemma xr_raw_generic : forall (out pre xo h t k data tail : list N),
  out = pre ++ xo ++ tail ->
  xo = h ++ t ++ k ++ data ++ [10] ++ s_endstream_kw ++ s_endobj ->
  at_off out (offset_of (N.of_nat (length out)) (data ++ [10] ++ s_endstream_kw ++ s_endobj ++ tail))
  = data ++ [10] ++ s_endstream_kw ++ s_endobj ++ tail.
Proof.
  intros out pre xo h t k data tail -> ->.
  replace (pre ++ (h ++ t ++ k ++ data ++ [10] ++ s_endstream_kw ++ s_endobj) ++ tail)
    with ((pre ++ h ++ t ++ k) ++ (data ++ [10] ++ s_endstream_kw ++ s_endobj ++ tail))
    by (rewrite <- !app_assoc; reflexivity).
  apply xr_at_off_suffix.
Qed.

Section XrefSection.
  Variable d : doc.
  Hypothesis W : wf_doc d.
  Hypothesis Hel : xs_eligible d <> [].
  Hypothesis Htt : xr_trailer_trimmed d.
  Let L := xs_L d.
  Let out := xs_out d.
  Let total := N.of_nat (length out).
  Let XO := xs_xref_object WUS WUN d L.
  Let TAIL := xs_s_startxref ++ dec_of_N (xs_l_xref_off L) ++ xs_s_eof.
  Let PRE := xs_l_hdr L ++ xs_l_bodies L.

  Lemma xr_out_eq : out = PRE ++ XO ++ TAIL.
  Proof. unfold out, PRE, XO, TAIL, L. rewrite (xs_out_layout d Hel), <- !app_assoc. reflexivity. Qed.

  Lemma xr_xoff_eq : xs_l_xref_off L = N.of_nat (length PRE).
  Proof.
    unfold PRE, L. rewrite xs_L_eq. cbn [xs_l_xref_off xs_l_hdr xs_l_bodies]. unfold xs_E. rewrite xs_emit_end, app_length, Nat2N.inj_add. reflexivity.
  Qed.

  Lemma xr_at_xoff : at_off out (xs_l_xref_off L) = XO ++ TAIL.
  Proof. rewrite xr_out_eq, xr_xoff_eq. unfold at_off. rewrite Nat2N.id. apply xs_skipn_exact. Qed.

  Lemma xr_dict_type : dict_get (xp_xref_dict d) n_Type = Some (SpName n_XRef).
  Proof. reflexivity. Qed.
  Lemma xr_dict_W : dict_get (xp_xref_dict d) n_W
    = Some (SpArr [SpInt 1; SpInt (Z.of_N (xs_l_f1 L)); SpInt (Z.of_N (xs_l_f2 L))]).
  Proof. reflexivity. Qed.

  Lemma xr_dict_size : get_int (xp_xref_dict d) n_Size = Some (xs_l_xref_id L + 1).
  Proof.
    destruct W as [Hc Hobjs Htr Hst Hsb Hver Hids Hroot [zs Hsize] [Hnd [Hnoid Hdk]] Hnoprev Hnoxs].
    unfold get_int. rewrite (dict_get_in _ n_Size (SpInt (Z.of_N (xs_l_xref_id L + 1)))).
    - destruct (0 <=? Z.of_N (xs_l_xref_id L + 1))%Z eqn:E; [rewrite N2Z.id; reflexivity | apply Z.leb_gt in E; lia].
    - apply xk_dict_nodup; assumption.
    - unfold xp_xref_dict. cbv zeta. apply in_or_app. left. fold L.
      change (SpInt (Z.of_N (xs_l_xref_id L + 1))) with (to_pobj (d_objects d) (xs_l_ren L) (OInt (Z.of_N (xs_l_xref_id L + 1)))).
      apply xk_pdict_in; [| reflexivity]. unfold xp_xref_entries. apply in_or_app. right.
      apply find_some in Hsize. destruct Hsize as [Hs _]. apply in_map_iff. exists (k_Size, OInt zs). split; [reflexivity | exact Hs].
  Qed.

  Lemma xr_dict_absent : forall k, In k [n_Index; n_Filter; n_Prev] -> dict_get (xp_xref_dict d) k = None.
  Proof.
    intros k Hk. apply dict_get_none. intros H. apply xk_dict_keys in H.
    destruct H as [-> | [-> | [-> | [-> | H]]]];
      try (cbn in Hk; destruct Hk as [Hk | [Hk | [Hk | []]]]; discriminate).
    revert H. apply Htt. cbn in Hk |- *. destruct Hk as [<- | [<- | [<- | []]]]; auto 10.
  Qed.

  (* The strict reader's section reader, started at the offset that startxref names, reads the emitted cross-reference
     stream as ONE section: its entries are the recorded entries (object i -> type, offset or (stream, index), generation 0),
     its dictionary is the written one, it is a stream section, it accounts for the bytes from the xref stream's
     `N 0 obj` up to `startxref`, and it is not followed by a tail of its own. *)
  Lemma xr_section_reads :
    xs_l_xref_off L < 2 ^ 63 -> xs_l_xref_id L < 2 ^ 63 ->
    let sx := xs_l_xref_off L + xr_xref_len d in
    let o := {| so_num := xs_l_xref_id L; so_gen := 0; so_where := XInUse (xs_l_xref_off L) 0; so_val := SpDict (xp_xref_dict d);
                so_stream := Some (offset_of total (xp_xref_data L ++ [10] ++ s_endstream_kw ++ s_endobj ++ TAIL),
                                   N.of_nat (length (xp_xref_data L)));
                so_end := sx |} in
    read_section (length out) total sx out (xs_l_xref_off L)
    = inl {| sec_entries := rev (xs_numbered 0 (xs_l_entries L)); sec_dict := xp_xref_dict d; sec_is_stream := true;
             sec_region := (xs_l_xref_off L, sx); sec_tail_value := 0; sec_obj := Some o |}.
  Proof.
    intros Hoff Hid sx o.
    pose proof xr_at_xoff as Hat. pose proof xr_out_eq as Hout.
    assert (Hlen : length out = (length PRE + length XO + length TAIL)%nat) by (rewrite Hout, !app_length; lia).
    assert (Htl : (17 <= length TAIL)%nat).
    { unfold TAIL, xs_s_startxref, xs_s_eof. rewrite !app_length. cbn [length]. lia. }
    assert (Hend : offset_of total TAIL = sx).
    { unfold offset_of, total, sx, xr_xref_len. fold L. fold XO. rewrite xr_xoff_eq, Hlen. lia. }
    assert (Hpi := xs_xref_object_parses_lemma d (length out) total out (xs_l_xref_off L) (fun _ => None) TAIL W Hat).
    cbv zeta in Hpi. fold L in Hpi. fold XO in Hpi. specialize (Hpi ltac:(lia)). rewrite Hend in Hpi.
    unfold read_section. cbv zeta.
    (* not a classic table: the section starts with a digit *)
    assert (Hex : expect k_xref (at_off out (xs_l_xref_off L)) = None).
    { rewrite Hat. unfold XO, xs_xref_object, obj_header. destruct (dec_of_N_head (xs_l_xref_id L)) as [c [t [Hk Hc]]].
      rewrite Hk. cbn [app expect k_xref]. destruct (120 =? c) eqn:E; [| reflexivity].
      apply N.eqb_eq in E. subst c. discriminate Hc. }
    rewrite Hex. unfold read_xstream. rewrite Hpi. cbn [so_val so_stream].
    destruct W as [Hc Hobjs Htr Hst Hsb Hver Hids Hroot Hsize [Hnd [Hnoid Hdk]] Hnoprev Hnoxs].
    rewrite (has_dup_keys_nodup _ (xk_dict_nodup d Hnd Htt)).
    rewrite xr_dict_type. change (negb (beq n_XRef n_XRef)) with false. cbv iota.
    rewrite xr_dict_W, xr_dict_size.
    (* the raw data *)
    set (REST := xp_xref_data L ++ [10] ++ s_endstream_kw ++ s_endobj ++ TAIL).
    assert (Hraw : at_off out (offset_of total REST) = REST).
    { assert (Hsz : forall kv, In kv (d_trailer d) -> beqb (fst kv) k_Size = true -> is_null_val (d_objects d) (snd kv) = false).
      { destruct Hsize as [zs Hsize]. intros [k v] Hin Hk. cbn [fst snd] in *. apply beqb_eq in Hk. subst k.
        apply find_some in Hsize. destruct Hsize as [Hs _]. rewrite (nodup_key_unique _ _ _ _ _ _ Hnd Hin Hs). reflexivity. }
      pose proof (xp_xref_object_text d L Hsz) as Htxt.
      exact (xr_raw_generic _ _ _ _ _ _ _ _ Hout Htxt). }
    rewrite Hraw. unfold REST at 1. rewrite Nat2N.id, xs_firstn_exact.
    unfold decode_struct_stream. rewrite (xr_dict_absent n_Filter) by (cbn; auto).
    rewrite (xr_dict_absent n_Index) by (cbn; auto).
    cbn [length]. change (Z.to_nat 1) with 1%nat.
    assert (Hzn : forall n, Z.to_nat (Z.of_N n) = N.to_nat n) by (intros; lia). rewrite !Hzn.
    pose proof (xs_xref_stream_decodes_lemma d Hoff Hid) as Hdec. cbv zeta in Hdec. fold L in Hdec.
    unfold xp_xref_data. rewrite Hdec.
    (* the tail *)
    unfold at_off at 1. 
    assert (Hte : skipn (N.to_nat sx) out = TAIL).
    { rewrite <- Hend. fold (at_off out (offset_of total TAIL)). unfold total. rewrite Hout, app_assoc. apply xr_at_off_suffix. }
    cbn [so_end]. rewrite Hte. unfold opt_tail. cbv zeta.
    change (skip_ws TAIL) with TAIL. rewrite Hend, N.eqb_refl. rewrite Hend. reflexivity.
  Qed.
End XrefSection.

(* Section-level reading of the modelled output (the analogue of read_section_model for cross-reference streams): for every
   well-formed document with at least one eligible object and a trimmed trailer, the strict reader's section reader, started
   at the value that startxref carries, reads the emitted cross-reference stream as one stream section whose entries are
   exactly the recorded ones (type, offset with generation 0, or (object stream, index), numbered 0 .. Size-1), whose
   dictionary is the written one, which accounts for the bytes up to `startxref`, and whose object is the xref stream. *)
Lemma xs_xref_section_reads_lemma : forall d, wf_doc d -> xs_eligible d <> [] -> xr_trailer_trimmed d ->
  xs_l_xref_off (xs_L d) < 2 ^ 63 -> xs_l_xref_id (xs_L d) < 2 ^ 63 ->
  let L := xs_L d in
  let out := xs_out d in
  let sx := xs_l_xref_off L + xr_xref_len d in
  exists o,
    read_section (length out) (N.of_nat (length out)) sx out (xs_l_xref_off L)
    = inl {| sec_entries := rev (xs_numbered 0 (xs_l_entries L)); sec_dict := xp_xref_dict d; sec_is_stream := true;
             sec_region := (xs_l_xref_off L, sx); sec_tail_value := 0; sec_obj := Some o |}
    /\ so_num o = xs_l_xref_id L /\ so_gen o = 0 /\ so_where o = XInUse (xs_l_xref_off L) 0 /\ so_end o = sx
    /\ get_int (xp_xref_dict d) n_Size = Some (xs_l_xref_id L + 1)
    /\ dict_get (xp_xref_dict d) n_Prev = None.
Proof.
  intros d W Hel Htt Hoff Hid L out sx.
  eexists. split; [apply (xr_section_reads d W Hel Htt Hoff Hid)|].
  cbn [so_num so_gen so_where so_end]. repeat split.
  - apply xr_dict_size; assumption.
  - apply xr_dict_absent; [assumption | cbn; auto].
Qed.
