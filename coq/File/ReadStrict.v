(* Zero-tolerance reader of PDF file structure (ISO 32000-1 7.5), written from the standard:
   header, startxref, cross-reference tables and streams with /Prev chains, object streams.
   Every in-use entry must point exactly at the `N G obj` it names, every /Length must be the
   actual length, /Size must be the highest object number + 1, /Root must be present, and every
   byte of the file must be accounted for. Shares nothing with the model of qpdf's reader. *)
From QV Require Import Base.Bytes File.StrictSyntax File.Inflate.
Local Open Scope N_scope.

Inductive xentry := XFree (next gen : N) | XInUse (off gen : N) | XComp (stm idx : N).

Record sobj := {
  so_num : N; so_gen : N;
  so_where : xentry;
  so_val : pobj;
  so_stream : option (N * N);      (* offset of the first data byte, /Length *)
  so_end : N                       (* offset just after endobj + EOL (0 for compressed objects) *)
}.

Record sfile := {
  sf_version : list N;
  sf_trailer : list (list N * pobj);
  sf_objs : list sobj;
  sf_xref_stream : bool;           (* newest section is an xref stream *)
  sf_sections : N;
  sf_startxref : N;
  sf_regions : list (N * N)        (* accounted [start, end) regions, sorted *)
}.

Inductive rs_result := RsOk (f : sfile) | RsErr (code : N) (at_off : N).
(* error codes
   1 header  2 tail (startxref/%%EOF)  3 xref section syntax  4 trailer dictionary  5 xref stream
   6 object not at its offset / wrong number or generation  7 object syntax  8 stream keyword/EOL
   9 /Length wrong (endstream not at data+Length)  10 endobj missing  11 /Size wrong  12 /Root missing
   13 object stream malformed  14 compressed entry wrong  15 bytes unaccounted for / overlap
   16 /Prev chain  17 duplicate dictionary key  18 inflate failed  19 generation of compressed obj *)

Definition at_off (file : list N) (off : N) : list N := skipn (N.to_nat off) file.

Fixpoint expect (pat s : list N) : option (list N) :=
  match pat, s with
  | [], _ => Some s
  | p :: pt, c :: t => if p =? c then expect pt t else None
  | _, [] => None
  end.

Definition eol (s : list N) : option (list N) :=
  match s with
  | 13 :: 10 :: t => Some t
  | 10 :: t => Some t
  | 13 :: t => Some t
  | _ => None
  end.

Definition offset_of (total : N) (rest : list N) : N := total - N.of_nat (length rest).

Definition k_obj : list N := [111; 98; 106].
Definition k_endobj : list N := [101; 110; 100; 111; 98; 106].
Definition k_stream : list N := [115; 116; 114; 101; 97; 109].
Definition k_endstream : list N := [101; 110; 100; 115; 116; 114; 101; 97; 109].
Definition k_xref : list N := [120; 114; 101; 102].
Definition k_trailer : list N := [116; 114; 97; 105; 108; 101; 114].
Definition k_startxref : list N := [115; 116; 97; 114; 116; 120; 114; 101; 102].
Definition k_eof : list N := [37; 37; 69; 79; 70].
Definition n_Length : list N := [76; 101; 110; 103; 116; 104].
Definition n_Type : list N := [84; 121; 112; 101].
Definition n_XRef : list N := [88; 82; 101; 102].
Definition n_ObjStm : list N := [79; 98; 106; 83; 116; 109].
Definition n_W : list N := [87].
Definition n_Index : list N := [73; 110; 100; 101; 120].
Definition n_Size : list N := [83; 105; 122; 101].
Definition n_Prev : list N := [80; 114; 101; 118].
Definition n_Root : list N := [82; 111; 111; 116].
Definition n_Filter : list N := [70; 105; 108; 116; 101; 114].
Definition n_FlateDecode : list N := [70; 108; 97; 116; 101; 68; 101; 99; 111; 100; 101].
Definition n_DecodeParms : list N := [68; 101; 99; 111; 100; 101; 80; 97; 114; 109; 115].
Definition n_Predictor : list N := [80; 114; 101; 100; 105; 99; 116; 111; 114].
Definition n_Columns : list N := [67; 111; 108; 117; 109; 110; 115].
Definition n_N : list N := [78].
Definition n_First : list N := [70; 105; 114; 115; 116].

Definition get_int (d : list (list N * pobj)) (k : list N) : option N :=
  match dict_get d k with
  | Some (SpInt z) => if (0 <=? z)%Z then Some (Z.to_N z) else None
  | _ => None
  end.

(* ---- one indirect object at an offset. [len_of] resolves an indirect /Length. ---- *)
Definition parse_indirect (fuel : nat) (total : N) (file : list N) (off : N) (len_of : N -> option N)
  : option sobj + N :=
  let s := at_off file off in
  (* strictly at the offset: the first byte must be a digit of the object number *)
  match s with
  | c :: _ =>
      if negb (is_digit c) then inr 6 else
      match next_tok s with
      | Some (StInt num, r1) =>
          match next_tok r1 with
          | Some (StInt gen, r2) =>
              match next_tok r2 with
              | Some (StKw w, r3) =>
                  if negb (beq w k_obj) then inr 6 else
                  match parse_obj fuel r3 with
                  | None => inr 7
                  | Some (v, r4) =>
                      match next_tok r4 with
                      | Some (StKw w2, r5) =>
                          if beq w2 k_endobj then
                            let r6 := match eol r5 with Some r => r | None => r5 end in
                            inl (Some {| so_num := Z.to_N num; so_gen := Z.to_N gen; so_where := XInUse off (Z.to_N gen);
                                        so_val := v; so_stream := None; so_end := offset_of total r6 |})
                          else if beq w2 k_stream then
                            (* 7.3.8.1: stream keyword followed by CRLF or LF, never CR alone *)
                            match r5 with
                            | 13 :: 10 :: data | 10 :: data =>
                                match v with
                                | SpDict d =>
                                    let len := match dict_get d n_Length with
                                               | Some (SpInt z) => if (0 <=? z)%Z then Some (Z.to_N z) else None
                                               | Some (SpRef n _) => len_of n
                                               | _ => None
                                               end in
                                    match len with
                                    | None => inr 9
                                    | Some l =>
                                        let after := skipn (N.to_nat l) data in
                                        if N.of_nat (length data) <? l then inr 9 else
                                        (* optional EOL, then endstream *)
                                        let after' := match eol after with Some a => a | None => after end in
                                        match expect k_endstream after' with
                                        | None => inr 9
                                        | Some r7 =>
                                            match next_tok r7 with
                                            | Some (StKw w3, r8) =>
                                                if beq w3 k_endobj then
                                                  let r9 := match eol r8 with Some r => r | None => r8 end in
                                                  inl (Some {| so_num := Z.to_N num; so_gen := Z.to_N gen;
                                                              so_where := XInUse off (Z.to_N gen); so_val := v;
                                                              so_stream := Some (offset_of total data, l);
                                                              so_end := offset_of total r9 |})
                                                else inr 10
                                            | _ => inr 10
                                            end
                                        end
                                    end
                                | _ => inr 8
                                end
                            | _ => inr 8
                            end
                          else inr 10
                      | _ => inr 10
                      end
                  end
              | _ => inr 6
              end
          | _ => inr 6
          end
      | _ => inr 6
      end
  | [] => inr 6
  end.

(* ---- classic cross-reference table ---- *)
Fixpoint take_n (n : nat) (s : list N) : option (list N * list N) :=
  match n with
  | O => Some ([], s)
  | S n' => match s with
            | [] => None
            | c :: t => match take_n n' t with Some (a, b) => Some (c :: a, b) | None => None end
            end
  end.

(* one 20-byte entry: 10 digits SP 5 digits SP (n|f) and a 2-byte EOL (SP LF, SP CR or CR LF) *)
Definition xref_entry (s : list N) : option (xentry * list N) :=
  match take_n 20 s with
  | Some (e, r) =>
      let o := firstn 10 e in
      let g := firstn 5 (skipn 11 e) in
      let sp1 := nth 10 e 0 in let sp2 := nth 16 e 0 in let ty := nth 17 e 0 in
      let e1 := nth 18 e 0 in let e2 := nth 19 e 0 in
      if all_digits o && all_digits g && (sp1 =? 32) && (sp2 =? 32)
         && (((e1 =? 32) && ((e2 =? 10) || (e2 =? 13))) || ((e1 =? 13) && (e2 =? 10)))
      then if ty =? 110 then Some (XInUse (dec_value o) (dec_value g), r)
           else if ty =? 102 then Some (XFree (dec_value o) (dec_value g), r)
           else None
      else None
  | None => None
  end.

Fixpoint xref_entries (n : nat) (num : N) (s : list N) (acc : list (N * xentry)) : option (list (N * xentry) * list N) :=
  match n with
  | O => Some (acc, s)
  | S n' => match xref_entry s with
            | Some (e, r) => xref_entries n' (num + 1) r ((num, e) :: acc)
            | None => None
            end
  end.

(* subsections until the trailer keyword *)
Fixpoint xref_subsections (fuel : nat) (s : list N) (acc : list (N * xentry)) : option (list (N * xentry) * list N) :=
  match fuel with
  | O => None
  | S f =>
      match next_tok s with
      | Some (StKw w, r) => if beq w k_trailer then Some (acc, r) else None
      | Some (StInt start, r1) =>
          match next_tok r1 with
          | Some (StInt cnt, r2) =>
              match eol (match r2 with 32 :: t => t | _ => r2 end) with
              | Some r3 =>
                  if (start <? 0)%Z || (cnt <? 0)%Z then None else
                  match xref_entries (Z.to_nat cnt) (Z.to_N start) r3 acc with
                  | Some (acc', r4) => xref_subsections f r4 acc'
                  | None => None
                  end
              | None => None
              end
          | _ => None
          end
      | _ => None
      end
  end.

(* startxref <n> %%EOF after a section; returns (value, rest after the EOF marker's EOL) *)
Definition parse_tail (s : list N) : option (N * list N) :=
  match next_tok s with
  | Some (StKw w, r1) =>
      if negb (beq w k_startxref) then None else
      match next_tok r1 with
      | Some (StInt v, r2) =>
          match eol r2 with
          | Some r3 => match expect k_eof r3 with
                       | Some r4 => Some (Z.to_N v, match eol r4 with Some r5 => r5 | None => r4 end)
                       | None => None
                       end
          | None => None
          end
      | _ => None
      end
  | _ => None
  end.

(* ---- PNG row un-filtering for xref/object streams (Colors 1, 8 bits): ISO 15948 9.2 ---- *)
Definition paeth_ref (a b c : Z) : Z :=
  let p := (a + b - c)%Z in
  let pa := Z.abs (p - a) in let pb := Z.abs (p - b) in let pc := Z.abs (p - c) in
  if (pa <=? pb)%Z && (pa <=? pc)%Z then a else if (pb <=? pc)%Z then b else c.

Fixpoint unfilter_row (ft : N) (row prev : list N) (left upleft : N) : list N :=
  match row with
  | [] => []
  | x :: t =>
      let up := hd 0 prev in
      let pred := if ft =? 0 then 0 else if ft =? 1 then left else if ft =? 2 then up
                  else if ft =? 3 then (left + up) / 2
                  else Z.to_N (paeth_ref (Z.of_N left) (Z.of_N up) (Z.of_N upleft)) in
      let v := (x + pred) mod 256 in
      v :: unfilter_row ft t (tl prev) v up
  end.

Fixpoint png_unfilter (fuel : nat) (cols : nat) (d : list N) (prev : list N) : option (list N) :=
  match fuel with
  | O => None
  | S f =>
      match d with
      | [] => Some []
      | ft :: t =>
          if 4 <? ft then None else
          match take_n cols t with
          | None => None
          | Some (row, rest) =>
              let r := unfilter_row ft row prev 0 0 in
              match png_unfilter f cols rest r with
              | Some more => Some (r ++ more)
              | None => None
              end
          end
      end
  end.

(* decoded data of an xref / object stream: identity, or Flate (+ PNG predictor, Colors 1) *)
Definition decode_struct_stream (d : list (list N * pobj)) (raw : list N) : option (list N) :=
  match dict_get d n_Filter with
  | None => Some raw
  | Some (SpName f) =>
      if negb (beq f n_FlateDecode) then None else
      match zlib_inflate raw with
      | None => None
      | Some (out, consumed) =>
          if negb (consumed =? N.of_nat (length raw)) then None else
          match dict_get d n_DecodeParms with
          | None => Some out
          | Some (SpDict dp) =>
              match get_int dp n_Predictor with
              | None => Some out
              | Some p => if p <? 10 then (if p =? 1 then Some out else None) else
                          match get_int dp n_Columns with
                          | None => png_unfilter (S (length out)) 1 out [0]
                          | Some c => png_unfilter (S (length out)) (N.to_nat c) out (repeat 0 (N.to_nat c))
                          end
              end
          | _ => None
          end
      end
  | _ => None
  end.

Fixpoint be_value (l : list N) : N := fold_left (fun acc b => acc * 256 + b) l 0.

Fixpoint xstream_entries (n : nat) (num : N) (w0 w1 w2 : nat) (d : list N) (acc : list (N * xentry))
  : option (list (N * xentry) * list N) :=
  match n with
  | O => Some (acc, d)
  | S n' =>
      match take_n w0 d with
      | None => None
      | Some (f0, d1) =>
          match take_n w1 d1 with
          | None => None
          | Some (f1, d2) =>
              match take_n w2 d2 with
              | None => None
              | Some (f2, d3) =>
                  let ty := match w0 with O => 1 | _ => be_value f0 end in
                  let e := if ty =? 0 then Some (XFree (be_value f1) (be_value f2))
                           else if ty =? 1 then Some (XInUse (be_value f1) (be_value f2))
                           else if ty =? 2 then Some (XComp (be_value f1) (be_value f2))
                           else None in
                  match e with
                  | Some e' => xstream_entries n' (num + 1) w0 w1 w2 d3 ((num, e') :: acc)
                  | None => None
                  end
              end
          end
      end
  end.

Fixpoint xstream_index (fuel : nat) (idx : list pobj) (w0 w1 w2 : nat) (d : list N) (acc : list (N * xentry))
  : option (list (N * xentry)) :=
  match fuel with
  | O => None
  | S f =>
      match idx with
      | [] => match d with [] => Some acc | _ => None end      (* no trailing bytes *)
      | SpInt s :: SpInt c :: rest =>
          if (s <? 0)%Z || (c <? 0)%Z then None else
          match xstream_entries (Z.to_nat c) (Z.to_N s) w0 w1 w2 d acc with
          | Some (acc', d') => xstream_index f rest w0 w1 w2 d' acc'
          | None => None
          end
      | _ => None
      end
  end.

Record section := { sec_entries : list (N * xentry); sec_dict : list (list N * pobj); sec_is_stream : bool;
                    sec_region : N * N; sec_tail_value : N; sec_obj : option sobj }.

(* read the section at [xoff]: table or stream *)
(* a section may be followed by its own `startxref n %%EOF` (as in the first-page section of a
   linearized file with a classic table, or every increment of an updated file); the final one of the
   file, at [sx], is accounted for separately *)
Definition opt_tail (total sx : N) (r : list N) : N * list N :=
  let here := offset_of total (skip_ws r) in
  if here =? sx then (0, r) else
  match parse_tail r with
  | Some (v, r') => (v, r')
  | None => (0, r)
  end.

Definition read_xstream (fuel : nat) (total sx : N) (file : list N) (xoff : N) : section + N :=
  match parse_indirect fuel total file xoff (fun _ => None) with
      | inr e => inr (if e =? 6 then 3 else e)
      | inl None => inr 5
      | inl (Some o) =>
          match so_val o, so_stream o with
          | SpDict d, Some (doff, len) =>
              if has_dup_keys d then inr 17 else
              match dict_get d n_Type with
              | Some (SpName t) =>
                  if negb (beq t n_XRef) then inr 5 else
                  match dict_get d n_W, get_int d n_Size with
                  | Some (SpArr [SpInt a; SpInt b; SpInt c]), Some size =>
                      let raw := firstn (N.to_nat len) (at_off file doff) in
                      match decode_struct_stream d raw with
                      | None => inr 18
                      | Some data =>
                          let idx := match dict_get d n_Index with
                                     | Some (SpArr l) => l
                                     | _ => [SpInt 0; SpInt (Z.of_N size)]
                                     end in
                          match xstream_index (S (length idx)) idx (Z.to_nat a) (Z.to_nat b) (Z.to_nat c) data [] with
                          | None => inr 5
                          | Some ents =>
                              let (v, r4) := opt_tail total sx (at_off file (so_end o)) in
                              inl {| sec_entries := ents; sec_dict := d; sec_is_stream := true;
                                     sec_region := (xoff, offset_of total r4); sec_tail_value := v;
                                     sec_obj := Some o |}
                          end
                      end
                  | _, _ => inr 5
                  end
              | _ => inr 5
              end
          | _, _ => inr 5
          end
      end.

Definition read_section (fuel : nat) (total sx : N) (file : list N) (xoff : N) : section + N :=
  let s := at_off file xoff in
  match expect k_xref s with
  | Some r0 =>
      match eol (match r0 with 32 :: t => t | _ => r0 end) with
      | None => inr 3
      | Some r1 =>
          match xref_subsections fuel r1 [] with
          | None => inr 3
          | Some (ents, r2) =>
              match parse_obj fuel r2 with
              | Some (SpDict d, r3) =>
                  if has_dup_keys d then inr 17 else
                  let (v, r4) := opt_tail total sx r3 in
                  (* 7.5.8.4 hybrid-reference file: the stream named by /XRefStm is consulted for objects that
                     the table does not list as in use (hidden objects are listed free in the table) *)
                  match dict_get d [88; 82; 101; 102; 83; 116; 109] with
                  | Some (SpInt so) =>
                      if (so <? 0)%Z then inr 5 else
                      match read_xstream fuel total sx file (Z.to_N so) with
                      | inr e => inr e
                      | inl xs =>
                          let stm := sec_entries xs in
                          let in_stm := fun n => existsb (fun ke => fst ke =? n) stm in
                          let in_use := fun n => existsb (fun ke => (fst ke =? n) && match snd ke with XInUse _ _ => true | _ => false end) ents in
                          let tbl := filter (fun ke => negb (match snd ke with XFree _ _ => in_stm (fst ke) | _ => false end)) ents in
                          let extra := filter (fun ke => negb (in_use (fst ke))) stm in
                          inl {| sec_entries := tbl ++ extra; sec_dict := d; sec_is_stream := false;
                                 sec_region := (xoff, offset_of total r4); sec_tail_value := v; sec_obj := None |}
                      end
                  | Some _ => inr 5
                  | None =>
                  inl {| sec_entries := ents; sec_dict := d; sec_is_stream := false;
                         sec_region := (xoff, offset_of total r4); sec_tail_value := v; sec_obj := None |}
                  end
              | _ => inr 4
              end
          end
      end
  | None => read_xstream fuel total sx file xoff
  end.

Fixpoint lookup_x (n : N) (l : list (N * xentry)) : option xentry :=
  match l with
  | [] => None
  | (k, e) :: t => if k =? n then Some e else lookup_x n t
  end.

(* merge: entries of newer sections win *)
Fixpoint merge_x (newer older : list (N * xentry)) : list (N * xentry) :=
  match older with
  | [] => newer
  | (k, e) :: t => match lookup_x k newer with
                   | Some _ => merge_x newer t
                   | None => merge_x ((k, e) :: newer) t
                   end
  end.

Fixpoint read_chain (fuel : nat) (pfuel : nat) (total sx : N) (file : list N) (xoff : N) (seen : list N)
  : (list section) + (N * N) :=
  match fuel with
  | O => inr (16, xoff)
  | S f =>
      if existsb (N.eqb xoff) seen then inr (16, xoff) else
      match read_section pfuel total sx file xoff with
      | inr e => inr (e, xoff)
      | inl sec =>
          match dict_get (sec_dict sec) n_Prev with
          | None => inl [sec]
          | Some (SpInt p) =>
              if (p <? 0)%Z then inr (16, xoff) else
              match read_chain f pfuel total sx file (Z.to_N p) (xoff :: seen) with
              | inl more => inl (sec :: more)
              | inr e => inr e
              end
          | Some _ => inr (16, xoff)
          end
      end
  end.

(* ---- sorting regions ---- *)
Fixpoint insert_region (r : N * N) (l : list (N * N)) : list (N * N) :=
  match l with
  | [] => [r]
  | h :: t => if fst r <=? fst h then r :: l else h :: insert_region r t
  end.
Definition sort_regions (l : list (N * N)) : list (N * N) := fold_right insert_region [] l.

(* between regions only white space and comments may occur *)
Definition gap_ok (file : list N) (a b : N) : bool :=
  match skip_ws (firstn (N.to_nat (b - a)) (at_off file a)) with [] => true | _ => false end.

Fixpoint regions_ok (file : list N) (pos : N) (l : list (N * N)) (total : N) : option N :=
  match l with
  | [] => if gap_ok file pos total then None else Some pos
  | (a, b) :: t =>
      if a <? pos then Some a                        (* overlap *)
      else if negb (gap_ok file pos a) then Some pos
      else regions_ok file b t total
  end.

Fixpoint max_num (l : list (N * xentry)) (m : N) : N :=
  match l with [] => m | (k, _) :: t => max_num t (N.max k m) end.

(* header: %PDF-d.d at offset 0, EOL; an optional binary comment line belongs to the header *)
Definition parse_header (s : list N) : option (list N * list N) :=
  match expect [37; 80; 68; 70; 45] s with
  | Some (a :: 46 :: b :: r) =>
      if is_digit a && is_digit b then
        match eol r with
        | Some r1 =>
            match r1 with
            | 37 :: _ =>
                let fix line (l : list N) : list N :=
                    match l with [] => [] | c :: t => if (c =? 10) || (c =? 13) then l else line t end in
                match eol (line r1) with Some r2 => Some ([a; 46; b], r2) | None => None end
            | _ => Some ([a; 46; b], r1)
            end
        | None => None
        end
      else None
  | _ => None
  end.

(* position of the last "startxref" : scan from the end (tail of the file is short) *)
Fixpoint find_last (pat : list N) (s : list N) (pos : N) (best : option N) : option N :=
  match s with
  | [] => best
  | _ :: t => find_last pat t (pos + 1) (match expect pat s with Some _ => Some pos | None => best end)
  end.

(* members of one object stream *)
Fixpoint objstm_pairs (n : nat) (s : list N) (acc : list (N * N)) : option (list (N * N)) :=
  match n with
  | O => Some (rev' acc)
  | S n' => match next_tok s with
            | Some (StInt a, r1) => match next_tok r1 with
                                   | Some (StInt b, r2) =>
                                       if (a <? 0)%Z || (b <? 0)%Z then None
                                       else objstm_pairs n' r2 ((Z.to_N a, Z.to_N b) :: acc)
                                   | _ => None
                                   end
            | _ => None
            end
  end.

Definition read_strict (file : list N) : rs_result :=
  let total := N.of_nat (length file) in
  let fuel := length file in
  match parse_header file with
  | None => RsErr 1 0
  | Some (ver, after_hdr) =>
      let hdr_end := offset_of total after_hdr in
      match find_last k_startxref file 0 None with
      | None => RsErr 2 total
      | Some sx =>
          match parse_tail (at_off file sx) with
          | None => RsErr 2 sx
          | Some (xoff, rest) =>
              if negb (match rest with [] => true | _ => false end) then RsErr 2 sx else
              match read_chain 64 fuel total sx file xoff [] with
              | inr (e, o) => RsErr e o
              | inl secs =>
                  let newest := hd {| sec_entries := []; sec_dict := []; sec_is_stream := false; sec_region := (0, 0);
                                      sec_tail_value := 0; sec_obj := None |} secs in
                  let xr := fold_left (fun acc s => merge_x acc (sec_entries s)) secs [] in
                  let len_of := fun n => match lookup_x n xr with
                                         | Some (XInUse off _) =>
                                             match parse_indirect fuel total file off (fun _ => None) with
                                             | inl (Some o) => match so_val o with
                                                               | SpInt z => if (0 <=? z)%Z then Some (Z.to_N z) else None
                                                               | _ => None
                                                               end
                                             | _ => None
                                             end
                                         | _ => None
                                         end in
                  let encrypted := match dict_get (sec_dict newest) [69; 110; 99; 114; 121; 112; 116] with Some _ => true | None => false end in
                  (* in-use objects *)
                  let step1 := fold_left
                    (fun (acc : (list sobj) + (N * N)) (ke : N * xentry) =>
                       match acc with
                       | inr e => inr e
                       | inl objs =>
                           match ke with
                           | (k, XInUse off gen) =>
                               match parse_indirect fuel total file off len_of with
                               | inr e => inr (e, off)
                               | inl None => inr (6, off)
                               | inl (Some o) =>
                                   if (so_num o =? k) && (so_gen o =? gen) then inl (o :: objs) else inr (6, off)
                               end
                           | _ => inl objs
                           end
                       end) xr (inl []) in
                  match step1 with
                  | inr (e, o) => RsErr e o
                  | inl objs =>
                      (* compressed objects *)
                      let find_obj := fun n => find (fun o => so_num o =? n) objs in
                      let step2 := fold_left
                        (fun (acc : (list sobj) + (N * N)) (ke : N * xentry) =>
                           match acc with
                           | inr e => inr e
                           | inl cobjs =>
                               match ke with
                               | (k, XComp stm idx) =>
                                   match find_obj stm with
                                   | Some so =>
                                       match so_val so, so_stream so with
                                       | SpDict d, Some (doff, len) =>
                                           match dict_get d n_Type, get_int d n_N, get_int d n_First with
                                           | Some (SpName t), Some n, Some first =>
                                               if negb (beq t n_ObjStm) then inr (13, stm) else
                                               if encrypted then
                                                 (* contents of object streams are encrypted: only the slot count is checked *)
                                                 if idx <? n then inl ({| so_num := k; so_gen := 0; so_where := XComp stm idx; so_val := SpNull;
                                                                           so_stream := None; so_end := 0 |} :: cobjs)
                                                 else inr (14, k)
                                               else
                                               match decode_struct_stream d (firstn (N.to_nat len) (at_off file doff)) with
                                               | None => inr (18, stm)
                                               | Some data =>
                                                   match objstm_pairs (N.to_nat n) data [] with
                                                   | None => inr (13, stm)
                                                   | Some pairs =>
                                                       match nth_error pairs (N.to_nat idx) with
                                                       | Some (onum, ooff) =>
                                                           if negb (onum =? k) then inr (14, k) else
                                                           (* 7.5.7: a member extends to the next member's offset (or the end of the data) *)
                                                           let extent := match nth_error pairs (S (N.to_nat idx)) with
                                                                         | Some (_, noff) => if ooff <? noff then N.to_nat (noff - ooff) else length data
                                                                         | None => length data
                                                                         end in
                                                           match parse_obj (fuel + length data) (firstn extent (skipn (N.to_nat (first + ooff)) data)) with
                                                           | Some (v, _) =>
                                                               inl ({| so_num := k; so_gen := 0; so_where := XComp stm idx; so_val := v;
                                                                       so_stream := None; so_end := 0 |} :: cobjs)
                                                           | None => inr (7, k)
                                                           end
                                                       | None => inr (14, k)
                                                       end
                                                   end
                                               end
                                           | _, _, _ => inr (13, stm)
                                           end
                                       | _, _ => inr (13, stm)
                                       end
                                   | None => inr (14, k)
                                   end
                               | _ => inl cobjs
                               end
                           end) xr (inl []) in
                      match step2 with
                      | inr (e, o) => RsErr e o
                      | inl cobjs =>
                          (* bodies superseded by an incremental update stay in the file: every in-use entry of every
                             section, not only the newest per object, accounts for the bytes of the object it points at *)
                          let old_regions :=
                              flat_map (fun s =>
                                flat_map (fun ke =>
                                  match snd ke with
                                  | XInUse off gen =>
                                      match lookup_x (fst ke) xr with
                                      | Some (XInUse off' _) => if off' =? off then [] else
                                          match parse_indirect fuel total file off (fun _ => None) with
                                          | inl (Some o) => [(off, so_end o)]
                                          | _ => []
                                          end
                                      | _ =>
                                          match parse_indirect fuel total file off (fun _ => None) with
                                          | inl (Some o) => [(off, so_end o)]
                                          | _ => []
                                          end
                                      end
                                  | _ => []
                                  end) (sec_entries s)) secs in
                          let d := sec_dict newest in
                          match get_int d n_Size with
                          | None => RsErr 11 xoff
                          | Some size =>
                              if negb (size =? max_num xr 0 + 1) then RsErr 11 xoff else
                              match dict_get d n_Root with
                              | Some (SpRef rn _) =>
                                  match lookup_x rn xr with
                                  | Some (XFree _ _) | None => RsErr 12 xoff
                                  | Some _ =>
                                      (* accounting: header, bodies, sections (an xref stream's body is inside its section) *)
                                      let body_regions := map (fun o => (match so_where o with XInUse off _ => off | _ => 0 end, so_end o))
                                                              (filter (fun o => negb (existsb (fun s => match sec_obj s with
                                                                                                        | Some x => so_num x =? so_num o
                                                                                                        | None => false end) secs)) objs) in
                                      let regions := sort_regions ((0, hdr_end) :: (sx, total) :: map sec_region secs ++ body_regions ++ old_regions) in
                                      match regions_ok file 0 regions total with
                                      | Some bad => RsErr 15 bad
                                      | None =>
                                          RsOk {| sf_version := ver; sf_trailer := d; sf_objs := objs ++ cobjs;
                                                  sf_xref_stream := sec_is_stream newest; sf_sections := N.of_nat (length secs);
                                                  sf_startxref := xoff; sf_regions := regions |}
                                      end
                                  end
                              | Some (SpDict _) =>
                                  (* a direct /Root (preserved by qpdf from a damaged input) is "present" *)
                                  let body_regions := map (fun o => (match so_where o with XInUse off _ => off | _ => 0 end, so_end o))
                                                          (filter (fun o => negb (existsb (fun s => match sec_obj s with
                                                                                                    | Some x => so_num x =? so_num o
                                                                                                    | None => false end) secs)) objs) in
                                  let regions := sort_regions ((0, hdr_end) :: (sx, total) :: map sec_region secs ++ body_regions ++ old_regions) in
                                  match regions_ok file 0 regions total with
                                  | Some bad => RsErr 15 bad
                                  | None =>
                                      RsOk {| sf_version := ver; sf_trailer := d; sf_objs := objs ++ cobjs;
                                              sf_xref_stream := sec_is_stream newest; sf_sections := N.of_nat (length secs);
                                              sf_startxref := xoff; sf_regions := regions |}
                                  end
                              | _ => RsErr 12 xoff
                              end
                          end
                      end
                  end
              end
          end
      end
  end.
