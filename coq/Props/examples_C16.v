(* non-vacuity: streams that meet the hypotheses of normalize_preserves_tokens_partial, with and without an inline image *)
Definition c16_ex_plain : list N :=   (* "q 1 0 0 1 0 0 cm (a<CR>b) Tj /N#41 gs<CR>% c<CR><LF><48 65>Tj" *)
  [113;32;49;32;48;32;48;32;49;32;48;32;48;32;99;109;32;40;97;13;98;41;32;84;106;32;47;78;35;52;49;32;103;115;13;37;32;99;13;10;60;52;56;32;54;53;62;84;106].
Definition c16_ex_image : list N :=   (* "q BI /W 1 ID a<00>EIx EI Q (a<CR>) Tj" *)
  [113;32;66;73;32;47;87;32;49;32;73;68;32;97;0;69;73;120;32;69;73;32;81;32;40;97;13;41;32;84;106].
Example c16_ex_plain_ok : c16_clean c16_ex_plain = true /\ c16_sem c16_ex_plain <> None /\ c16_normalize c16_ex_plain <> c16_ex_plain.
Proof. split; [vm_compute; reflexivity|split; vm_compute; discriminate]. Qed.
Example c16_ex_image_ok : c16_clean c16_ex_image = true /\ c16_sem_images (match c16_sem c16_ex_image with Some l => l | None => [] end) = [[97;0;69;73;120;32]]
  /\ c16_normalize c16_ex_image <> c16_ex_image.
Proof. split; [vm_compute; reflexivity|split; [vm_compute; reflexivity|vm_compute; discriminate]]. Qed.
Example c16_ex_coalesce : c16_sem (c16_coalesce [[49]; [50; 10]; [51]]) = Some [CsNum 1 0; CsNum 2 0; CsNum 3 0].
Proof. vm_compute. reflexivity. Qed.
(* non-vacuity of coalesce_with_repeats: object 4 = "1 0 0 1 9 0 cm" (no trailing white space), object 5 = "q", object 9 = the array
   [5 4 5 4 4]; the page whose /Contents is 9 0 R has a reading, the same stream contributes at each of its positions, and
   the model's list is the array with its repetitions; [4 null 5] has no reading and raises a warning *)
Definition c16_ex_store : c16_store :=
  [(4, CoStream [49;32;48;32;48;32;49;32;57;32;48;32;99;109]); (5, CoStream [113]); (9, CoArr [CvRef 5; CvRef 4; CvRef 5; CvRef 4; CvRef 4]); (7, CoNull)].
Example c16_ex_repeats :
  c16_spec_page c16_ex_store (CvRef 9) <> None /\
  option_map (@length _) (c16_spec_page c16_ex_store (CvRef 9)) = Some 23%nat /\
  c16_page_streams c16_ex_store (CvRef 9) = [5; 4; 5; 4; 4] /\
  c16_sem (c16_page_content c16_ex_store (CvRef 9)) = c16_spec_page c16_ex_store (CvRef 9) /\
  c16_spec_page c16_ex_store (CvArr [CvRef 4; CvRef 7; CvRef 5]) = None /\
  c16_page_warnings c16_ex_store (CvArr [CvRef 4; CvRef 7; CvRef 5]) = [CwNonStreamItem 1] /\
  c16_page_warnings c16_ex_store (CvArr [CvRef 4; CvNull; CvRef 5]) = [CwThrown 1].
Proof. repeat split; vm_compute; try reflexivity; discriminate. Qed.
