(* C03 (lexical layer): theorems relating the tokenizer model (Lex/TokModel.v), its reading
   (Lex/TokInterp.v) and the ISO 32000-1 lexical specification (Lex/LexSpec.v). *)
From QV Require Import Base.Bytes Lex.TokModel Lex.LexSpec Lex.TokInterp.
Local Open Scope N_scope.

(* D11: the full completeness statement (every input the specification lexer reads is read the same
   way by the tokenizer) is false on the faithful model: VT is white space for qpdf and a regular
   character for ISO 32000-1.  Witness: "/A<VT>B". *)
Lemma lex_complete_refuted_lemma :
  exists inp toks, lex_spec inp = Some toks /\ model_lex inp <> Some toks.
Proof.
  exists [47; 65; 11; 66], [PName [65; 11; 66]]. split; [vm_compute; reflexivity|].
  vm_compute. discriminate.
Qed.
