(* C11 - --replace-input as a directory state machine with crash and fault points, over the sink model. *)
From QV Require Import Base.Bytes Sys.StdioModel Sys.StdioProofs Sys.SinkModel Sys.OutputSpec Sys.C10Proofs.
From Coq Require Import Arith Lia.
Local Open Scope nat_scope.

(* what an observer finds in the directory after the run (or after the kill) *)
Definition c11_dir_of (r : c10_result) (orig new : list N) (inp backup temp : nat) : c11_dirobs :=
  mk_dirobs (c11_classify orig new (c10_file_of r inp))
            (c11_classify orig new (c10_file_of r backup))
            (c11_classify orig new (c10_file_of r temp)).

Lemma c11_list_eqb_refl l : list_eqb N.eqb l l = true.
Proof. apply list_eqb_N_eq. reflexivity. Qed.
Lemma c11_classify_orig orig new : c11_classify orig new (Some orig) = ClOrig.
Proof. unfold c11_classify. rewrite c11_list_eqb_refl. reflexivity. Qed.
Lemma c11_classify_new orig new : c11_complete (c11_classify orig new (Some new)) = true.
Proof. unfold c11_classify. destruct (list_eqb N.eqb new orig); [reflexivity|]. rewrite c11_list_eqb_refl. reflexivity. Qed.

Lemma c11_file_of_static code w name content :
  c10_at w name = Some (sio_static content) ->
  c10_file_of (mk_result code (c10_exit_flush_all w)) name = Some content.
Proof.
  intros H. unfold c10_file_of, c10_exit_flush_all. simpl. rewrite c10_lookup_map. unfold c10_at in H. rewrite H. simpl.
  unfold sio_disk, sio_static. simpl. rewrite !rev'_rev, rev_involutive. reflexivity.
Qed.
Lemma c11_file_of_absent code w name :
  c10_at w name = None -> c10_file_of (mk_result code (c10_exit_flush_all w)) name = None.
Proof.
  intros H. unfold c10_file_of, c10_exit_flush_all. simpl. rewrite c10_lookup_map. unfold c10_at in H. rewrite H. reflexivity.
Qed.

(* C11, second sentence, repaired sinks, for every fault oracle / buffer size / data / file-size limit:
   exit status 0 or 3 means: the complete new file is under the input name, nothing is left under the
   temporary name, and under the backup name there is the original (always when there were warnings; without
   warnings only if its removal failed, which qpdf reports without making it an error) or nothing. *)
Lemma replace_input_final_lemma : forall en warn wx0 inp backup temp chunks orig,
  ck_finish (en_ck en) = true -> inp <> backup -> inp <> temp -> backup <> temp ->
  let r := c10_run en warn wx0 (ScReplace inp backup temp chunks) orig in
  (rs_exit r = Some 0 \/ rs_exit r = Some 3) ->
  c10_file_of r inp = Some (concat chunks) /\ c10_file_of r temp = None /\
  (c10_file_of r backup = Some orig \/ (warn = false /\ c10_file_of r backup = None)).
Proof.
  intros en warn wx0 inp backup temp chunks orig Hck Hib Hit Hbt r Hx. subst r.
  rewrite (c10_run_writer_scen en warn wx0 (ScReplace inp backup temp chunks) orig eq_refl) in *. simpl in *.
  destruct (c10_replace en warn inp backup temp chunks _) as [[] w1|e w1|w1] eqn:Hw; simpl in *;
    try (destruct Hx; discriminate).
  assert (Horig : c10_at (c10_initial en (ScReplace inp backup temp chunks) orig) inp = Some (sio_static orig)).
  { unfold c10_at, c10_initial. simpl. rewrite Nat.eqb_refl. reflexivity. }
  destruct (c10_replace_complete _ _ _ _ _ _ _ _ _ Hck Hib Hit Hbt Horig Hw) as (Hcl & Ht & Hb).
  set (w1' := if warn || false then c10_say w1 DgWarn else w1).
  assert (Hat : forall m, c10_at w1' m = c10_at w1 m) by (intros m; subst w1'; destruct (warn || false); reflexivity).
  split; [|split].
  - apply c10_file_of_clean. destruct Hcl as (f & Hf & Hr). exists f. rewrite Hat. split; [exact Hf|exact Hr].
  - apply c11_file_of_absent. rewrite Hat. exact Ht.
  - destruct Hb as [Hb|[Hwn Hb]].
    + left. apply c11_file_of_static. rewrite Hat. exact Hb.
    + right. split; [exact Hwn|]. apply c11_file_of_absent. rewrite Hat. exact Hb.
Qed.

(* The pinned sinks: the device fills up at the first write of the temporary file; nothing is noticed, both
   renames and the removal are performed: exit status 0, the input name bound to an EMPTY file, the original gone. *)
Lemma replace_input_atomic_refuted_lemma :
  exists en chunks orig,
    en_ck en = c10_unrepaired /\
    let r := c10_run en false false (ScReplace 1 2 3 chunks) orig in
    rs_exit r = Some 0 /\ c11_safe (c11_dir_of r orig (concat chunks) 1 2 3) = false /\
    c11_dir_of r orig (concat chunks) 1 2 3 = mk_dirobs ClOther ClAbsent ClAbsent.
Proof.
  exists (mk_env 4096 (fun n => if Nat.eqb n 2 then FaFull else FaNone) None 2 c10_unrepaired 0 None),
         [[37; 80; 68; 70]%N; [10]%N], [111; 114; 105; 103]%N.
  repeat split; vm_compute; reflexivity.
Qed.

(* ---- every outcome (normal return, exception, kill) of an operation on stream `name` leaves every other name alone *)
Definition c10_world_of {A} (r : c10_res A) : c10_world := match r with ROk _ w | RExc _ w | RDead w => w end.

Lemma c10_kp_bind {A C} (r : c10_res A) (k : A -> c10_world -> c10_res C) m v :
  c10_at (c10_world_of r) m = v -> (forall a w1, c10_at w1 m = v -> c10_at (c10_world_of (k a w1)) m = v) ->
  c10_at (c10_world_of (c10_bind r k)) m = v.
Proof. intros Hr Hk. destruct r; simpl in *; auto. Qed.

Lemma c10_kp_stream_op {A} en name w (call : sfile -> A * sfile) ev dflt m :
  m <> name -> c10_at (c10_world_of (c10_stream_op en name w call ev dflt)) m = c10_at w m.
Proof.
  intros Hm. unfold c10_stream_op. simpl. destruct (c10_is_killb _); [reflexivity|].
  destruct (c10_lookup (cw_dir w) name); [|reflexivity].
  destruct (call _) as [a f'].
  assert (H : c10_at (c10_log (c10_put (c10_tick w) name f') (ev a)) m = c10_at w m).
  { unfold c10_at, c10_log, c10_put, c10_set_dir, c10_tick; cbn [cw_dir]. apply c10_lookup_bind_other; auto. }
  destruct (c10_is_killa _); exact H.
Qed.
Lemma c10_kp_fopen en name w m : m <> name -> c10_at (c10_world_of (c10_fopen en name w)) m = c10_at w m.
Proof.
  intros Hm. unfold c10_fopen. simpl. destruct (c10_is_killb _); [reflexivity|].
  assert (H : forall f e, c10_at (c10_log (c10_put (c10_tick w) name f) e) m = c10_at w m).
  { intros f e. unfold c10_at, c10_log, c10_put, c10_set_dir, c10_tick; cbn [cw_dir]. apply c10_lookup_bind_other; auto. }
  destruct (en_fault en (S (cw_n w))); simpl; try apply H; reflexivity.
Qed.
Lemma c10_kp_pl_write en name m : m <> name -> forall fuel d w, c10_at (c10_world_of (c10_pl_write fuel en name d w)) m = c10_at w m.
Proof.
  intros Hm. induction fuel as [|fu IH]; intros d w; destruct d as [|b tl]; simpl; try reflexivity.
  apply c10_kp_bind; [apply c10_kp_stream_op; auto|]. intros r w1 H1. destruct (Nat.eqb r 0); simpl; [exact H1|].
  rewrite IH. exact H1.
Qed.
Lemma c10_kp_pl_write_chunks en name m : m <> name -> forall chunks w, c10_at (c10_world_of (c10_pl_write_chunks en name chunks w)) m = c10_at w m.
Proof.
  intros Hm. induction chunks as [|d tl IH]; intros w; simpl; [reflexivity|].
  apply c10_kp_bind; [apply c10_kp_pl_write; auto|]. intros _ w1 H1. rewrite IH. exact H1.
Qed.
Lemma c10_kp_pl_finish en name w m : m <> name -> c10_at (c10_world_of (c10_pl_finish en name w)) m = c10_at w m.
Proof.
  intros Hm. unfold c10_pl_finish. apply c10_kp_bind; [apply c10_kp_stream_op; auto|]. intros ok w1 H1.
  destruct (ck_finish (en_ck en) && (negb ok || c10_ferror w1 name)); exact H1.
Qed.
Lemma c10_kp_pop_finish_n en name m : m <> name -> forall n w, c10_at (c10_world_of (c10_pop_finish_n n en name w)) m = c10_at w m.
Proof.
  intros Hm. induction n as [|k IH]; intros w; simpl; [reflexivity|].
  apply c10_kp_bind.
  - unfold c10_pop_finish. apply c10_kp_bind; [apply c10_kp_stream_op; auto|]. intros ok w1 H1.
    destruct (ck_finish (en_ck en) && (negb ok || c10_ferror w1 name)); [destruct (ck_popper (en_ck en))|]; exact H1.
  - intros _ w1 H1. rewrite IH. exact H1.
Qed.
Lemma c10_kp_with_pops en name r m :
  m <> name -> c10_at (c10_world_of (c10_with_pops en name r)) m = c10_at (c10_world_of r) m.
Proof.
  intros Hm. destruct r as [[] w|e w|w]; simpl; [apply c10_kp_pop_finish_n; auto| |reflexivity].
  pose proof (c10_kp_pop_finish_n en name m Hm (en_md5_pops en) w) as H. destruct (c10_pop_finish_n _ en name w); exact H.
Qed.
Lemma c10_kp_fclose en name w m : m <> name -> c10_at (c10_world_of (c10_fclose en name w)) m = c10_at w m.
Proof. intros Hm. apply c10_kp_stream_op; auto. Qed.
Lemma c10_kp_dtor_close {A} en name (r : c10_res A) m :
  m <> name -> c10_at (c10_world_of (c10_dtor_close en name r)) m = c10_at (c10_world_of r) m.
Proof.
  intros Hm. destruct r as [a w|e w|w]; simpl; [| |reflexivity]; destruct (c10_is_open w name); try reflexivity;
    pose proof (c10_kp_fclose en name w m Hm) as H; destruct (c10_fclose en name w); exact H.
Qed.
Lemma c10_kp_writer_file en name chunks w m :
  m <> name -> c10_at (c10_world_of (c10_writer_file en name chunks w)) m = c10_at w m.
Proof.
  intros Hm. unfold c10_writer_file. apply c10_kp_bind; [apply c10_kp_fopen; auto|]. intros ok w1 H1.
  destruct ok; simpl; [|exact H1]. rewrite c10_kp_dtor_close by auto.
  apply c10_kp_bind; [rewrite c10_kp_with_pops by auto; rewrite c10_kp_pl_write_chunks by auto; exact H1|]. intros _ w2 H2.
  apply c10_kp_bind; [rewrite c10_kp_pl_finish by auto; exact H2|]. intros _ w3 H3.
  apply c10_kp_bind; [rewrite c10_kp_fclose by auto; exact H3|]. intros okc w4 H4.
  destruct (ck_wclose (en_ck en) && negb okc); exact H4.
Qed.

(* rename / unlink, every outcome *)
Lemma c10_rename_all en a b w :
  a <> b ->
  let r := c10_rename en a b w in
  (cw_dir (c10_world_of r) = cw_dir w /\ (r = RDead (c10_world_of r) \/ r = ROk false (c10_world_of r))) \/
  (exists f, c10_at w a = Some f /\ c10_at (c10_world_of r) b = Some f /\ c10_at (c10_world_of r) a = None /\
             (forall m, m <> a -> m <> b -> c10_at (c10_world_of r) m = c10_at w m) /\
             (r = RDead (c10_world_of r) \/ r = ROk true (c10_world_of r))).
Proof.
  intros Hab. unfold c10_rename. simpl.
  destruct (c10_is_killb (en_fault en (S (cw_n w)))); [left; simpl; auto|].
  destruct (c10_path_fails (en_fault en (S (cw_n w)))); [left; simpl; auto|].
  destruct (c10_lookup (cw_dir w) a) as [f|] eqn:Hl; [|left; simpl; auto].
  right. exists f. split; [exact Hl|].
  set (w2 := c10_log (c10_set_dir (c10_tick w) (c10_bind_name (c10_remove (cw_dir (c10_tick w)) a) b f)) (EvRename a b true)).
  assert (H : c10_at w2 b = Some f /\ c10_at w2 a = None /\ (forall m, m <> a -> m <> b -> c10_at w2 m = c10_at w m)).
  { subst w2. unfold c10_at, c10_log, c10_set_dir, c10_tick; cbn [cw_dir]. split; [apply c10_lookup_bind_same|]. split.
    - rewrite c10_lookup_bind_other by auto. apply c10_lookup_remove_same.
    - intros m Ha Hb. rewrite c10_lookup_bind_other by auto. apply c10_lookup_remove_other; auto. }
  destruct H as (H1 & H2 & H3).
  destruct (c10_is_killa (en_fault en (S (cw_n w)))); simpl; (split; [exact H1|split; [exact H2|split; [exact H3|auto]]]).
Qed.

Lemma c10_kp_unlink en a w m : m <> a -> c10_at (c10_world_of (c10_unlink en a w)) m = c10_at w m.
Proof.
  intros Hm. unfold c10_unlink. simpl. destruct (c10_is_killb _); [reflexivity|]. destruct (c10_path_fails _); [reflexivity|].
  assert (H : c10_at (c10_log (c10_set_dir (c10_tick w) (c10_remove (cw_dir (c10_tick w)) a)) (EvUnlink a true)) m = c10_at w m).
  { unfold c10_at, c10_log, c10_set_dir, c10_tick; cbn [cw_dir]. apply c10_lookup_remove_other; auto. }
  destruct (c10_is_killa _); exact H.
Qed.

(* ---- the invariant of the protocol *)
Definition c11_inv (orig new : list N) (inp backup : nat) (w : c10_world) : Prop :=
  c10_at w inp = Some (sio_static orig) \/
  (c10_at w inp = None /\ c10_at w backup = Some (sio_static orig)) \/
  (exists f, c10_at w inp = Some f /\ sf_open f = false /\ sio_disk f = new).

Lemma c11_static_disk content : sio_disk (sio_static content) = content.
Proof. unfold sio_disk, sio_static. simpl. rewrite !rev'_rev, rev_involutive. reflexivity. Qed.

Lemma c11_inv_safe orig new inp backup temp w (flush : bool) code :
  inp <> backup -> c11_inv orig new inp backup w ->
  c11_safe (c11_dir_of (mk_result code (if flush then c10_exit_flush_all w else w)) orig new inp backup temp) = true.
Proof.
  intros Hib Hinv.
  assert (Hfile : forall m, c10_file_of (mk_result code (if flush then c10_exit_flush_all w else w)) m =
                            option_map (fun f => sio_disk (if flush then sio_exit_flush f else f)) (c10_at w m)).
  { intros m. unfold c10_file_of, c10_at. destruct flush; simpl.
    - unfold c10_exit_flush_all. simpl. rewrite c10_lookup_map. destruct (c10_lookup (cw_dir w) m); reflexivity.
    - destruct (c10_lookup (cw_dir w) m); reflexivity. }
  unfold c11_dir_of, c11_safe. cbn [do_in do_backup do_temp]. rewrite !Hfile.
  destruct Hinv as [H|[[H1 H2]|(f & H1 & H2 & H3)]].
  - rewrite H. cbn [option_map]. assert (E : (if flush then sio_exit_flush (sio_static orig) else sio_static orig) = sio_static orig) by (destruct flush; reflexivity).
    rewrite E, c11_static_disk, c11_classify_orig. reflexivity.
  - rewrite H1, H2. cbn [option_map]. assert (E : (if flush then sio_exit_flush (sio_static orig) else sio_static orig) = sio_static orig) by (destruct flush; reflexivity).
    rewrite E, c11_static_disk, c11_classify_orig. cbn [c11_classify c11_complete c11_cls_eqb]. rewrite orb_true_r. reflexivity.
  - rewrite H1. cbn [option_map]. assert (E : (if flush then sio_exit_flush f else f) = f) by (destruct flush; [unfold sio_exit_flush; rewrite H2|]; reflexivity).
    rewrite E, H3. pose proof (c11_classify_new orig new) as Hc.
    destruct (c11_classify orig new (Some new)); cbn [c11_complete c11_cls_eqb] in *; try discriminate; reflexivity.
Qed.

Lemma c11_replace_inv en warn inp backup temp chunks w orig :
  ck_finish (en_ck en) = true -> inp <> backup -> inp <> temp -> backup <> temp ->
  c10_at w inp = Some (sio_static orig) ->
  c11_inv orig (concat chunks) inp backup (c10_world_of (c10_replace en warn inp backup temp chunks w)).
Proof.
  intros Hck Hib Hit Hbt Horig. unfold c10_replace.
  pose proof (c10_kp_writer_file en temp chunks w inp Hit) as K0. rewrite Horig in K0.
  destruct (c10_writer_file en temp chunks w) as [[] w1|e w1|w1] eqn:Hw; simpl in *; try (left; exact K0).
  destruct (c10_writer_file_complete _ _ _ _ _ Hck Hw) as ((ft & Hft & Hop & _ & _ & Hdisk) & _).
  pose proof (c10_rename_all en inp backup w1 Hib) as R1. simpl in R1.
  destruct R1 as [(Hd & [Hr|Hr])|(f1 & A1 & A2 & A3 & A4 & Hr)].
  - rewrite Hr. simpl. left. unfold c10_at. rewrite Hd. exact K0.
  - rewrite Hr. simpl. left. unfold c10_at. rewrite Hd. exact K0.
  - rewrite K0 in A1. inversion A1; subst f1; clear A1.
    destruct Hr as [Hr|Hr]; rewrite Hr; simpl; [right; left; split; [exact A3|exact A2]|].
    set (w2 := c10_world_of (c10_rename en inp backup w1)) in *.
    assert (Hti : temp <> inp) by auto.
    pose proof (c10_rename_all en temp inp w2 Hti) as R2. simpl in R2.
    destruct R2 as [(Hd & [Hr2|Hr2])|(f2 & B1 & B2 & B3 & B4 & Hr2)].
    + rewrite Hr2. simpl. right; left. unfold c10_at. rewrite Hd. split; [exact A3|exact A2].
    + rewrite Hr2. simpl. right; left. unfold c10_at. rewrite Hd. split; [exact A3|exact A2].
    + rewrite A4 in B1 by auto. rewrite Hft in B1. inversion B1; subst f2; clear B1.
      assert (Hnew : forall w', c10_at w' inp = Some ft -> c11_inv orig (concat chunks) inp backup w').
      { intros w' H. right; right. exists ft. auto. }
      destruct Hr2 as [Hr2|Hr2]; rewrite Hr2; simpl; [apply Hnew; exact B2|].
      set (w3 := c10_world_of (c10_rename en temp inp w2)) in *.
      destruct warn; simpl; [apply Hnew; exact B2|].
      pose proof (c10_kp_unlink en backup w3 inp Hib) as U.
      destruct (c10_unlink en backup w3) as [ok3 w4|e4 w4|w4]; simpl in *.
      * apply Hnew. destruct ok3; simpl; rewrite ?c10_at_say; rewrite U; exact B2.
      * apply Hnew. rewrite U; exact B2.
      * apply Hnew. rewrite U; exact B2.
Qed.

(* C11, first sentence, repaired sinks: for EVERY fault oracle - any operation failing, the process killed
   immediately before or after any operation, any number of them - every buffer size, data and file-size limit,
   whatever the run ends as (exit 0, 2, 3 or killed): the directory holds a complete copy of the original or of the
   new file under one of the three names, and the input name is bound to the original, to the complete new file, or
   to nothing - never to a partial file. *)
Lemma replace_input_atomic_lemma : forall en warn wx0 inp backup temp chunks orig,
  ck_finish (en_ck en) = true -> inp <> backup -> inp <> temp -> backup <> temp ->
  c11_safe (c11_dir_of (c10_run en warn wx0 (ScReplace inp backup temp chunks) orig) orig (concat chunks) inp backup temp) = true.
Proof.
  intros en warn wx0 inp backup temp chunks orig Hck Hib Hit Hbt.
  rewrite (c10_run_writer_scen en warn wx0 (ScReplace inp backup temp chunks) orig eq_refl). simpl.
  assert (Horig : c10_at (c10_initial en (ScReplace inp backup temp chunks) orig) inp = Some (sio_static orig)).
  { unfold c10_at, c10_initial. simpl. rewrite Nat.eqb_refl. reflexivity. }
  pose proof (c11_replace_inv en warn inp backup temp chunks _ orig Hck Hib Hit Hbt Horig) as Hinv.
  destruct (c10_replace en warn inp backup temp chunks _) as [[] w1|e w1|w1]; simpl in *.
  - apply (c11_inv_safe _ _ _ _ _ _ true); auto.
    destruct (warn || false); [|exact Hinv]. exact Hinv.
  - apply (c11_inv_safe _ _ _ _ _ _ true); auto.
  - apply (c11_inv_safe _ _ _ _ _ _ false); auto.
Qed.

(* C11, third sentence, repaired sinks: exit status 2 (anything failed) leaves the original under the input name or
   under the backup name. *)
Lemma replace_input_failure_lemma : forall en warn wx0 inp backup temp chunks orig,
  ck_finish (en_ck en) = true -> inp <> backup -> inp <> temp -> backup <> temp ->
  let r := c10_run en warn wx0 (ScReplace inp backup temp chunks) orig in
  rs_exit r = Some 2 -> c10_file_of r inp = Some orig \/ c10_file_of r backup = Some orig.
Proof.
  intros en warn wx0 inp backup temp chunks orig Hck Hib Hit Hbt r Hx. subst r.
  rewrite (c10_run_writer_scen en warn wx0 (ScReplace inp backup temp chunks) orig eq_refl) in *. simpl in *.
  assert (Horig : c10_at (c10_initial en (ScReplace inp backup temp chunks) orig) inp = Some (sio_static orig)).
  { unfold c10_at, c10_initial. simpl. rewrite Nat.eqb_refl. reflexivity. }
  unfold c10_replace in *.
  pose proof (c10_kp_writer_file en temp chunks (c10_initial en (ScReplace inp backup temp chunks) orig) inp Hit) as K0.
  rewrite Horig in K0.
  destruct (c10_writer_file en temp chunks _) as [[] w1|e w1|w1] eqn:Hw; simpl in *; try discriminate.
  2:{ left. apply c11_file_of_static. rewrite c10_at_say. exact K0. }
  pose proof (c10_rename_all en inp backup w1 Hib) as R1. simpl in R1.
  destruct (c10_rename en inp backup w1) as [ok1 w2|e2 w2|w2] eqn:Hr1; simpl in *; try discriminate.
  2:{ exfalso. destruct R1 as [(_ & [Hr|Hr])|(f1 & _ & _ & _ & _ & [Hr|Hr])]; discriminate Hr. }
  destruct R1 as [(Hd & [Hr|Hr])|(f1 & A1 & A2 & A3 & A4 & [Hr|Hr])]; try discriminate; inversion Hr; subst ok1; simpl in *.
  - left. apply c11_file_of_static. rewrite c10_at_say. unfold c10_at. rewrite Hd. exact K0.
  - rewrite K0 in A1. inversion A1; subst f1; clear A1.
    pose proof (c10_rename_all en temp inp w2 (not_eq_sym Hit)) as R2. simpl in R2.
    destruct (c10_rename en temp inp w2) as [ok2 w3|e3 w3|w3] eqn:Hr2; simpl in *; try discriminate.
    2:{ exfalso. destruct R2 as [(_ & [Hq|Hq])|(f2 & _ & _ & _ & _ & [Hq|Hq])]; discriminate Hq. }
    destruct R2 as [(Hd & [Hq|Hq])|(f2 & B1 & B2 & B3 & B4 & [Hq|Hq])]; try discriminate; inversion Hq; subst ok2; simpl in *.
    + right. apply c11_file_of_static. rewrite c10_at_say. unfold c10_at. rewrite Hd. exact A2.
    + destruct warn; simpl in *; [destruct wx0; discriminate|].
      destruct (c10_unlink en backup w3) as [ok3 w4|e4 w4|w4] eqn:Hu; simpl in *; try discriminate.
      exfalso. unfold c10_unlink in Hu. simpl in Hu. destruct (c10_is_killb _); [discriminate|].
      destruct (c10_path_fails _); [discriminate|]. destruct (c10_is_killa _); discriminate.
Qed.

(* /repo at c4309d60 (D2 repaired, Popper destructor not) with --deterministic-id: the device fills up while the temporary
   file is written; the first finish() that notices is the one inside the destructor: std::terminate.  The directory is
   safe (the original is untouched, a partial temporary file is left behind) but the exit status is 134, not 2. *)
Lemma replace_input_terminate_refuted_lemma :
  exists en chunks orig,
    en_ck en = c10_repaired_d2 /\
    let r := c10_run en false false (ScReplace 1 2 3 chunks) orig in
    c10_exit_status r = Some 134 /\ c10_has_err (cw_diag (rs_world r)) = false /\
    c11_dir_of r orig (concat chunks) 1 2 3 = mk_dirobs ClOrig ClAbsent ClOther.
Proof.
  exists (mk_env 4096 (fun n => if Nat.eqb n 2 then FaFull else FaNone) None 2 c10_repaired_d2 1 None),
         [[37; 80; 68; 70]%N; [10]%N], [111; 114; 105; 103]%N.
  repeat split; vm_compute; reflexivity.
Qed.
