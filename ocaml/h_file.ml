(* handlers: strict reader / inflate (File/) *)
open Qvmodel
open Runner

let read_file (path : string) : string =
  let ic = open_in_bin path in
  let n = in_channel_length ic in
  let s = really_input_string ic n in
  close_in ic; s

let rec json_of_pobj (b : Buffer.t) (o : pobj) : unit =
  match o with
  | SpNull -> Buffer.add_string b "null"
  | SpBool true -> Buffer.add_string b "true"
  | SpBool false -> Buffer.add_string b "false"
  | SpInt z -> Buffer.add_string b (string_of_int (int_of_z z))
  | SpReal sp -> Buffer.add_string b ("{\"r\":\"" ^ string_of_bytes sp ^ "\"}")
  | SpStr s -> Buffer.add_string b ("{\"s\":\"" ^ (let h = hexbytes s in if h = "-" then "" else h) ^ "\"}")
  | SpName n -> Buffer.add_string b ("{\"n\":\"" ^ (let h = hexbytes n in if h = "-" then "" else h) ^ "\"}")
  | SpRef (n, g) -> Buffer.add_string b (Printf.sprintf "{\"ref\":[%d,%d]}" (int_of_n n) (int_of_n g))
  | SpArr l ->
    Buffer.add_char b '[';
    List.iteri (fun i x -> if i > 0 then Buffer.add_char b ','; json_of_pobj b x) l;
    Buffer.add_char b ']'
  | SpDict d ->
    Buffer.add_string b "{\"d\":[";
    List.iteri (fun i (k, v) -> if i > 0 then Buffer.add_char b ',';
                 Buffer.add_string b ("[\"" ^ (let h = hexbytes k in if h = "-" then "" else h) ^ "\",");
                 json_of_pobj b v; Buffer.add_char b ']') d;
    Buffer.add_string b "]}"

let strict_result (data : string) : string =
  match read_strict (bytes_of_string data) with
  | RsErr (c, o) -> Printf.sprintf "{\"ok\":false,\"code\":%d,\"at\":%d}" (int_of_n c) (int_of_n o)
  | RsOk f ->
    let b = Buffer.create 65536 in
    Buffer.add_string b (Printf.sprintf "{\"ok\":true,\"version\":\"%s\",\"xref_stream\":%b,\"sections\":%d,\"startxref\":%d,\"trailer\":"
                           (string_of_bytes f.sf_version) f.sf_xref_stream (int_of_n f.sf_sections) (int_of_n f.sf_startxref));
    json_of_pobj b (SpDict f.sf_trailer);
    Buffer.add_string b ",\"objects\":[";
    List.iteri (fun i o ->
        if i > 0 then Buffer.add_char b ',';
        Buffer.add_string b (Printf.sprintf "{\"num\":%d,\"gen\":%d,\"where\":%s,\"stream\":%s,\"end\":%d,\"val\":"
          (int_of_n o.so_num) (int_of_n o.so_gen)
          (match o.so_where with
           | XInUse (off, _) -> Printf.sprintf "[\"n\",%d]" (int_of_n off)
           | XComp (s, i) -> Printf.sprintf "[\"c\",%d,%d]" (int_of_n s) (int_of_n i)
           | XFree (_, _) -> "[\"f\"]")
          (match o.so_stream with Some (a, l) -> Printf.sprintf "[%d,%d]" (int_of_n a) (int_of_n l) | None -> "null")
          (int_of_n o.so_end));
        json_of_pobj b o.so_val;
        Buffer.add_char b '}') f.sf_objs;
    Buffer.add_string b "]}";
    Buffer.contents b

let () =
  register "strictf" (fun args -> match args with
    | [path] -> strict_result (read_file path)
    | _ -> "?args");
  register "strict" (fun args -> match args with
    | [h] -> strict_result (unhex h)
    | _ -> "?args");
  register "inflate" (fun args -> match args with
    | [h] -> (match zlib_inflate (unhexbytes h) with
              | Some (o, c) -> hexbytes o ^ " " ^ string_of_int (int_of_n c)
              | None -> "err")
    | _ -> "?args")

let () =
  register "warith" (fun args -> match args with
    | ["xref_line"; off] -> hexbytes (xref_line (n_of_int (int_of_string off)))
    | ["f1_size"; a; b; c] -> string_of_int (int_of_n (f1_size (n_of_int (int_of_string a)) (n_of_int (int_of_string b)) (n_of_int (int_of_string c))))
    | ["bytes_needed"; a] -> string_of_int (int_of_n (bytes_needed (n_of_int (int_of_string a))))
    | ["n_per"; k] -> Printf.sprintf "%d %d" (int_of_n (n_per_stream (n_of_int (int_of_string k)))) (int_of_n (n_object_streams (n_of_int (int_of_string k))))
    | ["aes_len"; n] -> string_of_int (int_of_n (adjust_aes_length (n_of_int (int_of_string n))))
    | ["write_binary"; v; w] -> hexbytes (write_binary (n_of_int (int_of_string v)) (nat_of_int (int_of_string w)))
    | _ -> "?args")

(* ---- xref section merge model (File/XrefModel.v) ---- *)
let c3_entries (s : string) : (n * c3_xe) list =
  if s = "" then [] else
  List.map (fun item -> match String.split_on_char ':' item with
      | [o; k; a; b] ->
        let o = n_of_int (int_of_string o) and a = n_of_int (int_of_string a) and b = n_of_int (int_of_string b) in
        (o, (match k with "f" -> C3Free b | "n" -> C3Use (a, b) | _ -> C3Comp (a, b)))
      | _ -> failwith "c3 entry") (String.split_on_char ',' s)

let () =
  register "xrefmodel" (fun args -> match args with
    | [mx; chain] ->
      let max_id = int_of_string mx in
      let secs = List.map (fun s -> match String.split_on_char '|' s with
          | [k; t; x] -> { c3_is_table = (k = "T"); c3_table = c3_entries t; c3_stm = c3_entries x }
          | _ -> failwith "c3 section") (String.split_on_char ';' chain) in
      let b = Buffer.create 256 in
      Buffer.add_string b "ok";
      for o = 1 to max_id do
        (match c3_qpdf_view (n_of_int max_id) secs (n_of_int o) with
         | Some (g, C3Use (off, _)) -> Buffer.add_string b (Printf.sprintf " %d=n:%d:%d" o (int_of_n off) (int_of_n g))
         | Some (_, C3Comp (s, i)) -> Buffer.add_string b (Printf.sprintf " %d=c:%d:%d" o (int_of_n s) (int_of_n i))
         | _ -> ())
      done;
      Buffer.contents b
    | _ -> "?args")
