(* C14 - proofs, part D: every string and every name is emitted as a valid JSON text (RFC 8259 + RFC 3629)
   that denotes what the model says; UTF-16 and PDFDoc conversions always give valid UTF-8. *)
From QV Require Import Base.Bytes Gen.PdfDoc Json.JsonSpec Json.JsonEmit Json.C14ProofsA Json.C14ProofsB Json.C14ProofsC.
Local Open Scope N_scope.

Ltac Zify.zify_post_hook ::= Z.to_euclidean_division_equations.

(* ------------------------------------------------------------------ UTF-8 validity and concatenation *)

Lemma utf8_encode_app a b : utf8_encode (a ++ b) = utf8_encode a ++ utf8_encode b.
Proof. unfold utf8_encode. apply flat_map_app. Qed.

Lemma utf8_valid_app a b : utf8_valid a = true -> utf8_valid (a ++ b) = utf8_valid b.
Proof.
  intros Ha. apply utf8_valid_iff_lemma in Ha. destruct Ha as (cs & Hcs & ->).
  induction Hcs as [|c cs Hc Hcs IH]; [reflexivity|].
  unfold utf8_encode in *. simpl. rewrite <- app_assoc. rewrite utf8_enc_valid by assumption. exact IH.
Qed.

Lemma utf8_valid_ascii_list x : Forall (fun b => b <= 127) x -> utf8_valid x = true.
Proof. induction 1 as [|c t Hc Ht IH]; [reflexivity|]. rewrite utf8_valid_ascii by assumption. exact IH. Qed.

Lemma utf8_enc_bytes c : scalar_value c -> 128 <= c -> Forall (fun b => 128 <= b /\ b < 256) (utf8_enc c).
Proof.
  intros Hs Hc. unfold scalar_value in Hs. unfold utf8_enc.
  destruct (N.ltb_spec c 128); [lia|].
  destruct (N.ltb_spec c 2048); [repeat constructor; lia|].
  destruct (N.ltb_spec c 65536); repeat constructor; lia.
Qed.

Lemma encode_char_ascii c : c <= 127 -> Forall (fun b => b <= 127) (jm_encode_char c).
Proof.
  intros Hc. destruct (jm_plain_char c) eqn:P.
  - unfold jm_encode_char. rewrite P. repeat constructor. assumption.
  - unfold jm_encode_char. rewrite P.
    assert (Hh : jm_hexdigit (c mod 16) <= 127) by (unfold jm_hexdigit; pose proof (N.mod_lt c 16 ltac:(discriminate)); destruct (c mod 16 <? 10); lia).
    repeat match goal with |- context [if ?b then _ else _] => destruct b end; repeat constructor; lia.
Qed.

Lemma encode_high_bytes x : Forall (fun b => 128 <= b /\ b < 256) x -> jm_encode_string x = x.
Proof.
  intros H. apply encode_string_plain. eapply Forall_impl; [|exact H].
  intros b [Hb _]. apply plain_char_spec. left. lia.
Qed.

(* escaping keeps a well-formed text well-formed *)
Lemma encode_string_utf8 s : utf8_valid s = true -> utf8_valid (jm_encode_string s) = true.
Proof.
  intros Hs. apply utf8_valid_iff_lemma in Hs. destruct Hs as (cs & Hcs & ->).
  induction Hcs as [|c cs Hc Hcs IH]; [reflexivity|].
  change (utf8_encode (c :: cs)) with (utf8_enc c ++ utf8_encode cs). rewrite encode_string_app.
  destruct (N.ltb_spec c 128).
  - unfold utf8_enc. apply N.ltb_lt in H. rewrite H. apply N.ltb_lt in H.
    simpl jm_encode_string. rewrite app_nil_r.
    rewrite utf8_valid_app; [exact IH|]. apply utf8_valid_ascii_list. apply encode_char_ascii. lia.
  - rewrite encode_high_bytes by (apply utf8_enc_bytes; assumption).
    rewrite utf8_enc_valid by assumption. exact IH.
Qed.

(* ------------------------------------------------------------------ a quoted, escaped, well-formed text is a JSON text that denotes it *)

Lemma json_grammar_string t v : js_string t = Some (v, []) -> json_grammar (34 :: t) = true.
Proof.
  intros H. unfold json_grammar. cbn [js_skip_ws]. change (js_ws 34) with false. cbv iota.
  cbn [js_value]. change (34 =? 34) with true. cbv iota. rewrite H. reflexivity.
Qed.

Lemma json_valid_string_token s : utf8_valid s = true ->
  json_valid (jm_q (jm_encode_string s)) = true /\ json_string_value (jm_q (jm_encode_string s)) = Some s.
Proof.
  intros Hs.
  assert (Hu : utf8_valid (jm_q (jm_encode_string s)) = true).
  { unfold jm_q. rewrite utf8_valid_ascii by lia. rewrite utf8_valid_app by (apply encode_string_utf8; assumption). reflexivity. }
  split.
  - unfold json_valid. rewrite Hu. unfold jm_q. apply (json_grammar_string _ s). apply js_string_encode.
  - unfold json_string_value. rewrite Hu. unfold jm_q. rewrite js_string_encode. reflexivity.
Qed.

(* the same with an ASCII prefix that needs no escaping (u: b: n: and the name's own text) *)
Lemma json_valid_prefixed pre s : Forall (fun c => jm_plain_char c = true /\ c <= 127) pre -> utf8_valid s = true ->
  json_valid (jm_q (pre ++ jm_encode_string s)) = true /\ json_string_value (jm_q (pre ++ jm_encode_string s)) = Some (pre ++ s).
Proof.
  intros Hp Hs.
  assert (E : pre ++ jm_encode_string s = jm_encode_string (pre ++ s)).
  { rewrite encode_string_app. f_equal. symmetry. apply encode_string_plain. eapply Forall_impl; [|exact Hp]. intros ? [? ?]; assumption. }
  rewrite E. apply json_valid_string_token.
  rewrite utf8_valid_app; [assumption|]. apply utf8_valid_ascii_list. eapply Forall_impl; [|exact Hp]. intros ? [? ?]; assumption.
Qed.

(* valid UTF-8 in -> valid JSON string out, and unescaping (RFC 8259 section 7) gives the input back *)
Lemma encode_string_valid_lemma : forall s, utf8_valid s = true ->
  json_valid (jm_q (jm_encode_string s)) = true /\ json_string_value (jm_q (jm_encode_string s)) = Some s.
Proof. exact json_valid_string_token. Qed.

(* ------------------------------------------------------------------ QUtil::utf16_to_utf8 always produces well-formed UTF-8 *)

Definition all_u16 : list N := flat_map (fun hi => map (fun lo => hi * 256 + lo) all_bytes) all_bytes.
Lemma u16_sweep (P : N -> bool) : forallb P all_u16 = true -> forall u, u < 65536 -> P u = true.
Proof.
  intros H u Hu. rewrite forallb_forall in H. apply H. unfold all_u16. apply in_flat_map.
  exists (u / 256). split; [apply all_bytes_complete; lia|].
  apply in_map_iff. exists (u mod 256). split; [lia|apply all_bytes_complete; lia].
Qed.

Lemma u16_land_facts u : u < 65536 ->
  (N.land u 64512 =? 55296) = js_in_rng 55296 56319 u /\
  (N.land u 64512 =? 56320) = js_in_rng 56320 57343 u /\
  N.land u 1023 = u mod 1024.
Proof.
  intros Hu.
  assert (E : forallb (fun u => Bool.eqb (N.land u 64512 =? 55296) (js_in_rng 55296 56319 u) &&
                                 Bool.eqb (N.land u 64512 =? 56320) (js_in_rng 56320 57343 u) &&
                                 (N.land u 1023 =? u mod 1024)) all_u16 = true) by (vm_compute; reflexivity).
  pose proof (u16_sweep _ E u Hu) as Hs. cbv beta in Hs.
  apply andb_true_iff in Hs. destruct Hs as [Hs H3]. apply andb_true_iff in Hs. destruct Hs as [H1 H2].
  apply Bool.eqb_prop in H1. apply Bool.eqb_prop in H2. apply N.eqb_eq in H3. repeat split; assumption.
Qed.

Lemma to_utf8_scalar_valid c r : scalar_value c -> utf8_valid (jm_to_utf8 c ++ r) = utf8_valid r.
Proof.
  intros Hs. rewrite to_utf8_is_utf8_enc_lemma by (unfold scalar_value in Hs; lia). apply utf8_enc_valid. assumption.
Qed.

Lemma utf8_valid_rev_append x acc : utf8_valid (rev acc) = true -> utf8_valid x = true ->
  utf8_valid (rev (rev_append x acc)) = true.
Proof.
  intros Ha Hx. rewrite rev_append_rev, rev_app_distr, rev_involutive. rewrite utf8_valid_app; assumption.
Qed.

Lemma u16_loop_valid le : forall n l cp acc, (length l <= n)%nat -> bytes_lt l ->
  (cp = 0 \/ 65536 <= cp <= 1113088) -> utf8_valid (rev acc) = true ->
  utf8_valid (jm_u16_loop le l cp acc) = true.
Proof.
  induction n as [|n IH]; intros l cp acc Hn Hl Hcp Hacc.
  - destruct l; [|simpl in Hn; lia]. simpl. rewrite rev'_rev. assumption.
  - destruct l as [|a [|b t]]; try (simpl; rewrite rev'_rev; assumption).
    inversion Hl as [|? ? Ha Hl1]; subst. inversion Hl1 as [|? ? Hb Hl2]; subst.
    cbn [jm_u16_loop].
    set (bits := if le then b * 256 + a else a * 256 + b).
    assert (Hbits : bits < 65536) by (unfold bits; destruct le; lia).
    destruct (u16_land_facts bits Hbits) as (F1 & F2 & F3). rewrite F1, F2, F3.
    destruct (js_in_rng 55296 56319 bits) eqn:E1.
    + apply IH; [simpl in Hn; lia|assumption| |assumption]. right.
      assert (bits mod 1024 < 1024) by (apply N.mod_lt; lia). lia.
    + apply IH; [simpl in Hn; lia|assumption|left; reflexivity|].
      apply utf8_valid_rev_append; [assumption|].
      rewrite <- (app_nil_r (jm_to_utf8 _)). rewrite to_utf8_scalar_valid; [reflexivity|].
      apply in_rng_false in E1. unfold scalar_value.
      destruct (js_in_rng 56320 57343 bits) eqn:E2.
      * apply in_rng_true in E2. assert (bits mod 1024 < 1024) by (apply N.mod_lt; lia).
        destruct Hcp as [->|Hcp]; [left; lia|right; lia].
      * apply in_rng_false in E2. lia.
Qed.

Lemma utf16_to_utf8_valid_lemma : forall s, bytes_lt s -> utf8_valid (jm_utf16_to_utf8 s) = true.
Proof.
  intros s Hs. unfold jm_utf16_to_utf8.
  destruct (jm_is_utf16 s).
  - apply (u16_loop_valid _ (length (tl (tl s)))); [lia| |left; reflexivity|reflexivity].
    destruct s as [|a [|b t]]; simpl; try constructor. inversion Hs as [|? ? ? H1]; subst. inversion H1; subst. assumption.
  - apply (u16_loop_valid _ (length s)); [lia|assumption|left; reflexivity|reflexivity].
Qed.

(* ------------------------------------------------------------------ PDFDocEncoding tables (generated from QUtil.cc on every run) *)

(* the generated tables say what ISO 32000-1 Annex D.2 says (undefined codes: U+FFFD) *)
Lemma pdfdoc_tables_match_annex_d_lemma : forall b, b < 256 ->
  jm_pdfdoc_to_unicode b = match pdfdoc_to_unicode_spec b with Some u => u | None => 65533 end.
Proof.
  intros b Hb.
  assert (E : forallb (fun b => jm_pdfdoc_to_unicode b =? match pdfdoc_to_unicode_spec b with Some u => u | None => 65533 end) all_bytes = true)
    by (vm_compute; reflexivity).
  apply N.eqb_eq. exact (byte_sweep _ E b Hb).
Qed.

(* unicode_to_pdf_doc inverts the forward tables on every defined code *)
Lemma pdfdoc_tables_inverse_lemma : forall b, b < 256 ->
  match pdfdoc_to_unicode_spec b with
  | Some u => fst (jm_pdfdoc_step u false) = b \/ (24 <= u <= 31) \/ 128 <= u <= 160
  | None => True
  end.
Proof.
  intros b Hb.
  assert (E : forallb (fun b => match pdfdoc_to_unicode_spec b with
                                | Some u => (fst (jm_pdfdoc_step u false) =? b) || ((24 <=? u) && (u <=? 31)) || ((128 <=? u) && (u <=? 160))
                                | None => true end) all_bytes = true) by (vm_compute; reflexivity).
  pose proof (byte_sweep _ E b Hb) as Hs. cbv beta in Hs.
  destruct (pdfdoc_to_unicode_spec b); [|exact I].
  rewrite !orb_true_iff, !andb_true_iff, N.eqb_eq, !N.leb_le in Hs. tauto.
Qed.

Lemma pdfdoc_unicode_scalar b : b < 256 -> scalar_value (jm_pdfdoc_to_unicode b).
Proof.
  intros Hb.
  assert (E : forallb (fun b => scalar_valueb (jm_pdfdoc_to_unicode b)) all_bytes = true) by (vm_compute; reflexivity).
  pose proof (byte_sweep _ E b Hb) as Hs. cbv beta in Hs. unfold scalar_valueb in Hs. unfold scalar_value.
  rewrite orb_true_iff, andb_true_iff, N.ltb_lt, !N.leb_le in Hs. exact Hs.
Qed.

Lemma pdf_doc_to_utf8_valid_lemma : forall s, bytes_lt s -> utf8_valid (jm_pdf_doc_to_utf8 s) = true.
Proof.
  induction 1 as [|b t Hb Ht IH]; [reflexivity|].
  unfold jm_pdf_doc_to_utf8 in *. simpl. rewrite to_utf8_scalar_valid by (apply pdfdoc_unicode_scalar; assumption). exact IH.
Qed.

(* ------------------------------------------------------------------ strings: QPDF_String::writeJSON (after D7D8_json_strings.diff) *)

Lemma skipn_bytes {n} (s : list N) : bytes_lt s -> bytes_lt (skipn n s).
Proof. intros H. revert s H. induction n; intros s H; [assumption|]. destruct s; [constructor|]. inversion H; subst. apply IHn. assumption. Qed.

Lemma prefix_u_plain : Forall (fun c => jm_plain_char c = true /\ c <= 127) [117; 58].
Proof. repeat constructor; vm_compute; congruence. Qed.
Lemma prefix_b_plain : Forall (fun c => jm_plain_char c = true /\ c <= 127) [98; 58].
Proof. repeat constructor; vm_compute; congruence. Qed.
Lemma prefix_n_plain : Forall (fun c => jm_plain_char c = true /\ c <= 127) [110; 58].
Proof. repeat constructor; vm_compute; congruence. Qed.

Lemma hex_encode_ascii s : bytes_lt s -> Forall (fun c => jm_plain_char c = true /\ c <= 127) (jm_hex_encode s).
Proof.
  induction 1 as [|c t Hc Ht IH]; [constructor|]. simpl.
  assert (Hh : forall v, v < 16 -> jm_plain_char (jm_hexdigit v) = true /\ jm_hexdigit v <= 127).
  { intros v Hv. split; [apply hexdigit_decode; assumption|]. unfold jm_hexdigit. destruct (v <? 10); lia. }
  constructor; [apply Hh; apply N.div_lt_upper_bound; lia|].
  constructor; [apply Hh; apply N.mod_lt; lia|]. exact IH.
Qed.

(* the two shapes every emitted string has *)
Lemma json_valid_text_form pre x : Forall (fun c => jm_plain_char c = true /\ c <= 127) pre -> utf8_valid x = true ->
  json_valid (jm_q (pre ++ jm_encode_string x)) = true.
Proof. intros Hp Hx. apply json_valid_prefixed; assumption. Qed.

Lemma json_valid_binary_form s : bytes_lt s -> json_valid (jm_q ([98; 58] ++ jm_hex_encode s)) = true.
Proof.
  intros Hs. pose proof (hex_encode_ascii s Hs) as Hh.
  replace ([98; 58] ++ jm_hex_encode s) with (([98; 58] ++ jm_hex_encode s) ++ jm_encode_string []) by (simpl; rewrite app_nil_r; reflexivity).
  apply json_valid_text_form; [|reflexivity]. apply Forall_app. split; [exact prefix_b_plain|exact Hh].
Qed.

(* Every string, in both JSON versions, is emitted as a strictly valid JSON text. *)
Lemma json_string_valid_lemma : forall version s, bytes_lt s -> json_valid (jm_string_json version s) = true.
Proof.
  intros version s Hs. unfold jm_string_json.
  pose proof (utf16_to_utf8_valid_lemma s Hs) as H16.
  pose proof (pdf_doc_to_utf8_valid_lemma s Hs) as Hpd.
  assert (H8 : jm_wf_utf8 (skipn 3 s) = true -> utf8_valid (skipn 3 s) = true) by (rewrite wf_utf8_is_utf8_valid_lemma; tauto).
  destruct (version =? 1).
  - destruct (jm_is_utf16 s); [apply (json_valid_text_form []); [constructor|assumption]|].
    destruct (jm_is_explicit_utf8 s && jm_wf_utf8 (skipn 3 s)) eqn:E.
    + apply andb_true_iff in E. apply (json_valid_text_form []); [constructor|apply H8; tauto].
    + apply (json_valid_text_form []); [constructor|assumption].
  - destruct (jm_is_utf16 s && jm_wf_utf16 s); [apply json_valid_text_form; [exact prefix_u_plain|assumption]|].
    destruct (jm_is_explicit_utf8 s && jm_wf_utf8 (skipn 3 s)) eqn:E.
    + apply andb_true_iff in E. apply json_valid_text_form; [exact prefix_u_plain|apply H8; tauto].
    + match goal with |- context [if ?c then _ else _] => destruct c end.
      * apply json_valid_text_form; [exact prefix_u_plain|assumption].
      * apply json_valid_binary_form. assumption.
Qed.

(* D8: on the pinned tree a UTF-8 byte-order mark followed by malformed UTF-8 is emitted raw: EF BB BF FF 41 C0 *)
Lemma json_string_valid_refuted_lemma :
  exists version s, bytes_lt s /\ json_valid (jm_string_json_pinned version s) = false.
Proof. exists 2, [239; 187; 191; 255; 65; 192]. split; [repeat constructor|]. vm_compute. reflexivity. Qed.

Lemma json_string_pinned_witnesses_lemma :
  utf8_valid (jm_string_json_pinned 2 [239; 187; 191; 255; 65; 192]) = false /\
  utf8_valid (jm_string_json_pinned 1 [239; 187; 191; 255; 65; 192]) = false /\
  (* D7: FE FF DC 01 00 41 is exported as the text "\u0001A", FE FF D8 00 00 41 as "A" *)
  jm_string_json_pinned 2 [254; 255; 220; 1; 0; 65] = [34; 117; 58; 92; 117; 48; 48; 48; 49; 65; 34] /\
  jm_string_json_pinned 2 [254; 255; 216; 0; 0; 65] = [34; 117; 58; 65; 34] /\
  well_formed_for_its_bom [254; 255; 220; 1; 0; 65] = false /\ well_formed_for_its_bom [254; 255; 216; 0; 0; 65] = false.
Proof. vm_compute. repeat split. Qed.

(* ------------------------------------------------------------------ names (values and dictionary keys) *)

Lemma hexdigit_ascii v : v < 16 -> jm_plain_char (jm_hexdigit v) = true /\ jm_hexdigit v <= 127.
Proof. intros Hv. split; [apply hexdigit_decode; assumption|]. unfold jm_hexdigit. destruct (v <? 10); lia. Qed.

Lemma normalize_char_ascii c : c < 256 -> Forall (fun b => b <= 127) (jm_normalize_char c).
Proof.
  intros Hc. unfold jm_normalize_char.
  destruct (c =? 0); [repeat constructor; lia|].
  destruct ((c <? 33) || (128 <=? c) || jm_name_special c || (c =? 127)) eqn:E.
  - repeat constructor; try lia; apply hexdigit_ascii; [apply N.div_lt_upper_bound; lia|apply N.mod_lt; lia].
  - repeat constructor. rewrite !orb_false_iff in E. destruct E as [[[_ E] _] _]. apply N.leb_gt in E. lia.
Qed.

Lemma normalize_ascii t : bytes_lt t -> Forall (fun b => b <= 127) (flat_map jm_normalize_char t).
Proof.
  induction 1 as [|c t Hc Ht IH]; [constructor|]. simpl. apply Forall_app. split; [apply normalize_char_ascii; assumption|exact IH].
Qed.

(* second component of analyzeJSONEncoding: no character needs escaping *)
Lemma analyze_plain : forall l, bytes_lt l -> forall tail t2 t3 sr tp ne,
  snd (jm_analyze_go l tail t2 t3 sr tp ne) = true -> ne = false /\ Forall (fun c => jm_plain_char c = true) l.
Proof.
  induction 1 as [|c t Hc Ht IH]; intros tail t2 t3 sr tp ne H.
  - simpl in H. apply negb_true_iff in H. split; [assumption|constructor].
  - destruct (land_facts c Hc) as (L1 & _).
    assert (Hhigh : 128 <= c -> jm_plain_char c = true) by (intros; apply plain_char_spec; left; lia).
    cbn [jm_analyze_go] in H.
    repeat match type of H with
           | snd (if ?b then _ else _) = true => destruct b eqn:?
           end;
      try (simpl in H; discriminate);
      try (apply IH in H; destruct H as [H1 H2];
           first [ (* ASCII branch *)
                   apply orb_false_iff in H1; destruct H1 as [-> H1]; apply negb_false_iff in H1;
                   split; [reflexivity|constructor; assumption]
                 | split; [assumption|constructor; [|assumption]]; apply Hhigh;
                   first [ (* continuation byte *)
                           match goal with Hn : negb (N.land c 192 =? 128) = false |- _ =>
                             apply negb_false_iff in Hn; rewrite L1 in Hn; apply in_rng_true in Hn; lia end
                         | match goal with Hn : (c <? 128) = false |- _ => apply N.ltb_ge in Hn; lia end ] ]).
Qed.

(* Every name - as qpdf holds it: with its leading '/' - is emitted as a strictly valid JSON text, as a value and
   as a dictionary key, in both JSON versions. *)
Lemma json_name_valid_lemma : forall version t, bytes_lt t -> json_valid (jm_name_json version (47 :: t)) = true.
Proof.
  intros version t Ht. unfold jm_name_json, jm_name_body, jm_name_body_with.
  assert (Hb : bytes_lt (47 :: t)) by (constructor; [lia|assumption]).
  assert (Hn : utf8_valid (jm_normalize (47 :: t)) = true).
  { simpl. apply utf8_valid_ascii_list. apply normalize_ascii. assumption. }
  destruct (version =? 1).
  - exact (json_valid_text_form [] _ ltac:(constructor) Hn).
  - pose proof (analyze_is_utf8_valid_lemma (47 :: t) Hb) as Ha.
    destruct (jm_analyze (47 :: t)) as [valid plain] eqn:E. cbn [fst] in Ha.
    destruct valid.
    + symmetry in Ha. destruct plain.
      * (* needs no escaping: written as it is, which is what encode_string would write *)
        assert (Hp : jm_encode_string (47 :: t) = 47 :: t).
        { apply encode_string_plain. unfold jm_analyze in E.
          apply (analyze_plain (47 :: t) Hb 0 false false false false false). rewrite E. reflexivity. }
        pose proof (json_valid_text_form [] (47 :: t) ltac:(constructor) Ha) as J. rewrite Hp in J. exact J.
      * exact (json_valid_text_form [] (47 :: t) ltac:(constructor) Ha).
    + apply json_valid_text_form; [exact prefix_n_plain|assumption].
Qed.

(* D9: on the pinned tree a name holding a UTF-16 surrogate is emitted raw *)
Lemma json_name_valid_refuted_lemma :
  exists version t, bytes_lt t /\ json_valid (jm_name_json_pinned version (47 :: t)) = false.
Proof. exists 2, [237; 160; 128]. split; [repeat constructor|]. vm_compute. reflexivity. Qed.
