(* Concrete lines used by the non-vacuity examples of File/C17Proofs.v (kept apart so that the proofs file does not
   import Coq.Strings.String, whose `length` and `++` would shadow the list ones in the generated Props file). *)
From Coq Require Import String.
From QV Require Import Base.Bytes File.FixQdf.
Definition c17_ln (s : string) : list N := (fq_bs s ++ [10%N])%list.
Definition c17_l_obj1 : list N := Eval vm_compute in c17_ln "1 0 obj".
Definition c17_l_obj2 : list N := Eval vm_compute in c17_ln "2 0 obj".
Definition c17_l_open : list N := Eval vm_compute in c17_ln "<<".
Definition c17_l_close : list N := Eval vm_compute in c17_ln ">>".
Definition c17_l_key : list N := Eval vm_compute in c17_ln "  /K 1".
Definition c17_l_type : list N := Eval vm_compute in c17_ln "  /Type /ObjStm".
Definition c17_l_olddict : list N := Eval vm_compute in c17_ln "  /Length 5 /Extends 7 0 R".
Definition c17_l_pair : list N := Eval vm_compute in c17_ln "2 0".
Definition c17_l_member : list N := Eval vm_compute in c17_ln "%% Object stream: object 2, index 0".
Definition c17_l_bt : list N := Eval vm_compute in c17_ln "BT".
Definition c17_l_almost : list N := Eval vm_compute in fq_bs "endstream ".
Definition c17_l_44 : list N := Eval vm_compute in c17_ln "44".
Definition c17_d_2 : list N := Eval vm_compute in fq_bs "2".
(* lines of the two-object-stream examples of File/C17ExtProofs.v *)
Definition c17x_l_obj3 : list N := Eval vm_compute in c17_ln "3 0 obj".
Definition c17x_l_len : list N := Eval vm_compute in c17_ln "  /Length 5".
Definition c17x_l_ext3 : list N := Eval vm_compute in c17_ln "  /Extends 3 0 R".
Definition c17x_l_ext1 : list N := Eval vm_compute in c17_ln "  /Extends 1 0 R".
Definition c17x_l_pair4 : list N := Eval vm_compute in c17_ln "4 0".
Definition c17x_l_member4 : list N := Eval vm_compute in c17_ln "%% Object stream: object 4, index 0".
Definition c17x_d_3 : list N := Eval vm_compute in fq_bs "3".
Definition c17x_l_mykey : list N := Eval vm_compute in c17_ln "  /MyKey 7".
