// C16 extension driver: the real QPDFWriter through the API on a document read from a file, after per-stream calls that the
// command line cannot make - setFilterOnWrite(false), replaceStreamData (isDataModified) - so that the attributes
// impl::Writer::will_filter_stream looks at (Struct/ContentWriter.v: ci_filter_on_write, ci_data_modified) are exercised.
//   ciwriteapi <in.pdf> <out.pdf> <cfg> <ops>
//     cfg  4 characters: qdf(0|1) normalize(-|0|1: setContentNormalization not called / false / true) compress(0|1) level(n|g|s|a)
//     ops  '-' or num:f | num:m<hex> joined by ','   (f = setFilterOnWrite(false), m = replaceStreamData(<hex>, null, null))
//   answer: ok <number of warnings> | exc:<message>
#include "drv.hh"
#include <qpdf/Buffer.hh>
#include <qpdf/QPDF.hh>
#include <qpdf/QPDFObjectHandle.hh>
#include <qpdf/QPDFWriter.hh>
#include <memory>
#include <stdexcept>

static Reg r_ciwriteapi("ciwriteapi", [](std::vector<std::string> const& a) -> std::string {
    try {
        QPDF pdf;
        pdf.setSuppressWarnings(true);
        pdf.processFile(a.at(0).c_str());
        std::string const& cfg = a.at(2);
        if (a.at(3) != "-") {
            std::stringstream ss(a.at(3));
            std::string item;
            while (std::getline(ss, item, ',')) {
                auto colon = item.find(':');
                int num = std::stoi(item.substr(0, colon));
                QPDFObjectHandle s = pdf.getObjectByID(num, 0);
                char op = item.at(colon + 1);
                if (op == 'f') {
                    s.setFilterOnWrite(false);
                } else if (op == 'm') {
                    std::string data = unhex(item.substr(colon + 2));
                    s.replaceStreamData(data, QPDFObjectHandle::newNull(), QPDFObjectHandle::newNull());
                }
            }
        }
        QPDFWriter w(pdf, a.at(1).c_str());
        w.setStaticID(true);
        // the order QPDFJob uses: stream data / decode level, then qdf, then content normalisation if asked
        w.setCompressStreams(cfg.at(2) == '1');
        switch (cfg.at(3)) {
        case 'n': w.setDecodeLevel(qpdf_dl_none); break;
        case 'g': w.setDecodeLevel(qpdf_dl_generalized); break;
        case 's': w.setDecodeLevel(qpdf_dl_specialized); break;
        default: w.setDecodeLevel(qpdf_dl_all); break;
        }
        if (cfg.at(0) == '1') {
            w.setQDFMode(true);
        }
        if (cfg.at(1) != '-') {
            w.setContentNormalization(cfg.at(1) == '1');
        }
        w.write();
        return "ok " + std::to_string(pdf.getWarnings().size());
    } catch (std::exception& e) {
        std::string m = e.what();
        for (auto& c: m) if (c == ' ' || c == '\n') c = '_';
        return "exc:" + m;
    }
});
