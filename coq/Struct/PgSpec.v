(* C13 - specification: the page list of a document is a plain list, and the page APIs are the
   obvious list operations.  Written from the documentation in include/qpdf/QPDF.hh and
   QPDFPageDocumentHelper.hh (addPage: "at the beginning or the end"; addPageAt: "before or
   after refpage"; removePage; "if the indirect object is already in the pages tree, a shallow
   copy is made"; copyForeignObject "does not update the page structure"; findPage "returns the
   0-based index ... An exception is thrown if the page is not found"), NOT from the code.
   A page is represented by what identifies its content (an integer marker), never by an
   object number.  Shares nothing with PgModel.v. *)
From Coq Require Import List ZArith Bool.
Import ListNotations.

Inductive pg_sop : Type :=
| SpInsert (d : bool) (pos : nat) (m : Z)     (* a page with content m appears at index pos *)
| SpRemove (d : bool) (pos : nat)
| SpSet (d : bool) (pos : nat) (m : Z)        (* the object that IS page pos now has content m *)
| SpSwap (d : bool) (i j : nat)               (* the objects of pages i and j exchanged contents *)
| SpNop                                       (* the call does not concern the page list *)
| SpInvalid.                                  (* the call is invalid: it must raise and change nothing *)

Definition pg_lists := (list Z * list Z)%type.   (* document A, document B *)

Definition pgsp_sel (s : pg_lists) (d : bool) : list Z := if d then snd s else fst s.
Definition pgsp_upd (s : pg_lists) (d : bool) (l : list Z) : pg_lists := if d then (fst s, l) else (l, snd s).

Definition pgsp_insert (l : list Z) (pos : nat) (m : Z) : list Z := firstn pos l ++ m :: skipn pos l.
Definition pgsp_remove (l : list Z) (pos : nat) : list Z := firstn pos l ++ skipn (S pos) l.
Definition pgsp_set (l : list Z) (pos : nat) (m : Z) : list Z := firstn pos l ++ m :: skipn (S pos) l.

(* result: the new lists, and whether the call has to raise *)
Definition pg_spec_step (s : pg_lists) (o : pg_sop) : pg_lists * bool :=
  match o with
  | SpInsert d pos m =>
      let l := pgsp_sel s d in
      if Nat.leb pos (length l) then (pgsp_upd s d (pgsp_insert l pos m), false) else (s, true)
  | SpRemove d pos =>
      let l := pgsp_sel s d in
      if Nat.ltb pos (length l) then (pgsp_upd s d (pgsp_remove l pos), false) else (s, true)
  | SpSet d pos m =>
      let l := pgsp_sel s d in
      if Nat.ltb pos (length l) then (pgsp_upd s d (pgsp_set l pos m), false) else (s, true)
  | SpSwap d i j =>
      let l := pgsp_sel s d in
      if Nat.ltb i (length l) && Nat.ltb j (length l)
      then (pgsp_upd s d (pgsp_set (pgsp_set l i (nth j l 0%Z)) j (nth i l 0%Z)), false)
      else (s, true)
  | SpNop => (s, false)
  | SpInvalid => (s, true)
  end.

(* lists and raise flags after every step *)
Fixpoint pg_spec_run (s : pg_lists) (ops : list pg_sop) : list (pg_lists * bool) :=
  match ops with
  | [] => []
  | o :: ops' => let r := pg_spec_step s o in r :: pg_spec_run (fst r) ops'
  end.
