(* ---- non-vacuity: objects that meet the hypotheses of the theorems above ---- *)

(* a well-formed choice: V 4, one crypt filter StdCF = AESV2 used for streams and strings *)
Example c06_ex_wf : c06_wf_cfg c06_f1_cfg.
Proof. split; reflexivity. Qed.

(* a reader state that agrees with it (what initialize() leaves; cf. c06_open_hexkey) *)
Example c06_ex_state : c06_state_for c06_f1_cfg (repeat 7 16%nat) c06_f1_state.
Proof. exact c06_f1_state_for. Qed.

Example c06_ex_key_fits : c06_key_fits c06_f1_cfg (repeat 7 16%nat).
Proof. split; [reflexivity|]. split; [intros _; reflexivity|discriminate]. Qed.

(* an explicit /Crypt override in the array form: /Filter [/Crypt /FlateDecode] /DecodeParms [<< /Name /Identity >> null] *)
Definition c06_ex_sdict : c06_sdict :=
  {| c6d_xref := false; c6d_filter := C6FlArray [Some c06_name_crypt; Some [70; 108]];
     c6d_dparms := C6DpArray [C6PmDict false (Some c06_name_identity); C6PmNull]; c6d_rootmeta := false |}.
Example c06_ex_explicit : c06_crypt_explicit c06_ex_sdict = true /\
                          c06_iso_stream_method c06_f1_cfg c06_ex_sdict = Some C6None.
Proof. split; reflexivity. Qed.

(* a string of an indirect object: 20 bytes, AESV2, IV 1..16 *)
Definition c06_ex_leaf : c06_leaf :=
  {| c6l_kind := C6String C6InObject; c6l_num := 12; c6l_gen := 0; c6l_iv := map N.of_nat (seq 1 16);
     c6l_data := map N.of_nat (seq 100 20) |}.
Example c06_ex_leaf_wf : c06_leaf_wf c06_ex_leaf.
Proof.
  split; [reflexivity|]. split; [|split; [|exact I]];
    unfold byte_list; apply Forall_forall; intros x Hx; vm_compute in Hx;
    repeat (destruct Hx as [Hx|Hx]; [subst x; reflexivity|]); contradiction.
Qed.

(* the theorem computed on that leaf: the ciphertext is 16 + 32 bytes, the reader model returns the 20 bytes *)
Example c06_ex_roundtrip :
  match c06_iso_encrypt_leaf c06_f1_cfg (repeat 7 16%nat) c06_ex_leaf with
  | Some l' => length (c6l_data l') = 48%nat /\ c06_decrypt_leaf c06_f1_state l' = C6LeafOk (c6l_data c06_ex_leaf) false
  | None => False
  end.
Proof. vm_compute. split; reflexivity. Qed.

(* the scheme hypothesis of the R 2-4 theorem and the 68 random bytes of the R 5/6 theorem are satisfiable *)
Example c06_ex_scheme : scheme_V4 (c6_V c06_f5_cfg) (c6_R c06_f5_cfg) (c6_keylen c06_f5_cfg).
Proof. right; left. repeat split. Qed.
Example c06_ex_rnd : length (map N.of_nat (seq 0 68)) = 68%nat /\ byte_list (map N.of_nat (seq 0 68)).
Proof.
  split; [reflexivity|]. unfold byte_list. apply Forall_forall. intros x Hx. apply in_map_iff in Hx.
  destruct Hx as [k [<- Hk]]. apply in_seq in Hk. lia.
Qed.

(* a query on a file whose password is wrong: exit status 0 for both, nothing but the input is touched *)
Example c06_ex_query : c06_job (C6ActQuery C6QRequiresPassword) (Some (C6Err C6EPassword [])) false = ([C6EvOpenInput], 0).
Proof. reflexivity. Qed.

(* the input of the former finding F11, computed: string then stream of the same object, AESV2 string and RC4 stream *)
Example c06_ex_f11 :
  c06_decrypt_seq c06_f11_state None c06_f11_enc = map (fun l => C6LeafOk (c6l_data l) false) c06_f11_leaves.
Proof. vm_compute. reflexivity. Qed.
