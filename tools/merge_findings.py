#!/usr/bin/env python3
# resolve a merge conflict in known_findings.json: union of entries by id (ours win on duplicates)
import json, subprocess, sys
branch = sys.argv[1]
mine = json.loads(subprocess.check_output(['git', 'show', 'HEAD:known_findings.json']))
theirs = json.loads(subprocess.check_output(['git', 'show', branch + ':known_findings.json']))
ids = {f['id'] for f in mine['findings']}
for f in theirs['findings']:
    if f['id'] not in ids:
        mine['findings'].append(f)
json.dump(mine, open('known_findings.json', 'w'), indent=1)
print([f['id'] for f in mine['findings']])
