(* C20 - proofs about the heap model (Sys/Heap.v). *)
From QV Require Import Base.Bytes Sys.Heap.
Local Open Scope N_scope.

(* ------------------------------------------------------------------ the finding (DESIGN section 6, D6), machine-checked.
   History: documents 0 and 1; document 0 parses `[ null 1 ]`, document 1 parses `<< /K [ null 2 ] >>`;
   document 0 makes ITS null indirect.  With the shared cell ([sh = true], the code as it is) what a caller
   sees of document 1 and of a fresh parse changes. *)
Definition d6_prefix : list (nat * iop) :=
  [(0%nat, OpNewDoc); (1%nat, OpNewDoc);
   (0%nat, OpParse 1%nat [TAO; TNull; TInt 1; TAC]);
   (1%nat, OpParse 11%nat [TDO; TName 75; TAO; TNull; TInt 2; TAC; TDC])].
Definition d6_op : iop := OpMakeInd (ERoot 1%nat, [SIdx 0%nat]).
Definition d6_world (sh : bool) : world := snd (run_hist sh world0 d6_prefix).

Lemma frame_other_docs_refuted_lemma :
  exists (w : world) (a b : nat) (op : iop),
    a <> b /\ w = d6_world true /\
    (obs_doc (fst (step true a w op)) b <> obs_doc w b \/
     parse_fresh true (fst (step true a w op)) probe1_toks <> parse_fresh true w probe1_toks).
Proof.
  exists (d6_world true), 0%nat, 1%nat, d6_op. split; [discriminate|]. split; [reflexivity|].
  left. vm_compute. discriminate.
Qed.

(* ------------------------------------------------------------------ process-wide state: the generated inventory is audited *)
From QV Require Import Gen.Globals Sys.GlobalAudit.

(* every writable static of the libqpdf.a built from /repo has an entry in the audit table *)
Lemma globals_all_audited_lemma : forallb audited inventory = true.
Proof. vm_compute. reflexivity. Qed.

(* ... and the ones classified as shared-and-mutable are exactly the statics of the recorded finding *)
Lemma globals_shared_mutable_are_known_lemma : filter is_shared_mutable inventory = d6_statics.
Proof. vm_compute. reflexivity. Qed.
