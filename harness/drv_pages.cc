// C13 driver: operation sequences over two documents through the PUBLIC page / object-copy API
// (QPDF::addPage, addPageAt, removePage, QPDFPageDocumentHelper, QPDFPageObjectHelper::shallowCopyPage,
// copyForeignObject, replaceObject, swapObjects, updateAllPagesCache, getAllPages, findPage,
// pushInheritedAttributesToPage), with an observation line after every step.
//
//   pgdoc <name> <hex of a PDF file>                         -> ok        (registers a template)
//   pgrun <flags> <nameA> <nameB> <op;op;...>                -> step|step|...|final
// flags: letters  v = full object dump instead of hash, 0/1/2 = observation level after every step
//        (0 nothing that could perturb the state; 1 getAllPages; 2 getAllPages + findPage of each),
//        w = write + re-read both documents at the end.
// A step prints  r=<result> t=<raw tree of A>/<raw tree of B> h=<hash A>/<hash B> [p=...] [f=...].
#include "drv.hh"
#include <qpdf/QPDF.hh>
#include <qpdf/QPDFExc.hh>
#include <qpdf/QPDFObjectHandle.hh>
#include <qpdf/QPDFPageDocumentHelper.hh>
#include <qpdf/QPDFPageObjectHelper.hh>
#include <qpdf/QPDFWriter.hh>
#include <qpdf/Buffer.hh>
#include <memory>
#include <set>
#include <stdexcept>

namespace {
    std::map<std::string, std::string>& templates() { static std::map<std::string, std::string> t; return t; }

    std::vector<std::string> split(std::string const& s, char sep) {
        std::vector<std::string> r; std::string cur;
        for (char c: s) { if (c == sep) { r.push_back(cur); cur.clear(); } else cur.push_back(c); }
        r.push_back(cur);
        return r;
    }

    unsigned long long fnv(std::string const& s) {
        unsigned long long h = 1469598103934665603ULL;
        for (unsigned char c: s) { h ^= c; h *= 1099511628211ULL; }
        return h & 0x3fffffffffffffffULL;   // 62 bits: fits OCaml's native int on the model side
    }

    struct Docs {
        std::shared_ptr<QPDF> q[2];
        std::string data[2];
    };

    // every object 1..max as "i:<unparse>" ; streams as "i:S<dict>#<hex data>"
    std::string dump_problems;   // 'g' = stream data could not be produced, 'o' = anything else
    std::string dump(QPDF& q) {
        std::string out;
        size_t n = q.getObjectCount();
        for (size_t i = 1; i <= n; ++i) {
            auto oh = q.getObject(static_cast<int>(i), 0);
            out += std::to_string(i) + ":";
            try {
                if (oh.isStream()) {
                    auto sd = oh.getDict().shallowCopy();   // /Length is maintained by the stream code itself (it
                    sd.removeKey("/Length");                // appears when data is first read): not compared
                    out += "S" + sd.unparse() + "#";
                    auto b = oh.getRawStreamData();
                    out += hex(std::string(reinterpret_cast<char const*>(b->getBuffer()), b->getSize()));
                } else {
                    out += oh.unparseResolved();
                }
            } catch (std::exception const& e) {
                out += "!";
                dump_problems += std::string(e.what()).find("error getting raw stream data") != std::string::npos ? "g" : "o";
            }
            out += "\n";
        }
        return out;
    }

    // raw walk of the /Pages tree without calling anything that fills or repairs the page cache.
    // prints <count>:<leaf>,<leaf>... ; leaf = id^parent-it-names^node-that-lists-it^marker
    // leaf = id^parent-it-names^node-that-lists-it^marker^effective /Rotate at THIS position (own value, else inherited
    // from the nodes the walk came through)
    void walk(QPDFObjectHandle node, int depth, std::set<int>& seen, std::string& out, std::string rot) {
        if (depth > 40 || !node.isDictionary()) { out += "x,"; return; }
        if (node.isIndirect() && !seen.insert(node.getObjectID()).second) { out += "loop,"; return; }
        auto nr = node.getKey("/Rotate");
        if (nr.isInteger()) rot = std::to_string(nr.getIntValue());
        auto kids = node.getKey("/Kids");
        if (!kids.isArray()) { out += "nokids,"; return; }
        int n = kids.getArrayNItems();
        for (int i = 0; i < n; ++i) {
            auto kid = kids.getArrayItem(i);
            if (kid.isDictionary() && kid.hasKey("/Kids")) { walk(kid, depth + 1, seen, out, rot); continue; }
            if (!kid.isDictionary()) { out += (kid.isIndirect() ? std::to_string(kid.getObjectID()) : std::string("d")) + "^x,"; continue; }
            auto par = kid.getKey("/Parent");
            auto mk = kid.getKey("/Mk");
            auto kr = kid.getKey("/Rotate");
            out += (kid.isIndirect() ? std::to_string(kid.getObjectID()) : std::string("d")) + "^" +
                (par.isIndirect() ? std::to_string(par.getObjectID()) : std::string("-")) + "^" +
                (node.isIndirect() ? std::to_string(node.getObjectID()) : std::string("-")) + "^" +
                (mk.isInteger() ? std::to_string(mk.getIntValue()) : std::string("?")) + "^" +
                (kr.isInteger() ? std::to_string(kr.getIntValue()) : rot) + ",";
        }
    }
    // id^hash of every dictionary leaf of the raw tree: the leaf's own dictionary as it unparses (references stay
    // references, /Parent left out) - what an in-place edit of a direct value of the page changes, and nothing else does
    void walkvals(QPDFObjectHandle node, int depth, std::set<int>& seen, std::string& out) {
        if (depth > 40 || !node.isDictionary()) return;
        if (node.isIndirect() && !seen.insert(node.getObjectID()).second) return;
        auto kids = node.getKey("/Kids");
        if (!kids.isArray()) return;
        int n = kids.getArrayNItems();
        for (int i = 0; i < n; ++i) {
            auto kid = kids.getArrayItem(i);
            if (kid.isDictionary() && kid.hasKey("/Kids")) { walkvals(kid, depth + 1, seen, out); continue; }
            if (!kid.isDictionary()) continue;
            auto c = kid.shallowCopy();
            c.removeKey("/Parent");
            out += (kid.isIndirect() ? std::to_string(kid.getObjectID()) : std::string("d")) + "^" + std::to_string(fnv(c.unparse())) + ",";
        }
    }
    std::string leafvals(QPDF& q) {
        std::string out;
        try { std::set<int> seen; walkvals(q.getTrailer().getKey("/Root").getKey("/Pages"), 0, seen, out); }
        catch (std::exception const& e) { out += "!"; }
        return out;
    }

    std::string tree(QPDF& q) {
        std::string out;
        try {
            auto root = q.getTrailer().getKey("/Root");
            auto pages = root.getKey("/Pages");
            auto cnt = pages.isDictionary() ? pages.getKey("/Count") : QPDFObjectHandle::newNull();
            out += (pages.isIndirect() ? std::to_string(pages.getObjectID()) : std::string("-")) + ":" +
                (cnt.isInteger() ? std::to_string(cnt.getIntValue()) : std::string("?")) + ":";
            std::set<int> seen;
            walk(pages, 0, seen, out, "0");
        } catch (std::exception const& e) { out += std::string("!") + e.what(); }
        return out;
    }

    // id^marker^kind of every dictionary object (marker = integer /Mk or ?, kind P = /Pages node or has /Kids,
    // C = catalog, n = other) and of every null object (kind z) - what the list specification needs to know about an operand
    std::string markers(QPDF& q) {
        std::string out;
        size_t n = q.getObjectCount();
        for (size_t i = 1; i <= n; ++i) {
            auto oh = q.getObject(static_cast<int>(i), 0);
            if (oh.isDictionary()) {
                auto mk = oh.getKey("/Mk");
                auto ty = oh.getKey("/Type");
                bool isP = oh.hasKey("/Kids") || (ty.isName() && ty.getName() == "/Pages");
                bool isC = ty.isName() && ty.getName() == "/Catalog";
                out += std::to_string(i) + "^" + (mk.isInteger() ? std::to_string(mk.getIntValue()) : std::string("?")) + "^" +
                    (isP ? "P" : (isC ? "C" : "n")) + ",";
            } else if (oh.isNull()) {
                out += std::to_string(i) + "^?^z,";      // a null object: Pages::insert lets it through
            } else if (oh.isStream()) {
                out += std::to_string(i) + "^?^s,";      // a stream: the one kind of indirect handle replaceObject may admit
            }
        }
        return out;
    }

    std::string errclass(std::exception const& e) {
        if (dynamic_cast<QPDFExc const*>(&e)) return "E:qexc";
        if (dynamic_cast<std::logic_error const*>(&e)) return "E:logic";
        if (dynamic_cast<std::runtime_error const*>(&e)) return "E:rt";
        return "E:other";
    }

    std::string pagelist(QPDF& q) {
        try {
            auto const& v = q.getAllPages();
            std::string r;
            for (auto const& p: v) {
                auto mk = p.isDictionary() ? p.getKey("/Mk") : QPDFObjectHandle::newNull();
                r += std::to_string(p.getObjectID()) + "^" + (mk.isInteger() ? std::to_string(mk.getIntValue()) : std::string("?")) + ",";
            }
            return r;
        } catch (std::exception const& e) { return errclass(e); }
    }

    std::string findall(QPDF& q) {
        std::string r;
        try {
            std::vector<QPDFObjectHandle> v = q.getAllPages();   // copy: findPage may flatten
            for (auto& p: v) {
                try { r += std::to_string(q.findPage(p.getObjGen())) + ","; }
                catch (std::exception const& e) { r += errclass(e) + ","; }
            }
        } catch (std::exception const& e) { return errclass(e); }
        return r;
    }

    QPDFObjectHandle handle(Docs& D, int d, int i) { return D.q[d]->getObject(i, 0); }

    // indirect leaves of the raw tree (no cache access), in document order
    void leaves(QPDFObjectHandle node, int depth, std::set<int>& seen, std::vector<int>& out) {
        if (depth > 40 || !node.isDictionary()) return;
        if (node.isIndirect() && !seen.insert(node.getObjectID()).second) return;
        auto kids = node.getKey("/Kids");
        if (!kids.isArray()) return;
        int n = kids.getArrayNItems();
        for (int i = 0; i < n; ++i) {
            auto kid = kids.getArrayItem(i);
            if (kid.isDictionary() && kid.hasKey("/Kids")) { leaves(kid, depth + 1, seen, out); continue; }
            if (kid.isIndirect()) out.push_back(kid.getObjectID());
        }
    }

    // symbolic object references, resolved against the CURRENT state of document d without touching
    // the page cache:  @l<k> = k-th (mod n) leaf of the raw tree, @o<k> = object (k mod count)+1,
    // @n<k> = count - (k mod 4) (recently created objects).  The concrete op is printed as o=...
    std::string resolve(Docs& D, int d, std::string const& tok) {
        if (tok.empty() || tok[0] != '@') return tok;
        QPDF& q = *D.q[d];
        int k = std::stoi(tok.substr(2));
        int count = static_cast<int>(q.getObjectCount());
        if (tok[1] == 'l') {
            std::vector<int> lv; std::set<int> seen;
            try { leaves(q.getTrailer().getKey("/Root").getKey("/Pages"), 0, seen, lv); } catch (std::exception&) {}
            if (lv.empty()) return "3";
            return std::to_string(lv[static_cast<size_t>(k) % lv.size()]);
        }
        if (tok[1] == 's') {   // k-th (mod n) stream object
            std::vector<int> st;
            for (int i = 1; i <= count; ++i) { if (q.getObject(i, 0).isStream()) st.push_back(i); }
            if (st.empty()) return "3";
            return std::to_string(st[static_cast<size_t>(k) % st.size()]);
        }
        if (tok[1] == 'o') return std::to_string(count > 0 ? (k % count) + 1 : 1);
        if (tok[1] == 'n') { int v = count - (k % 4); return std::to_string(v >= 1 ? v : 1); }
        return tok;
    }

    // which field holds the document that owns the id in field i (per op kind)
    std::vector<std::string> concretize(Docs& D, std::vector<std::string> f) {
        std::string const& op = f.at(0);
        auto fix = [&](size_t docf, size_t idf) { if (f.size() > idf && f.size() > docf) f[idf] = resolve(D, std::stoi(f[docf]), f[idf]); };
        if (op == "ap" || op == "hp" || op == "rm" || op == "hr" || op == "cf") fix(2, 3);
        else if (op == "aa" || op == "ha") { fix(2, 3); fix(5, 6); }
        else if (op == "sc" || op == "fp" || op == "rp" || op == "rr" || op == "mb" || op == "rk" || op == "na") fix(1, 2);
        else if (op == "ri") { fix(1, 2); fix(3, 4); }
        else if (op == "sw") { fix(1, 2); fix(1, 3); }
        return f;
    }

    std::string do_op(Docs& D, std::vector<std::string> const& f) {
        auto I = [&](size_t k) { return std::stoi(f.at(k)); };
        std::string const& op = f.at(0);
        int d = I(1);
        QPDF& q = *D.q[d];
        if (op == "ap") { q.addPage(handle(D, I(2), I(3)), I(4) != 0); return "ok"; }
        if (op == "hp") { QPDFPageDocumentHelper(q).addPage(QPDFPageObjectHelper(handle(D, I(2), I(3))), I(4) != 0); return "ok"; }
        if (op == "an") {   // direct (new) page dictionary
            auto pg = QPDFObjectHandle::parse(&q, "<< /Type /Page /MediaBox [ 0 0 " + f.at(3) + " " + f.at(3) + " ] /Resources << >> /Mk " + f.at(3) + " >>");
            q.addPage(pg, I(2) != 0); return "ok";
        }
        if (op == "av") {   // direct object given as text (hex), e.g. a non-dictionary
            q.addPage(QPDFObjectHandle::parse(&q, unhex(f.at(3))), I(2) != 0); return "ok";
        }
        if (op == "aa") { q.addPageAt(handle(D, I(2), I(3)), I(4) != 0, handle(D, I(5), I(6))); return "ok"; }
        if (op == "ha") {
            QPDFPageDocumentHelper(q).addPageAt(QPDFPageObjectHelper(handle(D, I(2), I(3))), I(4) != 0, QPDFPageObjectHelper(handle(D, I(5), I(6))));
            return "ok";
        }
        if (op == "rm") { q.removePage(handle(D, I(2), I(3))); return "ok"; }
        if (op == "hr") { QPDFPageDocumentHelper(q).removePage(QPDFPageObjectHelper(handle(D, I(2), I(3)))); return "ok"; }
        if (op == "sc") { auto n = QPDFPageObjectHelper(handle(D, d, I(2))).shallowCopyPage(); return "ok:" + std::to_string(n.getObjectHandle().getObjectID()); }
        if (op == "cf") {
            auto r = q.copyForeignObject(handle(D, I(2), I(3)));
            return r.isIndirect() ? "ok:" + std::to_string(r.getObjectID()) : "ok:direct-" + std::string(r.getTypeName());
        }
        if (op == "rp") { q.replaceObject(I(2), 0, QPDFObjectHandle::parse(&q, unhex(f.at(3)))); return "ok"; }
        if (op == "ri") {   // replaceObject with an INDIRECT handle (object j of document sd): invalid unless documented otherwise
            q.replaceObject(I(2), 0, handle(D, I(3), I(4))); return "ok";
        }
        if (op == "rr") {   // replaceObject with a reserved object; the reservation is turned into a null afterwards
            auto res = q.newReserved();
            try { q.replaceObject(I(2), 0, res); }
            catch (...) { q.replaceReserved(res, QPDFObjectHandle::newNull()); throw; }
            q.replaceReserved(res, QPDFObjectHandle::newNull());
            return "ok";
        }
        if (op == "sw") { q.swapObjects(I(2), 0, I(3), 0); return "ok"; }
        if (op == "uc") { q.updateAllPagesCache(); return "ok"; }
        if (op == "pi") { q.pushInheritedAttributesToPage(); return "ok"; }
        if (op == "gp") { (void)q.getAllPages(); return "ok:" + pagelist(q); }
        if (op == "fp") { return "ok:" + std::to_string(q.findPage(QPDFObjGen(I(2), 0))); }
        // ---- in-place edits through handles (only when the container has the right type and the index is in range)
        if (op == "mb" || op == "rk" || op == "na") {
            auto pg = handle(D, d, I(2));
            if (!pg.isDictionary()) return "ok:skip";
            if (op == "mb") {       // mb,d,i,k,z : page.getKey("/MediaBox").setArrayItem(k, z)
                auto a = pg.getKey("/MediaBox");
                if (!a.isArray() || I(3) < 0 || I(3) >= a.getArrayNItems()) return "ok:skip";
                a.setArrayItem(I(3), QPDFObjectHandle::newInteger(I(4))); return a.isIndirect() ? "ok:" + std::to_string(a.getObjectID()) : std::string("ok");
            }
            if (op == "rk") {       // rk,d,i,k,z : page.getKey("/Resources").replaceKey("/X<k>", z)
                auto r = pg.getKey("/Resources");
                if (!r.isDictionary()) return "ok:skip";
                r.replaceKey("/X" + f.at(3), QPDFObjectHandle::newInteger(I(4))); return r.isIndirect() ? "ok:" + std::to_string(r.getObjectID()) : std::string("ok");
            }
            auto a = pg.getKey("/Annots");   // na,d,i,z : page.getKey("/Annots").appendItem(z)
            if (!a.isArray()) return "ok:skip";
            a.appendItem(QPDFObjectHandle::newInteger(I(3))); return a.isIndirect() ? "ok:" + std::to_string(a.getObjectID()) : std::string("ok");
        }
        if (op == "kn" || op == "ks") {   // direct edits of the root /Kids array: kn,d,a (entry := null)  ks,d,a,b (exchange)
            auto pages = q.getTrailer().getKey("/Root").getKey("/Pages");
            if (!pages.isIndirect() || !pages.isDictionary()) return "ok:skip";
            auto kids = pages.getKey("/Kids");
            if (kids.isIndirect() || !kids.isArray()) return "ok:skip";
            int n = kids.getArrayNItems();
            if (op == "kn") {
                if (I(2) < 0 || I(2) >= n) return "ok:skip";
                kids.setArrayItem(I(2), QPDFObjectHandle::newNull()); return "ok";
            }
            if (I(2) < 0 || I(2) >= n || I(3) < 0 || I(3) >= n) return "ok:skip";
            auto x = kids.getArrayItem(I(2)); auto y = kids.getArrayItem(I(3));
            kids.setArrayItem(I(2), y); kids.setArrayItem(I(3), x); return "ok";
        }
        if (op == "mi") {   // makeIndirectObject of a parsed direct object
            auto r = q.makeIndirectObject(QPDFObjectHandle::parse(&q, unhex(f.at(2)))); return "ok:" + std::to_string(r.getObjectID());
        }
        return "?op";
    }

    std::string reread(QPDF& q) {
        try {
            QPDFWriter w(q);
            w.setOutputMemory();
            w.setStaticID(true);
            w.write();
            auto buf = w.getBufferSharedPointer();
            QPDF r;
            r.setSuppressWarnings(true);
            r.processMemoryFile("reread", reinterpret_cast<char const*>(buf->getBuffer()), buf->getSize());
            std::string out;
            auto pages = r.getRoot().getKey("/Pages");
            out += std::to_string(pages.getKey("/Count").getIntValue()) + ":";
            for (auto const& p: r.getAllPages()) {
                auto mk = p.getKey("/Mk");
                out += (mk.isInteger() ? std::to_string(mk.getIntValue()) : std::string("?")) + ",";
            }
            out += ":w" + std::to_string(r.numWarnings());
            return out;
        } catch (std::exception const& e) { return errclass(e) + std::string(" ") + e.what(); }
    }
}

static Reg r_pgdoc("pgdoc", [](std::vector<std::string> const& a) -> std::string {
    templates()[a.at(0)] = unhex(a.at(1));
    return "ok";
});

static Reg r_pgrun("pgrun", [](std::vector<std::string> const& a) -> std::string {
    std::string const& flags = a.at(0);
    bool verbose = flags.find('v') != std::string::npos;
    bool wr = flags.find('w') != std::string::npos;
    int obs = flags.find('2') != std::string::npos ? 2 : (flags.find('1') != std::string::npos ? 1 : 0);
    Docs D;
    for (int d = 0; d < 2; ++d) {
        auto it = templates().find(a.at(1 + static_cast<size_t>(d)));
        if (it == templates().end()) return "?no-template";
        D.data[d] = it->second;
        D.q[d] = QPDF::create();
        D.q[d]->setSuppressWarnings(true);
        D.q[d]->processMemoryFile(d == 0 ? "A" : "B", D.data[d].data(), D.data[d].size());
    }
    std::string out;
    // the observations that can perturb the state (getAllPages / findPage) come first; tree, markers and
    // hash show the state after them, which is the pre-state of the next operation
    auto observe = [&](std::string const& res) {
        out += "r=" + res;
        if (obs >= 1) out += " p=" + pagelist(*D.q[0]) + "/" + pagelist(*D.q[1]);
        if (obs >= 2) out += " f=" + findall(*D.q[0]) + "/" + findall(*D.q[1]);
        out += " t=" + tree(*D.q[0]) + "/" + tree(*D.q[1]);
        out += " k=" + markers(*D.q[0]) + "/" + markers(*D.q[1]);
        out += " q=" + leafvals(*D.q[0]) + "/" + leafvals(*D.q[1]);
        dump_problems.clear();
        if (verbose) out += " d=" + hex(dump(*D.q[0])) + "/" + hex(dump(*D.q[1]));
        else out += " h=" + std::to_string(fnv(dump(*D.q[0]))) + "/" + std::to_string(fnv(dump(*D.q[1])));
        if (!dump_problems.empty()) out += " x=" + dump_problems;
        out += "|";
    };
    observe("init");
    std::string opstr = a.size() > 3 ? a.at(3) : "";
    if (opstr != "-" && !opstr.empty()) {
        for (auto const& o: split(opstr, ';')) {
            if (o.empty()) continue;
            std::string res;
            std::vector<std::string> f;
            try { f = concretize(D, split(o, ',')); } catch (std::exception const&) { f = split(o, ','); }
            std::string conc;
            for (size_t i = 0; i < f.size(); ++i) conc += (i ? "," : "") + f[i];
            out += "o=" + conc + " ";
            try { res = do_op(D, f); }
            catch (std::exception const& e) { res = errclass(e); if (verbose) out += "e=" + hex(e.what()) + " "; }
            observe(res);
        }
    }
    // final: page lists, findPage of each page, then (optionally) write + re-read
    out += "P=" + pagelist(*D.q[0]) + "/" + pagelist(*D.q[1]);
    out += " F=" + findall(*D.q[0]) + "/" + findall(*D.q[1]);
    out += " t=" + tree(*D.q[0]) + "/" + tree(*D.q[1]);
    if (verbose) out += " d=" + hex(dump(*D.q[0])) + "/" + hex(dump(*D.q[1]));
    else out += " h=" + std::to_string(fnv(dump(*D.q[0]))) + "/" + std::to_string(fnv(dump(*D.q[1])));
    if (wr) out += " W=" + reread(*D.q[0]) + "/" + reread(*D.q[1]);
    return out;
});
