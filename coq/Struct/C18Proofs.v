(* C18 proofs, part 1: binarySearch (NNTreeImpl::binarySearch as modelled by nn_binsearch) is a
   correct search of a monotone three-way comparison, for every array length. *)
From Coq Require Import Sorting.Sorted.
From QV Require Import Base.Bytes Struct.NNTreeModel Struct.NNTreeSpec.
Local Open Scope Z_scope.

Section BinSearch.
  (* f = compareKeyItem / compareKeyKid at index i; n = number of entries; c = number of entries
     the key is greater than.  Monotone: Gt below c, (Eq or Lt) at c, Lt above c. *)
  Variable n c : Z.
  Variable f : Z -> option comparison.
  Hypothesis Hc : 0 <= c <= n.
  Hypothesis f_below : forall i, 0 <= i < c -> f i = Some Gt.
  Hypothesis f_above : forall i, c < i < n -> f i = Some Lt.
  Hypothesis f_at : c < n -> f c = Some Eq \/ f c = Some Lt.

  (* what the search must return: an exact hit at c, otherwise "not found" together with the
     last index whose entry is smaller than the key (c - 1; -1 when there is none) *)
  Definition bs_post (r : option (bool * Z)) : Prop :=
    (c < n /\ f c = Some Eq /\ r = Some (true, c)) \/
    ((c < n -> f c = Some Lt) /\ r = Some (false, c - 1)).

  Lemma f_Gt_inv : forall i, 0 <= i < n -> f i = Some Gt -> i < c.
  Proof.
    intros i Hi Hf. destruct (Z_lt_ge_dec i c) as [|Hge]; [assumption|].
    destruct (Z.eq_dec i c) as [->|Hne].
    - destruct f_at as [H|H]; [lia| |]; rewrite H in Hf; discriminate.
    - rewrite f_above in Hf by lia. discriminate.
  Qed.
  Lemma f_Eq_inv : forall i, 0 <= i < n -> f i = Some Eq -> i = c.
  Proof.
    intros i Hi Hf. destruct (Z_lt_ge_dec i c) as [Hlt|Hge].
    - rewrite f_below in Hf by lia. discriminate.
    - destruct (Z.eq_dec i c) as [->|Hne]; [reflexivity|].
      rewrite f_above in Hf by lia. discriminate.
  Qed.
  Lemma f_Lt_inv : forall i, 0 <= i < n -> f i = Some Lt -> c <= i.
  Proof.
    intros i Hi Hf. destruct (Z_lt_ge_dec i c) as [Hlt|Hge]; [|lia].
    rewrite f_below in Hf by lia. discriminate.
  Qed.
  Lemma f_total : forall i, 0 <= i < n -> exists r, f i = Some r.
  Proof.
    intros i Hi. destruct (Z_lt_ge_dec i c). { eexists; apply f_below; lia. }
    destruct (Z.eq_dec i c) as [->|]. { destruct f_at as [H|H]; [lia| |]; eauto. }
    eexists; apply f_above; lia.
  Qed.

  (* invariant before a check at idx with upper slack a and lower slack b *)
  Definition bs_inv (a b idx found : Z) : Prop :=
    0 <= idx /\ idx - b <= c <= idx + a /\ (c = idx + a -> c < n -> f c = Some Lt) /\
    (c = idx - b -> found = c - 1).

  (* the last check *)
  Lemma bs_last : forall step idx found,
    bs_inv 1 0 idx found -> bs_post (nn_bs_loop 1 n f step idx found).
  Proof.
    intros step idx found (Hi & Hub & Hu & Hf). simpl.
    destruct (idx <? n) eqn:Hin.
    - apply Z.ltb_lt in Hin. destruct (f_total idx) as [r Hr]; [lia|]. rewrite Hr.
      destruct r.
      + pose proof (f_Eq_inv idx (conj Hi Hin) Hr). subst idx. left. auto.
      + pose proof (f_Lt_inv idx (conj Hi Hin) Hr). right. split.
        * intros Hcn. replace c with idx by lia. assumption.
        * rewrite Hf by lia. reflexivity.
      + pose proof (f_Gt_inv idx (conj Hi Hin) Hr). assert (c = idx + 1) by lia. right. split.
        * intros Hcn. apply Hu; assumption.
        * f_equal. f_equal. lia.
    - apply Z.ltb_ge in Hin. right. split.
      + intros Hcn. lia.
      + rewrite Hf by lia. reflexivity.
  Qed.

  (* r further checks after this one; step = 2^r *)
  Lemma bs_loop_correct : forall (r : nat) idx found,
    bs_inv (2 ^ Z.of_nat r) (2 ^ Z.of_nat r) idx found -> 2 ^ Z.of_nat r <= idx ->
    bs_post (nn_bs_loop (S (S r)) n f (2 ^ Z.of_nat r) idx found).
  Proof.
    induction r as [|r IH]; intros idx found (Hi & Hub & Hu & Hf) Hge.
    - (* step = 1: two checks left *)
      change (2 ^ Z.of_nat 0) with 1 in *.
      cbn [nn_bs_loop]. change (Z.max (1 / 2) 1) with 1.
      destruct (idx <? n) eqn:Hin.
      + apply Z.ltb_lt in Hin. destruct (f_total idx) as [q Hq]; [lia|]. rewrite Hq.
        destruct q.
        * pose proof (f_Eq_inv idx (conj Hi Hin) Hq). subst idx. left. auto.
        * pose proof (f_Lt_inv idx (conj Hi Hin) Hq).
          apply (bs_last 1 (idx - 1) found). unfold bs_inv.
          split; [lia|]. split; [lia|]. split.
          -- intros E Hcn. replace c with idx by lia. assumption.
          -- intros E. apply Hf. lia.
        * pose proof (f_Gt_inv idx (conj Hi Hin) Hq).
          apply (bs_last 1 (idx + 1) idx). unfold bs_inv.
          split; [lia|]. split; [lia|]. split.
          -- intros E Hcn. lia.
          -- intros E. lia.
      + apply Z.ltb_ge in Hin.
        apply (bs_last 1 (idx - 1) found). unfold bs_inv.
        split; [lia|]. split; [lia|]. split.
        * intros E Hcn. lia.
        * intros E. apply Hf. lia.
    - set (s := 2 ^ Z.of_nat r) in *.
      assert (Hs : 2 ^ Z.of_nat (S r) = 2 * s).
      { unfold s. rewrite Nat2Z.inj_succ, Z.pow_succ_r by lia. reflexivity. }
      assert (Hspos : 0 < s) by (unfold s; apply Z.pow_pos_nonneg; lia).
      rewrite Hs in *.
      assert (Hstep : Z.max (2 * s / 2) 1 = s).
      { replace (2 * s / 2) with s by (rewrite (Z.mul_comm 2), Z.div_mul; lia). lia. }
      change (nn_bs_loop (S (S (S r))) n f (2 * s) idx found) with
        (let step' := Z.max (2 * s / 2) 1 in
         if idx <? n then
           match f idx with
           | None => None
           | Some Eq => Some (true, idx)
           | Some Gt => nn_bs_loop (S (S r)) n f step' (idx + step') idx
           | Some Lt => nn_bs_loop (S (S r)) n f step' (idx - step') found
           end
         else nn_bs_loop (S (S r)) n f step' (idx - step') found).
      cbv zeta. rewrite Hstep.
      destruct (idx <? n) eqn:Hin.
      + apply Z.ltb_lt in Hin. destruct (f_total idx) as [q Hq]; [lia|]. rewrite Hq.
        destruct q.
        * pose proof (f_Eq_inv idx (conj Hi Hin) Hq). subst idx. left. auto.
        * pose proof (f_Lt_inv idx (conj Hi Hin) Hq).
          apply IH; [|lia]. unfold bs_inv.
          split; [lia|]. split; [lia|]. split.
          -- intros E Hcn. replace c with idx by lia. assumption.
          -- intros E. apply Hf. lia.
        * pose proof (f_Gt_inv idx (conj Hi Hin) Hq).
          apply IH; [|lia]. unfold bs_inv.
          split; [lia|]. split; [lia|]. split.
          -- intros E Hcn. apply Hu; [lia|assumption].
          -- intros E. lia.
      + apply Z.ltb_ge in Hin.
        apply IH; [|lia]. unfold bs_inv.
        split; [lia|]. split; [lia|]. split.
        * intros E Hcn. lia.
        * intros E. apply Hf. lia.
  Qed.

  Lemma nn_bit_ceil_ge : n <= nn_bit_ceil n /\ exists m : nat, nn_bit_ceil n = 2 ^ Z.of_nat m.
  Proof.
    unfold nn_bit_ceil. destruct (n <=? 1) eqn:E.
    - apply Z.leb_le in E. split; [lia|]. exists 0%nat. reflexivity.
    - apply Z.leb_gt in E. split.
      + apply Z.log2_up_spec. lia.
      + exists (Z.to_nat (Z.log2_up n)). rewrite Z2Nat.id by apply Z.log2_up_nonneg. reflexivity.
  Qed.

  (* the whole search, as nn_binsearch sets it up *)
  Lemma bs_search_post :
    bs_post (nn_bs_loop (Z.to_nat (Z.log2 (nn_bit_ceil n) + 1)) n f
                        (nn_bit_ceil n / 2) (nn_bit_ceil n / 2) (-1)).
  Proof.
    destruct nn_bit_ceil_ge as [Hge [m Hm]]. rewrite Hm in *.
    rewrite Z.log2_pow2 by lia.
    replace (Z.to_nat (Z.of_nat m + 1)) with (S m) by lia.
    destruct m as [|m].
    - change (2 ^ Z.of_nat 0) with 1 in *. change (1 / 2) with 0.
      apply bs_last. unfold bs_inv. split; [lia|]. split; [lia|]. split; intros; lia.
    - assert (Hs : 2 ^ Z.of_nat (S m) = 2 * 2 ^ Z.of_nat m).
      { rewrite Nat2Z.inj_succ, Z.pow_succ_r by lia. reflexivity. }
      rewrite Hs in *.
      assert (Hspos : 0 < 2 ^ Z.of_nat m) by (apply Z.pow_pos_nonneg; lia).
      replace (2 * 2 ^ Z.of_nat m / 2) with (2 ^ Z.of_nat m)
        by (rewrite (Z.mul_comm 2), Z.div_mul; lia).
      apply bs_loop_correct; [|lia]. unfold bs_inv. split; [lia|]. split; [lia|]. split; intros; lia.
  Qed.

  Definition bs_result (prev : bool) : Z :=
    if c <? n then match f c with
                   | Some Eq => c
                   | _ => if prev then c - 1 else -1
                   end
    else if prev then c - 1 else -1.

  Theorem nn_binsearch_abstract : forall prev, nn_binsearch n f prev = Some (bs_result prev).
  Proof.
    intros prev. unfold nn_binsearch, bs_result.
    destruct bs_search_post as [(Hcn & Hfc & ->)|(Hfc & ->)].
    - replace (c <? n) with true by (symmetry; apply Z.ltb_lt; assumption). rewrite Hfc. reflexivity.
    - destruct (c <? n) eqn:E; [|reflexivity].
      apply Z.ltb_lt in E. rewrite (Hfc E). reflexivity.
  Qed.
End BinSearch.

(* ------------------------------------------------------------------------------------------
   part 2: instantiation on a sorted items array.  Keys: any type with a three-way comparison
   that is a strict total order (number trees: Z.compare; name trees: bytewise comparison of the
   UTF-8 value, nn_scmp). *)
Section KeyOrder.
  Variable K : Type.
  Variable kcmp : K -> K -> comparison.
  Hypothesis kcmp_antisym : forall a b, kcmp b a = CompOpp (kcmp a b).
  Hypothesis kcmp_trans : forall a b c, kcmp a b = Lt -> kcmp b c = Lt -> kcmp a c = Lt.
  Hypothesis kcmp_eq : forall a b, kcmp a b = Eq -> a = b.

  Definition klt (a b : K) : Prop := kcmp a b = Lt.

  Lemma kcmp_refl : forall a, kcmp a a = Eq.
  Proof. intros a. pose proof (kcmp_antisym a a). destruct (kcmp a a); simpl in *; congruence. Qed.
  Lemma kcmp_gt_lt : forall a b, kcmp a b = Gt <-> kcmp b a = Lt.
  Proof. intros a b. rewrite (kcmp_antisym a b). destruct (kcmp a b); simpl; split; congruence. Qed.

  (* the search the documentation describes: exact hit, or the entry just below, or nothing *)
  Definition spec_search (key : K) (items : list (K * Z)) (prev : bool) : Z :=
    let below := Z.of_nat (length (filter (fun e => k_lt K kcmp (fst e) key) items)) in
    if existsb (fun e => k_eq K kcmp (fst e) key) items then below
    else if prev then below - 1 else -1.

  Definition keys_sorted (items : list (K * Z)) : Prop := StronglySorted klt (map fst items).

  (* a sorted array splits into the entries below the key and the rest, which starts with the
     key itself if it is present *)
  Lemma sorted_split : forall key items, keys_sorted items ->
    exists lo hi, items = lo ++ hi /\
      Forall (fun e => kcmp key (fst e) = Gt) lo /\
      match hi with
      | [] => True
      | h :: t => kcmp key (fst h) <> Gt /\ Forall (fun e => kcmp key (fst e) = Lt) t
      end.
  Proof.
    intros key items. unfold keys_sorted. induction items as [|[k v] items IH]; intros Hs.
    - exists [], []. repeat split; constructor.
    - simpl in Hs. inversion Hs as [|? ? Hs' Hall]; subst.
      destruct (kcmp key k) eqn:E.
      + exists [], ((k, v) :: items). simpl. repeat split; [constructor|congruence|].
        apply kcmp_eq in E. subst k.
        rewrite Forall_forall in *. intros e He. apply Hall. apply in_map. assumption.
      + exists [], ((k, v) :: items). simpl. repeat split; [constructor|congruence|].
        rewrite Forall_forall in *. intros e He. apply kcmp_trans with k; [assumption|].
        apply Hall. apply in_map. assumption.
      + destruct (IH Hs') as (lo & hi & -> & Hlo & Hhi).
        exists ((k, v) :: lo), hi. repeat split; [constructor; assumption|assumption].
  Qed.

  Lemma filter_all {A} (p : A -> bool) l : Forall (fun x => p x = true) l -> filter p l = l.
  Proof. induction 1; simpl; [reflexivity|]. rewrite H. f_equal. assumption. Qed.
  Lemma filter_none {A} (p : A -> bool) l : Forall (fun x => p x = false) l -> filter p l = [].
  Proof. induction 1; simpl; [reflexivity|]. rewrite H. assumption. Qed.
  Lemma existsb_none {A} (p : A -> bool) l : Forall (fun x => p x = false) l -> existsb p l = false.
  Proof. induction 1; simpl; [reflexivity|]. rewrite H. assumption. Qed.

  Lemma nn_znth_app_lo {A} (lo hi : list A) i : 0 <= i < nn_zlen lo -> nn_znth (lo ++ hi) i = nn_znth lo i.
  Proof.
    unfold nn_znth, nn_zlen. intros H. destruct (i <? 0) eqn:E; [apply Z.ltb_lt in E; lia|].
    apply nth_error_app1. lia.
  Qed.
  Lemma nn_znth_app_hi {A} (lo hi : list A) i : nn_zlen lo <= i -> nn_znth (lo ++ hi) i = nn_znth hi (i - nn_zlen lo).
  Proof.
    unfold nn_znth, nn_zlen. intros H.
    destruct (i <? 0) eqn:E; [apply Z.ltb_lt in E; lia|].
    destruct (i - Z.of_nat (length lo) <? 0) eqn:E2; [apply Z.ltb_lt in E2; lia|].
    rewrite nth_error_app2 by lia. f_equal. lia.
  Qed.
  Lemma nn_znth_Forall {A} (P : A -> Prop) l i x : Forall P l -> nn_znth l i = Some x -> P x.
  Proof.
    unfold nn_znth. intros HF H. destruct (i <? 0); [discriminate|].
    rewrite Forall_forall in HF. apply HF. eapply nth_error_In. eassumption.
  Qed.
  Lemma nn_znth_some {A} (l : list A) i : 0 <= i < nn_zlen l -> exists x, nn_znth l i = Some x.
  Proof.
    unfold nn_znth, nn_zlen. intros H. destruct (i <? 0) eqn:E; [apply Z.ltb_lt in E; lia|].
    destruct (nth_error l (Z.to_nat i)) eqn:E2; [eauto|]. apply nth_error_None in E2. lia.
  Qed.

  Theorem binsearch_items_correct : forall key items prev, keys_sorted items ->
    nn_binsearch (nn_zlen items) (nn_cmp_item K kcmp key items) prev = Some (spec_search key items prev).
  Proof.
    intros key items prev Hs.
    destruct (sorted_split key items Hs) as (lo & hi & -> & Hlo & Hhi).
    set (c := nn_zlen lo).
    assert (Hlen : nn_zlen (lo ++ hi) = c + nn_zlen hi).
    { unfold c, nn_zlen. rewrite app_length. lia. }
    assert (Hcpos : 0 <= c) by (unfold c, nn_zlen; lia).
    assert (Hhipos : 0 <= nn_zlen hi) by (unfold nn_zlen; lia).
    (* the three monotonicity facts *)
    assert (Fbelow : forall i, 0 <= i < c -> nn_cmp_item K kcmp key (lo ++ hi) i = Some Gt).
    { intros i Hi. unfold nn_cmp_item. rewrite nn_znth_app_lo by exact Hi.
      destruct (nn_znth_some lo i Hi) as [[k v] Hx]. rewrite Hx.
      f_equal. exact (nn_znth_Forall _ _ _ _ Hlo Hx). }
    assert (Fabove : forall i, c < i < nn_zlen (lo ++ hi) -> nn_cmp_item K kcmp key (lo ++ hi) i = Some Lt).
    { intros i Hi. unfold nn_cmp_item. rewrite nn_znth_app_hi by (fold c; lia). fold c.
      destruct hi as [|h t]; [unfold nn_zlen in *; simpl in *; lia|].
      destruct Hhi as [_ Ht].
      assert (Hi' : 0 <= i - c - 1 < nn_zlen t).
      { rewrite Hlen in Hi. unfold nn_zlen in *. simpl length in Hi. lia. }
      destruct (nn_znth_some t (i - c - 1) Hi') as [[k v] Hx].
      replace (nn_znth (h :: t) (i - c)) with (nn_znth t (i - c - 1)).
      - rewrite Hx. f_equal. exact (nn_znth_Forall _ _ _ _ Ht Hx).
      - unfold nn_znth. destruct (i - c - 1 <? 0) eqn:E1; [apply Z.ltb_lt in E1; lia|].
        destruct (i - c <? 0) eqn:E2; [apply Z.ltb_lt in E2; lia|].
        replace (Z.to_nat (i - c)) with (S (Z.to_nat (i - c - 1))) by lia. reflexivity. }
    assert (Hat : nn_cmp_item K kcmp key (lo ++ hi) c =
                  match hi with [] => None | h :: _ => Some (kcmp key (fst h)) end).
    { unfold nn_cmp_item. rewrite nn_znth_app_hi by (fold c; lia). fold c.
      replace (c - c) with 0 by lia. destruct hi as [|[k v] t]; reflexivity. }
    assert (Fat : c < nn_zlen (lo ++ hi) ->
                  nn_cmp_item K kcmp key (lo ++ hi) c = Some Eq \/ nn_cmp_item K kcmp key (lo ++ hi) c = Some Lt).
    { intros Hlt. rewrite Hat. destruct hi as [|h t]; [unfold nn_zlen in *; simpl in *; lia|].
      destruct Hhi as [Hne _]. destruct (kcmp key (fst h)); [left|right|]; congruence. }
    rewrite (nn_binsearch_abstract (nn_zlen (lo ++ hi)) c (nn_cmp_item K kcmp key (lo ++ hi))
               ltac:(lia) Fbelow Fabove Fat prev).
    f_equal. unfold bs_result, spec_search.
    (* the specification's count of smaller entries is c *)
    assert (Hbelow : filter (fun e => k_lt K kcmp (fst e) key) (lo ++ hi) = lo).
    { rewrite filter_app. rewrite filter_all, filter_none.
      - apply app_nil_r.
      - destruct hi as [|h t]; [constructor|]. destruct Hhi as [Hne Ht]. constructor.
        + unfold k_lt. rewrite (kcmp_antisym key (fst h)). destruct (kcmp key (fst h)); simpl; congruence.
        + eapply Forall_impl; [|exact Ht]. intros e He. unfold k_lt.
          rewrite (kcmp_antisym key (fst e)), He. reflexivity.
      - eapply Forall_impl; [|exact Hlo]. intros e He. unfold k_lt.
        rewrite (kcmp_antisym key (fst e)), He. reflexivity. }
    rewrite Hbelow. fold (nn_zlen lo). fold c.
    rewrite existsb_app.
    rewrite (existsb_none _ lo).
    2:{ eapply Forall_impl; [|exact Hlo]. intros e He. unfold k_eq.
        rewrite (kcmp_antisym key (fst e)), He. reflexivity. }
    simpl orb.
    destruct hi as [|h t].
    - simpl. replace (c <? nn_zlen (lo ++ [])) with false; [reflexivity|].
      symmetry. apply Z.ltb_ge. rewrite Hlen. unfold nn_zlen. simpl. lia.
    - destruct Hhi as [Hne Ht].
      replace (c <? nn_zlen (lo ++ h :: t)) with true.
      2:{ symmetry. apply Z.ltb_lt. rewrite Hlen. unfold nn_zlen. simpl length. lia. }
      rewrite Hat. simpl existsb.
      rewrite (existsb_none _ t).
      2:{ eapply Forall_impl; [|exact Ht]. intros e He. unfold k_eq.
          rewrite (kcmp_antisym key (fst e)), He. reflexivity. }
      rewrite orb_false_r. unfold k_eq. rewrite (kcmp_antisym key (fst h)).
      destruct (kcmp key (fst h)); simpl; reflexivity.
  Qed.
End KeyOrder.

(* the two key orders used by qpdf satisfy the hypotheses *)
Lemma nn_zcmp_antisym : forall a b, nn_zcmp b a = CompOpp (nn_zcmp a b).
Proof. intros. apply Z.compare_antisym. Qed.
Lemma nn_zcmp_trans : forall a b c, nn_zcmp a b = Lt -> nn_zcmp b c = Lt -> nn_zcmp a c = Lt.
Proof. unfold nn_zcmp. intros a b c H1 H2. rewrite Z.compare_lt_iff in *. lia. Qed.
Lemma nn_zcmp_eq : forall a b, nn_zcmp a b = Eq -> a = b.
Proof. intros a b. apply Z.compare_eq. Qed.

Lemma nn_scmp_antisym : forall a b, nn_scmp b a = CompOpp (nn_scmp a b).
Proof.
  induction a as [|x a IH]; destruct b as [|y b]; simpl; try reflexivity.
  rewrite (N.compare_antisym x y). destruct (N.compare x y); simpl; auto.
Qed.
Lemma nn_scmp_eq : forall a b, nn_scmp a b = Eq -> a = b.
Proof.
  induction a as [|x a IH]; destruct b as [|y b]; simpl; try discriminate; auto.
  destruct (N.compare x y) eqn:E; try discriminate.
  intros H. apply N.compare_eq in E. subst. f_equal. auto.
Qed.
Lemma nn_scmp_trans : forall a b c, nn_scmp a b = Lt -> nn_scmp b c = Lt -> nn_scmp a c = Lt.
Proof.
  induction a as [|x a IH]; destruct b as [|y b]; destruct c as [|z c]; simpl; try discriminate; auto.
  destruct (N.compare x y) eqn:E1; destruct (N.compare y z) eqn:E2; try discriminate; intros H1 H2.
  - apply N.compare_eq in E1, E2. subst. rewrite N.compare_refl. eauto.
  - apply N.compare_eq in E1. subst. rewrite E2. reflexivity.
  - apply N.compare_eq in E2. subst. rewrite E1. reflexivity.
  - assert (E : N.compare x z = Lt) by (rewrite N.compare_lt_iff in *; lia). rewrite E. reflexivity.
Qed.

(* C18 theorem: binarySearch over a leaf's items array, for number trees and name trees, any length *)
Lemma binsearch_correct_lemma : forall (key : Z) (items : list (Z * Z)) (prev : bool),
  StronglySorted (fun a b => nn_zcmp a b = Lt) (map fst items) ->
  nn_binsearch (nn_zlen items) (nn_cmp_item Z nn_zcmp key items) prev
  = Some (spec_search Z nn_zcmp key items prev).
Proof.
  intros. apply binsearch_items_correct;
    [exact nn_zcmp_antisym|exact nn_zcmp_trans|exact nn_zcmp_eq|assumption].
Qed.

Lemma binsearch_names_correct_lemma : forall (key : list N) (items : list (list N * Z)) (prev : bool),
  StronglySorted (fun a b => nn_scmp a b = Lt) (map fst items) ->
  nn_binsearch (nn_zlen items) (nn_cmp_item (list N) nn_scmp key items) prev
  = Some (spec_search (list N) nn_scmp key items prev).
Proof.
  intros. apply binsearch_items_correct;
    [exact nn_scmp_antisym|exact nn_scmp_trans|exact nn_scmp_eq|assumption].
Qed.
