(* C18 unbounded refinement, part C: deepen / begin / last, and the descent of findInternal. *)
From Coq Require Import Sorting.Sorted.
From QV Require Import Base.Bytes Struct.NNTreeModel Struct.NNTreeSpec Struct.C18Proofs Struct.C18ProofsC
  Struct.C18ProofsE Struct.C18InvA Struct.C18InvB.
Local Open Scope Z_scope.

Lemma c18_match_ne {A B} (l : list A) (X Y : B) : l <> [] -> match l with [] => X | _ :: _ => Y end = Y.
Proof. destruct l; [congruence|reflexivity]. Qed.
Lemma c18_znth_last {A} (L : list A) (a : A) : nn_znth (L ++ [a]) (nn_zlen (L ++ [a]) - 1) = Some a.
Proof.
  rewrite c18_zlen_app, c18_zlen_cons, c18_zlen_nil. replace (nn_zlen L + (1 + 0) - 1) with (nn_zlen L) by lia.
  apply c18_znth_mid.
Qed.
Lemma c18_znth_0 {A} (a : A) (l : list A) : nn_znth (a :: l) 0 = Some a.
Proof. reflexivity. Qed.

Lemma height_kid : forall (k : node) kids, In k kids ->
  (nn_height Z k <= fold_right (fun k a => Nat.max (nn_height Z k) a) 0%nat kids)%nat.
Proof.
  induction kids as [|x kids IH]; intros H; [destruct H|]. simpl. destruct H as [->|H]; [lia|].
  specialize (IH H). lia.
Qed.

(* ------------------------------------------------------------------ deepen *)
Lemma deepen_ok : forall (first ae : bool) opath (s : zst) node, kids_ok node -> zabs node <> [] ->
  forall fuel rpath, (nn_height Z node <= fuel)%nat ->
  exists gs item A e B,
    nn_deepen Z fuel first ae node opath rpath s = (true, st_with_iter Z s (rev' (rzpath gs ++ rpath)) item) /\
    at_pos node (zpath gs) item A e B /\ (if first then A = [] else B = []).
Proof.
  intros first ae opath s.
  induction node as [l items|l kids IH] using (nnode_ind' Z); intros Hk Hne fuel rpath Hf.
  - destruct fuel as [|fu]; [simpl in Hf; lia|]. cbn [nn_deepen]. cbn [nn_abs] in Hne.
    rewrite c18_match_ne by exact Hne.
    destruct first.
    + destruct items as [|it0 rest]; [congruence|].
      exists [], 0, [], it0, (rest ++ []). split; [reflexivity|]. split; [|reflexivity].
      exists [], l, (it0 :: rest). repeat split; try reflexivity; try lia.
    + destruct (exists_last Hne) as (L & e & ->).
      exists [], (nn_zlen (L ++ [e]) - 1), (L ++ []), e, []. split; [reflexivity|]. split; [|reflexivity].
      assert (Hn : Z.to_nat (nn_zlen (L ++ [e]) - 1) = length L).
      { unfold nn_zlen. rewrite app_length. simpl. lia. }
      exists [], l, (L ++ [e]). rewrite Hn. repeat split.
      * unfold nn_zlen. rewrite app_length. simpl. lia.
      * rewrite nth_error_app2 by lia. rewrite Nat.sub_diag. reflexivity.
      * simpl. rewrite c18_firstn_mid. rewrite app_nil_r. reflexivity.
      * rewrite c18_skipn_mid_S. reflexivity.
  - destruct fuel as [|fu]; [simpl in Hf; lia|]. cbn [nn_deepen]. cbn [nn_abs kids_ok] in Hne, Hk.
    assert (Hkne : kids <> []) by (intros ->; apply Hne; reflexivity).
    rewrite c18_match_ne by exact Hkne.
    assert (Hsub : forall k, In k kids -> kids_ok k /\ zabs k <> [] /\ (nn_height Z k <= fu)%nat).
    { intros k Hin. rewrite Forall_forall in Hk. specialize (Hk k Hin).
      split; [apply sub_ok_kids; exact Hk|]. split; [apply sub_ok_abs; exact Hk|].
      pose proof (height_kid k kids Hin) as Hh. cbn [nn_height] in Hf. lia. }
    destruct first.
    + destruct kids as [|k0 rest]; [congruence|]. rewrite c18_znth_0.
      destruct (Hsub k0 (or_introl eq_refl)) as (Hk0 & Hne0 & Hh0).
      rewrite Forall_forall in IH.
      destruct (IH k0 (or_introl eq_refl) Hk0 Hne0 fu (0 :: rpath) Hh0) as (gs & item & A & e & B & Hd & Hp & HA).
      subst A. exists (gs ++ [Fr l [] rest]), item, [], e, (B ++ zpost [Fr l [] rest]).
      split; [|split; [|reflexivity]].
      * rewrite Hd. unfold rzpath. rewrite map_app, <- app_assoc. reflexivity.
      * pose proof (at_pos_plug k0 (zpath gs) item [] e B [Fr l [] rest] Hp) as X.
        rewrite zpath_app. exact X.
    + destruct (exists_last Hkne) as (L & kl & ->). rewrite c18_znth_last.
      assert (Hin : In kl (L ++ [kl])) by (apply in_or_app; right; left; reflexivity).
      destruct (Hsub kl Hin) as (Hk0 & Hne0 & Hh0).
      rewrite Forall_forall in IH.
      destruct (IH kl Hin Hk0 Hne0 fu ((nn_zlen (L ++ [kl]) - 1) :: rpath) Hh0) as (gs & item & A & e & B & Hd & Hp & HB).
      subst B. exists (gs ++ [Fr l L []]), item, (zpre [Fr l L []] ++ A), e, [].
      split; [|split; [|reflexivity]].
      * rewrite Hd. unfold rzpath. rewrite map_app, <- app_assoc. simpl. unfold fidx. simpl.
        rewrite c18_zlen_app, c18_zlen_cons, c18_zlen_nil.
        replace (nn_zlen L + (1 + 0) - 1) with (nn_zlen L) by lia. reflexivity.
      * pose proof (at_pos_plug kl (zpath gs) item A e [] [Fr l L []] Hp) as X.
        rewrite zpath_app. exact X.
Qed.

(* ------------------------------------------------------------------ begin / last *)
Lemma root_empty_leaf : forall t root, tree_inv t root -> zabs root = [] -> root = NLeaf None [].
Proof.
  intros t root [H1 H2 H3 _ _] He. destruct root as [l items|l kids].
  - cbn in He, H1. subst. reflexivity.
  - exfalso. destruct kids as [|k kids]; [exact H3|]. cbn [kids_ok] in H2. inversion H2 as [|? ? Hk _]; subst.
    destruct (sub_ok_abs _ Hk) as [Hne _]. cbn [nn_abs flat_map] in He. apply app_eq_nil in He. tauto.
Qed.

Lemma deepen_root_ok : forall first t (s : zst), tree_inv t (st_root Z s) -> st_path Z s = [] ->
  (zabs (st_root Z s) = [] /\ nn_deepen_root Z first true s = (true, st_with_iter Z s [] (-1))) \/
  (exists path item A e B, nn_deepen_root Z first true s = (true, st_with_iter Z s path item) /\
     at_pos (st_root Z s) path item A e B /\ (if first then A = [] else B = [])).
Proof.
  intros first t s Hinv Hp. unfold nn_deepen_root. rewrite Hp.
  destruct (zabs (st_root Z s)) as [|x m] eqn:Ea.
  - left. split; [reflexivity|]. rewrite (root_empty_leaf t _ Hinv Ea). reflexivity.
  - right. assert (Hne : zabs (st_root Z s) <> []) by (rewrite Ea; discriminate).
    destruct (deepen_ok first true [] s (st_root Z s) (ti_kids _ _ Hinv) Hne (nn_height Z (st_root Z s)) [] (le_n _))
      as (gs & item & A & e & B & Hd & Hpos & HAB).
    exists (zpath gs), item, A, e, B. rewrite Hd, app_nil_r, rev'_rzpath. repeat split; assumption.
Qed.

Lemma begin_ok : forall t (s : zst), tree_inv t (st_root Z s) ->
  (zabs (st_root Z s) = [] /\ nn_begin Z s = st_with_iter Z s [] (-1)) \/
  (exists path item e B, nn_begin Z s = st_with_iter Z s path item /\ at_pos (st_root Z s) path item [] e B).
Proof.
  intros t s Hinv. unfold nn_begin.
  destruct (deepen_root_ok true t (nn_fresh Z s) Hinv eq_refl) as [[He Hd]|(path & item & A & e & B & Hd & Hp & ->)];
    rewrite Hd; cbn [snd].
  - left. split; [exact He|reflexivity].
  - right. exists path, item, e, B. split; [reflexivity|exact Hp].
Qed.
Lemma last_ok : forall t (s : zst), tree_inv t (st_root Z s) ->
  (zabs (st_root Z s) = [] /\ nn_last Z s = st_with_iter Z s [] (-1)) \/
  (exists path item A e, nn_last Z s = st_with_iter Z s path item /\ at_pos (st_root Z s) path item A e []).
Proof.
  intros t s Hinv. unfold nn_last.
  destruct (deepen_root_ok false t (nn_fresh Z s) Hinv eq_refl) as [[He Hd]|(path & item & A & e & B & Hd & Hp & ->)];
    rewrite Hd; cbn [snd].
  - left. split; [exact He|reflexivity].
  - right. exists path, item, A, e. split; [reflexivity|exact Hp].
Qed.

(* ------------------------------------------------------------------ find *)
Lemma sub_ok_lim_in : forall kid, sub_ok kid -> exists lo hi vlo vhi m',
  nn_lim Z kid = Some (lo, hi) /\ zabs kid = (lo, vlo) :: m' /\ In (hi, vhi) (zabs kid).
Proof.
  intros kid H. destruct (sub_ok_abs _ H) as [Hne Hl].
  destruct (lo_hi (zabs kid)) as [[lo hi]|] eqn:E; [|apply lo_hi_none in E; congruence].
  destruct (lo_hi_in _ _ _ E) as [(vlo & m' & Hm) (vhi & Hhi)].
  exists lo, hi, vlo, vhi, m'. repeat split; assumption.
Qed.

(* compareKeyKid as a classifier *)
Definition kid_class (key : Z) (kid : node) : comparison :=
  match nn_lim Z kid with
  | Some (lo, hi) => match nn_zcmp key lo with Lt => Lt | _ => match nn_zcmp key hi with Gt => Gt | _ => Eq end end
  | None => Eq
  end.
Lemma cmp_kid_class : forall key kids, Forall sub_ok kids ->
  forall i, nn_cmp_kid Z nn_zcmp key kids i = option_map (kid_class key) (nn_znth kids i).
Proof.
  intros key kids Hk i. unfold nn_cmp_kid. destruct (nn_znth kids i) as [kid|] eqn:E; [|reflexivity].
  simpl. assert (Hin : In kid kids).
  { unfold nn_znth in E. destruct (i <? 0); [discriminate|]. eapply nth_error_In. exact E. }
  rewrite Forall_forall in Hk. destruct (sub_ok_lim_in kid (Hk kid Hin)) as (lo & hi & ? & ? & ? & Hl & _).
  unfold kid_class. rewrite Hl. destruct (nn_zcmp key lo); try reflexivity; destruct (nn_zcmp key hi); reflexivity.
Qed.
Lemma cmp_item_class : forall key (items : zmap) i,
  nn_cmp_item Z nn_zcmp key items i = option_map (fun x => nn_zcmp key (fst x)) (nn_znth items i).
Proof. intros. unfold nn_cmp_item. destruct (nn_znth items i) as [[k v]|]; reflexivity. Qed.

Lemma kid_class_gt : forall key kid, sub_ok kid -> all_lt (zabs kid) key -> kid_class key kid = Gt.
Proof.
  intros key kid H Hall. destruct (sub_ok_lim_in kid H) as (lo & hi & vlo & vhi & m' & Hl & Hm & Hhi).
  unfold kid_class, nn_zcmp. rewrite Hl.
  assert (H1 : lo < key) by (apply (Hall (lo, vlo)); rewrite Hm; left; reflexivity).
  assert (H2 : hi < key) by (apply (Hall (hi, vhi)); exact Hhi).
  destruct (Z.compare_spec key lo); try lia; destruct (Z.compare_spec key hi); try lia; reflexivity.
Qed.
Lemma kid_class_lt : forall key kid, sub_ok kid -> all_gt (zabs kid) key -> kid_class key kid = Lt.
Proof.
  intros key kid H Hall. destruct (sub_ok_lim_in kid H) as (lo & hi & vlo & vhi & m' & Hl & Hm & Hhi).
  unfold kid_class, nn_zcmp. rewrite Hl.
  assert (H1 : key < lo) by (apply (Hall (lo, vlo)); rewrite Hm; left; reflexivity).
  destruct (Z.compare_spec key lo); try lia; reflexivity.
Qed.
Lemma kid_class_ge : forall key kid A e B, sub_ok kid -> zabs kid = A ++ e :: B -> zsorted (zabs kid) ->
  fst e <= key -> kid_class key kid <> Lt.
Proof.
  intros key kid A e B H Ha Hs He. destruct (sub_ok_lim_in kid H) as (lo & hi & vlo & vhi & m' & Hl & Hm & Hhi).
  unfold kid_class, nn_zcmp. rewrite Hl.
  assert (H1 : lo <= fst e).
  { rewrite Ha in Hs. destruct (zsorted_mid _ _ _ Hs) as (HA & _). rewrite Ha in Hm.
    destruct A as [|a A]; simpl in Hm.
    - injection Hm as -> _. simpl. lia.
    - injection Hm as -> _. specialize (HA (lo, vlo) (or_introl eq_refl)). simpl in HA. lia. }
  destruct (Z.compare_spec key lo); try lia; destruct (Z.compare_spec key hi); discriminate.
Qed.

Lemma find_loop_ok : forall key prev (s : zst) node, kids_ok node -> zsorted (zabs node) ->
  forall A e B, zabs node = A ++ e :: B -> fst e <= key -> all_gt B key ->
  forall fuel rpath, (nn_height Z node <= fuel)%nat ->
  exists gs item,
    nn_find_loop Z nn_zcmp fuel key prev node rpath s = Some (st_with_iter Z s (rev' (rzpath gs ++ rpath)) item) /\
    ((fst e = key \/ prev = true) -> at_pos node (zpath gs) item A e B) /\
    (fst e <> key -> prev = false -> item = -1).
Proof.
  intros key prev s.
  induction node as [l items|l kids IH] using (nnode_ind' Z); intros Hk Hs A e B Ha He HB fuel rpath Hf.
  - destruct fuel as [|fu]; [simpl in Hf; lia|]. cbn [nn_find_loop]. cbn [nn_abs] in Ha, Hs. subst items.
    rewrite c18_match_ne by (destruct A; discriminate).
    destruct (zsorted_mid _ _ _ Hs) as (HAlt & _ & _ & _).
    assert (HAgt : Forall (fun x => nn_zcmp key (fst x) = Gt) A).
    { rewrite Forall_forall. intros a Hin. specialize (HAlt a Hin). unfold nn_zcmp. apply Z.compare_gt_iff. lia. }
    assert (HBlt : Forall (fun x => nn_zcmp key (fst x) = Lt) B).
    { rewrite Forall_forall. intros b Hin. specialize (HB b Hin). unfold nn_zcmp. apply Z.compare_lt_iff. lia. }
    assert (Hpos : at_pos (NLeaf l (A ++ e :: B)) (zpath []) (nn_zlen A) A e B).
    { exists [], l, (A ++ e :: B). rewrite c18_to_nat_zlen. repeat split.
      - apply c18_zlen_nonneg.
      - rewrite nth_error_app2 by lia. rewrite Nat.sub_diag. reflexivity.
      - simpl. rewrite c18_firstn_mid. reflexivity.
      - rewrite c18_skipn_mid_S, app_nil_r. reflexivity. }
    pose proof (c18_zlen_nonneg A) as HlenA.
    destruct (Z.eq_dec (fst e) key) as [Heq|Hneq].
    + rewrite (binsearch_classified (fun x => nn_zcmp key (fst x)) _ A (e :: B) prev
                 (cmp_item_class key (A ++ e :: B)) HAgt).
      2:{ split; [|exact HBlt]. unfold nn_zcmp. rewrite Heq, Z.compare_refl. discriminate. }
      rewrite Heq. unfold nn_zcmp. rewrite Z.compare_refl.
      replace (0 <=? nn_zlen A) with true by (symmetry; apply Z.leb_le; lia).
      exists [], (nn_zlen A). split; [reflexivity|]. split; [intros _; exact Hpos|intros; congruence].
    + assert (HAe : Forall (fun x => nn_zcmp key (fst x) = Gt) (A ++ [e])).
      { rewrite Forall_app. split; [exact HAgt|]. constructor; [|constructor]. unfold nn_zcmp. apply Z.compare_gt_iff. lia. }
      replace (A ++ e :: B) with ((A ++ [e]) ++ B) by (rewrite <- app_assoc; reflexivity).
      rewrite (binsearch_classified (fun x => nn_zcmp key (fst x)) _ (A ++ [e]) B prev
                 (cmp_item_class key ((A ++ [e]) ++ B)) HAe).
      2:{ destruct B as [|b B']; [exact I|]. inversion HBlt as [|? ? Hb Hrest]; subst.
          split; [rewrite Hb; discriminate|exact Hrest]. }
      assert (Hres : match B with
                     | [] => if prev then nn_zlen (A ++ [e]) - 1 else -1
                     | h :: _ => match nn_zcmp key (fst h) with
                                 | Eq => nn_zlen (A ++ [e])
                                 | _ => if prev then nn_zlen (A ++ [e]) - 1 else -1
                                 end
                     end = if prev then nn_zlen A else -1).
      { rewrite c18_zlen_app, c18_zlen_cons, c18_zlen_nil.
        replace (nn_zlen A + (1 + 0) - 1) with (nn_zlen A) by lia.
        destruct B as [|b B']; [reflexivity|]. inversion HBlt as [|? ? Hb Hrest]; subst. rewrite Hb. reflexivity. }
      rewrite Hres. rewrite <- app_assoc. simpl app.
      destruct prev.
      * replace (0 <=? nn_zlen A) with true by (symmetry; apply Z.leb_le; lia).
        exists [], (nn_zlen A). split; [reflexivity|]. split; [intros _; exact Hpos|intros; congruence].
      * exists [], (-1). split; [reflexivity|]. split; [intros [?|?]; congruence|reflexivity].
  - destruct fuel as [|fu]; [simpl in Hf; lia|]. cbn [nn_find_loop]. cbn [nn_abs kids_ok] in Ha, Hs, Hk.
    destruct (c18_flat_split zabs kids A e B Ha) as (l1 & k & l2 & A' & B' & -> & Hka & -> & ->).
    rewrite c18_match_ne by (destruct l1; discriminate).
    rewrite Forall_app in Hk. destruct Hk as [Hk1 Hk2]. inversion Hk2 as [|? ? Hkk Hk3]; subst.
    (* sortedness of the parts *)
    rewrite flat_map_app in Hs. cbn [flat_map] in Hs. rewrite Hka in Hs.
    assert (Hs' := Hs). rewrite <- !app_assoc in Hs'. simpl in Hs'.
    rewrite app_assoc in Hs'. destruct (zsorted_mid _ _ _ Hs') as (HAlt & HBgt & _ & _).
    assert (Hsk : zsorted (zabs k)).
    { apply zsorted_app in Hs. destruct Hs as (_ & Hs2 & _). apply zsorted_app in Hs2. rewrite Hka. tauto. }
    assert (H1gt : Forall (fun x => kid_class key x = Gt) l1).
    { rewrite Forall_forall in *. intros kid Hin. apply kid_class_gt; [apply Hk1; exact Hin|].
      intros a Ha'. assert (fst a < fst e); [|lia]. apply HAlt. apply in_or_app. left.
      apply in_flat_map. exists kid. split; assumption. }
    assert (H2lt : Forall (fun x => kid_class key x = Lt) l2).
    { rewrite Forall_forall in *. intros kid Hin. apply kid_class_lt; [apply Hk3; exact Hin|].
      intros b Hb. apply HB. apply in_or_app. right. apply in_flat_map. exists kid. split; assumption. }
    assert (Hkge : kid_class key k <> Lt) by (apply (kid_class_ge key k A' e B' Hkk Hka Hsk He)).
    assert (Hidx : nn_binsearch (nn_zlen (l1 ++ k :: l2)) (nn_cmp_kid Z nn_zcmp key (l1 ++ k :: l2)) true
                   = Some (nn_zlen l1)).
    { assert (Hall : Forall sub_ok (l1 ++ k :: l2)) by (rewrite Forall_app; split; [exact Hk1|exact Hk2]).
      destruct (kid_class key k) eqn:Ec; [| congruence |].
      - rewrite (binsearch_classified (kid_class key) _ l1 (k :: l2) true (cmp_kid_class key _ Hall) H1gt).
        2:{ split; [rewrite Ec; discriminate|exact H2lt]. }
        rewrite Ec. reflexivity.
      - assert (H1k : Forall (fun x => kid_class key x = Gt) (l1 ++ [k])).
        { rewrite Forall_app. split; [exact H1gt|constructor; [exact Ec|constructor]]. }
        replace (l1 ++ k :: l2) with ((l1 ++ [k]) ++ l2) in * by (rewrite <- app_assoc; reflexivity).
        rewrite (binsearch_classified (kid_class key) _ (l1 ++ [k]) l2 true (cmp_kid_class key _ Hall) H1k).
        2:{ destruct l2 as [|h l2']; [exact I|]. inversion H2lt as [|? ? Hh Hrest]; subst.
            split; [rewrite Hh; discriminate|exact Hrest]. }
        rewrite c18_zlen_app, c18_zlen_cons, c18_zlen_nil.
        replace (nn_zlen l1 + (1 + 0) - 1) with (nn_zlen l1) by lia.
        destruct l2 as [|h l2']; [reflexivity|]. inversion H2lt as [|? ? Hh Hrest]; subst. rewrite Hh. reflexivity. }
    rewrite Hidx. pose proof (c18_zlen_nonneg l1) as Hl1.
    replace (nn_zlen l1 <? 0) with false by (symmetry; apply Z.ltb_ge; lia).
    rewrite c18_znth_mid.
    assert (HB' : all_gt B' key) by (intros b Hb; apply HB; apply in_or_app; left; exact Hb).
    assert (Hink : In k (l1 ++ k :: l2)) by (apply in_or_app; right; left; reflexivity).
    assert (Hhk : (nn_height Z k <= fu)%nat).
    { pose proof (height_kid k (l1 ++ k :: l2) Hink) as Hh.
      cbn [nn_height] in Hf. lia. }
    rewrite Forall_forall in IH.
    destruct (IH k Hink (sub_ok_kids _ Hkk) Hsk A' e B' Hka He HB'
                 fu (nn_zlen l1 :: rpath) Hhk) as (gs & item & Hfl & Hp & Hn).
    exists (gs ++ [Fr l l1 l2]), item. split; [|split].
    + rewrite Hfl. unfold rzpath. rewrite map_app, <- app_assoc. reflexivity.
    + intros Hc. pose proof (at_pos_plug k (zpath gs) item A' e B' [Fr l l1 l2] (Hp Hc)) as X.
      rewrite zpath_app. simpl in X. rewrite app_nil_r in X. exact X.
    + exact Hn.
Qed.

Lemma cur_none : forall (s : zst), st_item Z s < 0 -> nn_cur Z s = None.
Proof. intros s H. unfold nn_cur. apply Z.ltb_lt in H. rewrite H. reflexivity. Qed.

(* where find leaves the iterator, in terms of the floor decomposition of the content *)
Definition find_post (root : node) (key : Z) (prev : bool) (s' : zst) : Prop :=
  (all_gt (zabs root) key /\ st_item Z s' < 0) \/
  (exists A e B, zabs root = A ++ e :: B /\ fst e <= key /\ all_gt B key /\
     (((fst e = key \/ prev = true) /\ at_pos root (st_path Z s') (st_item Z s') A e B) \/
      (fst e <> key /\ prev = false /\ st_item Z s' < 0))).

Lemma find_ok : forall t key prev (s : zst), tree_inv t (st_root Z s) ->
  exists s', nn_find Z nn_zcmp key prev s = Some s' /\ st_root Z s' = st_root Z s /\ st_warn Z s' = st_warn Z s /\
    find_post (st_root Z s) key prev s'.
Proof.
  intros t key prev s Hinv. unfold nn_find.
  destruct (begin_ok t s Hinv) as [[He Hb]|(path & item & [k0 v0] & B0 & Hb & Hp)]; rewrite Hb.
  - change (nn_cur Z (st_with_iter Z s [] (-1))) with (@None (Z * Z)).
    eexists. split; [reflexivity|]. split; [reflexivity|]. split; [reflexivity|].
    left. rewrite He. split; [intros ? []|]. cbn. lia.
  - pose proof (at_pos_cur (st_with_iter Z s path item) [] (k0, v0) B0 Hp) as Hc. rewrite Hc.
    pose proof (at_pos_abs _ _ _ _ _ _ Hp) as Hab. simpl in Hab.
    pose proof (ti_sorted _ _ Hinv) as Hs.
    destruct (nn_zcmp key k0) eqn:Ec.
    1,3: (change (st_root Z (st_with_iter Z s path item)) with (st_root Z s);
      assert (Hle : k0 <= key) by (unfold nn_zcmp in Ec; destruct (Z.compare_spec key k0); try discriminate; lia);
      destruct (floor_split (zabs (st_root Z s)) key Hs) as [Hall|(A & e & B & HAeB & He & HB)];
      [exfalso; specialize (Hall (k0, v0)); rewrite Hab in Hall; specialize (Hall (or_introl eq_refl)); simpl in Hall; lia|];
      rewrite HAeB in Hs;
      destruct (find_loop_ok key prev (nn_fresh Z (st_with_iter Z s path item)) (st_root Z s)
                  (ti_kids _ _ Hinv) (eq_ind_r zsorted Hs HAeB) A e B HAeB He HB (nn_height Z (st_root Z s)) [] (le_n _))
        as (gs & item' & Hfl & Hp' & Hn);
      rewrite Hfl; eexists; split; [reflexivity|]; split; [reflexivity|]; split; [reflexivity|];
      right; exists A, e, B; split; [exact HAeB|]; split; [exact He|]; split; [exact HB|];
      destruct (Z.eq_dec (fst e) key) as [Heq|Hneq];
      [left; split; [left; exact Heq|]; cbn [st_path st_item st_with_iter]; rewrite app_nil_r, rev'_rzpath; apply Hp'; left; exact Heq|];
      destruct prev;
      [left; split; [right; reflexivity|]; cbn [st_path st_item st_with_iter]; rewrite app_nil_r, rev'_rzpath; apply Hp'; right; reflexivity|];
      right; split; [exact Hneq|]; split; [reflexivity|]; cbn [st_item st_with_iter]; rewrite (Hn Hneq eq_refl); lia).
    eexists. split; [reflexivity|]. split; [reflexivity|]. split; [reflexivity|].
    left. split; [|cbn; lia].
    assert (Hlt : key < k0) by (unfold nn_zcmp in Ec; destruct (Z.compare_spec key k0); try discriminate; lia).
    cbn [st_root st_with_iter] in Hab. rewrite Hab in *. apply zsorted_cons in Hs. destruct Hs as [_ Hx].
    intros b [<-|Hb']; [exact Hlt|]. specialize (Hx b Hb'). simpl in Hx. lia.
Qed.

(* M1: a tree accepted by the validity checker satisfies the representation invariant (sorted keys, exact
   /Limits everywhere, sizes within the split bound); the initial iterator is end() *)
Lemma nn_init_valid_lemma : forall (t : Z) (s0 : nnode Z), wf_code Z nn_zcmp t s0 = 0 ->
  tree_inv t (st_root Z (nn_init Z s0)) /\ st_item Z (nn_init Z s0) < 0.
Proof. intros t s0 H. split; [apply wf_code_iff; exact H|simpl; lia]. Qed.

(* find and findLE from any valid tree of any size and depth: what the sorted map returns *)
Lemma nn_find_refines_lemma : forall (t : Z) (s : nnst Z) (key : Z) (prev : bool),
  wf_code Z nn_zcmp t (st_root Z s) = 0 ->
  exists s', nn_find Z nn_zcmp key prev s = Some s' /\ st_root Z s' = st_root Z s /\ st_warn Z s' = st_warn Z s /\
    nn_cur Z s' = (if prev then sm_floor Z nn_zcmp key (nn_abs Z (st_root Z s))
                   else sm_at Z nn_zcmp key (nn_abs Z (st_root Z s))).
Proof.
  intros t s key prev Hwf. apply wf_code_iff in Hwf.
  destruct (find_ok t key prev s Hwf) as (s' & Hf & Hr & Hw & Hpost).
  exists s'. split; [exact Hf|]. split; [exact Hr|]. split; [exact Hw|].
  pose proof (ti_sorted _ _ Hwf) as Hs.
  destruct Hpost as [[Hall Hi]|(A & e & B & HAeB & He & HB & Hc)].
  - rewrite (cur_none _ Hi). destruct (sm_before_all _ _ Hall) as (H1 & H2 & _). destruct prev; congruence.
  - rewrite HAeB in *. destruct Hc as [[Hc Hp]|(Hneq & -> & Hi)].
    + rewrite <- Hr in Hp. rewrite (at_pos_cur s' A e B Hp).
      destruct prev.
      * symmetry. apply sm_floor_mid; assumption.
      * destruct Hc as [Heq|?]; [|discriminate]. rewrite <- Heq. symmetry. apply sm_at_mid. exact Hs.
    + rewrite (cur_none _ Hi). symmetry. apply sm_at_mid_other; [exact Hs|lia|exact HB].
Qed.
