#!/usr/bin/env python3
# Translator (C++ source -> Gallina) for small pure LEAF functions and constant tables of qpdf.
#
#   clang++ -fsyntax-only -Xclang -ast-dump=json -Xclang -ast-dump-filter=<name> <file>      (clang 14)
#
# gives the typed AST (implicit conversions explicit) of every target listed in TARGETS below; the subset
# described in coq/Base/LeafSem.v and DESIGN.md 2.3 is translated into coq/Gen/Leaf.v (definitions only, every
# name prefixed lf_).  The tie theorems coq/*/C<nn>TieProofs.v prove, for all arguments in the C++ parameter
# range, that each generated definition equals the hand-written model definition the property theorems are
# about; an edit of a leaf therefore changes Leaf.v and re-decides those theorems on the next run.
#
# Anything outside the subset makes the translator exit non-zero with a message naming the construct (harness/
# common.gen_translated turns that into InfraError): it never emits an approximation.
#
# Supported: parameters and locals of integer / char / bool type; = and compound assignment, ++ -- (as statements);
# + - * / % comparisons && || ! & | ^ ~ << >> ?: ; casts between integer types (wrap-around written out, value
# preserving conversions dropped); if/else, switch over constants (with fall-through), return, while / do / for
# QIntC::to_<T>(x) (-> lf_checked: x inside T's range, a value outside T's range where the C++ throws);
# (-> structural recursion on explicit fuel, the state being every variable in scope, the code after the loop inlined
# in the exit branch), break / continue; direct self-recursion (-> fuel); calls of other translated leaves; reads of
# translated constants and of translated tables (table[i]); static const arrays, scalars, enums, string literals.
# Pattern extractors (a function outside the subset read as a TABLE, each with a strict shape check): the 64 steps of
# MD5_native::transform, the round constants of the unrolled sha2_round, the code-size thresholds of
# Pl_LZWDecoder::handleCode, the permission bits cleared by interpretR3EncryptionParameters.
#
# Trusted: clang's parser/semantic analysis (the AST), this translator's reading of the subset (LeafSem.v), the
# LP64 type sizes below.  Checked on every C02 run: harness/c02.py compiles the very source text of each translated
# function with g++ and compares it with `Eval vm_compute` of the generated definition on boundary arguments.
import concurrent.futures, hashlib, json, os, re, subprocess, sys

HERE = os.path.dirname(os.path.abspath(__file__))
VERIF = os.path.dirname(HERE)
sys.path.insert(0, HERE)
import common  # noqa: E402

REPO = common.REPO
LIB = os.path.join(REPO, "libqpdf")


class Unsupported(Exception):
    pass


def fail(msg):
    raise Unsupported(msg)


# ------------------------------------------------------------------------------------------------ targets
# kind: func | table | scalar | enum | string | md5steps | sha2k | lzwthr | r3bits
# dom : per parameter the range on which the C++ is defined and terminates (= the range of the tie theorem); the default
#       is the whole range of the parameter type.  Used by the differential check harness/leafcheck.py.
# sym : mangled name (functions, variables) or enum name; out: Gallina name (lf_ is prepended)
def T(file, filt, kind, sym, out, owner, lang="c++", **kw):
    d = dict(file=file, filter=filt, kind=kind, sym=sym, out="lf_" + out, owner=owner, lang=lang)
    d.update(kw)
    return d


TARGETS = [
    # ---- C02: writer arithmetic
    T("QPDFWriter.cc", "calculateXrefStreamPadding", "func", "_ZN4qpdf4impl6Writer26calculateXrefStreamPaddingEx", "calculateXrefStreamPadding", "C02",
      dom=[(0, 2 ** 62)]),              # a negative result makes QIntC::to_size throw; above 2^63 - 16384 the addition overflows
    T("QPDFWriter.cc", "bytesNeeded", "func", "_ZN4qpdf4impl6Writer11bytesNeededEx", "bytesNeeded", "C02",
      dom=[(0, 2 ** 63 - 1)]),          # a negative n never leaves the loop
    # ---- C07: linearization
    T("QPDF_linearization.cc", "nbits", "func", "_ZL5nbitsi", "nbits", "C07", dom=[(0, 2 ** 31 - 1)]),     # a negative val recurses for ever
    # ---- C03: character classes
    T("QUtil.cc", "qpdf::util::", "func", "_ZN4qpdf4util15hex_decode_charEc", "util_hex_decode_char", "C03"),
    T("QUtil.cc", "hex_decode_char", "func", "_ZN5QUtil15hex_decode_charEc", "QUtil_hex_decode_char", "C03"),
    T("QUtil.cc", "qpdf::util::", "func", "_ZN4qpdf4util12is_hex_digitEc", "util_is_hex_digit", "C03"),
    T("QUtil.cc", "is_hex_digit", "func", "_ZN5QUtil12is_hex_digitEc", "QUtil_is_hex_digit", "C03"),
    T("QUtil.cc", "qpdf::util::", "func", "_ZN4qpdf4util8is_spaceEc", "util_is_space", "C03"),
    T("QUtil.cc", "is_space", "func", "_ZN5QUtil8is_spaceEc", "QUtil_is_space", "C03"),
    T("QUtil.cc", "qpdf::util::", "func", "_ZN4qpdf4util8is_digitEc", "util_is_digit", "C03"),
    T("QUtil.cc", "is_digit", "func", "_ZN5QUtil8is_digitEc", "QUtil_is_digit", "C03"),
    T("QPDFTokenizer.cc", "is_delimiter", "func", "_ZL12is_delimiterc", "is_delimiter", "C03"),
    T("QPDFTokenizer.cc", "Tokenizer::isSpace", "func", "_ZN4qpdf9Tokenizer7isSpaceEc", "Tokenizer_isSpace", "C03",
      extra_filters=["is_space"]),
    T("QPDFTokenizer.cc", "Tokenizer::isDelimiter", "func", "_ZN4qpdf9Tokenizer11isDelimiterEc", "Tokenizer_isDelimiter", "C03",
      extra_filters=["is_delimiter"]),
    T("QPDF_String.cc", "is_iso_latin1_printable", "func", "_ZL23is_iso_latin1_printablec", "is_iso_latin1_printable", "C03"),
    # ---- C15: filters
    T("Pl_PNGFilter.cc", "abs_diff", "func", "_ZL8abs_diffii", "abs_diff", "C15", dom=[(-2 ** 30, 2 ** 30 - 1)] * 2),   # no signed overflow
    T("Pl_PNGFilter.cc", "PaethPredictor", "func", "_ZN12Pl_PNGFilter14PaethPredictorEiii", "PaethPredictor", "C15",
      extra_filters=["abs_diff"], dom=[(-2 ** 28, 2 ** 28 - 1)] * 3, small=[(0, 255)] * 3),
    T("Pl_Base64.cc", "to_c", "func", "_ZL4to_cj", "b64_to_c", "C15"),
    T("Pl_Base64.cc", "to_uc", "func", "_ZL5to_uci", "b64_to_uc", "C15"),
    T("Pl_Base64.cc", "to_i", "func", "_ZL4to_ii", "b64_to_i", "C15"),
    T("Pl_LZWDecoder.cc", "Pl_LZWDecoder::handleCode", "lzwthr", "_ZN13Pl_LZWDecoder10handleCodeEj", "lzw_thresholds", "C15"),
    # ---- C05: permissions, padding, native crypto tables
    T("../include/qpdf/Constants.h", "qpdf_r3_print_e", "enum", "qpdf_r3_print_e", "qpdf_r3_print_e", "C05"),
    T("../include/qpdf/Constants.h", "qpdf_r3_modify_e", "enum", "qpdf_r3_modify_e", "qpdf_r3_modify_e", "C05"),
    T("QPDFWriter.cc", "interpretR3EncryptionParameters", "r3bits",
      "_ZN4qpdf4impl6Writer31interpretR3EncryptionParametersEbbbbbb15qpdf_r3_print_e16qpdf_r3_modify_e", "r3_cleared_bits", "C05"),
    T("QPDF_encryption.cc", "padding_string", "string", "_ZL14padding_stringB5cxx11", "padding_string", "C05"),
    T("QPDF_encryption.cc", "key_bytes", "scalar", "_ZL9key_bytes", "key_bytes", "C05"),
    T("rijndael.cc", "Te0", "table", "_ZL3Te0", "Te0", "C05"),
    T("rijndael.cc", "Te1", "table", "_ZL3Te1", "Te1", "C05"),
    T("rijndael.cc", "Te2", "table", "_ZL3Te2", "Te2", "C05"),
    T("rijndael.cc", "Te3", "table", "_ZL3Te3", "Te3", "C05"),
    T("rijndael.cc", "Te4", "table", "_ZL3Te4", "Te4", "C05"),
    T("rijndael.cc", "Td0", "table", "_ZL3Td0", "Td0", "C05"),
    T("rijndael.cc", "Td1", "table", "_ZL3Td1", "Td1", "C05"),
    T("rijndael.cc", "Td2", "table", "_ZL3Td2", "Td2", "C05"),
    T("rijndael.cc", "Td3", "table", "_ZL3Td3", "Td3", "C05"),
    T("rijndael.cc", "Td4", "table", "_ZL3Td4", "Td4", "C05"),
    T("rijndael.cc", "rcon", "table", "_ZL4rcon", "rcon", "C05"),
    T("MD5_native.cc", "MD5_native::transform", "md5steps", "_ZN10MD5_native9transformEPjPh", "md5_steps", "C05",
      extra_filters=["S1", "S2", "S3", "S4"]),
    T("MD5_native.cc", "PADDING", "table", "_ZL7PADDING", "md5_PADDING", "C05"),
    T("sha2.c", "H256", "table", "H256", "sha_H256", "C05", lang="c"),
    T("sha2.c", "sha2_round", "sha2k", "sha2_round", "sha_K256", "C05", lang="c"),
    T("sha2big.c", "K512", "table", "K512", "sha_K512", "C05", lang="c"),
    T("sha2big.c", "H384", "table", "H384", "sha_H384", "C05", lang="c"),
    T("sha2big.c", "H512", "table", "H512", "sha_H512", "C05", lang="c"),
]

# ---- self-test of the translator: harness/leaf_selftest.cc, one function per construct of the subset (no tie theorem;
#      compared with the compiled functions by harness/leafcheck.py)
ST = os.path.join(HERE, "leaf_selftest.cc")
I30 = (-2 ** 30, 2 ** 30)
TARGETS += [
    T(ST, "st_", "table", "_ZL6st_tab", "st_tab", "selftest"),
    T(ST, "st_", "scalar", "_ZL7st_bias", "st_bias", "selftest"),
    T(ST, "st_", "func", "st_for_sum", "st_for_sum", "selftest"),
    T(ST, "st_", "func", "st_switch", "st_switch", "selftest", dom=[(-2 ** 31, 2 ** 31 - 1), I30]),
    T(ST, "st_", "func", "st_dowhile", "st_dowhile", "selftest"),
    T(ST, "st_", "func", "st_u8", "st_u8", "selftest"),
    T(ST, "st_", "func", "st_short", "st_short", "selftest"),
    T(ST, "st_", "func", "st_divmod", "st_divmod", "selftest", dom=[(-2 ** 20, 2 ** 20), (-2 ** 31, 2 ** 31 - 1)]),
    T(ST, "st_", "func", "st_u64", "st_u64", "selftest"),
    T(ST, "st_", "func", "st_bool", "st_bool", "selftest"),
    T(ST, "st_", "func", "st_nested", "st_nested", "selftest", dom=[(-5, 70)]),
    T(ST, "st_", "func", "st_char", "st_char", "selftest", dom=[(-128, 127), I30]),
    T(ST, "st_", "func", "st_ternary", "st_ternary", "selftest", dom=[I30, I30, I30]),
    T(ST, "st_", "func", "st_table", "st_table", "selftest"),
    T(ST, "st_", "func", "st_two_loops", "st_two_loops", "selftest", dom=[(-5, 150)]),
]

# ------------------------------------------------------------------------------------------------ clang
CLANGXX = os.environ.get("VERIF_CLANGXX", "clang++")
CLANG = os.environ.get("VERIF_CLANG", "clang")


def cfg_dir():
    d = os.path.join(common.REPO_BUILD, "libqpdf")
    if not os.path.exists(os.path.join(d, "qpdf", "qpdf-config.h")):
        sys.exit("translate_leaf: %s/qpdf/qpdf-config.h not found (build /repo first: common.build_repo)" % d)
    return d


_hdr_digest = None


def header_digest():
    """digest of every header of the tree a translation unit can include (plus clang's version)"""
    global _hdr_digest
    if _hdr_digest is None:
        h = hashlib.sha256()
        h.update(subprocess.run([CLANGXX, "--version"], stdout=subprocess.PIPE).stdout)
        for d in (os.path.join(REPO, "include", "qpdf"), os.path.join(LIB, "qpdf"), os.path.join(LIB, "sph"),
                  os.path.join(cfg_dir(), "qpdf")):
            if not os.path.isdir(d):
                continue
            for fn in sorted(os.listdir(d)):
                p = os.path.join(d, fn)
                if os.path.isfile(p):
                    h.update(fn.encode() + b"\0")
                    with open(p, "rb") as f:
                        h.update(f.read())
        _hdr_digest = h.hexdigest()
    return _hdr_digest


def ast_dump(file, filt, lang):
    """list of top-level declaration nodes clang dumps for the filter; cached on the digest of the translation
    unit's source, the tree's headers, the command line and clang's version (the AST is a function of those)"""
    path = os.path.normpath(os.path.join(LIB, file))
    if not os.path.exists(path):
        fail("source file %s not found" % path)
    if lang == "c":
        cmd = [CLANG, "-std=gnu11"]
    else:
        cmd = [CLANGXX, "-std=c++20", "-x", "c++"]
    cmd += ["-fsyntax-only", "-w", "-I" + os.path.join(REPO, "include"), "-I" + LIB, "-I" + cfg_dir(),
            "-Xclang", "-ast-dump=json", "-Xclang", "-ast-dump-filter=" + filt, path]
    h = hashlib.sha256()
    h.update(header_digest().encode())
    h.update(" ".join(cmd[:-1]).replace(REPO, "<repo>").replace(common.REPO_BUILD, "<build>").encode())
    # the dump names its source files by absolute path (used later to cut out the functions' text): never reuse the dump of
    # another tree (a scratch worktree that may be gone by now)
    h.update(os.path.abspath(REPO).encode())
    with open(path, "rb") as f:
        h.update(f.read())
    cdir = os.path.join(common.BUILD, "gen", "leafcache")
    os.makedirs(cdir, exist_ok=True)
    cp = os.path.join(cdir, h.hexdigest()[:40] + ".json")
    if os.path.exists(cp) and not os.environ.get("VERIF_LEAF_NOCACHE"):
        try:
            with open(cp) as f:
                return json.load(f)
        except Exception:
            pass
    p = subprocess.run(cmd, stdout=subprocess.PIPE, stderr=subprocess.PIPE, timeout=300)
    if p.returncode != 0:
        fail("clang could not parse %s:\n%s" % (file, p.stderr.decode("utf-8", "replace")[-1500:]))
    s = p.stdout.decode("utf-8", "replace")
    dec = json.JSONDecoder()
    docs, i = [], 0
    fstate = {"file": None}
    while i < len(s):
        while i < len(s) and s[i].isspace():
            i += 1
        if i >= len(s):
            break
        if s[i] != "{":
            i = s.index("\n", i) + 1 if "\n" in s[i:] else len(s)
            continue
        d, i = dec.raw_decode(s, i)
        annotate_files(d, fstate)
        docs.append(prune(d))
    tmp = cp + ".%d.tmp" % os.getpid()
    with open(tmp, "w") as f:
        json.dump(docs, f)
    os.replace(tmp, cp)
    return docs


KEEP = ("id", "kind", "name", "mangledName", "type", "opcode", "value", "isPostfix", "castKind", "referencedDecl", "inner",
        "init", "storageClass", "range", "array_filler", "previousDecl", "hasElse", "hasInit", "hasVar", "isArrow",
        "computeLHSType", "computeResultType", "valueCategory", "fixedUnderlyingType", "implicit", "isImplicit")


def annotate_files(n, st):
    """clang prints the file of a location only when it differs from the previously printed one: make it explicit"""
    if isinstance(n, dict):
        if "offset" in n:
            if "file" in n:
                st["file"] = n["file"]
            else:
                n["file"] = st["file"]
        for v in list(n.values()):
            if isinstance(v, (dict, list)):
                annotate_files(v, st)
    elif isinstance(n, list):
        for x in n:
            annotate_files(x, st)


LOCKEYS = ("offset", "file", "tokLen", "spellingLoc", "expansionLoc")


def prune_loc(v):
    out = {}
    for kk, vv in v.items():
        if kk in ("spellingLoc", "expansionLoc"):
            out[kk] = prune_loc(vv)
        elif kk in LOCKEYS:
            out[kk] = vv
    return out


def prune(n):
    if isinstance(n, dict):
        out = {}
        for k, v in n.items():
            if k == "range":
                out[k] = {"begin": prune_loc(v.get("begin", {})), "end": prune_loc(v.get("end", {}))}
            elif k in ("type", "computeLHSType", "computeResultType", "fixedUnderlyingType"):
                out[k] = {kk: vv for kk, vv in v.items() if kk in ("qualType", "desugaredQualType")}
            elif k == "referencedDecl":
                out[k] = {kk: (vv if kk != "type" else {a: b for a, b in vv.items() if a in ("qualType", "desugaredQualType")})
                          for kk, vv in v.items() if kk in ("id", "kind", "name", "type")}
            elif k in KEEP:
                out[k] = prune(v)
        return out
    if isinstance(n, list):
        return [prune(x) for x in n]
    return n


# ------------------------------------------------------------------------------------------------ types
INT_TYPES = {
    "char": (True, 8), "signed char": (True, 8), "unsigned char": (False, 8),
    "short": (True, 16), "unsigned short": (False, 16),
    "int": (True, 32), "unsigned int": (False, 32), "unsigned": (False, 32),
    "long": (True, 64), "unsigned long": (False, 64),
    "long long": (True, 64), "unsigned long long": (False, 64),
}
BOOL = "bool"


def ctype(node, what="expression"):
    t = node.get("type") or {}
    q = t.get("desugaredQualType") or t.get("qualType")
    if q is None:
        fail("%s without a type (%s)" % (what, node.get("kind")))
    return ctype_of(q, what)


def ctype_of(q, what="expression"):
    q0 = q
    q = re.sub(r"\b(const|volatile)\b", "", q).strip()
    q = " ".join(q.split())
    if q in ("bool", "_Bool"):
        return BOOL
    if q in INT_TYPES:
        return INT_TYPES[q]
    fail("%s of type '%s' (only bool and the built-in integer types are in the subset)" % (what, q0))


def trange(ty):
    s, b = ty
    return (-(1 << (b - 1)), (1 << (b - 1)) - 1) if s else (0, (1 << b) - 1)


def coqty(ty):
    return "bool" if ty == BOOL else "Z"


def zlit(v):
    return str(v) if v >= 0 else "(%d)" % v


def wrap(ty, code):
    s, b = ty
    return "(lf_wrap_%s %d %s)" % ("s" if s else "u", b, code)


def convert(code, src, dst):
    """value of C++ type src converted to type dst"""
    if src == dst:
        return code
    if dst == BOOL:
        return "(lf_z2b %s)" % code
    if src == BOOL:
        return "(lf_b2z %s)" % code
    (lo, hi), (dlo, dhi) = trange(src), trange(dst)
    if dlo <= lo and hi <= dhi:
        return code                       # value preserving
    m = re.match(r"^\(?(-?\d+)\)?$", code)
    if m:                                 # a literal: the conversion is computed here
        return zlit(norm_const(int(m.group(1)), dst))
    return wrap(dst, code)


COQ_RESERVED = set("""as at cofix else end exists exists2 fix for forall fun if IF in let match mod Prop return Set then Type
using where with O S Z N nat bool true false nil cons list fuel fuel0 pair fst snd negb andb orb nth""".split())


def gname(c):
    c = re.sub(r"[^A-Za-z0-9_]", "_", c)
    if c in COQ_RESERVED or c.startswith("lf_") or c.startswith("Z."):
        c = c + "_"
    return c


# ------------------------------------------------------------------------------------------------ AST helpers
def inner(n):
    return [c for c in n.get("inner", []) if c.get("kind") not in (None,) or c]


def strip(n):
    """drop parentheses, ConstantExpr wrappers, full-expression wrappers"""
    while n.get("kind") in ("ParenExpr", "ConstantExpr", "ExprWithCleanups", "MaterializeTemporaryExpr", "CXXBindTemporaryExpr"):
        n = n["inner"][0]
    return n


def walk(n):
    yield n
    for c in n.get("inner", []) or []:
        if isinstance(c, dict):
            yield from walk(c)


def const_eval(n):
    """integer constant expression -> python int (value in the expression's type)"""
    n = strip(n)
    k = n.get("kind")
    if k == "IntegerLiteral":
        return int(n["value"])
    if k == "CharacterLiteral":
        return int(n["value"])
    if k == "CXXBoolLiteralExpr":
        return 1 if n["value"] else 0
    if k in ("ImplicitCastExpr", "CStyleCastExpr", "CXXStaticCastExpr", "CXXFunctionalCastExpr"):
        ck = n.get("castKind")
        v = const_eval(n["inner"][0])
        if ck in ("NoOp", "LValueToRValue"):
            return v
        if ck == "IntegralCast":
            ty = ctype(n, "constant")
            if ty == BOOL:
                return 1 if v else 0
            lo, hi = trange(ty)
            m = 1 << ty[1]
            v %= m
            return v - m if v > hi else v
        fail("cast kind %s in a constant initializer" % ck)
    if k == "UnaryOperator":
        v = const_eval(n["inner"][0])
        ty = ctype(n, "constant")
        op = n["opcode"]
        r = {"-": -v, "+": v, "~": ~v}.get(op)
        if r is None:
            fail("unary operator %s in a constant initializer" % op)
        return norm_const(r, ty)
    if k == "BinaryOperator":
        a, b = const_eval(n["inner"][0]), const_eval(n["inner"][1])
        ty = ctype(n, "constant")
        op = n["opcode"]
        if op == "+":
            r = a + b
        elif op == "-":
            r = a - b
        elif op == "*":
            r = a * b
        elif op == "<<":
            r = a << b
        elif op == ">>":
            r = a >> b
        elif op == "|":
            r = a | b
        elif op == "&":
            r = a & b
        elif op == "^":
            r = a ^ b
        else:
            fail("binary operator %s in a constant initializer" % op)
        return norm_const(r, ty)
    fail("%s in a constant initializer" % k)


def norm_const(v, ty):
    if ty == BOOL:
        return 1 if v else 0
    lo, hi = trange(ty)
    m = 1 << ty[1]
    v %= m
    return v - m if v > hi else v


def c_unescape(lit):
    """clang prints a StringLiteral as C source text: "..." with octal / simple escapes"""
    m = re.match(r'^(?:u8|L|u|U)?"(.*)"$', lit, re.S)
    if not m:
        fail("string literal spelling %r" % lit[:40])
    s, out, i = m.group(1), [], 0
    simple = {"n": 10, "t": 9, "r": 13, "b": 8, "f": 12, "v": 11, "a": 7, "\\": 92, "'": 39, '"': 34, "?": 63}
    while i < len(s):
        ch = s[i]
        if ch != "\\":
            o = ord(ch)
            if o > 255:
                fail("non-byte character in a string literal")
            out.append(o)
            i += 1
            continue
        i += 1
        ch = s[i]
        if ch in simple:
            out.append(simple[ch])
            i += 1
        elif ch in "01234567":
            j = i
            while j < len(s) and j < i + 3 and s[j] in "01234567":
                j += 1
            out.append(int(s[i:j], 8) & 255)
            i = j
        elif ch == "x":
            j = i + 1
            while j < len(s) and s[j] in "0123456789abcdefABCDEF":
                j += 1
            out.append(int(s[i + 1:j], 16) & 255)
            i = j
        else:
            fail("escape \\%s in a string literal" % ch)
    return out


# ------------------------------------------------------------------------------------------------ function translator
class Fn:
    """translation of one function definition"""

    def __init__(self, tr, target, node, dump):
        self.tr, self.t, self.node, self.dump = tr, target, node, dump
        self.name = target["out"]
        self.defs = []          # auxiliary loop functions, in dependency order
        self.nloops = 0
        self.uses_fuel = False
        self.self_rec = False
        self.calls_fuel = False
        self.callees = []

    # ---- expressions: return (code, type)
    def E(self, n, env):
        k = n.get("kind")
        if k in ("ParenExpr", "ConstantExpr", "ExprWithCleanups", "MaterializeTemporaryExpr"):
            return self.E(n["inner"][0], env)
        if k == "IntegerLiteral":
            return zlit(int(n["value"])), ctype(n)
        if k == "CharacterLiteral":
            return zlit(int(n["value"])), ctype(n)
        if k == "CXXBoolLiteralExpr":
            return ("true" if n["value"] else "false"), BOOL
        if k == "DeclRefExpr":
            return self.ref(n, env)
        if k in ("ImplicitCastExpr", "CStyleCastExpr", "CXXStaticCastExpr", "CXXFunctionalCastExpr"):
            ck = n.get("castKind")
            sub = n["inner"][0]
            if ck in ("LValueToRValue", "NoOp"):
                c, ty = self.E(sub, env)
                if ck == "NoOp" and ctype(n) != ty:
                    fail("NoOp cast that changes the type")
                return c, ty
            if ck in ("IntegralCast", "IntegralToBoolean"):
                c, ty = self.E(sub, env)
                dst = ctype(n, "cast target")
                return convert(c, ty, dst), dst
            fail("cast of kind %s" % ck)
        if k == "UnaryOperator":
            op = n["opcode"]
            if op in ("++", "--"):
                fail("%s used as a value (only as a statement)" % op)
            c, ty = self.E(n["inner"][0], env)
            rty = ctype(n)
            if op == "!":
                if ty != BOOL:
                    fail("! on a non-bool operand (C semantics)")
                return "(negb %s)" % c, BOOL
            if ty == BOOL or rty == BOOL:
                fail("arithmetic unary %s on bool" % op)
            if ty != rty:
                fail("unary %s whose operand is not promoted" % op)
            if op == "-":
                return wrap(rty, "(- %s)" % c), rty
            if op == "+":
                return c, rty
            if op == "~":
                r = "(Z.lnot %s)" % c
                return (r if rty[0] else wrap(rty, r)), rty
            fail("unary operator %s" % op)
        if k == "BinaryOperator":
            return self.binop(n["opcode"], n, n["inner"][0], n["inner"][1], env)
        if k == "ConditionalOperator":
            c, cty = self.E(n["inner"][0], env)
            if cty != BOOL:
                fail("?: on a non-bool condition")
            a, aty = self.E(n["inner"][1], env)
            b, bty = self.E(n["inner"][2], env)
            rty = ctype(n)
            if aty != rty or bty != rty:
                fail("?: whose arms are not converted to the result type")
            return "(if %s then %s else %s)" % (c, a, b), rty
        if k == "CallExpr":
            return self.call(n, env)
        if k == "ArraySubscriptExpr":
            base = strip(n["inner"][0])
            while base.get("kind") == "ImplicitCastExpr" and base.get("castKind") in ("ArrayToPointerDecay", "NoOp"):
                base = strip(base["inner"][0])
            if base.get("kind") != "DeclRefExpr":
                fail("subscript of something that is not a named table")
            tgt = self.tr.global_for(base["referencedDecl"], self.t, kinds=("table", "string"))
            i, ity = self.E(n["inner"][1], env)
            if ity == BOOL:
                fail("bool as a subscript")
            self.callees.append(tgt["out"])
            return "(lf_nth %s %s)" % (tgt["out"], i), ctype(n)
        fail("expression of kind %s" % k)

    def ref(self, n, env):
        rd = n["referencedDecl"]
        if rd.get("kind") in ("ParmVarDecl", "VarDecl"):
            for cname, g, ty, did in env:
                if did == rd["id"]:
                    return g, ty
            if rd.get("kind") == "VarDecl":
                tgt = self.tr.global_for(rd, self.t, kinds=("scalar",))
                self.callees.append(tgt["out"])
                return tgt["out"], ctype(n)
            fail("reference to '%s', which is not a parameter or local of the function" % rd.get("name"))
        if rd.get("kind") == "EnumConstantDecl":
            tgt = self.tr.enum_constant(rd)
            self.callees.append(tgt)
            return tgt, ctype(n)
        fail("reference to a %s ('%s')" % (rd.get("kind"), rd.get("name")))

    def binop(self, op, n, l, r, env):
        a, aty = self.E(l, env)
        b, bty = self.E(r, env)
        rty = ctype(n)
        if op in ("&&", "||"):
            if aty != BOOL or bty != BOOL:
                fail("%s on non-bool operands (C semantics)" % op)
            return "(%s %s %s)" % ("andb" if op == "&&" else "orb", a, b), BOOL
        if op in ("==", "!=", "<", "<=", ">", ">="):
            if aty != bty:
                fail("comparison of operands of different types (%s)" % op)
            if aty == BOOL:
                if op == "==":
                    c = "(Bool.eqb %s %s)" % (a, b)
                elif op == "!=":
                    c = "(negb (Bool.eqb %s %s))" % (a, b)
                else:
                    fail("ordering comparison of bools")
            else:
                c = {"==": "(%s =? %s)", "!=": "(negb (%s =? %s))", "<": "(%s <? %s)", "<=": "(%s <=? %s)",
                     ">": "(%s >? %s)", ">=": "(%s >=? %s)"}[op] % (a, b)
            if rty == BOOL:
                return c, BOOL
            return "(lf_b2z %s)" % c, rty          # C: the result is an int
        if op == ",":
            fail("comma operator used as a value")
        if aty == BOOL or bty == BOOL or rty == BOOL:
            fail("arithmetic %s on bool" % op)
        if op in ("<<", ">>"):
            if aty != rty:
                fail("shift whose left operand is not of the result type")
            if op == "<<":
                return wrap(rty, "(Z.shiftl %s %s)" % (a, b)), rty
            return "(Z.shiftr %s %s)" % (a, b), rty
        if aty != rty or bty != rty:
            fail("binary %s whose operands are not converted to the result type" % op)
        return self.arith(op, a, b, rty), rty

    def arith(self, op, a, b, rty):
        if op in ("+", "-", "*"):
            return wrap(rty, "(%s %s %s)" % (a, op, b))
        if op == "/":
            return (wrap(rty, "(Z.quot %s %s)" % (a, b)) if rty[0] else "(Z.quot %s %s)" % (a, b))
        if op == "%":
            return "(Z.rem %s %s)" % (a, b)
        if op in ("&", "|", "^"):
            return "(%s %s %s)" % ({"&": "Z.land", "|": "Z.lor", "^": "Z.lxor"}[op], a, b)
        fail("binary operator %s" % op)

    def call(self, n, env):
        cal = strip(n["inner"][0])
        while cal.get("kind") == "ImplicitCastExpr":
            cal = strip(cal["inner"][0])
        if cal.get("kind") != "DeclRefExpr":
            fail("call through %s (only direct calls of translated leaves)" % cal.get("kind"))
        rd = cal["referencedDecl"]
        if re.match(r"^to_(char|uchar|int|uint|size|offset|long|ulong|longlong|ulonglong)$", rd.get("name", "")) and \
                self.tr.written_qualifier(cal, rd["name"]) == ["QIntC"] and len(n["inner"]) == 2 and \
                re.match(r"^[\w ]+ \(const [\w ]+ &\)$", (rd.get("type") or {}).get("qualType", "")):
            # QIntC::to_T(x) (include/qpdf/QIntC.hh): x if it is representable in T, otherwise std::range_error is thrown
            arg = n["inner"][1]
            c, ty = self.E(arg, env)
            dst = ctype(n, "result of QIntC::%s" % rd["name"])
            if ty == BOOL or dst == BOOL:
                fail("QIntC conversion on bool")
            (lo, hi), (dlo, dhi) = trange(ty), trange(dst)
            if dlo <= lo and hi <= dhi:
                return c, dst
            return "(lf_checked %s %s %s)" % (zlit(dlo), zlit(dhi), c), dst
        args = []
        for a in n["inner"][1:]:
            if a.get("kind") == "CXXDefaultArgExpr":
                fail("default argument in a call")
            args.append(self.E(a, env))
        if self.tr.same_function(rd, self.node, self.dump):
            self.self_rec = True
            self.uses_fuel = True
            return "(%s fuel %s)" % (self.name, " ".join(c for c, _ in args)), ctype(n)
        tgt = self.tr.function_for(rd, self.t, self.dump, cal)
        self.callees.append(tgt["out"])
        fn = self.tr.translated_fn(tgt)
        for (c, ty), pty in zip(args, fn.param_types):
            if ty != pty:
                fail("argument of a call not converted to the parameter type")
        if fn.uses_fuel:
            # the callee's loops get the caller's whole fuel
            if self.self_rec:
                fail("a recursive function calling '%s', which needs fuel" % rd.get("name"))
            self.uses_fuel = True
            self.calls_fuel = True
            return "(%s fuel0 %s)" % (tgt["out"], " ".join(c for c, _ in args)), ctype(n)
        return "(%s %s)" % (tgt["out"], " ".join(c for c, _ in args)), ctype(n)

    # ---- statements (continuation passing): S(list, env, k, ctx) -> code; k(env) is the code of what follows
    def S(self, stmts, env, k, ctx):
        if not stmts:
            return k(env)
        s, rest = stmts[0], stmts[1:]
        kind = s.get("kind")
        krest = lambda e: self.S(rest, e, k, ctx)      # noqa: E731
        if kind == "CompoundStmt":
            n0 = len(env)
            return self.S(s.get("inner", []), env, lambda e: krest(e[:n0] if False else e), ctx)
        if kind == "NullStmt":
            return krest(env)
        if kind == "AttributedStmt":
            subs = [c for c in s.get("inner", []) if not c.get("kind", "").endswith("Attr")]
            return self.S(subs + rest, env, k, ctx)
        if kind == "DeclStmt":
            code_env = env
            lets = []
            for d in s.get("inner", []):
                if d.get("kind") != "VarDecl":
                    fail("declaration of kind %s inside a function" % d.get("kind"))
                if d.get("storageClass") == "static":
                    fail("static local variable '%s'" % d.get("name"))
                ty = ctype(d, "local variable '%s'" % d.get("name"))
                if any(c == d["name"] for c, _, _, _ in code_env):
                    fail("local '%s' shadows another variable" % d["name"])
                ini = [c for c in d.get("inner", []) if "Attr" not in c.get("kind", "")]
                if not ini:
                    fail("local '%s' declared without an initializer" % d["name"])
                if d.get("init") not in ("c", None):
                    if d.get("init") == "list" and ini[0].get("kind") == "InitListExpr" and len(ini[0].get("inner", [])) == 1:
                        ini = [ini[0]["inner"][0]]
                    else:
                        fail("initializer style '%s' of local '%s'" % (d.get("init"), d["name"]))
                c, ety = self.E(ini[0], code_env)
                if ety != ty:
                    fail("initializer of '%s' not converted to its type" % d["name"])
                g = gname(d["name"])
                lets.append("let %s := %s in" % (g, c))
                code_env = code_env + [(d["name"], g, ty, d["id"])]
            return "\n".join(lets) + "\n" + krest(code_env)
        if kind == "ReturnStmt":
            if not s.get("inner"):
                fail("return without a value")
            c, ty = self.E(s["inner"][0], env)
            if ty != self.ret:
                fail("returned value not converted to the return type")
            return c
        if kind == "BreakStmt":
            if ctx.get("break") is None:
                fail("break outside a loop or switch")
            return ctx["break"](env)
        if kind == "ContinueStmt":
            if ctx.get("continue") is None:
                fail("continue outside a loop")
            return ctx["continue"](env)
        if kind == "IfStmt":
            return self.S_if(s, env, krest, ctx)
        if kind in ("WhileStmt", "ForStmt", "DoStmt"):
            return self.S_loop(s, env, krest, ctx)
        if kind == "SwitchStmt":
            return self.S_switch(s, env, krest, ctx)
        # expression statements
        return self.S_expr(s, env, krest)

    def lvalue(self, n, env):
        n = strip(n)
        if n.get("kind") != "DeclRefExpr":
            fail("assignment to something that is not a local variable (%s)" % n.get("kind"))
        rd = n["referencedDecl"]
        for cname, g, ty, did in env:
            if did == rd["id"]:
                return g, ty
        fail("assignment to '%s', which is not a parameter or local" % rd.get("name"))

    def S_expr(self, s, env, krest):
        s = strip(s)
        kind = s.get("kind")
        if kind == "BinaryOperator" and s["opcode"] == ",":
            return self.S_expr(s["inner"][0], env, lambda e: self.S_expr(s["inner"][1], e, krest))
        if kind in ("CStyleCastExpr", "CXXStaticCastExpr", "CXXFunctionalCastExpr") and s.get("castKind") == "ToVoid":
            return self.S_expr(s["inner"][0], env, krest)
        if kind == "BinaryOperator" and s["opcode"] == "=":
            g, ty = self.lvalue(s["inner"][0], env)
            c, ety = self.E(s["inner"][1], env)
            if ety != ty:
                fail("assigned value not converted to the variable's type")
            return "let %s := %s in\n%s" % (g, c, krest(env))
        if kind == "CompoundAssignOperator":
            op = s["opcode"][:-1]
            g, ty = self.lvalue(s["inner"][0], env)
            b, bty = self.E(s["inner"][1], env)
            if ty == BOOL or bty == BOOL:
                fail("compound assignment on bool")
            cq = s.get("computeResultType", {}).get("desugaredQualType") or s.get("computeResultType", {}).get("qualType")
            lq = s.get("computeLHSType", {}).get("desugaredQualType") or s.get("computeLHSType", {}).get("qualType")
            if cq is None or lq is None:
                fail("compound assignment without computation types")
            cty, lty = ctype_of(cq), ctype_of(lq)
            a = convert(g, ty, lty)
            if op in ("<<", ">>"):
                if lty != cty:
                    fail("compound shift whose computation types differ")
                r = wrap(cty, "(Z.shiftl %s %s)" % (a, b)) if op == "<<" else "(Z.shiftr %s %s)" % (a, b)
            else:
                if bty != cty or lty != cty:
                    fail("compound assignment whose operands are not converted to the computation type")
                r = self.arith(op, a, b, cty)
            return "let %s := %s in\n%s" % (g, convert(r, cty, ty), krest(env))
        if kind == "UnaryOperator" and s["opcode"] in ("++", "--"):
            g, ty = self.lvalue(s["inner"][0], env)
            if ty == BOOL:
                fail("++/-- on bool")
            # x = (T)(promote(x) +/- 1): the computation is done in the promoted type, then converted back
            pty = ty if ty[1] >= 32 else (True, 32)
            r = self.arith("+" if s["opcode"] == "++" else "-", convert(g, ty, pty), "1", pty)
            return "let %s := %s in\n%s" % (g, convert(r, pty, ty), krest(env))
        fail("statement of kind %s%s" % (kind, (" (" + s.get("opcode") + ")") if s.get("opcode") else ""))

    # ---- which statements can leave the normal flow
    def jumps(self, n, in_loop=False, in_switch=False):
        k = n.get("kind")
        if k == "ReturnStmt":
            return True
        if k == "BreakStmt":
            return not (in_loop or in_switch)
        if k == "ContinueStmt":
            return not in_loop
        if k in ("WhileStmt", "ForStmt", "DoStmt"):
            return any(self.jumps(c, True, False) for c in n.get("inner", []) if isinstance(c, dict) and c)
        if k == "SwitchStmt":
            return any(self.jumps(c, in_loop, True) for c in n.get("inner", []) if isinstance(c, dict) and c)
        return any(self.jumps(c, in_loop, in_switch) for c in n.get("inner", []) if isinstance(c, dict) and c)

    def assigned(self, n, env):
        """ids of variables of env assigned somewhere in n"""
        out = []
        ids = {did: i for i, (_, _, _, did) in enumerate(env)}
        for x in walk(n):
            k = x.get("kind")
            tgt = None
            if (k == "BinaryOperator" and x.get("opcode") == "=") or k == "CompoundAssignOperator":
                tgt = strip(x["inner"][0])
            elif k == "UnaryOperator" and x.get("opcode") in ("++", "--"):
                tgt = strip(x["inner"][0])
            if tgt is not None and tgt.get("kind") == "DeclRefExpr":
                did = tgt["referencedDecl"]["id"]
                if did in ids and did not in out:
                    out.append(did)
        return sorted(out, key=lambda d: ids[d])

    def S_if(self, s, env, krest, ctx):
        parts = [c for c in s["inner"]]
        if s.get("hasInit") or s.get("hasVar"):
            fail("if with an init-statement or a condition variable")
        cond, then = parts[0], parts[1]
        els = parts[2] if len(parts) > 2 else None
        c, cty = self.E(cond, env)
        if cty != BOOL:
            fail("if on a non-bool condition (C semantics)")
        if not self.jumps(then) and (els is None or not self.jumps(els)):
            mod = self.assigned(then, env) + ([d for d in self.assigned(els, env)] if els is not None else [])
            seen = []
            for d in mod:
                if d not in seen:
                    seen.append(d)
            order = {did: i for i, (_, _, _, did) in enumerate(env)}
            seen.sort(key=lambda d: order[d])
            names = [g for (_, g, _, did) in env if did in seen]
            if not names:
                # no effect on the state (the branches are pure): nothing to bind, but the expressions must still be in the subset
                self.S([then], env, lambda e: "tt", ctx)
                if els is not None:
                    self.S([els], env, lambda e: "tt", ctx)
                return krest(env)
            tup = names[0] if len(names) == 1 else "(" + ", ".join(names) + ")"
            pat = names[0] if len(names) == 1 else "'(" + ", ".join(names) + ")"
            tcode = self.S([then], env, lambda e: tup, ctx)
            ecode = self.S([els], env, lambda e: tup, ctx) if els is not None else tup
            return "let %s :=\n  if %s then\n%s\n  else\n%s in\n%s" % (pat, c, ind(tcode, 4), ind(ecode, 4), krest(env))
        tcode = self.S([then], env, krest, ctx)
        ecode = self.S([els], env, krest, ctx) if els is not None else krest(env)
        return "if %s then\n%s\nelse\n%s" % (c, ind(tcode, 2), ind(ecode, 2))

    def S_loop(self, s, env, krest, ctx):
        kind = s["kind"]
        self.uses_fuel = True
        if self.self_rec:
            fail("a loop inside a recursive function")
        pre = []
        if kind == "WhileStmt":
            parts = s["inner"]
            if len(parts) != 2:
                fail("while with a condition variable")
            cond, body, inc = parts[0], parts[1], None
        elif kind == "DoStmt":
            body, cond, inc = s["inner"][0], s["inner"][1], None
        else:
            init, condvar, cond, inc, body = s["inner"]
            if condvar:
                fail("for with a condition variable")
            if init:
                pre = [init]
            cond = cond or None
            inc = inc or None

        nested = bool(ctx.get("in_loop"))
        if nested and any(x.get("kind") == "ReturnStmt" for x in walk(s)):
            fail("return inside a loop that is nested in another loop")

        def after_init(env1):
            self.nloops += 1
            lname = "%s_loop%d" % (self.name, self.nloops)
            params = " ".join("(%s : %s)" % (g, coqty(ty)) for (_, g, ty, _) in env1)
            names = [g for (_, g, _, _) in env1]
            args = lambda e: " ".join(names)     # noqa: E731
            again = lambda e: "%s fuel0 fuel %s" % (lname, args(e))   # noqa: E731
            if nested:
                # a loop inside a loop is a function of its own that returns the state; the enclosing loop goes on with it
                state = names[0] if len(names) == 1 else "(" + ", ".join(names) + ")"
                leave = lambda e: state      # noqa: E731
                rty = " * ".join(coqty(ty) for (_, _, ty, _) in env1)
                dflt = state
            else:
                leave = lambda e: krest(e[:len(env1)])      # noqa: E731
                rty = coqty(self.ret)
                dflt = self.default()
            if inc is not None:
                cont = lambda e: self.S_expr(inc, e, again)          # noqa: E731
            else:
                cont = again
            lctx = {"break": lambda e: leave(e), "continue": lambda e: cont(e[:len(env1)]), "in_loop": True}
            if cond is not None:
                c, cty = self.E(cond, env1)
                if cty != BOOL:
                    fail("loop on a non-bool condition (C semantics)")
            else:
                c = "true"
            if kind == "DoStmt":
                step = self.S([body], env1, lambda e: "if %s then %s\nelse\n%s" % (c, again(e), ind(leave(e), 2)), lctx)
            else:
                bcode = self.S([body], env1, lambda e: cont(e[:len(env1)]), lctx)
                step = "if %s then\n%s\nelse\n%s" % (c, ind(bcode, 2), ind(leave(env1), 2))
            self.defs.append("Fixpoint %s (fuel0 fuel : nat) %s {struct fuel} : %s :=\n  match fuel with\n  | O => %s\n  | S fuel =>\n%s\n  end." % (
                lname, params, rty, dflt, ind(step, 4)))
            if nested:
                pat = names[0] if len(names) == 1 else "'(" + ", ".join(names) + ")"
                return "let %s := %s fuel0 fuel0 %s in\n%s" % (pat, lname, args(env1), krest(env1))
            return "%s fuel0 fuel0 %s" % (lname, args(env1))
        return self.S(pre, env, after_init, ctx)

    def S_switch(self, s, env, krest, ctx):
        if s.get("hasInit") or s.get("hasVar"):
            fail("switch with an init-statement or a condition variable")
        cond, body = s["inner"][0], s["inner"][1]
        c, cty = self.E(cond, env)
        if cty == BOOL:
            fail("switch on bool")
        if body.get("kind") != "CompoundStmt":
            fail("switch whose body is not a block")
        # flatten: case labels nest their first statement
        segs = []        # [labels (ints or 'default'), stmts]
        for st in body.get("inner", []):
            labels = []
            while st.get("kind") in ("CaseStmt", "DefaultStmt"):
                if st["kind"] == "CaseStmt":
                    if len(st["inner"]) != 2:
                        fail("case range")
                    labels.append(const_eval_sw(self, st["inner"][0]))
                    st = st["inner"][1]
                else:
                    labels.append("default")
                    st = st["inner"][0]
            if labels:
                segs.append([labels, [st]])
            else:
                if not segs:
                    fail("statement before the first case label")
                segs[-1][1].append(st)
        for _, sts in segs:
            for st in sts:
                for x in walk(st):
                    if x.get("kind") in ("CaseStmt", "DefaultStmt"):
                        fail("case label nested inside a statement")
                if st.get("kind") == "DeclStmt":
                    fail("declaration directly inside a switch body")
        sctx = dict(ctx)
        sctx["break"] = lambda e: krest(e[:len(env)])
        sw = "lf_sw%d" % (len(env))
        code = None
        default_code = None
        branches = []
        for j, (labels, _) in enumerate(segs):
            tail = [st for _, sts in segs[j:] for st in sts]
            bcode = self.S(tail, env, lambda e: krest(e[:len(env)]), sctx)
            ints = [l for l in labels if l != "default"]
            if "default" in labels:
                default_code = bcode
            if ints:
                branches.append((ints, bcode))
        code = default_code if default_code is not None else krest(env)
        for ints, bcode in reversed(branches):
            test = " || ".join("(%s =? %s)" % (sw, zlit(v)) for v in ints)
            code = "if %s then\n%s\nelse\n%s" % (test, ind(bcode, 2), ind(code, 2))
        return "let %s := %s in\n%s" % (sw, c, code)

    def default(self):
        return "false" if self.ret == BOOL else "0"

    def translate(self):
        n = self.node
        fty = n["type"].get("desugaredQualType") or n["type"]["qualType"]
        m = re.match(r"^(.*?)\s*\((.*)\)(\s*const)?(\s*noexcept)?$", fty)
        if not m:
            fail("function type '%s'" % fty)
        try:
            self.ret = ctype_of(m.group(1), "return value")
        except Unsupported:
            # a typedef name (size_t, qpdf_offset_t): clang converts every returned expression to the return type, and those
            # expressions carry the desugared type
            rts = set()
            for x in walk(n):
                if x.get("kind") == "ReturnStmt" and x.get("inner"):
                    rts.add(ctype(x["inner"][0], "return value"))
            if len(rts) != 1:
                raise
            self.ret = list(rts)[0]
        env = []
        body = None
        for c in n.get("inner", []):
            if c.get("kind") == "ParmVarDecl":
                if "name" not in c:
                    fail("unnamed parameter")
                env.append((c["name"], gname(c["name"]), ctype(c, "parameter '%s'" % c["name"]), c["id"]))
            elif c.get("kind") == "CompoundStmt":
                body = c
        if body is None:
            fail("no body")
        if len(set(g for _, g, _, _ in env)) != len(env):
            fail("parameters whose names clash after renaming")
        self.param_types = [ty for _, _, ty, _ in env]
        self.params = env
        code = self.S([body], env, lambda e: fail("control reaches the end of the function without a return"), {})
        params = " ".join("(%s : %s)" % (g, coqty(ty)) for (_, g, ty, _) in env)
        out = list(self.defs)
        if self.self_rec and self.calls_fuel:
            fail("a recursive function that calls a function with loops")
        if self.self_rec:
            out.append("Fixpoint %s (fuel : nat) %s {struct fuel} : %s :=\n  match fuel with\n  | O => %s\n  | S fuel =>\n%s\n  end." % (
                self.name, params, coqty(self.ret), self.default(), ind(code, 4)))
        elif self.uses_fuel:
            out.append("Definition %s (fuel0 : nat) %s : %s :=\n%s." % (self.name, params, coqty(self.ret), ind(code, 2)))
        else:
            out.append("Definition %s %s : %s :=\n%s." % (self.name, params, coqty(self.ret), ind(code, 2)))
        return out


def demangle_scope(m):
    """identifiers of an Itanium-mangled (possibly nested, possibly internal-linkage) function name"""
    mm = re.match(r"^_Z(L)?(N)?(.*)$", m)
    if not mm:
        return [m]
    rest, out = mm.group(3), []
    while True:
        k = re.match(r"^(\d+)", rest)
        if not k:
            break
        n = int(k.group(1))
        out.append(rest[len(k.group(1)):len(k.group(1)) + n])
        rest = rest[len(k.group(1)) + n:]
        if not mm.group(2):
            break
    return out


def const_eval_sw(fn, n):
    n0 = n
    while n.get("kind") in ("ConstantExpr", "ImplicitCastExpr", "ParenExpr"):
        if n.get("kind") == "ConstantExpr" and "value" in n:
            return int(n["value"])
        n = n["inner"][0]
    return const_eval(n0)


def ind(code, k):
    pad = " " * k
    return "\n".join(pad + l if l else l for l in code.split("\n"))


# ------------------------------------------------------------------------------------------------ driver
class Translator:
    def __init__(self):
        self.dumps = {}        # (file, filter, lang) -> docs
        self.fns = {}          # out -> Fn
        self.enum_consts = {}  # enum constant name -> lf name
        self.by_out = {t["out"]: t for t in TARGETS}
        self.emitted = {}      # out -> list of definitions
        self.meta = {}         # out -> info for the differential check (source text ...)

    def load(self):
        jobs = []
        for t in TARGETS:
            for f in [t["filter"]] + t.get("extra_filters", []):
                key = (t["file"], f, t["lang"])
                if key not in jobs:
                    jobs.append(key)
        errs = []
        with concurrent.futures.ThreadPoolExecutor(max_workers=4) as ex:
            futs = {ex.submit(ast_dump, *k): k for k in jobs}
            for fu in futs:
                try:
                    self.dumps[futs[fu]] = fu.result()
                except Unsupported as e:
                    errs.append(str(e))
        if errs:
            fail("; ".join(errs))

    def docs(self, t):
        out = list(self.dumps[(t["file"], t["filter"], t["lang"])])
        for f in t.get("extra_filters", []):
            out += self.dumps[(t["file"], f, t["lang"])]
        return out

    def find_decl(self, t, kinds, want_body=False):
        """the (unique) definition of t['sym'] among the dumped declarations"""
        hits = []
        for d in self.dumps[(t["file"], t["filter"], t["lang"])]:
            for x in self.decls(d):
                if x.get("kind") not in kinds:
                    continue
                if x.get("mangledName", x.get("name")) != t["sym"] and x.get("name") != t["sym"]:
                    continue
                if x.get("mangledName") is not None and x.get("mangledName") != t["sym"] and t["lang"] != "c":
                    continue
                if want_body and not any(c.get("kind") == "CompoundStmt" for c in x.get("inner", [])):
                    continue
                if kinds == ("VarDecl",) and not any(c.get("kind") for c in x.get("inner", [])):
                    continue
                hits.append(x)
        uniq = {h["id"]: h for h in hits}
        if not uniq:
            fail("%s: definition of '%s' not found in %s (filter %s)" % (t["out"], t["sym"], t["file"], t["filter"]))
        if len(uniq) > 1:
            fail("%s: several definitions of '%s' in %s" % (t["out"], t["sym"], t["file"]))
        return list(uniq.values())[0]

    def decls(self, d):
        yield d
        if d.get("kind") in ("NamespaceDecl", "LinkageSpecDecl", "CXXRecordDecl"):
            for c in d.get("inner", []):
                yield from self.decls(c)

    # ---- cross references
    def same_function(self, rd, node, dump):
        if rd.get("id") == node.get("id") or rd.get("id") == node.get("previousDecl"):
            return True
        # a prototype of the same function in the same dump
        for d in dump:
            for x in self.decls(d):
                if x.get("id") == rd.get("id") and x.get("mangledName") is not None and x.get("mangledName") == node.get("mangledName"):
                    return True
        return False

    def function_for(self, rd, t, dump, call_node=None):
        """target describing the function a DeclRefExpr of target t refers to.  Declaration ids are only comparable
        inside one clang run: (1) the id among the declarations dumped together with the caller; otherwise (2) every
        function of that name and type in the translation unit (the run with the callee's name as filter lists them
        all) - a single one is the callee; several (util::is_space / QUtil::is_space) are told apart by the
        qualifier written at the call, which must select exactly one."""
        if rd.get("kind") not in ("FunctionDecl", "CXXMethodDecl"):
            fail("call of a %s" % rd.get("kind"))
        mangled = None
        for d in self.dumps[(t["file"], t["filter"], t["lang"])]:
            for x in self.decls(d):
                if x.get("id") == rd.get("id"):
                    mangled = x.get("mangledName")
        if mangled is None:
            want = (rd.get("type") or {}).get("qualType")
            cands = set()
            for d in self.docs(t):
                for x in self.decls(d):
                    if x.get("kind") in ("FunctionDecl", "CXXMethodDecl") and x.get("name") == rd.get("name") and \
                            x.get("type", {}).get("qualType") == want and x.get("mangledName"):
                        cands.add(x["mangledName"])
            if not cands:
                fail("call of '%s', whose declaration is not among the dumped declarations (add its name to extra_filters)" % rd.get("name"))
            if len(cands) > 1:
                q = self.written_qualifier(call_node, rd.get("name"))
                if not q:
                    fail("unqualified call of '%s', which names %d functions of that type" % (rd.get("name"), len(cands)))
                keep = [m for m in cands if demangle_scope(m)[-len(q) - 1:-1] == q]
                if len(keep) != 1:
                    fail("call of '%s::%s' selects %d of the functions of that name" % ("::".join(q), rd.get("name"), len(keep)))
                cands = set(keep)
            mangled = list(cands)[0]
        for u in TARGETS:
            if u["kind"] == "func" and u["sym"] == mangled:
                return u
        fail("call of '%s' (%s), which is not a translated leaf" % (rd.get("name"), mangled))

    def written_qualifier(self, ref, name):
        """the nested-name-specifier written in front of `name` at a DeclRefExpr, as a list of identifiers"""
        if ref is None:
            return None
        b = ref.get("range", {}).get("begin", {})
        e = ref.get("range", {}).get("end", {})
        if "offset" not in b or "offset" not in e or b.get("file") != e.get("file") or not b.get("file"):
            return None
        with open(b["file"], "rb") as f:
            txt = f.read()[b["offset"]:e["offset"] + e.get("tokLen", 0)].decode("latin-1")
        txt = "".join(txt.split())
        if not re.match(r"^(::)?([A-Za-z_]\w*::)*%s$" % re.escape(name), txt):
            return None
        return [x for x in txt.split("::")[:-1] if x]

    def global_for(self, rd, t, kinds):
        for u in TARGETS:
            if u["kind"] in kinds and u["file"] == t["file"]:
                d = self.find_decl(u, ("VarDecl",))
                if d.get("name") == rd.get("name"):
                    self.translate_target(u)
                    return u
        fail("%s: reference to global '%s', which is not a translated constant of %s" % (t["out"], rd.get("name"), t["file"]))

    def enum_constant(self, rd):
        for u in TARGETS:
            if u["kind"] == "enum":
                self.translate_target(u)
        if rd.get("name") in self.enum_consts:
            return self.enum_consts[rd["name"]]
        fail("reference to enum constant '%s' of an enum that is not translated" % rd.get("name"))

    def translated_fn(self, t):
        self.translate_target(t)
        return self.fns[t["out"]]

    # ---- per kind
    def translate_target(self, t):
        if t["out"] in self.emitted:
            return
        if t.get("_busy"):
            fail("%s: mutual recursion" % t["out"])
        t["_busy"] = True
        try:
            getattr(self, "k_" + t["kind"])(t)
        except Unsupported as e:
            raise Unsupported("%s (%s in %s): %s" % (t["out"], t["sym"], t["file"], e))
        finally:
            t["_busy"] = False

    def emit(self, t, defs, comment):
        comment = comment.replace("libqpdf/" + HERE, "harness").replace("libqpdf/../", "")
        self.emitted[t["out"]] = ["(* %s *)" % comment] + defs

    def src_text(self, t, node):
        """source text of the declaration (for the differential check of harness/c02.py)"""
        r = node.get("range", {})
        b, e = r.get("begin", {}), r.get("end", {})
        b = b.get("expansionLoc", b)
        e = e.get("expansionLoc", e)
        if "offset" not in b or "offset" not in e or not b.get("file") or b.get("file") != e.get("file"):
            return None
        with open(b["file"], "rb") as f:
            data = f.read()
        return data[b["offset"]:e["offset"] + e.get("tokLen", 1)].decode("latin-1")

    def k_func(self, t):
        node = self.find_decl(t, ("FunctionDecl", "CXXMethodDecl"), want_body=True)
        fn = Fn(self, t, node, self.docs(t))
        self.fns[t["out"]] = fn
        defs = fn.translate()
        fuel = " (first argument: fuel)" if fn.uses_fuel else ""
        self.emit(t, defs, "%s: %s of libqpdf/%s%s" % (t["out"], node["type"]["qualType"].replace("(*", "( *"), t["file"], fuel))
        self.meta[t["out"]] = {"kind": "func", "owner": t["owner"], "file": t["file"], "sym": t["sym"], "name": node.get("name"),
                               "ret": fn.ret, "params": [(c, ty) for c, _, ty, _ in fn.params], "fuel": fn.uses_fuel,
                               "src": self.src_text(t, node), "callees": sorted(set(fn.callees)), "ctype": node["type"]["qualType"],
                               "method": node.get("kind") == "CXXMethodDecl", "dom": t.get("dom"), "small": t.get("small"),
                               "scope": demangle_scope(t["sym"])}

    def table_values(self, t, node):
        q = node["type"].get("desugaredQualType") or node["type"]["qualType"]
        m = re.match(r"^(.*?)\s*\[(\d+)\]$", q)
        if not m:
            fail("'%s' is not an array of known size (%s)" % (node.get("name"), q))
        size = int(m.group(2))
        ini = [c for c in node.get("inner", []) if c.get("kind") == "InitListExpr"]
        if len(ini) != 1:
            fail("table '%s' without a brace initializer" % node.get("name"))
        # the element type: a typedef (u32, sph_u64) is only desugared on the element expressions
        etys = set()
        for c in ini[0].get("inner", []):
            if c.get("kind") != "ImplicitValueInitExpr":
                etys.add(ctype(c, "table element"))
        if len(etys) != 1:
            fail("table '%s' whose initializers are not all of one integer type" % node.get("name"))
        ety = list(etys)[0]
        vals = []
        for c in ini[0].get("inner", []):
            if c.get("kind") == "ImplicitValueInitExpr":
                continue
            v = const_eval(c)
            vals.append(norm_const(v, ety))
        if len(vals) > size:
            fail("table '%s' has more initializers than elements" % node.get("name"))
        if len(vals) < size:
            if "array_filler" not in ini[0] and len(vals) != size:
                fail("table '%s': %d initializers for %d elements" % (node.get("name"), len(vals), size))
            vals += [0] * (size - len(vals))
        return vals, ety

    def k_table(self, t):
        node = self.find_decl(t, ("VarDecl",))
        vals, ety = self.table_values(t, node)
        self.emit(t, ["Definition %s : list Z :=\n  [%s]." % (t["out"], fmt_list(vals))],
                  "%s: %s %s of libqpdf/%s" % (t["out"], node["type"]["qualType"], node["name"], t["file"]))
        self.meta[t["out"]] = {"kind": "table", "owner": t["owner"], "file": t["file"], "n": len(vals), "src": self.src_text(t, node)}

    def k_scalar(self, t):
        node = self.find_decl(t, ("VarDecl",))
        ty = ctype(node, "constant '%s'" % node.get("name"))
        q = node["type"]["qualType"]
        if "const" not in q:
            fail("'%s' is not const" % node.get("name"))
        ini = [c for c in node.get("inner", []) if "Attr" not in c.get("kind", "")]
        if not ini:
            fail("constant '%s' without an initializer" % node.get("name"))
        v = norm_const(const_eval(ini[0]), ty)
        self.emit(t, ["Definition %s : Z := %s." % (t["out"], zlit(v))], "%s: %s %s of libqpdf/%s" % (t["out"], q, node["name"], t["file"]))
        self.meta[t["out"]] = {"kind": "scalar", "owner": t["owner"], "file": t["file"], "src": self.src_text(t, node)}

    def k_enum(self, t):
        node = self.find_decl(t, ("EnumDecl",))
        vals, nxt, defs = [], 0, []
        for c in node.get("inner", []):
            if c.get("kind") != "EnumConstantDecl":
                continue
            ini = [x for x in c.get("inner", []) if "Attr" not in x.get("kind", "") and x.get("kind") != "FullComment"]
            ini = [x for x in ini if x.get("kind", "").endswith("Expr") or x.get("kind", "").endswith("Literal") or x.get("kind", "").endswith("Operator")]
            v = const_eval_sw(None, ini[0]) if ini else nxt
            nxt = v + 1
            g = "lf_" + gname(c["name"])
            self.enum_consts[c["name"]] = g
            defs.append("Definition %s : Z := %s." % (g, zlit(v)))
            vals.append(v)
        if not vals:
            fail("enum '%s' has no constants" % t["sym"])
        defs.append("Definition %s : list Z := [%s]." % (t["out"], "; ".join(zlit(v) for v in vals)))
        self.emit(t, defs, "%s: enum %s of %s" % (t["out"], t["sym"], t["file"]))
        self.meta[t["out"]] = {"kind": "enum", "owner": t["owner"], "file": t["file"]}

    def k_string(self, t):
        node = self.find_decl(t, ("VarDecl",))
        lits = [x for x in walk(node) if x.get("kind") == "StringLiteral"]
        if len(lits) != 1:
            fail("'%s' is not initialized from exactly one string literal" % node.get("name"))
        bs = c_unescape(lits[0]["value"])
        m = re.match(r"^const char\s*\[(\d+)\]$", lits[0]["type"]["qualType"])
        if not m or int(m.group(1)) != len(bs) + 1:
            fail("string literal of '%s': %d bytes read, type %s" % (node.get("name"), len(bs), lits[0]["type"]["qualType"]))
        udl = [x for x in walk(node) if x.get("kind") == "UserDefinedLiteral"]
        if udl:
            ln = [x for x in udl[0]["inner"] if x.get("kind") == "IntegerLiteral"]
            if len(ln) != 1 or int(ln[0]["value"]) != len(bs):
                fail("length argument of the literal operator of '%s'" % node.get("name"))
        elif 0 in bs:
            fail("'%s': a NUL inside a plain string literal ends the std::string there" % node.get("name"))
        self.emit(t, ["Definition %s : list Z :=\n  [%s]." % (t["out"], fmt_list(bs))],
                  "%s: the bytes of std::string %s of libqpdf/%s" % (t["out"], node["name"], t["file"]))
        self.meta[t["out"]] = {"kind": "string", "owner": t["owner"], "file": t["file"], "n": len(bs)}

    # ---- pattern extractors: functions outside the subset, read as tables under a strict shape check
    def sexp(self, n):
        """operator tree of an expression with parentheses and value-preserving wrappers removed"""
        n = strip(n)
        k = n.get("kind")
        if k in ("ImplicitCastExpr", "CXXStaticCastExpr", "CStyleCastExpr", "CXXFunctionalCastExpr"):
            if n.get("castKind") in ("LValueToRValue", "NoOp", "ArrayToPointerDecay", "FunctionToPointerDecay"):
                return self.sexp(n["inner"][0])
            if n.get("castKind") == "IntegralCast":
                return ("cast", n["type"].get("desugaredQualType") or n["type"]["qualType"], self.sexp(n["inner"][0]))
            fail("cast kind %s in a pattern" % n.get("castKind"))
        if k == "DeclRefExpr":
            return ("var", n["referencedDecl"]["name"])
        if k == "IntegerLiteral":
            return ("lit", int(n["value"]))
        if k == "BinaryOperator" or k == "CompoundAssignOperator":
            return (n["opcode"], self.sexp(n["inner"][0]), self.sexp(n["inner"][1]))
        if k == "UnaryOperator":
            return (n["opcode"] + ("post" if n.get("isPostfix") else ""), self.sexp(n["inner"][0]))
        if k == "ArraySubscriptExpr":
            return ("[]", self.sexp(n["inner"][0]), self.sexp(n["inner"][1]))
        if k == "MemberExpr":
            return ("member", n.get("name"), self.sexp(n["inner"][0]) if n.get("inner") else None)
        if k == "CXXThisExpr":
            return ("this",)
        if k == "CXXBoolLiteralExpr":
            return ("bool", bool(n["value"]))
        if k == "CharacterLiteral":
            return ("lit", int(n["value"]))
        if k in ("CallExpr", "CXXMemberCallExpr", "CXXOperatorCallExpr"):
            return ("call",) + tuple(self.sexp(c) for c in n["inner"])
        fail("%s in a pattern" % k)

    def k_md5steps(self, t):
        node = self.find_decl(t, ("CXXMethodDecl",), want_body=True)
        body = [c for c in node["inner"] if c.get("kind") == "CompoundStmt"][0]
        # shift amounts are the global constants S11 .. S44
        sconst = {}
        for f in t.get("extra_filters", []):
            for d in self.dumps[(t["file"], f, t["lang"])]:
                if d.get("kind") == "VarDecl" and re.match(r"^S[1-4][1-4]$", d.get("name", "")):
                    if "const" not in d["type"]["qualType"]:
                        fail("%s is not const" % d["name"])
                    ini = [c for c in d.get("inner", []) if "Attr" not in c.get("kind", "")]
                    sconst[d["name"]] = const_eval(ini[0])
        steps = []
        rounds = {
            "F": lambda b, c, d: ("|", ("&", b, c), ("&", ("~", b), d)),
            "G": lambda b, c, d: ("|", ("&", b, d), ("&", c, ("~", d))),
            "H": lambda b, c, d: ("^", ("^", b, c), d),
            "I": lambda b, c, d: ("^", c, ("|", b, ("~", d))),
        }
        for st in body["inner"]:
            if st.get("kind") != "CompoundStmt" or len(st.get("inner", [])) != 3:
                continue
            s1, s2, s3 = [self.sexp(x) for x in st["inner"]]
            # (a) += f(b,c,d) + x[k] + (uint32_t)ac ; (a) = ((a) << s) | ((a) >> (32 - s)) ; (a) += (b)
            try:
                assert s1[0] == "+=" and s1[1][0] == "var"
                a = s1[1]
                (p1, (p2, fexp, xk), ac) = s1[2]
                while ac[0] == "cast" and ac[1] == "unsigned int":
                    ac = ac[2]
                assert p1 == "+" and p2 == "+" and ac[0] == "lit" and 0 <= ac[1] < 2 ** 32
                assert xk[0] == "[]" and xk[1] == ("var", "x") and xk[2][0] == "lit"
                assert s2[0] == "=" and s2[1] == a
                rot = s2[2]
                assert rot[0] == "|" and rot[1][0] == "<<" and rot[1][1] == a and rot[2][0] == ">>" and rot[2][1] == a
                sv = rot[1][2]
                assert sv[0] == "var" and sv[1] in sconst
                assert rot[2][2] == ("-", ("lit", 32), sv)
                assert s3[0] == "+=" and s3[1] == a and s3[2][0] == "var"
                b = s3[2]
            except (AssertionError, ValueError, TypeError, IndexError):
                fail("a step of MD5_native::transform does not have the shape  a += f(b,c,d) + x[k] + ac; a = rotl(a, Sij); a += b")
            regs = [("var", r) for r in "abcd"]
            if a not in regs or b not in regs:
                fail("a step of MD5_native::transform on unexpected variables")
            ia = regs.index(a)
            if b != regs[(ia + 1) % 4]:
                fail("a step of MD5_native::transform whose registers are not in rotation")
            c_, d_ = regs[(ia + 2) % 4], regs[(ia + 3) % 4]
            rf = [i for i, (nm, f) in enumerate(rounds.items()) if f(b, c_, d_) == fexp]
            if len(rf) != 1:
                fail("a step of MD5_native::transform whose round function is none of F G H I")
            steps.append((rf[0], ac[1], sconst[sv[1]], xk[2][1], ia))
        if len(steps) != 64:
            fail("MD5_native::transform has %d recognisable steps (64 expected)" % len(steps))
        self.emit(t, ["Definition %s : list (Z * Z * Z * Z * Z) :=\n  [%s]." % (
            t["out"], ";\n   ".join("(%d, %d, %d, %d, %d)" % s for s in steps))],
            "%s: the 64 steps of MD5_native::transform (libqpdf/%s) as (round function 0=F 1=G 2=H 3=I, additive constant, rotation = value of the Sij constant, index into x[], register that is updated 0=a 1=b 2=c 3=d)" % (t["out"], t["file"]))
        self.meta[t["out"]] = {"kind": "pattern", "owner": t["owner"], "file": t["file"], "n": 64}

    def k_sha2k(self, t):
        node = self.find_decl(t, ("FunctionDecl",), want_body=True)
        ks = []
        for x in walk(node):
            if x.get("kind") == "BinaryOperator" and x.get("opcode") == "=":
                l = self.sexp(x["inner"][0])
                if l != ("var", "T1"):
                    continue
                r = self.sexp(x["inner"][1])
                # T1 = (sph_u32)( (h + BSG2_1(e) + CH(e,f,g) + K + W) & 0xFFFFFFFF )
                while r[0] == "cast":
                    r = r[2]
                try:
                    assert r[0] == "&" and r[2] in (("lit", 0xFFFFFFFF), ("cast", "unsigned int", ("lit", 0xFFFFFFFF)))
                    s = r[1]
                    assert s[0] == "+" and s[1][0] == "+"
                    kk = s[1][2]
                    while kk[0] == "cast":
                        kk = kk[2]
                    assert kk[0] == "lit" and s[2][0] == "var" and re.match(r"^W\d\d$", s[2][1])
                except (AssertionError, IndexError, TypeError):
                    fail("an assignment to T1 in sha2_round does not have the shape T1 = SPH_T32(h + BSG2_1(e) + CH(e,f,g) + K + Wnn)")
                ks.append(kk[1])
        if len(ks) != 64:
            fail("sha2_round has %d assignments to T1 (64 expected; SPH_SMALL_FOOTPRINT_SHA2 builds keep the constants in the table K instead)" % len(ks))
        self.emit(t, ["Definition %s : list Z :=\n  [%s]." % (t["out"], fmt_list(ks))],
                  "%s: the round constant added in each of the 64 unrolled steps of sha2_round (libqpdf/%s)" % (t["out"], t["file"]))
        self.meta[t["out"]] = {"kind": "pattern", "owner": t["owner"], "file": t["file"], "n": 64}

    def k_lzwthr(self, t):
        node = self.find_decl(t, ("CXXMethodDecl",), want_body=True)
        found = []
        first_size = []
        clear_code = []
        for x in walk(node):
            if x.get("kind") == "IfStmt":
                try:
                    c = self.sexp(x["inner"][0])
                except Unsupported:
                    continue
                lits, ok = [], True

                def disj(e):
                    nonlocal ok
                    if e[0] == "||":
                        disj(e[1]); disj(e[2])
                    elif e[0] == "==" and e[1] == ("var", "change_idx") and e[2][0] in ("lit", "cast"):
                        v = e[2]
                        while v[0] == "cast":
                            v = v[2]
                        lits.append(v[1]) if v[0] == "lit" else None
                    else:
                        ok = False
                disj(c)
                if ok and lits:
                    body = self.sexp_stmt(x["inner"][1])
                    if body != [("++", ("member", "code_size", ("this",)))]:
                        fail("the statement guarded by the change_idx test is not ++code_size")
                    found.append(lits)
            if x.get("kind") == "BinaryOperator" and x.get("opcode") == "=":
                try:
                    l, r = self.sexp(x["inner"][0]), self.sexp(x["inner"][1])
                except Unsupported:
                    continue
                if l == ("member", "code_size", ("this",)):
                    while r[0] == "cast":
                        r = r[2]
                    if r[0] != "lit":
                        fail("code_size is assigned something that is not a literal")
                    first_size.append(r[1])
        if len(found) != 1 or len(first_size) != 1:
            fail("handleCode: %d tests of change_idx and %d assignments of code_size (1 and 1 expected)" % (len(found), len(first_size)))
        # new_idx == 4096 guard
        full = []
        for x in walk(node):
            if x.get("kind") == "BinaryOperator" and x.get("opcode") == "==":
                try:
                    e = self.sexp(x)
                except Unsupported:
                    continue
                if e[1] == ("var", "new_idx"):
                    v = e[2]
                    while v[0] == "cast":
                        v = v[2]
                    if v[0] == "lit":
                        full.append(v[1])
        if len(full) != 1:
            fail("handleCode: %d comparisons of new_idx with a literal (1 expected)" % len(full))
        self.emit(t, ["Definition %s : list Z := [%s]." % (t["out"], "; ".join(str(v) for v in found[0])),
                      "Definition lf_lzw_initial_code_size : Z := %d." % first_size[0],
                      "Definition lf_lzw_table_full : Z := %d." % full[0]],
                  "%s: Pl_LZWDecoder::handleCode (libqpdf/%s): the values of change_idx at which ++code_size happens, the code size set on a clear code, the table index that raises 'table full'" % (t["out"], t["file"]))
        self.meta[t["out"]] = {"kind": "pattern", "owner": t["owner"], "file": t["file"], "n": len(found[0])}

    def sexp_stmt(self, n):
        if n.get("kind") == "CompoundStmt":
            return [y for c in n.get("inner", []) for y in self.sexp_stmt(c)]
        return [self.sexp(n)]

    def k_r3bits(self, t):
        """interpretR3EncryptionParameters as a table: for every guard, the bits it clears.
        Rows: (guard kind, guard value, bit) with guard kind 0 = `!allow_<i-th bool parameter>` (value = parameter index),
        1 = print == value (fall-through included), 2 = modify == value (fall-through included);
        the accessibility row carries the R bound in lf_r3_accessibility_max_R."""
        node = self.find_decl(t, ("CXXMethodDecl",), want_body=True)
        params = [c for c in node["inner"] if c.get("kind") == "ParmVarDecl"]
        pnames = [p["name"] for p in params]
        body = [c for c in node["inner"] if c.get("kind") == "CompoundStmt"][0]
        rows, maxr = [], []

        def setp(n):
            """encryption->setP(k, false) -> k"""
            if n.get("kind") == "AttributedStmt":
                return None
            e = self.sexp(n)
            try:
                assert e[0] == "call" and e[1][0] == "member" and e[1][1] == "setP"
                assert e[1][2][0] == "call" and e[1][2][1][1] == "operator->"
                assert e[1][2][2] == ("member", "encryption", ("this",))
                v = e[2]
                while v[0] == "cast":
                    v = v[2]
                assert v[0] == "lit" and e[3] == ("bool", False) and len(e) == 4
                return v[1]
            except (AssertionError, IndexError, TypeError):
                fail("a statement of interpretR3EncryptionParameters is not encryption->setP(<literal>, false)")

        for st in body["inner"]:
            k = st.get("kind")
            if k == "IfStmt":
                if len(st["inner"]) != 2:
                    fail("interpretR3EncryptionParameters: if with else")
                c = self.sexp(st["inner"][0])
                bits = [setp(x) for x in (st["inner"][1].get("inner", []) if st["inner"][1].get("kind") == "CompoundStmt" else [st["inner"][1]])]
                if c[0] == "!" and c[1][0] == "var" and c[1][1] in pnames:
                    for b in bits:
                        rows.append((0, pnames.index(c[1][1]), b))
                elif c[0] == "&&" and c[1][0] == "!" and c[1][1][0] == "var" and c[1][1][1] in pnames and c[2][0] == "<=":
                    lim = c[2][2]
                    while lim[0] == "cast":
                        lim = lim[2]
                    g = c[2][1]
                    if lim[0] != "lit" or not (g[0] == "call" and g[1][0] == "member" and g[1][1] == "getR"):
                        fail("interpretR3EncryptionParameters: guard of the accessibility bit")
                    maxr.append(lim[1])
                    for b in bits:
                        rows.append((0, pnames.index(c[1][1][1]), b))
                else:
                    fail("interpretR3EncryptionParameters: guard that is not !allow_x [&& encryption->getR() <= n]")
            elif k == "SwitchStmt":
                sel = self.sexp(st["inner"][0])
                while sel[0] == "cast":
                    sel = sel[2]
                if sel[0] != "var" or sel[1] not in ("print", "modify"):
                    fail("interpretR3EncryptionParameters: switch on something other than print / modify")
                gk = 1 if sel[1] == "print" else 2
                segs = []
                for x in st["inner"][1].get("inner", []):
                    labels = []
                    while x.get("kind") == "CaseStmt":
                        labels.append(const_eval_sw(None, x["inner"][0]))
                        x = x["inner"][1]
                    if x.get("kind") == "DefaultStmt":
                        fail("interpretR3EncryptionParameters: default label")
                    if labels:
                        segs.append([labels, [x]])
                    else:
                        segs[-1][1].append(x)
                for j, (labels, _) in enumerate(segs):
                    bits = []
                    for _, sts in segs[j:]:
                        stop = False
                        for x in sts:
                            if x.get("kind") == "BreakStmt":
                                stop = True
                                break
                            b = setp(x)
                            if b is not None:
                                bits.append(b)
                        if stop:
                            break
                    for lab in labels:
                        for b in bits:
                            rows.append((gk, lab, b))
            else:
                fail("interpretR3EncryptionParameters: statement of kind %s" % k)
        if len(maxr) != 1:
            fail("interpretR3EncryptionParameters: %d guards on getR() (1 expected)" % len(maxr))
        self.emit(t, ["Definition %s : list (Z * Z * Z) :=\n  [%s]." % (t["out"], "; ".join("(%d, %d, %d)" % r for r in rows)),
                      "Definition lf_r3_accessibility_max_R : Z := %d." % maxr[0],
                      "Definition lf_r3_bool_params : Z := %d." % len([p for p in params if p["type"]["qualType"] == "bool"])],
                  "%s: impl::Writer::interpretR3EncryptionParameters (libqpdf/%s) as the list of (guard kind, guard value, bit cleared by encryption->setP(bit, false)); guard kind 0: the value-th bool parameter is false (parameter 0, allow_accessibility, only while getR() <= lf_r3_accessibility_max_R), 1: print == value, 2: modify == value (fall-through followed)" % (t["out"], t["file"]))
        self.meta[t["out"]] = {"kind": "pattern", "owner": t["owner"], "file": t["file"], "n": len(rows)}

    # ---- output
    def run(self):
        self.load()
        for t in TARGETS:
            self.translate_target(t)
        out = ["(* GENERATED by harness/translate_leaf.py from the clang AST of <repo>/libqpdf on every run. Do not edit.",
               "   Leaf functions and constant tables of qpdf translated into Gallina (semantics: Base/LeafSem.v).",
               "   Tie theorems: File/C02TieProofs.v Lex/C03TieProofs.v Crypto/C05TieProofs.v Lin/C07TieProofs.v Filters/C15TieProofs.v. *)",
               "From Coq Require Import ZArith List Bool.", "From QV Require Import Base.LeafSem.", "Import ListNotations.",
               "Local Open Scope Z_scope.", "Local Open Scope bool_scope.", ""]
        done = []

        def put(name):
            if name in done or name not in self.emitted:
                return
            done.append(name)
            for c in self.meta.get(name, {}).get("callees", []):
                put(self.owner_of(c))
            out.extend(self.emitted[name])
            out.append("")
        for t in TARGETS:
            put(t["out"])
        txt = "\n".join(out)
        gen = os.path.join(VERIF, "coq", "Gen")
        os.makedirs(gen, exist_ok=True)
        p = os.path.join(gen, "Leaf.v")
        if not os.path.exists(p) or open(p).read() != txt:
            with open(p, "w") as f:
                f.write(txt)
        mdir = os.path.join(common.BUILD, "gen")
        os.makedirs(mdir, exist_ok=True)
        with open(os.path.join(mdir, "leaf_meta.json"), "w") as f:
            json.dump(self.meta, f, indent=1)
        return len(self.emitted)

    def owner_of(self, lfname):
        if lfname in self.emitted:
            return lfname
        for t in TARGETS:             # an enum constant belongs to its enum
            if t["kind"] == "enum" and t["out"] in self.emitted and any(lfname in d for d in self.emitted[t["out"]]):
                return t["out"]
        return lfname


def fmt_list(vals, per=8):
    rows = ["; ".join(zlit(v) for v in vals[i:i + per]) for i in range(0, len(vals), per)]
    return ";\n   ".join(rows)


def main():
    try:
        n = Translator().run()
    except Unsupported as e:
        sys.stderr.write("translate_leaf: OUTSIDE THE TRANSLATED SUBSET / SHAPE CHANGED: %s\n" % e)
        sys.exit(1)
    if "-v" in sys.argv:
        print("translate_leaf: %d targets translated" % n)


if __name__ == "__main__":
    main()
