(* Lexical conventions of ISO 32000-1:2008, 7.2 (character set, comments) and 7.3.2-7.3.5, 7.3.9
   (booleans, numbers, strings, names, null), written from the standard as an executable
   specification lexer.  Nothing here refers to qpdf's code or to Lex/TokModel.v.

   Style: the input is cut into maximal runs by character class (Table 1 white space, Table 2
   delimiters, everything else regular) and each run is then classified as a whole; strings are read
   by structural recursion on the text.  An input that the standard gives no meaning to (unbalanced
   string, '#' not followed by two hex digits in a name, #00, a non-hex character in a hex string,
   stray ')' or '>') has no specified reading: the functions return None. *)
From QV Require Import Base.Bytes.
Local Open Scope N_scope.

(* 7.2.2, Table 1: NUL HT LF FF CR SP *)
Definition iso_white (b : N) : bool :=
  (b =? 0) || (b =? 9) || (b =? 10) || (b =? 12) || (b =? 13) || (b =? 32).
(* 7.2.2, Table 2: ( ) < > [ ] { } / % *)
Definition iso_delim (b : N) : bool :=
  (b =? 40) || (b =? 41) || (b =? 60) || (b =? 62) || (b =? 91) || (b =? 93) || (b =? 123) || (b =? 125) ||
  (b =? 47) || (b =? 37).
Definition iso_regular (b : N) : bool := negb (iso_white b) && negb (iso_delim b).
Definition iso_eol (b : N) : bool := (b =? 10) || (b =? 13).

Inductive ptoken :=
| PArrOpen | PArrClose | PDictOpen | PDictClose | PBraceOpen | PBraceClose
| PInt (z : Z)
| PReal (mant : Z) (scale : N)          (* the number mant / 10^scale, as spelled *)
| PStr (s : list N)
| PName (n : list N)
| PBool (b : bool)
| PNull
| PKeyword (w : list N).

(* ---- 7.2.3 comments, white space between tokens ---- *)
(* in_comment = we are after a '%' and before the end-of-line marker *)
Fixpoint skip_ignorable (in_comment : bool) (inp : list N) : list N :=
  match inp with
  | [] => []
  | b :: r =>
      if in_comment then skip_ignorable (negb (iso_eol b)) r
      else if iso_white b then skip_ignorable false r
      else if b =? 37 then skip_ignorable true r else inp
  end.

(* maximal run of characters satisfying p *)
Fixpoint span_while (p : N -> bool) (inp : list N) : list N * list N :=
  match inp with
  | [] => ([], [])
  | b :: r => if p b then let '(a, rest) := span_while p r in (b :: a, rest) else ([], inp)
  end.

(* ---- 7.3.3 numbers ---- *)
Definition dec_digit (b : N) : bool := (48 <=? b) && (b <=? 57).
Definition all_digits (s : list N) : bool := forallb dec_digit s.
Definition nonempty {A} (s : list A) : bool := match s with [] => false | _ => true end.

(* positional value: d_0 d_1 ... d_{n-1}  =  sum d_i * 10^(n-1-i) *)
Fixpoint positional_value (ds : list N) : N :=
  match ds with
  | [] => 0
  | d :: r => (d - 48) * 10 ^ N.of_nat (length r) + positional_value r
  end.

Fixpoint split_at_dot (s : list N) : list N * option (list N) :=
  match s with
  | [] => ([], None)
  | b :: r => if b =? 46 then ([], Some r) else let '(a, f) := split_at_dot r in (b :: a, f)
  end.

Definition signed_value (neg : bool) (v : N) : Z := if neg then (- Z.of_N v)%Z else Z.of_N v.

(* "an integer shall be written as one or more decimal digits optionally preceded by a sign";
   "a real value shall be written as one or more decimal digits with an optional sign and a leading,
   trailing, or embedded PERIOD" *)
Definition number_of_run (run : list N) : option ptoken :=
  let '(neg, body) := match run with
                      | b :: r => if b =? 43 then (false, r) else if b =? 45 then (true, r) else (false, run)
                      | [] => (false, run)
                      end in
  match split_at_dot body with
  | (ip, None) =>
      if nonempty ip && all_digits ip then Some (PInt (signed_value neg (positional_value ip))) else None
  | (ip, Some fp) =>
      if all_digits ip && all_digits fp && (nonempty ip || nonempty fp)
      then Some (PReal (signed_value neg (positional_value (ip ++ fp))) (N.of_nat (length fp)))
      else None
  end.

Definition kw_true : list N := [116; 114; 117; 101].
Definition kw_false : list N := [102; 97; 108; 115; 101].
Definition kw_null : list N := [110; 117; 108; 108].

(* a maximal run of regular characters that does not begin a name *)
Definition token_of_run (run : list N) : ptoken :=
  match number_of_run run with
  | Some t => t
  | None =>
      if list_eqb N.eqb run kw_true then PBool true
      else if list_eqb N.eqb run kw_false then PBool false
      else if list_eqb N.eqb run kw_null then PNull
      else PKeyword run
  end.

(* ---- 7.3.5 names ---- *)
Definition hex_value (b : N) : option N :=
  if (48 <=? b) && (b <=? 57) then Some (b - 48)
  else if (65 <=? b) && (b <=? 70) then Some (b - 55)
  else if (97 <=? b) && (b <=? 102) then Some (b - 87)
  else None.

(* '#' introduces exactly two hexadecimal digits; the code 0 is not allowed in a name *)
Fixpoint name_decode (run : list N) : option (list N) :=
  match run with
  | [] => Some []
  | b :: r =>
      if b =? 35 then
        match r with
        | h1 :: h2 :: r2 =>
            match hex_value h1, hex_value h2, name_decode r2 with
            | Some a, Some b, Some n => if 16 * a + b =? 0 then None else Some (16 * a + b :: n)
            | _, _, _ => None
            end
        | _ => None
        end
      else match name_decode r with Some n => Some (b :: n) | None => None end
  end.

(* ---- 7.3.4.2 literal strings ---- *)
Definition oct_digit (b : N) : bool := (48 <=? b) && (b <=? 55).

Definition consb (b : N) (x : option (list N * list N)) : option (list N * list N) :=
  match x with Some (s, rest) => Some (b :: s, rest) | None => None end.

(* text after the opening parenthesis; depth = number of unbalanced inner '(' so far *)
Fixpoint lit_string (depth : nat) (inp : list N) : option (list N * list N) :=
  match inp with
  | [] => None
  | b :: r =>
      if b =? 41 then match depth with O => Some ([], r) | S d => consb 41 (lit_string d r) end
      else if b =? 40 then consb 40 (lit_string (S depth) r)
      else if b =? 13 then                                  (* an end-of-line marker in a string reads as LF *)
        match r with
        | c :: r1 => if c =? 10 then consb 10 (lit_string depth r1) else consb 10 (lit_string depth r)
        | [] => consb 10 (lit_string depth r)
        end
      else if b =? 92 then                                  (* REVERSE SOLIDUS, Table 3 *)
        match r with
        | [] => None
        | c :: r1 =>
            if c =? 110 then consb 10 (lit_string depth r1)
            else if c =? 114 then consb 13 (lit_string depth r1)
            else if c =? 116 then consb 9 (lit_string depth r1)
            else if c =? 98 then consb 8 (lit_string depth r1)
            else if c =? 102 then consb 12 (lit_string depth r1)
            else if c =? 10 then lit_string depth r1        (* line continuation *)
            else if c =? 13 then
              match r1 with
              | c2 :: r2 => if c2 =? 10 then lit_string depth r2 else lit_string depth r1
              | [] => lit_string depth r1
              end
            else if oct_digit c then
              match r1 with
              | d2 :: r2 =>
                  if oct_digit d2 then
                    match r2 with
                    | d3 :: r3 =>
                        if oct_digit d3         (* three digits: high-order overflow ignored *)
                        then consb (((c - 48) * 64 + (d2 - 48) * 8 + (d3 - 48)) mod 256) (lit_string depth r3)
                        else consb ((c - 48) * 8 + (d2 - 48)) (lit_string depth r2)
                    | [] => consb ((c - 48) * 8 + (d2 - 48)) (lit_string depth r2)
                    end
                  else consb (c - 48) (lit_string depth r1)
              | [] => consb (c - 48) (lit_string depth r1)
              end
            else consb c (lit_string depth r1)  (* "(", ")", "\" and any other character: the solidus is ignored *)
        end
      else consb b (lit_string depth r)
  end.

(* ---- 7.3.4.3 hexadecimal strings ---- *)
Fixpoint hex_pairs (ds : list N) : list N :=
  match ds with
  | [] => []
  | [a] => [16 * a]                               (* odd number of digits: final digit assumed 0 *)
  | a :: b :: r => 16 * a + b :: hex_pairs r
  end.

Fixpoint hex_digits (s : list N) : option (list N) :=     (* white space ignored; anything else must be a hex digit *)
  match s with
  | [] => Some []
  | b :: r =>
      if iso_white b then hex_digits r
      else match hex_value b, hex_digits r with
           | Some v, Some ds => Some (v :: ds)
           | _, _ => None
           end
  end.

Definition hex_string (inp : list N) : option (list N * list N) :=   (* text after '<' *)
  let '(body, rest) := span_while (fun b => negb (b =? 62)) inp in
  match rest with
  | 62 :: rest' => match hex_digits body with Some ds => Some (hex_pairs ds, rest') | None => None end
  | _ => None
  end.

(* ---- one token ---- *)
Inductive lexres :=
| LexEnd                                   (* only white space and comments remain *)
| LexTok (t : ptoken) (rest : list N)
| LexInvalid.

Definition spec_token_at (s : list N) : lexres :=    (* s starts at a non-white, non-comment character *)
  match s with
  | [] => LexEnd
  | b :: r =>
      if b =? 40 then
        match lit_string 0 r with Some (v, rest) => LexTok (PStr v) rest | None => LexInvalid end
      else if b =? 60 then
        match r with
        | c :: r1 =>
            if c =? 60 then LexTok PDictOpen r1
            else match hex_string r with Some (v, rest) => LexTok (PStr v) rest | None => LexInvalid end
        | [] => LexInvalid
        end
      else if b =? 62 then
        match r with
        | c :: r1 => if c =? 62 then LexTok PDictClose r1 else LexInvalid
        | [] => LexInvalid
        end
      else if b =? 91 then LexTok PArrOpen r
      else if b =? 93 then LexTok PArrClose r
      else if b =? 123 then LexTok PBraceOpen r
      else if b =? 125 then LexTok PBraceClose r
      else if b =? 47 then
        let '(run, rest) := span_while iso_regular r in
        match name_decode run with Some n => LexTok (PName n) rest | None => LexInvalid end
      else if iso_regular b then
        let '(run, rest) := span_while iso_regular s in LexTok (token_of_run run) rest
      else LexInvalid                      (* stray ')' *)
  end.

Definition spec_next (inp : list N) : lexres := spec_token_at (skip_ignorable false inp).

(* ---- the whole input ---- *)
Fixpoint lex_spec_fuel (fuel : nat) (inp : list N) (acc : list ptoken) : option (list ptoken) :=
  match fuel with
  | O => None
  | S f =>
      match spec_next inp with
      | LexEnd => Some (rev' acc)
      | LexInvalid => None
      | LexTok t rest => lex_spec_fuel f rest (t :: acc)
      end
  end.

Definition lex_spec (inp : list N) : option (list ptoken) := lex_spec_fuel (S (length inp)) inp [].

(* The regular-character run at which the next token starts (after the '/' for a name). Used to state
   where qpdf's extra white-space character VT (0x0B) can make a difference. *)
Definition head_run (inp : list N) : list N :=
  let s := skip_ignorable false inp in
  fst (span_while iso_regular (match s with b :: r => if b =? 47 then r else s | [] => s end)).
