(* C13 extension - soundness of the executable test PgnOracle.pgn_wf_chk for the hypothesis pgn_wf of
   first_flatten_nested_lemma (Struct/C13ProofsN.v). *)
From QV Require Import Base.Bytes Struct.PgModel Struct.PgSpec Struct.C13ProofsA Struct.PgxModel Struct.PgxOracle Struct.C13ProofsC Struct.C13ProofsE Struct.C13ProofsN Struct.PgnOracle.
Local Open Scope N_scope.

Lemma pgk2_leafy_d_sound : forall dk, pgn_leafy_d_chk dk = true -> pgx_leafy dk.
Proof.
  intros dk H. unfold pgn_leafy_d_chk in H. apply andb_true_iff in H. destruct H as [Hk Ht]. split.
  - destruct (pg_dget dk pgk_Kids); try discriminate. reflexivity.
  - destruct (pg_dget dk pgk_Type) as [| z | n | i | l | d]; try exact I; [|discriminate].
    apply andb_true_iff in Ht. destruct Ht as [H1 H2]. apply negb_true_iff in H1, H2. split.
    + intros ->. rewrite pg_key_eqb_refl in H1. discriminate.
    + intros ->. rewrite pg_key_eqb_refl in H2. discriminate.
Qed.

Lemma pgk2_leafy_sound : forall s k, pgx_leafy_chk s k = true ->
  exists dk, pg_lookup s k = Some (PcObj (PvDict dk)) /\ pgx_leafy dk.
Proof.
  intros s k H. unfold pgx_leafy_chk in H. destruct (pg_lookup s k) as [[v|]|]; try discriminate. destruct v; try discriminate.
  eexists. split; [reflexivity|]. apply pgk2_leafy_d_sound. exact H.
Qed.

Lemma pgk2_nodup_sound : forall l, pgx_nodup_chk l = true -> NoDup l.
Proof.
  induction l as [|x t IH]; intros H; [constructor|]. cbn [pgx_nodup_chk] in H. apply andb_true_iff in H. destruct H as [H1 H2].
  apply negb_true_iff in H1. constructor; [apply pgn_memN_false, H1|apply IH, H2].
Qed.

Lemma pgk2_walk_sound : forall s f n ns ls, pgn_walk_chk f s n = Some (ns, ls) -> pgn_tree f s n ns ls.
Proof.
  intros s. induction f as [|f IH]; intros n ns ls H; [discriminate|]. cbn [pgn_walk_chk] in H.
  destruct (pg_lookup s n) as [[v|]|] eqn:En; try discriminate. destruct v as [| | | | |dd]; try discriminate.
  destruct (pg_dget dd pgk_Kids) as [| | | |kids|] eqn:Hk; try discriminate.
  match type of H with match fold_right ?F ?z kids with _ => _ end = _ =>
    assert (Hgen : forall kids ns ls, fold_right F z kids = Some (ns, ls) -> pgn_kids (pgn_tree f s) s kids ns ls) end.
  { clear kids Hk H. induction kids as [|h t IHt]; intros ns0 ls0 H.
    - cbn [fold_right] in H. inversion H; subst. constructor.
    - cbn [fold_right] in H.
      match type of H with match ?X with _ => _ end = _ => destruct X as [[ns1 ls1]|] eqn:Et; [|discriminate] end.
      specialize (IHt ns1 ls1 eq_refl).
      destruct h as [| | |k| |dk]; try discriminate.
      + destruct (pgx_leafy_chk s k) eqn:El.
        * inversion H; subst. constructor; [cbn [pgn_leafh]; apply pgk2_leafy_sound, El|exact IHt].
        * destruct (pgn_walk_chk f s k) as [[ns2 ls2]|] eqn:Ew; [|discriminate]. inversion H; subst.
          constructor; [apply IH, Ew|exact IHt].
      + destruct (pgn_leafy_d_chk dk) eqn:El; [|discriminate]. inversion H; subst.
        constructor; [cbn [pgn_leafh]; apply pgk2_leafy_d_sound, El|exact IHt]. }
  match type of H with match ?X with _ => _ end = _ => destruct X as [[ns1 ls1]|] eqn:Ef; [|discriminate] end.
  inversion H; subst. exists dd, kids, ns1. split; [exact En|split; [exact Hk|split; [reflexivity|apply Hgen, Ef]]].
Qed.

Lemma nested_check_sound_lemma : forall p, pgn_wf_chk p = true ->
  exists depth nodes leaves, pgn_wf p depth nodes leaves /\ (depth <= 42)%nat.
Proof.
  intros p H. unfold pgn_wf_chk in H.
  destruct (pg_root_pages p) as [| | |pn| |] eqn:Hroot; try discriminate.
  destruct (pgn_walk_chk 42 (pd_store p) pn) as [[nodes leaves]|] eqn:Ew; [|discriminate].
  repeat (apply andb_true_iff in H; let H2 := fresh "C" in destruct H as [H H2]).
  apply negb_true_iff in C, C3, C4.
  destruct (pg_lookup (pd_store p) pn) as [[v|]|] eqn:Epn; try discriminate. destruct v as [| | | | |d]; try discriminate.
  apply andb_true_iff in C2. destruct C2 as [Hpar Hcount].
  exists 42%nat, nodes, leaves. split; [|lia]. exists pn, d.
  split; [exact Hroot|split; [exact (pgk2_walk_sound _ _ _ _ _ Ew)|split; [lia|split; [apply pgk2_nodup_sound, H|]]]].
  split; [apply pgn_memN_false, C4|split].
  - intros Hin. assert (existsb (pgn_is_ref_to_chk (pd_root p)) leaves = true); [|congruence].
    apply existsb_exists. exists (PvRef (pd_root p)). split; [exact Hin|apply N.eqb_refl].
  - split; [exact Epn|split; [destruct (pg_dget d pgk_Parent); try discriminate; reflexivity|split]].
    + destruct (pg_dget d pgk_Count); try discriminate. apply Z.eqb_eq in Hcount. subst. reflexivity.
    + split; [destruct (pd_all p); [reflexivity|discriminate]|split; [destruct (pd_pos p); [reflexivity|discriminate]|exact C]].
Qed.
