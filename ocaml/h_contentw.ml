(* handlers: Struct/ContentWriter (which streams QPDFWriter normalises).  I/O only.
   ciwrite <cfg> <pages> <objects> <streams>
     cfg      6 characters: normalize compress recompress level(n|g|s|a) encrypted encrypt_metadata
     pages, objects   as for the c16pg* commands (h_content.ml)
     streams  k=FFFFF:raw:gen:spec:all joined by ',' ; FFFFF = filter_on_write modified flate root_metadata length0 ;
              data fields: hex, '-' = empty, 'X' = not decodable at that level
   answer   k=<data hex|->.<normalised 0|1>.<number of normaliser warnings> joined by ','
   cinorm <qdf 0|1> <asked -|0|1>   ->  effective cfg.normalize_content() *)
open Qvmodel
open Runner
open H_content

let ci_data (s : string) : n list = if s = "-" then [] else unhexbytes s
let ci_opt (s : string) : n list option = if s = "X" then None else Some (ci_data s)

let ci_level_of = function 'n' -> CiNone | 'g' -> CiGeneralized | 's' -> CiSpecialized | _ -> CiAll

let () =
  register "ciwrite" (fun args -> match args with
    | cfg :: pages :: objs :: streams :: _ ->
      let b i = cfg.[i] = '1' in
      let c = { ci_normalize = b 0; ci_compress = b 1; ci_recompress_flate = b 2; ci_decode_level = ci_level_of cfg.[3];
                ci_encrypted = b 4; ci_encrypt_metadata = b 5 } in
      let st = c16_parse_store objs in
      let pg = c16_parse_pages pages in
      let ss = List.map (fun item ->
        let eq = String.index item '=' in
        let k = int_of_string (String.sub item 0 eq) in
        match String.split_on_char ':' (String.sub item (eq + 1) (String.length item - eq - 1)) with
        | [f; raw; g; s; a] ->
          let fb i = f.[i] = '1' in
          (n_of_int k, { ci_filter_on_write = fb 0; ci_data_modified = fb 1; ci_flate_filter = fb 2; ci_root_metadata = fb 3;
                         ci_length0 = fb 4; ci_raw = ci_data raw; ci_dec_generalized = ci_opt g; ci_dec_specialized = ci_opt s;
                         ci_dec_all = ci_opt a })
        | _ -> failwith "bad stream syntax") (String.split_on_char ',' streams) in
      String.concat "," (List.map (fun (k, ((data, normalised), warns)) ->
        string_of_int (int_of_n k) ^ "=" ^ c16_hex_or_dash data ^ "." ^ c16_b normalised ^ "." ^ string_of_int (List.length warns))
        (ci_write_all c st pg ss))
    | _ -> "?args");
  register "cinorm" (fun args -> match args with
    | q :: a :: _ -> c16_b (ci_effective_normalize (q = "1") (if a = "-" then None else Some (a = "1")))
    | _ -> "?args");
  register "cispecial" (fun args -> match args with
    | pages :: objs :: _ -> c16_show_ids (ci_special_streams (c16_parse_store objs) (c16_parse_pages pages))
    | _ -> "?args")
