(* C16: theorems about the content normalisation model (Struct/ContentNorm.v) and the independent
   content reading (Struct/ContentSem.v). *)
From QV Require Import Base.Bytes Lex.TokModel Lex.LexSpec Lex.TokInterp Lex.LexRun Lex.LexProofs Obj.Unparse Obj.UnparseProofs Struct.ContentNorm Struct.ContentSem.
Local Open Scope N_scope.

(* coalescing a single stream provides exactly that stream *)
Lemma coalesce_single_lemma : forall s, c16_coalesce [s] = s.
Proof. intros s. unfold c16_coalesce. cbn [c16_coalesce_loop app]. apply app_nil_r. Qed.
