(* C13 extension - histories over the full alphabet, the unrestricted theorems, and the witness for the wrong root
   /Count (known finding C13-F6). *)
From QV Require Import Base.Bytes Struct.PgModel Struct.PgSpec Struct.C13ProofsA Struct.PgxModel Struct.PgxOracle Struct.C13ProofsC Struct.C13ProofsE Struct.C13ProofsF.
Local Open Scope N_scope.

(* ------------------------------------------------------------------ wrong root /Count *)
Definition pgx_wc_store (c : Z) : pg_store :=
  [(4, PcObj (PvDict [(pgk_Mk, PvInt 11); (pgk_Parent, PvRef 2); (pgk_Type, PvName pgk_Page)]));
   (3, PcObj (PvDict [(pgk_Mk, PvInt 10); (pgk_Parent, PvRef 2); (pgk_Type, PvName pgk_Page)]));
   (2, PcObj (PvDict [(pgk_Count, PvInt c); (pgk_Kids, PvArr [PvRef 3; PvRef 4]); (pgk_Type, PvName pgk_Pages)]));
   (1, PcObj (PvDict [(pgk_Pages, PvRef 2)]))].
Definition pgx_wc_world (c : Z) : pg_world := (pg_init_doc (pgx_wc_store c) 1, pg_init_doc (pgx_wc_store 2) 1).
Definition pgx_new_page : pg_val := PvDict [(pgk_Mk, PvInt 99); (pgk_Type, PvName pgk_Page)].

(* FULL STATEMENT that fails (pages_refine_list for documents whose root /Count is wrong): "a valid page call on a
   document whose tree is well formed except for the value of the root /Count does what the list model says".
   Pages::flattenPagesTree corrects /Count only when an invalid kid was found as well; otherwise it throws
   runtime_error after having rewritten the tree.  Witnesses, two pages [10; 11]:
   /Count 3 - the first addPage(new, first=true) raises (and changed nothing of the list), the same call repeated
   succeeds; /Count 1 - after the (failing) first call, addPage(new, first=false) inserts BEFORE the last page;
   and getAllPages never repairs /Count: write + re-read shows the wrong value. *)
Lemma wrong_root_count_refuted_lemma :
  (let w := pgx_wc_world 3 in let o := PoAddPage false (PhDirect pgx_new_page) true in
   snd (pg_step w o) = PrErr PeRt /\ snd (pg_step (fst (pg_step w o)) o) = PrOk) /\
  (let w := pgx_wc_world 1 in
   let w1 := fst (pg_step w (PoFind false 3)) in
   let w2 := fst (pg_step w1 (PoAddPage false (PhDirect pgx_new_page) false)) in
   snd (pg_step w (PoFind false 3)) = PrErr PeRt /\ pgx_marks2 w2 = ([10; 99; 11]%Z, [10; 11]%Z)) /\
  (let w := pgx_wc_world 3 in
   pgx_reread (fst (fst (pg_step w (PoGetPages false)))) = Some (3%Z, [Some 10%Z; Some 11%Z])).
Proof. vm_compute. repeat split; reflexivity. Qed.

(* ------------------------------------------------------------------ copyForeignObject inside the histories *)
From QV Require Import Struct.C13ProofsB Struct.PgxSpec Struct.C13ProofsD Struct.C13ProofsG.

(* the calls covered by the unrestricted theorems: those of pgx_adm (C13ProofsF.v) and every copyForeignObject of an
   object of the other document that returns normally *)
Definition pgx_adm2 (w : pg_world) (o : pg_op) : Prop :=
  match o with
  | PoCopyForeign d h =>
      match pg_norm w h with
      | PhObj b i => b = d \/ snd (fst (pg_copied (pg_get w b) (pg_get w d) i)) = None
      | PhDirect _ => True
      end
  | _ => pgx_adm w o
  end.

Lemma pgx_copy_src_st : forall src dst fid K, pgx_st src K ->
  pgx_st (fst (fst (fst (pg_copied src dst fid)))) K /\ pgx_marks (fst (fst (fst (pg_copied src dst fid)))) = pgx_marks src.
Proof.
  intros src dst fid K Hst.
  apply (pgz_copied_src (fun p => pgx_st p K /\ pgx_marks p = pgx_marks src)); [|split; [exact Hst|reflexivity]].
  intros p [Hp Hm]. destruct (pgx_all_st p K Hp) as (p1 & E & Hst1 & _ & Hsim & _). rewrite E. cbn [fst].
  split; [exact Hst1|]. rewrite <- Hm. eapply pgx_marks_st_sim; eassumption.
Qed.

Lemma pgx_copy_dst_st : forall src dst fid K, pgx_st dst K ->
  pgx_st (snd (fst (fst (pg_copied src dst fid)))) K /\ pgx_marks (snd (fst (fst (pg_copied src dst fid)))) = pgx_marks dst.
Proof.
  intros src dst fid K [Hf Hc]. pose proof (pgz_copied_dst_flat src dst fid K Hf) as Hf'.
  destruct (pgz_copied_dst_fields src dst fid) as (Hr & Ha & Hp & _ & _).
  split.
  - split; [exact Hf'|]. unfold pgx_posinv in *. rewrite Ha, Hp. exact Hc.
  - unfold pgx_marks. rewrite (pgx_K_flat _ _ Hf), (pgx_K_flat _ _ Hf'). apply map_ext_in. intros k Hk.
    destruct Hf as (pn & d & _ & _ & _ & _ & _ & _ & _ & _ & _ & Hleaf & _). destruct (Hleaf k Hk) as (dk & Ek & _).
    apply pgz_copied_dst_mark; [rewrite Ek; discriminate|unfold pg_is_null; rewrite Ek; reflexivity].
Qed.

Lemma pgx_W_get2 : forall w b d, b <> d -> pgx_W w -> exists Kb Kd, pgx_st (pg_get w b) Kb /\ pgx_st (pg_get w d) Kd.
Proof. intros w b d Hne HW. destruct (pgx_W_get w b HW) as [Kb Hb]. destruct (pgx_W_get w d HW) as [Kd Hd]. eauto. Qed.

Lemma pgx_marks2_put2 : forall w b d pb pd', b <> d -> pgx_marks pb = pgx_marks (pg_get w b) -> pgx_marks pd' = pgx_marks (pg_get w d) ->
  pgx_marks2 (pg_put (pg_put w b pb) d pd') = pgx_marks2 w.
Proof. intros [x y] [] [] pb pd' Hne H1 H2; try congruence; unfold pgx_marks2; cbn in *; rewrite H1, H2; reflexivity. Qed.

Lemma pgx_W_put2 : forall w b d pb pd' Kb Kd, b <> d -> pgx_st pb Kb -> pgx_st pd' Kd -> pgx_W (pg_put (pg_put w b pb) d pd').
Proof. intros [x y] [] [] pb pd' Kb Kd Hne H1 H2; try congruence; split; cbn; eauto. Qed.

Lemma pgx_step_refines2 : forall w o, pgx_W w -> pgx_adm2 w o ->
  let '(w', r) := pg_step w o in
  let '(s', raise_) := pg_spec_step (pgx_marks2 w) (pgx_abs w o) in
  pgx_marks2 w' = s' /\ pg_is_err r = raise_ /\ pgx_W w'.
Proof.
  intros w o HW Ha.
  destruct o as [d h first|d h first|d h before r|d h|d i|d h|d i v|d i j|d|d|d|d i|d v|d i h|d i];
    try (apply pgx_step_refines; assumption).
  cbn [pgx_adm2] in Ha. destruct (pg_norm w h) as [v|b i] eqn:En.
  - apply pgx_step_refines; [exact HW|]. cbn [pgx_adm]. rewrite En. exact I.
  - destruct (Bool.bool_dec b d) as [->|Hne].
    + apply pgx_step_refines; [exact HW|]. cbn [pgx_adm]. rewrite En. reflexivity.
    + destruct Ha as [Ha|Ha]; [contradiction|].
      cbn [pg_step pgx_abs]. rewrite En. assert (Bool.eqb b d = false) as -> by (apply Bool.eqb_false_iff; exact Hne).
      destruct (pgx_W_get2 w b d Hne HW) as (Kb & Kd & Hb & Hd).
      destruct (pgx_copy_src_st (pg_get w b) (pg_get w d) i Kb Hb) as [Hb' Hmb].
      destruct (pgx_copy_dst_st (pg_get w b) (pg_get w d) i Kd Hd) as [Hd' Hmd].
      destruct (pg_copied (pg_get w b) (pg_get w d) i) as [[[src' dst'] e] r]. cbn [fst snd] in *. subst e.
      cbn [pg_spec_step]. split; [apply pgx_marks2_put2; assumption|]. split; [destruct r; reflexivity|eapply pgx_W_put2; eassumption].
Qed.

(* ------------------------------------------------------------------ histories *)
(* what an observer sees after every call: the two page lists as the TREES show them (content markers of the kids of the
   root /Pages node), and whether the call raised *)
Fixpoint pgx_trace (w : pg_world) (ops : list pg_op) : list (pg_lists * bool) :=
  match ops with
  | [] => []
  | o :: t => (pgx_marks2 (fst (pg_step w o)), pg_is_err (snd (pg_step w o))) :: pgx_trace (fst (pg_step w o)) t
  end.
Fixpoint pgx_hist (w : pg_world) (ops : list pg_op) : Prop :=
  match ops with [] => True | o :: t => pgx_adm2 w o /\ pgx_hist (fst (pg_step w o)) t end.
Fixpoint pgx_abs_hist (w : pg_world) (ops : list pg_op) : list pg_sop :=
  match ops with [] => [] | o :: t => pgx_abs w o :: pgx_abs_hist (fst (pg_step w o)) t end.

(* FULL STATEMENT (DESIGN C13 pages_refine_list): for every history of public page / object API calls on two documents,
   the page lists after every call and the set of calls that raise are those of the plain list model.
   PROVED HERE for histories of ANY length over the whole operation alphabet of harness/c13.py (addPage, the helper's
   addPage, addPageAt, removePage, shallowCopyPage, copyForeignObject, replaceObject with direct / indirect / reserved
   operands, swapObjects, updateAllPagesCache, pushInheritedAttributesToPage, getAllPages, findPage, makeIndirectObject)
   in ANY order, starting from two documents whose page tree is flat and clean (pgx_W: the families flat*, sloppy, empty,
   rg* of the harness as read from the file - the page cache never filled - and every state reached from them), page lists
   may become empty, pages may be re-inserted (a copy is made), replaced, swapped.
   NOT COVERED (pgx_adm2 / pgx_adm say exactly what is): (1) a page or object of the OTHER document as operand of an
   insertion call (the copy is characterised by copy_iso / pgz_copied_result; missing is the store-wide invariant that
   dictionaries have distinct keys, which pg_rename needs to keep /Mk and leafness, and the memo invariant for a second
   insertion of the same page); copyForeignObject itself is covered; (2) the first flattening of a NESTED tree
   (C13ProofsN.v: first_flatten_nested, when present) and documents whose root /Count is wrong
   (wrong_root_count_refuted); (3) direct damage to the tree (replaceObject / swapObjects on the catalog or the /Pages node,
   a page turned into a non-leaf), the null operand and replaceObject(og, stream og) (refuted lemmas of C13ProofsA.v).
   These are covered by the model-vs-implementation correspondence of harness/c13.py only. *)
Lemma pages_refine_list_lemma : forall ops w, pgx_W w -> pgx_hist w ops ->
  pg_spec_run (pgx_marks2 w) (pgx_abs_hist w ops) = pgx_trace w ops /\ pgx_W (pg_run w ops).
Proof.
  induction ops as [|o t IH]; intros w Hg Hh; [split; [reflexivity|exact Hg]|].
  destruct Hh as [Ha Hh]. pose proof (pgx_step_refines2 w o Hg Ha) as H.
  cbn [pgx_abs_hist pg_spec_run pgx_trace pg_run].
  destruct (pg_step w o) as [w' r] eqn:Es. destruct (pg_spec_step (pgx_marks2 w) (pgx_abs w o)) as [s' raise_] eqn:Ep.
  destruct H as (Hm & Hr & Hg'). cbn [fst snd] in *. subst s' raise_.
  destruct (IH w' Hg' Hh) as [IH1 IH2]. split; [|exact IH2]. f_equal. exact IH1.
Qed.

(* the invariant after every covered history: in both documents the tree is flat and clean (root /Kids = the page objects,
   /Count = their number, no duplicates, every kid a leaf dictionary) and the cache is empty, or equal to /Kids with an
   empty position map, or equal to /Kids with the position map the inverse of the list *)
Lemma pages_inv_lemma : forall ops w, pgx_W w -> pgx_hist w ops ->
  (exists K, pgx_st (fst (pg_run w ops)) K) /\ (exists K, pgx_st (snd (pg_run w ops)) K).
Proof. intros ops w Hg Hh. exact (proj2 (pages_refine_list_lemma ops w Hg Hh)). Qed.

(* a covered call that raises leaves both page lists as they were - from any cache state *)
Lemma bad_call_unchanged_lemma : forall w o, pgx_W w -> pgx_adm2 w o ->
  pg_is_err (snd (pg_step w o)) = true -> pgx_marks2 (fst (pg_step w o)) = pgx_marks2 w.
Proof.
  intros w o Hg Ha He. pose proof (pgx_step_refines2 w o Hg Ha) as H.
  destruct (pg_step w o) as [w' r]. destruct (pg_spec_step (pgx_marks2 w) (pgx_abs w o)) as [s' raise_] eqn:Ep.
  destruct H as (Hm & Hr & _). cbn [fst snd] in *. rewrite He in Hr. subst raise_. rewrite Hm.
  eapply pg_spec_step_raise, Ep.
Qed.

(* "write and re-read yields that same list", model level, after every covered history *)
Lemma write_reread_after_history_lemma : forall ops w, pgx_W w -> pgx_hist w ops ->
  let w' := pg_run w ops in
  option_map (fun r => map (fun m => match m with Some z => z | None => (-1)%Z end) (snd r)) (pgx_reread (fst w')) = Some (pgx_marks (fst w')) /\
  option_map (fun r => map (fun m => match m with Some z => z | None => (-1)%Z end) (snd r)) (pgx_reread (snd w')) = Some (pgx_marks (snd w')).
Proof.
  intros ops w Hg Hh. destruct (pages_inv_lemma ops w Hg Hh) as [[Ka Ha] [Kb Hb]]. cbv zeta.
  split.
  - rewrite (write_reread_same_list_lemma _ Ka (pgx_st_flat _ _ Ha)). cbn [option_map snd]. f_equal.
    unfold pgx_marks. rewrite (pgx_K_flat _ _ (pgx_st_flat _ _ Ha)), map_map. reflexivity.
  - rewrite (write_reread_same_list_lemma _ Kb (pgx_st_flat _ _ Hb)). cbn [option_map snd]. f_equal.
    unfold pgx_marks. rewrite (pgx_K_flat _ _ (pgx_st_flat _ _ Hb)), map_map. reflexivity.
Qed.

(* a document as the reader hands it over (page cache never filled) with a flat clean tree is a valid start *)
Lemma pages_initial_lemma : forall sa ra Ka sb rb Kb,
  pgx_flat (pg_init_doc sa ra) Ka -> pgx_flat (pg_init_doc sb rb) Kb -> pgx_W (pg_init_doc sa ra, pg_init_doc sb rb).
Proof.
  intros sa ra Ka sb rb Kb Ha Hb. split; [exists Ka|exists Kb]; (split; [assumption|left; split; [reflexivity|left; reflexivity]]).
Qed.

(* ------------------------------------------------------------------ the pieces, under the names the design uses *)
(* Pages::flattenPagesTree from any cache state of a flat clean tree: no error, the same pages in the same order, the
   position map becomes the inverse of the list, only repairs happen to the objects (pgx_sim) *)
Lemma flatten_establishes_invariant_lemma : forall p K, pgx_st p K ->
  exists p', pg_flatten p = (p', None) /\ pgx_flat p' K /\ pd_all p' = K /\ pgx_posinv p' K /\
    pgx_sim (pd_store p) (pd_store p') /\ pd_root p' = pd_root p /\ pd_omap p' = pd_omap p /\ pd_reg p' = pd_reg p /\ pg_inv p'.
Proof. exact pgx_flatten_st. Qed.

(* a copy never disturbs the page tree of the destination ... *)
Lemma copy_keeps_page_tree_lemma : forall src dst fid K, pgx_flat dst K -> pgx_flat (snd (fst (fst (pg_copied src dst fid)))) K.
Proof. exact pgz_copied_dst_flat. Qed.

(* ... and the source only through Pages::all() (any invariant of getAllPages is an invariant of copying FROM a document) *)
Lemma copy_source_invariant_lemma : forall (P : pg_doc -> Prop), (forall p, P p -> P (fst (pg_all p))) ->
  forall src dst fid, P src -> P (fst (fst (fst (pg_copied src dst fid)))).
Proof. exact pgz_copied_src. Qed.

(* what copyForeignObject returns: the renamed source value in a fresh (or placeholder) object, a stream, or the memoised
   earlier copy untouched *)
Lemma copy_result_lemma : forall src dst fid l,
  pd_all src <> [] -> pg_omap_wf dst ->
  let '(src', dst', e, r) := pg_copied src dst fid in
  e = None -> r = PvRef l ->
  (exists v, pg_lookup (pd_store src) fid = Some (PcObj v) /\ pg_lookup (pd_store dst') l = Some (PcObj (pg_rename (pd_store src) (pd_omap dst') v)) /\
             (pg_lookup (pd_store dst) l = None \/ pg_is_null (pd_store dst) (PvRef l) = true)) \/
  (exists d x k, pg_lookup (pd_store src) fid = Some (PcStream d x k)) \/
  (pg_omap_find (pd_omap dst) fid = Some l /\ pg_lookup (pd_store dst') l = pg_lookup (pd_store dst) l /\ pg_lookup (pd_store dst) l <> None).
Proof. exact pgz_copied_result. Qed.

(* the multi-copy invariant in the key-wise form of Struct/PgxSpec.v, for sources whose stream dictionaries have distinct
   keys (qpdf dictionaries are std::map) *)
Lemma copy_iso_keywise_lemma : forall src dst,
  (forall a d x k, pg_lookup (pd_store src) a = Some (PcStream d x k) -> NoDup (map fst d)) ->
  pgx_copy_inv_w src dst -> pgx_copy_inv src dst.
Proof. exact pgx_copy_inv_of_w. Qed.

(* non-vacuity: the two-page document of the witnesses above, with the right /Count, is a valid start *)
Lemma pgx_ex_flat : pgx_flat (pg_init_doc (pgx_wc_store 2) 1) [3; 4].
Proof.
  exists 2, [(pgk_Count, PvInt 2); (pgk_Kids, PvArr [PvRef 3; PvRef 4]); (pgk_Type, PvName pgk_Pages)].
  repeat split; try reflexivity; try discriminate.
  - simpl. intros [H|[H|[]]]; discriminate.
  - simpl. intros [H|[H|[]]]; discriminate.
  - repeat constructor; simpl; intuition discriminate.
  - intros k [<-|[<-|[]]]; eexists; (split; [reflexivity|]); (split; [reflexivity|cbn; split; discriminate]).
Qed.
Lemma pages_example_start_lemma : pgx_W (pgx_wc_world 2).
Proof. apply (pages_initial_lemma _ _ [3; 4] _ _ [3; 4]); exact pgx_ex_flat. Qed.

(* ------------------------------------------------------------------ the specification's view of a flat tree *)
Definition pgx_mk_obj (s : pg_store) (k : N) : option Z :=
  match pg_lookup s k with Some (PcObj (PvDict dk)) => pgx_mk_of s dk | _ => None end.

(* the independent specification function pgx_doc_leaves (ISO 32000-1 7.7.3: the leaves of the tree in order), which the
   harness compares with the driver's raw walk of the real tree after every step, shows exactly the objects the theorems
   above call the page list *)
Lemma leaves_of_flat_tree_lemma : forall p K, pgx_flat p K -> pgx_doc_leaves p = Some (map (pgx_mk_obj (pd_store p)) K).
Proof.
  intros p K (pn & d & Hroot & Hpn & Hkids & _ & _ & _ & _ & _ & _ & Hleaf & _).
  unfold pgx_doc_leaves. rewrite Hroot. change 42%nat with (S 41). cbn [pgx_leaves pg_rv]. rewrite Hpn, Hkids. cbn [pg_rv].
  clear Hkids. induction K as [|k t IH]; [reflexivity|].
  cbn [map fold_right]. rewrite IH by (intros x Hx; apply Hleaf; right; exact Hx).
  destruct (Hleaf k (or_introl eq_refl)) as (dk & Ek & [Lk _]). cbn [pg_rv]. rewrite Ek, Lk. cbn [pg_is_null].
  unfold pgx_mk_obj. rewrite Ek. reflexivity.
Qed.

(* ------------------------------------------------------------------ the hypothesis of the theorems is decidable *)
Lemma pgx_memN_In : forall x l, pg_memN x l = false -> ~ In x l.
Proof.
  intros x l H Hin. unfold pg_memN in H. assert (existsb (N.eqb x) l = true); [|congruence].
  apply existsb_exists. exists x. split; [exact Hin|apply N.eqb_refl].
Qed.

Lemma pgx_nodup_chk_sound : forall l, pgx_nodup_chk l = true -> NoDup l.
Proof.
  induction l as [|x t IH]; intros H; [constructor|]. cbn in H. apply andb_prop in H. destruct H as [H1 H2].
  constructor; [apply pgx_memN_In; destruct (pg_memN x t); [discriminate|reflexivity]|apply IH, H2].
Qed.

Lemma pgx_all_refs : forall l, forallb pg_is_ref l = true -> l = map PvRef (map (fun v => match v with PvRef k => k | _ => 0 end) l).
Proof.
  induction l as [|v t IH]; intros H; [reflexivity|]. cbn in H. apply andb_prop in H. destruct H as [H1 H2].
  destruct v; try discriminate. cbn. f_equal. apply IH, H2.
Qed.

Lemma pgx_leafy_chk_sound : forall s k, pgx_leafy_chk s k = true -> exists dk, pg_lookup s k = Some (PcObj (PvDict dk)) /\ pgx_leafy dk.
Proof.
  intros s k H. unfold pgx_leafy_chk in H. destruct (pg_lookup s k) as [[v|]|]; try discriminate. destruct v; try discriminate.
  exists l. split; [reflexivity|]. apply andb_prop in H. destruct H as [H1 H2]. split.
  - destruct (pg_dget l pgk_Kids); try discriminate. reflexivity.
  - destruct (pg_dget l pgk_Type); try exact I; [|discriminate].
    apply andb_prop in H2. destruct H2 as [A B]. split; intros ->; rewrite pg_key_eqb_refl in *; discriminate.
Qed.

(* the executable test the harness runs on its documents and states (PgxOracle.pgx_flat_chk) implies the hypothesis of the
   unrestricted theorems *)
Lemma flat_check_sound_lemma : forall p, pgx_flat_chk p = true -> pgx_flat p (pgx_K p).
Proof.
  intros p H. unfold pgx_flat_chk in H. unfold pgx_K, pg_kids_of.
  destruct (pg_root_pages p) as [| | |pn| |] eqn:Hroot; try discriminate.
  destruct (pg_lookup (pd_store p) pn) as [[v|]|] eqn:Hpn; try discriminate. destruct v as [| | | | |d]; try discriminate.
  rewrite (pgx_hget_ref _ pn d pgk_Kids Hpn).
  destruct (pg_dget d pgk_Kids) as [| | | |l|] eqn:Hkids; try discriminate.
  set (K := map (fun v => match v with PvRef k => k | _ => 0 end) l) in *.
  repeat (apply andb_prop in H; destruct H as [H ?]).
  exists pn, d. split; [exact Hroot|]. split; [exact Hpn|].
  split; [rewrite Hkids; f_equal; apply pgx_all_refs; assumption|].
  split; [destruct (pg_dget d pgk_Count); try discriminate; f_equal; apply Z.eqb_eq; assumption|].
  split; [destruct (pg_dget d pgk_Parent); try discriminate; reflexivity|].
  split; [apply N.eqb_neq; destruct (pn =? pd_root p); [discriminate|reflexivity]|].
  split; [apply pgx_memN_In; destruct (pg_memN pn K); [discriminate|reflexivity]|].
  split; [apply pgx_memN_In; destruct (pg_memN (pd_root p) K); [discriminate|reflexivity]|].
  split; [apply pgx_nodup_chk_sound; assumption|].
  split; [|destruct (pd_invalid p); [discriminate|reflexivity]].
  intros k Hk. apply pgx_leafy_chk_sound. match goal with Hf : forallb (pgx_leafy_chk _) K = true |- _ => rewrite forallb_forall in Hf; apply Hf, Hk end.
Qed.
