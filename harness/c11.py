# C11 - --replace-input never loses the original document.
# Proof: Props/Properties_C11.v (over the sink model of C10: for the repaired sinks, at every instant - whatever
# operation fails, wherever the process is killed - a complete copy exists and the input name is never bound to a
# partial file; final directory by exit status; the pinned sinks refuted with a witness).
# Tie: the real binary under harness/shim_fault.c: every operation of the run (fopen, each fwrite, fflush, fclose, each
# rename, unlink) is made to fail, and the process is SIGKILLed immediately before / after it; the directory found
# afterwards ({<in>, <in>.~qpdf-orig[#], <in>.~qpdf-temp#} x {original, new, absent, other}), the exit status and the
# calls made are compared with the extracted model, and the extracted specification (c11_safe, c11_final_ok) is
# evaluated on the directory the binary left.
# Part stale-directory: the same runs started in directories that already hold files / directories under the backup and
# temporary names (Sys/ReplaceDirModel.v c11d_run, theorems replace_any_dir_*); part job-shapes: --replace-input as part
# of jobs (--pages, --overlay, --rotate, --encrypt, ...) on clean inputs, inputs that warn when opened and inputs that warn
# while being written, with clean and damaged secondary files; both judged by the extracted c11d_safe / c11d_final_ok.
import json, os, re, shutil, time
import common, c10

ASSUMPTIONS = c10.ASSUMPTIONS + [
    "rename(2) is atomic and unlink/rename do not fail halfway (power loss and non-atomic file systems are outside)",
    "a kill between two stdio calls leaves on disk what the kernel had accepted at the previous call (user-space buffers die with the process)",
    "stale-directory / job-shapes: which warnings a job has is known from how its files were built (main input: wrong startxref = warns when opened, a too "
    "small /Length = warns while written; secondary files: a-damaged.pdf with a wrong startxref) and is what the model is given as c11d_wmain / c11d_wother; "
    "rename(2) onto a directory and fopen(\"wb+\") of a directory fail without changing anything (EISDIR); directory entries other than regular files and "
    "directories are outside",
]


def classify(sc, files, name):
    if name not in files:
        return "A"
    b = files[name]
    if b == sc.orig:
        return "O"
    if b == sc.new:
        return "N"
    return "X"



# ------------------------------------------------------------------ any directory, any job (Sys/ReplaceDirModel.v)

# the four documented names, numbered as ocaml/h_sys.ml numbers them for c11drun
NAMES4 = {"<stdout>": 0, "outrep.pdf": 1, "outrep.pdf.~qpdf-orig": 2, "outrep.pdf.~qpdf-temp#": 3, "outrep.pdf.~qpdf-orig#": 4}
KEPT, TEMP, SCRATCH = "outrep.pdf.~qpdf-orig", "outrep.pdf.~qpdf-temp#", "outrep.pdf.~qpdf-orig#"
CLS_WORD = {"O": "orig", "N": "new", "A": "absent", "X": "other"}


class Ref4:
    pass


def ref4(wd, tag, scen, inp, tail):
    """fault-free run in a directory that holds only the input: the write calls of the temporary file, the new file"""
    rd = os.path.join(wd, "%s-ref" % tag)
    ref = c10.run_binary(rd, scen, inp, "none", tail_args=tail)
    r = Ref4()
    r.run = ref
    r.ok = ref.rc in (0, 3) and "outrep.pdf" in ref.files
    if not r.ok:
        r.why = "fault-free run exits %d: %s" % (ref.rc, ref.stderr.decode("latin-1")[-300:])
        return r
    names = dict(NAMES4)
    evs, nops, fails = c10.parse_log(ref.log, rd, names, assign=True)
    r.evs, r.nops = evs, nops
    r.op_kinds = [e[0] for e in evs]
    r.lens = [int(m.group(1)) for m in (re.match(r"w3:(\d+):", e) for e in evs) if m]
    r.pops = max(0, sum(1 for e in evs if e.startswith("f3")) - 1)
    r.new = ref.files["outrep.pdf"]
    r.orig = open(inp["path"], "rb").read()
    r.extra_names = sorted(k for k in names if k not in NAMES4)
    return r


def classify4(orig, new, files, name):
    if name not in files:
        return "A"
    b = files[name]
    if b == orig:
        return "O"
    if b == new:
        return "N"
    return "X"


def observe4(r4, res, rd, pre):
    """(observation string in the model's format, c11dobs line, classes, failing calls)"""
    files = dict(res.files)
    dirs_now = {k for k, v in files.items() if v.startswith(c10.DIRMARK)}
    dirs_before = {k for k, v in (pre or {}).items() if v is None or isinstance(v, list)}
    res2 = c10.Run()
    res2.__dict__.update(res.__dict__)
    # a directory that is where and what it was is not a file of the model's directory; anything else about it is
    res2.files = {k: v for k, v in files.items()
                  if not (k in dirs_now and k in dirs_before and v == c10.DIRMARK + ",".join(sorted(pre[k] or [])).encode())}
    for k in dirs_before - dirs_now:
        res2.files.setdefault(k + "#directory-gone", b"")
    o, evs, fails = c10.obs_string(res2, rd, NAMES4)
    a, k, s, t = (classify4(r4.orig, r4.new, files, n) for n in ("outrep.pdf", KEPT, SCRATCH, TEMP))
    def same(n):
        if not pre or n not in pre:
            return 0
        v = pre[n]
        if isinstance(v, bytes):
            return 1 if files.get(n) == v else 0
        return 1 if files.get(n) == c10.DIRMARK + ",".join(sorted(v or [])).encode() else 0
    ex = "K" if res.rc == -9 else str(res.rc if res.rc >= 0 else 255)
    diags = c10.diag_of_stderr(res.stderr)
    warned = 1 if (b"WARNING: " in res.stderr or "W" in diags or res.rc == 3) else 0
    unl = 1 if "U" in diags else 0
    line = "c11dobs %s %d %d %s %s %s %s %d %d" % (ex, warned, unl, a, k, s, t, same(KEPT), same(SCRATCH))
    return o, line, (a, k, s, t), fails, evs


def pre_model(pre):
    """the model's arguments for what the directory held: files by number, directories by number"""
    fl = ["%d:%s" % (NAMES4[n], common.hexs(v)) for n, v in sorted((pre or {}).items()) if isinstance(v, bytes)]
    dl = [str(NAMES4[n]) for n, v in sorted((pre or {}).items()) if not isinstance(v, bytes)]
    return ";".join(fl) or "-", ",".join(dl) or "-"


def pre_words(pre, orig):
    out = {}
    for n, v in sorted((pre or {}).items()):
        sfx = n.replace("outrep.pdf", "<in>")
        if v is None:
            out[sfx] = "an empty directory"
        elif isinstance(v, list):
            out[sfx] = "a directory holding %s" % ", ".join(v)
        else:
            out[sfx] = "a file identical to the input" if v == orig else "an older document (%d bytes, md5 %s)" % (len(v), c10.md5(v))
    return out


def path_faults(r4, kinds, writes=0, rng=None, upto=None):
    """faults at every operation that is not a plain write (and `writes` sampled writes)"""
    ks = [i + 1 for i, k in enumerate(r4.op_kinds) if k != "w"]
    if writes and rng is not None:
        ws = [i + 1 for i, k in enumerate(r4.op_kinds) if k == "w"]
        ks += rng.sample(ws, min(writes, len(ws)))
    if upto is not None:
        ks = [k for k in ks if k <= upto]
    out = []
    for m in kinds:
        if m == "fail":
            out += ["fail@%d" % k for k in ks if r4.op_kinds[k - 1] in "oru"]
        else:
            out += ["%s@%d" % (m, k) for k in ks]
    return out


def run_cases4(chk, runner, wd, cases, variant, B, part):
    """cases: dicts with r4, scen, inp, tail, pre, faults (list), wmain, wother, wx0, tag, describe.
    Runs the binary on every (case, fault), the extracted model c11d_run, the extracted specification; reports."""
    jobs = [(ci, f) for ci, c in enumerate(cases) for f in c["faults"]]

    def one(idx):
        ci, f = jobs[idx]
        c = cases[ci]
        rd = os.path.join(wd, "%s-%d" % (part, idx))
        res = c10.run_binary(rd, c["scen"], c["inp"], f, tail_args=c["tail"], pre=c["pre"])
        o, line, cls, fails, evs = observe4(c["r4"], res, rd, c["pre"])
        return (o, line, cls, fails, res.rc, res.stderr[-400:].decode("latin-1"), res.argv, {k: (len(v) if not v.startswith(c10.DIRMARK) else "directory") for k, v in res.files.items()}, evs)
    impl = common.par_map(one, range(len(jobs)), workers=c10.WORKERS)
    sout = common.run_lines(runner, [x[1] for x in impl])
    mlines = []
    for c in cases:
        r4 = c["r4"]
        pf, pd = pre_model(c["pre"])
        mlines.append("c11drun %s %d %d %d %d %d %d %d %s %s %s %s %s %s" % (
            variant, B, c10.EXIT_ROUNDS[0], r4.pops, 1 if c["wmain"] else 0, 1 if c["wother"] else 0, 1 if c["wx0"] else 0, 1 if "--no-warn" in c["tail"] else 0,
            c10.lens_str(r4.lens), common.hexs(r4.new), common.hexs(r4.orig), pf, pd, ",".join(map(c10.model_fault, c["faults"]))))
    mout = common.par_map(lambda l: common.run_lines(runner, [l])[0], mlines, workers=c10.WORKERS) if mlines else []
    model = []
    for c, mo in zip(cases, mout):
        outs = mo.split(" ")
        if len(outs) != len(c["faults"]):
            raise common.InfraError("model runner failed on %s: %s" % (c["tag"], mo[:300]))
        model += [c10.model_fields(o)[0] for o in outs]
    nontriv, dist, diffs, nviol = set(), {}, [], 0
    for idx, ((ci, f), x, sv, mo) in enumerate(zip(jobs, impl, sout, model)):
        c = cases[ci]
        a, k, s, t = x[2]
        exs = "K" if x[4] == -9 else str(x[4])
        key = "%s/exit%s/in=%s,kept=%s,scratch=%s,temp=%s" % (f.split("@")[0], exs, a, k, s, t)
        dist[key] = dist.get(key, 0) + 1
        nontriv.add((c["tag"], f))
        if sv != "ok":
            w = "main" if c["wmain"] else ("other" if c["wother"] else "none")
            sig = "C11:%s:%s:exit%s:%s:in=%s,kept=%s,scratch=%s:w=%s" % (part, f.split("@")[0], exs, c10.surface(x[3], f),
                                                                     CLS_WORD[a], CLS_WORD[k], CLS_WORD[s], w)
            legend = "O the original of this run, N the complete new file, A absent, X anything else (a partial file, a stale file of an earlier run, a directory)"
            chk.violation({"kind": "property-fails-on-implementation", "part": part, "why": sv,
                           "case": dict(c["describe"], argv=x[6], fault=f,
                                        fault_meaning="k-th file operation of the run fails (full/fail), or the process is SIGKILLed immediately before (killb) / "
                                                      "after (killa) it; see harness/shim_fault.c",
                                        initial_directory=dict({"<in>": "the input (%d bytes)" % len(c["r4"].orig)}, **pre_words(c["pre"], c["r4"].orig))),
                           "exit": x[4], "stderr": x[5],
                           "final_directory": {"<in>": a, "<in>.~qpdf-orig": k, "<in>.~qpdf-orig#": s, "<in>.~qpdf-temp#": t, "legend": legend},
                           "file_sizes": x[7], "calls": " ".join(x[8])[-400:], "failing_calls": x[3][:6], "signature": sig,
                           "replay": {"part": part, "scenario": c["scen"], "input": c["describe"]["input"], "fault": f, "tail": list(c["tail"]),
                                      "pre": {n: ("<same-as-input>" if v == c["r4"].orig else (v.hex() if isinstance(v, bytes) else v)) for n, v in (c["pre"] or {}).items()}}},
                          signature=sig)
            sigs = chk.cov.setdefault("specification_violations_by_signature", {})
            sigs[sig] = sigs.get(sig, 0) + 1
            nviol += 1
        if mo != x[0]:
            diffs.append((ci, f, x, mo))
    if diffs:
        ci, f, x, mo = diffs[0]
        c = cases[ci]
        pf, pd = pre_model(c["pre"])
        r4 = c["r4"]
        vline = "c11dtrace %s %d %d %d %d %d %d %d %s %s %s %s %s %s" % (
            variant, B, c10.EXIT_ROUNDS[0], r4.pops, 1 if c["wmain"] else 0, 1 if c["wother"] else 0, 1 if c["wx0"] else 0, 1 if "--no-warn" in c["tail"] else 0,
            c10.lens_str(r4.lens), common.hexs(r4.new), common.hexs(r4.orig), pf, pd, c10.model_fault(f))
        vout = common.run_lines(runner, [vline])[0]
        chk.violation({"kind": "correspondence-broken", "correspondence": "corr:C11:%s" % part, "differing_cases": len(diffs),
                       "check_vector_assumed": c10.vec_name(variant),
                       "first_case": dict(c["describe"], argv=x[6], fault=f, initial_directory=pre_words(c["pre"], r4.orig),
                                          main_input_warns=c["wmain"], other_file_warns=c["wother"]),
                       "implementation": x[0], "model": mo, "implementation_calls": " ".join(x[8])[-600:],
                       "model_calls": vout.split("|")[-1].replace("_", " ")[-600:],
                       "note": "exit status / diagnostics / files of the directory / calls of the binary differ from Sys/ReplaceDirModel.v c11d_run"},
                      no_input=True)
    samples = []
    for idx in (len(jobs) // 3, len(jobs) // 2, len(jobs) - 2):
        if 0 <= idx < len(jobs):
            ci, f = jobs[idx]
            samples.append({"argv": impl[idx][6], "input": cases[ci]["describe"]["input"], "initial_directory": pre_words(cases[ci]["pre"], cases[ci]["r4"].orig),
                            "fault": f, "exit": impl[idx][4], "directory(in,kept,scratch,temp)": "".join(impl[idx][2])})
    chk.count(part, len(jobs), nontriv, samples)
    chk.cov["parts"][part]["distribution"] = dist
    chk.cov["parts"][part]["model_differences"] = len(diffs)
    if diffs:
        chk.cov["parts"][part]["model_difference_cases"] = [{"case": cases[ci]["tag"], "fault": f, "implementation": x[0], "model": mo} for ci, f, x, mo in diffs[:6]]
    return nviol


OLDER = None


def older_doc():
    """an older document: a valid PDF that is neither the input nor the new file of any run"""
    global OLDER
    if OLDER is None:
        import pdfgen
        OLDER = pdfgen.write_classic(pdfgen.page_doc(2, marker="OLDER"))[0]
    return OLDER


def stale_directory_cases(chk, wd, inputs, quick):
    rng = chk.rng
    cases = []
    kinds = ("older", "same", "dir", "dirfull")
    for iname in ("small", "warn"):
        inp = inputs[iname]
        r4 = ref4(wd, "stale-%s" % iname, "replace", inp, ())
        if not r4.ok:
            chk.violation({"kind": "correspondence-broken", "correspondence": "corr:C11:fault-free-run", "input": iname, "why": r4.why}, no_input=True)
            continue
        orig = r4.orig
        val = {"older": older_doc(), "same": orig, "dir": None, "dirfull": ["keep.txt"]}
        mine = KEPT if inp["warn"] else SCRATCH
        confs = []
        for n in (KEPT, SCRATCH, TEMP):
            for kd in ("older", "same", "dir"):
                confs.append({n: kd})
        confs.append({KEPT: "older", SCRATCH: "older", TEMP: "older"})
        confs.append({mine: "older", TEMP: "dirfull"})
        confs.append({mine: "dirfull"})
        allc = [dict(zip((KEPT, SCRATCH, TEMP), t)) for t in __import__("itertools").product((None,) + kinds, repeat=3)]
        allc = [{n: kd for n, kd in c.items() if kd} for c in allc]
        allc = [c for c in allc if c and c not in confs]
        confs += rng.sample(allc, 14) if quick else allc
        for conf in confs:
            pre = {n: val[kd] for n, kd in conf.items()}
            # a directory under the temporary name stops the run at its first operation, one under this run's backup name at the first rename
            upto = None
            if not isinstance(pre.get(TEMP, b""), bytes):
                upto = 1
            elif not isinstance(pre.get(mine, b""), bytes):
                upto = r4.op_kinds.index("r") + 1
            faults = ["none"] + path_faults(r4, ("full", "fail", "killb", "killa"), writes=2, rng=rng, upto=upto)
            if quick and len(conf) == 1 and list(conf)[0] not in (mine, TEMP):
                # the backup name this run does not use: a sample of the fault points
                faults = ["none"] + rng.sample(faults[1:], 8)
            cases.append({"r4": r4, "scen": "replace", "inp": inp, "tail": (), "pre": pre, "faults": faults,
                          "wmain": inp["warn"], "wother": False, "wx0": False,
                          "tag": "%s/%s" % (iname, ",".join("%s=%s" % (n[10:], kd) for n, kd in sorted(conf.items()))),
                          "describe": {"input": iname, "job": "--replace-input"}})
        if iname == "small":
            # --deterministic-id: finish() calls from the Popper destructor precede the renames
            rd4 = ref4(wd, "stale-did-%s" % iname, "replace-did", inp, ())
            if rd4.ok:
                for conf in ({mine: "older"}, {TEMP: "older", mine: "same"}):
                    pre = {n: val[kd] for n, kd in conf.items()}
                    cases.append({"r4": rd4, "scen": "replace-did", "inp": inp, "tail": (), "pre": pre,
                                  "faults": ["none"] + path_faults(rd4, ("full", "fail", "killb", "killa")),
                                  "wmain": inp["warn"], "wother": False, "wx0": False,
                                  "tag": "%s/did/%s" % (iname, ",".join("%s=%s" % (n[10:], kd) for n, kd in sorted(conf.items()))),
                                  "describe": {"input": iname, "job": "--replace-input --deterministic-id"}})
    return cases


def job_shapes(inputs):
    """(name, arguments after the input name, a damaged secondary file is used)"""
    p = inputs["small"]["path"]
    dmg, clean = c10._sib(p, "a-damaged.pdf"), c10._sib(p, "z-clean.pdf")
    att, dmgatt = c10._sib(p, "in-att.pdf"), c10._sib(p, "a-damaged-att.pdf")
    return [
        ("pages-self", ["--pages", ".", "1-z", "--"], False),
        ("pages-self-reversed", ["--pages", ".", "z-1", "--"], False),
        ("pages-by-name", ["--pages", "outrep.pdf", "1", "--"], False),
        ("pages-other-only", ["--pages", clean, "1", "--"], False),
        ("pages-self-and-other", ["--pages", ".", clean, "1", "--"], False),
        ("pages-collate", ["--collate", "--pages", ".", clean, "--"], False),
        ("pages-rotate", ["--pages", ".", "1-z", "--", "--rotate=+90"], False),
        ("rotate", ["--rotate=+90:1"], False),
        ("overlay", ["--overlay", clean, "--"], False),
        ("underlay", ["--underlay", clean, "--repeat=1", "--"], False),
        ("copy-attachments", ["--copy-attachments-from", att, "--"], False),
        ("linearize", ["--linearize"], False),
        ("qdf", ["--qdf"], False),
        ("object-streams", ["--object-streams=generate"], False),
        ("encrypt", ["--encrypt", "u", "o", "128", "--use-aes=y", "--", "--static-aes-iv"], False),
        ("warning-exit-0", ["--warning-exit-0"], False),
        ("no-warn", ["--no-warn"], False),
        ("pages-warning-exit-0", ["--pages", ".", "1-z", "--", "--warning-exit-0"], False),
        # warnings about a file that is not the main input
        ("pages-damaged-other", ["--pages", ".", dmg, "1", "--"], True),
        ("pages-damaged-only", ["--pages", dmg, "1", "--"], True),
        ("overlay-damaged", ["--overlay", dmg, "--"], True),
        ("underlay-damaged", ["--underlay", dmg, "--"], True),
        ("copy-attachments-damaged", ["--copy-attachments-from", dmgatt, "--"], True),
        ("copy-attachments-damaged-none", ["--copy-attachments-from", dmg, "--"], True),
        ("copy-encryption-damaged", ["--copy-encryption=" + dmg], True),
    ]


def job_shape_cases(chk, wd, inputs, quick):
    rng = chk.rng
    shapes = job_shapes(inputs)
    cases = []
    combos = [(sh, iname) for sh in shapes for iname in ("small", "warn", "wlate")]
    full = set(rng.sample(range(len(combos)), 20 if quick else len(combos)))

    def mk(ix):
        (sname, tail, other), iname = combos[ix]
        inp = inputs[iname]
        r4 = ref4(wd, "job-%s-%s" % (sname, iname), "replace", inp, tail)
        return r4
    refs = common.par_map(mk, range(len(combos)), workers=c10.WORKERS)
    for ix, (((sname, tail, other), iname), r4) in enumerate(zip(combos, refs)):
        inp = inputs[iname]
        if not r4.ok:
            chk.violation({"kind": "correspondence-broken", "correspondence": "corr:C11:fault-free-run", "input": iname, "job": sname, "why": r4.why}, no_input=True)
            continue
        if ix in full:
            faults = ["none"] + path_faults(r4, ("full", "fail", "killb", "killa"))
        else:
            # the operations on the directory: both renames and the removal fail; the process dies right after each
            ks = [i + 1 for i, k in enumerate(r4.op_kinds) if k in "ru"]
            faults = ["none"] + ["fail@%d" % k for k in ks] + ["killa@%d" % k for k in ks]
        cases.append({"r4": r4, "scen": "replace", "inp": inp, "tail": tuple(tail), "pre": None, "faults": faults,
                      "wmain": inp["warn"], "wother": other, "wx0": "--warning-exit-0" in tail,
                      "tag": "%s/%s" % (sname, iname), "describe": {"input": iname, "job": sname}})
    return cases

def run(chk):
    runner = os.path.join(common.EXTRACT, "model_runner")
    c10.build_shim()
    c10.probe_exit_rounds()
    if chk.tier == "thorough":
        c10.run_coqchk(chk, "C11")
    wd = common.workdir("C11")
    t0 = time.time()
    B = os.stat(wd).st_blksize
    quick = chk.tier == "quick"
    inputs = c10.make_inputs(wd, chk.rng, chk.tier, 0 if quick else 8)
    have_ptrace = c10.build_injector()
    chk.cov["ptrace_permitted"] = bool(have_ptrace)
    ALLK = ("full", "fail", "disk", "cap", "killb", "killa")
    plan = []     # (scenario, input, fault kinds, limit)
    if quick:
        plan += [("replace", "small", ALLK, 140), ("replace", "warn", ALLK, 140), ("replace", "big", ALLK, 60)]
        # warnings that arise only while the temporary file is written: the original must be kept as <in>.~qpdf-orig
        plan += [("replace", "wlate", ("full", "fail", "killb", "killa"), 45)]
        # --deterministic-id: finish() from the Popper destructor
        plan += [("replace-did", "big", ("full", "cap", "killa"), 40)]
    else:
        for iname in inputs:
            if iname not in ("att", "multi"):
                plan.append(("replace", iname, ALLK, None))
                plan.append(("replace-did", iname, ALLK, None))
    if have_ptrace:
        # exactly one write(2) on the temporary file fails (EINTR / EIO / ENOSPC) and the following ones succeed
        plan += [("replace", "multi", tuple(c10.ERRNOS), None), ("replace-did", "multi", tuple(c10.ERRNOS), None)]
    groups = []
    for scen, iname, kinds, limit in plan:
        groups.append(c10.run_group(chk, runner, wd, scen, iname, inputs[iname], B, limit, kinds=kinds, pid="C11"))
    variant, diffs, total = c10.evaluate(chk, runner, groups, B, pid="C11")
    # the C11 specification on the directory the binary left
    slines, idx = [], []
    for g in groups:
        if "sc" not in g:
            chk.violation({"kind": "correspondence-broken", "correspondence": "corr:C11:fault-free-run", "input": g["input"], "why": g.get("broken")}, no_input=True)
            continue
        sc = g["sc"]
        backup = [k for k, v in sc.names.items() if v == 2][0]
        other_backup = "outrep.pdf.~qpdf-orig" + ("#" if not backup.endswith("#") else "")
        g["cls"] = []
        for j, x in enumerate(g["impl"]):
            files = x[9]
            a = classify(sc, files, "outrep.pdf")
            b = classify(sc, files, backup)
            if other_backup in files:      # a backup under the name of the other case is "other"
                b = "X"
            c = classify(sc, files, "outrep.pdf.~qpdf-temp#")
            ex = "K" if x[5] == -9 else str(x[5] if x[5] >= 0 else 255)
            unl = 1 if "U" in x[0].split("|")[1].split(",") else 0
            slines.append("c11obs %s %d %s %s %s" % (ex, unl, a, b, c))
            g["cls"].append((a, b, c))
            idx.append((g, j))
    sout = common.run_lines(runner, slines)
    nontriv = set()
    dist = {}
    for (g, j), sv in zip(idx, sout):
        x = g["impl"][j]
        fault = g["faults"][j]
        a, b, c = g["cls"][j]
        key = "%s/exit%s/in=%s,backup=%s,temp=%s" % (fault.split("@")[0], "K" if x[5] == -9 else x[5], a, b, c)
        dist[key] = dist.get(key, 0) + 1
        if fault != "none":
            nontriv.add((g["input"], fault))
        if sv != "ok":
            sig = "C11:%s:exit%s:%s:in=%s" % (fault.split("@")[0], "K" if x[5] == -9 else x[5], c10.surface(x[2], fault),
                                              {"O": "orig", "N": "new", "A": "absent", "X": "other"}[a])
            chk.violation({"kind": "property-fails-on-implementation", "part": "replace-input", "why": sv,
                           "case": {"argv": x[7], "input": g["input"], "fault": fault,
                                    "fault_meaning": "k-th file operation of the run fails (full/fail), or the process is SIGKILLed immediately before (killb) / after (killa) it; "
                                                     "cap@L = RLIMIT_FSIZE; see harness/shim_fault.c"},
                           "exit": x[5], "stderr": x[6], "directory": {"<in>": a, "<in>.~qpdf-orig[#]": b, "<in>.~qpdf-temp#": c,
                                                                           "legend": "O original, N complete new file, A absent, X anything else (partial)"},
                           "file_sizes": x[8], "failing_calls": x[2][:6], "signature": sig,
                           "replay": {"scenario": g["scen"], "input": g["input"], "fault": fault}}, signature=sig)
            sigs = chk.cov.setdefault("specification_violations_by_signature", {})
            sigs[sig] = sigs.get(sig, 0) + 1
    t1 = time.time()
    # the same protocol started in directories that are not empty, and as part of other jobs
    sc_cases = stale_directory_cases(chk, wd, inputs, quick)
    nv_stale = run_cases4(chk, runner, wd, sc_cases, variant, B, "stale-directory")
    t2 = time.time()
    js_cases = job_shape_cases(chk, wd, inputs, quick)
    nv_jobs = run_cases4(chk, runner, wd, js_cases, variant, B, "job-shapes")
    t3 = time.time()
    chk.cov["phase_seconds"] = {"replace-input-histories": round(t1 - t0, 1), "stale-directory": round(t2 - t1, 1), "job-shapes": round(t3 - t2, 1)}
    chk.cov["parts"]["stale-directory"]["initial_directories"] = sorted(set(c["tag"] for c in sc_cases))
    chk.cov["parts"]["job-shapes"]["jobs_x_inputs"] = sorted(set(c["tag"] for c in js_cases))
    # (reported after the parts above, so that the replays with a concrete failing input come first)
    if diffs[variant]:
        g, j, cmpo = diffs[variant][0]
        vline = c10.model_lines(g["sc"], g["inp"], [g["faults"][j]], B, variant, verbose=True)
        vout = common.run_lines(runner, [vline])[0]
        chk.violation({"kind": "correspondence-broken", "correspondence": "corr:C11:replace-input",
                       "differing_cases": len(diffs[variant]), "check_vector_assumed": c10.vec_name(variant),
                       "first_case": {"argv": g["impl"][j][7], "input": g["input"], "fault": g["faults"][j]},
                       "differing_cases_by_checks_vector": {v: len(d) for v, d in sorted(diffs.items(), key=lambda kv: len(kv[1]))[:6]},
                       "implementation": g["impl"][j][0], "model": cmpo,
                       "implementation_calls": " ".join(g["impl"][j][1])[-1200:], "model_calls": vout.split("|")[-1].replace("_", " ")[-1200:]},
                      no_input=True)
    samples = []
    for g in groups:
        if "sc" in g:
            for j in (len(g["impl"]) // 3, len(g["impl"]) - 2):
                samples.append({"argv": g["impl"][j][7], "input": g["input"], "fault": g["faults"][j], "exit": g["impl"][j][5],
                                "directory(in,backup,temp)": "".join(g["cls"][j])})
    chk.count("replace-input-histories", total, nontriv, samples)
    chk.cov["parts"]["replace-input-histories"]["distribution"] = dist
    chk.cov["parts"]["replace-input-histories"]["operations_per_group"] = {"%s/%s" % (g["scen"], g["input"]): g["sc"].nops for g in groups if "sc" in g}
    chk.cov["check_vector_observed"] = c10.vec_name(variant)
    chk.cov["rule"] = ("qpdf --replace-input on inputs without and with warnings; for every file operation k of the run (quick: every non-write operation, its "
                       "neighbours and a sample of the writes): the operation fails (full@k, fail@k), the process is killed before it (killb@k) and after it "
                       "(killa@k); plus a disk that stays full from k on and RLIMIT_FSIZE sweeps; after each run the directory is classified and compared with the "
                       "extracted model (also exit status, diagnostics, every stdio/rename/unlink call and result) and the extracted c11_safe / c11_final_ok are "
                       "evaluated on it; non-trivial = a run with a fault or a kill, distinct by (input, fault). Part stale-directory: the same on inputs without / with "
                       "warnings started in directories that already hold an older document, a byte-identical document, an empty or a non-empty directory under "
                       "<in>.~qpdf-orig, <in>.~qpdf-orig#, <in>.~qpdf-temp# (each singly, fixed combinations, a sample of all 124 combinations; thorough: all), every "
                       "non-write operation x {full, fail, killb, killa} and two sampled writes, also with --deterministic-id; part job-shapes: --replace-input inside "
                       "25 jobs x 3 inputs (clean, warns when opened, warns while written), fault-free + both renames and the removal failing + a kill after each, the "
                       "complete non-write sweep on a sample (thorough: all); both compared with the extracted c11d_run (Sys/ReplaceDirModel.v) and judged by the extracted "
                       "c11d_safe / c11d_final_ok; non-trivial = distinct (initial directory or job, input, fault)")
    shutil.rmtree(wd, ignore_errors=True)


def replay(chk, rep):
    return c10.replay(chk, rep)
