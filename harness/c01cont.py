# C01 - input family "container filters": valid PDF 1.5 files whose OBJECT STREAMS and CROSS-REFERENCE STREAM are stored
# through every filter (chain) a conforming reader can decode (ISO 32000-1 7.4: ASCIIHexDecode, ASCII85Decode, LZWDecode with
# both EarlyChange values, FlateDecode, RunLengthDecode; Flate/LZW with the TIFF predictor and every PNG predictor tag; chains).
# 7.5.7 / 7.5.8 put no restriction on the filters of these two kinds of stream, so every such file is a valid input and qpdf has
# to rewrite it without loss and without reporting it as damaged.  The generator carries its own ground truth; every encoded
# container is decoded again with the harness-side reference decoders (dociso.py) before the file is used.
#
# The same chain table feeds the in-process correspondence of the container model (coq/Obj/C01Container.v): see c01.py.
import base64, zlib
import pdfgen, dociso
from pdfgen import Name, Ref, Str, Real, Stream, D, N

# ---------------------------------------------------------------- encoders (inverse of ISO 32000-1 7.4.2 - 7.4.5, 7.4.4.4)

def enc_ahx(data, rng):
    h = data.hex().encode()
    if rng.random() < 0.5:
        h = h.upper()
    if h and h[-1:] == b"0" and rng.random() < 0.3:
        h = h[:-1]                      # odd number of digits: the missing last digit is 0 (7.4.2)
    if rng.random() < 0.5:
        w = rng.choice([2, 16, 63, 64])
        h = b"".join(h[i:i + w] + rng.choice([b"\n", b" ", b"\r\n", b"\t"]) for i in range(0, len(h), w))
    return h + b">"


def enc_a85(data, rng):
    t = base64.a85encode(data)          # 'z' for four zero bytes, no framing
    if rng.random() < 0.5:
        w = rng.choice([5, 60, 75])
        t = b"".join(t[i:i + w] + rng.choice([b"\n", b" ", b"\r\n"]) for i in range(0, len(t), w))
    return t + b"~>"


def enc_rl(data, rng):
    """literal runs of 1..128 bytes and repeat runs of 2..128 bytes, EOD 128 (7.4.5)"""
    out = bytearray()
    i = 0
    n = len(data)
    while i < n:
        j = i
        while j + 1 < n and data[j + 1] == data[i] and j + 1 - i < 128:
            j += 1
        runlen = j - i + 1
        if runlen >= 2 and (runlen >= 3 or rng.random() < 0.5):
            out.append(257 - runlen)
            out.append(data[i])
            i += runlen
            continue
        k = rng.choice([1, 2, 7, 127, 128])
        lit = data[i:i + k]
        out.append(len(lit) - 1)
        out += lit
        i += len(lit)
    out.append(128)
    return bytes(out)


def enc_lzw(data, early):
    """LZW with variable code length 9..12, clear-table 256, EOD 257 (7.4.4.2); early = /EarlyChange"""
    codes = []                  # (code, width)
    out_acc, out_bits, out = 0, 0, bytearray()

    def width_for(j):
        # the decoder has seen j codes since the last clear-table: it has added max(0, j - 1) entries
        nxt = 258 + max(0, j - 1)
        return 9 + sum(1 for t in (512, 1024, 2048) if nxt + early >= t)

    def emit(code, j):
        nonlocal out_acc, out_bits
        w = width_for(j)
        out_acc = (out_acc << w) | code
        out_bits += w
        while out_bits >= 8:
            out.append((out_acc >> (out_bits - 8)) & 255)
            out_bits -= 8
            out_acc &= (1 << out_bits) - 1

    table = {}
    nxt = 258
    j = 0
    emit(256, 3000 if False else 0)      # initial clear-table at 9 bits
    w = b""
    for c in data:
        wc = w + bytes([c])
        if len(wc) == 1 or wc in table:
            w = wc
            continue
        emit(w[0] if len(w) == 1 else table[w], j)
        j += 1
        table[wc] = nxt
        nxt += 1
        w = bytes([c])
        if nxt >= 4093:
            emit(w[0], j)
            j += 1
            emit(256, j)
            table, nxt, j, w = {}, 258, 0, b""
    if w:
        emit(w[0] if len(w) == 1 else table[w], j)
        j += 1
    emit(257, j)
    if out_bits:
        out.append((out_acc << (8 - out_bits)) & 255)
    return bytes(out)


def png_encode(data, colors, bpc, cols, rng, tags=(0, 1, 2, 3, 4)):
    """PNG prediction (ISO 15948 9.2), one tag byte per row; data must be a whole number of rows"""
    bpp = max(1, (colors * bpc + 7) // 8)
    bpr = (colors * bpc * cols + 7) // 8
    assert len(data) % bpr == 0
    out = bytearray()
    prev = bytes(bpr)
    for r in range(0, len(data), bpr):
        row = data[r:r + bpr]
        ft = rng.choice(tags)
        enc = bytearray(bpr)
        for k in range(bpr):
            a = row[k - bpp] if k >= bpp else 0
            b = prev[k]
            c = prev[k - bpp] if k >= bpp else 0
            if ft == 0:
                p = 0
            elif ft == 1:
                p = a
            elif ft == 2:
                p = b
            elif ft == 3:
                p = (a + b) // 2
            else:
                pp = a + b - c
                pa, pb, pc = abs(pp - a), abs(pp - b), abs(pp - c)
                p = a if (pa <= pb and pa <= pc) else (b if pb <= pc else c)
            enc[k] = (row[k] - p) & 255
        out.append(ft)
        out += enc
        prev = row
    return bytes(out)


def tiff_encode(data, colors, cols):
    """TIFF predictor 2, 8 bits per component: every sample minus the sample of the same colour to its left"""
    bpr = colors * cols
    assert len(data) % bpr == 0
    out = bytearray()
    for r in range(0, len(data), bpr):
        row = data[r:r + bpr]
        out += bytes(row[k] if k < colors else (row[k] - row[k - colors]) & 255 for k in range(bpr))
    return bytes(out)


# ---------------------------------------------------------------- filter chains

class Stage:
    """one filter of a chain: name, and for Flate/LZW the predictor parameters"""

    def __init__(self, name, pred=None, colors=1, bpc=8, cols=1, early=None, explicit=False):
        self.name, self.pred, self.colors, self.bpc, self.cols, self.early, self.explicit = name, pred, colors, bpc, cols, early, explicit

    def row(self):
        return (self.colors * self.bpc * self.cols + 7) // 8 if self.pred not in (None, 1) else 1

    def parms(self):
        d = {}
        if self.pred is not None:
            d[b"Predictor"] = self.pred
            if self.pred != 1 or self.explicit:
                if self.cols != 1 or self.explicit:
                    d[b"Columns"] = self.cols
                if self.colors != 1 or self.explicit:
                    d[b"Colors"] = self.colors
                if self.bpc != 8 or self.explicit:
                    d[b"BitsPerComponent"] = self.bpc
        if self.early is not None:
            d[b"EarlyChange"] = self.early
        return d or None

    def label(self):
        s = self.name
        if self.pred is not None:
            s += "+p%d" % self.pred + ("c%dx%dx%d" % (self.cols, self.colors, self.bpc) if self.pred != 1 else "")
        if self.early is not None:
            s += "+e%d" % self.early
        return s

    def encode(self, data, rng):
        if self.name in ("FlateDecode", "LZWDecode"):
            if self.pred is not None and self.pred >= 10:
                tags = {10: (0,), 11: (1,), 12: (2,), 13: (3,), 14: (4,), 15: (0, 1, 2, 3, 4)}[self.pred]
                if rng.random() < 0.3:
                    tags = (0, 1, 2, 3, 4)      # 7.4.4.4: the tag byte of each row decides, whatever /Predictor >= 10 says
                data = png_encode(data, self.colors, self.bpc, self.cols, rng, tags)
            elif self.pred == 2:
                data = tiff_encode(data, self.colors, self.cols)
            if self.name == "FlateDecode":
                return zlib.compress(data, rng.choice([0, 1, 6, 9]))
            return enc_lzw(data, 1 if self.early is None else self.early)
        if self.name == "ASCIIHexDecode":
            return enc_ahx(data, rng)
        if self.name == "ASCII85Decode":
            return enc_a85(data, rng)
        if self.name == "RunLengthDecode":
            return enc_rl(data, rng)
        raise ValueError(self.name)


FL, LZW, AHX, A85, RL = "FlateDecode", "LZWDecode", "ASCIIHexDecode", "ASCII85Decode", "RunLengthDecode"


def aimed_chains(rng):
    """one chain per case of the decoder side: every single filter, every predictor family on Flate and on LZW, both EarlyChange
    values, every ordered pair of the five filters' classes that differ in kind (text / run-length / dictionary coder), and
    three-stage chains; the LAST stage may carry a predictor with any row length (the payload is padded to whole rows), an
    earlier stage only one with a one-byte row"""
    c = rng.choice
    ch = [
        [Stage(FL)], [Stage(LZW)], [Stage(AHX)], [Stage(A85)], [Stage(RL)],
        [Stage(FL, pred=1)], [Stage(FL, pred=2, cols=c([1, 4, 7]), colors=c([1, 3]))],
        [Stage(FL, pred=c([10, 11]), cols=c([1, 5, 16]))], [Stage(FL, pred=12, cols=c([3, 8]), colors=c([1, 2]))],
        [Stage(FL, pred=c([13, 14]), cols=c([2, 6]), colors=c([1, 3, 4]))], [Stage(FL, pred=15, cols=c([4, 9]), bpc=c([8, 16]), explicit=True)],
        [Stage(FL, pred=15, cols=c([3, 5]), bpc=4, colors=c([2, 4]))],
        [Stage(LZW, early=0)], [Stage(LZW, early=1)], [Stage(LZW, pred=2, cols=c([2, 5]))], [Stage(LZW, pred=c([12, 15]), cols=c([4, 10]), early=c([None, 0]))],
        [Stage(AHX), Stage(FL)], [Stage(A85), Stage(FL, pred=12, cols=c([4, 6]))], [Stage(AHX), Stage(RL)], [Stage(A85), Stage(RL)],
        [Stage(RL), Stage(FL)], [Stage(FL), Stage(RL)], [Stage(A85), Stage(LZW)], [Stage(AHX), Stage(LZW, early=0)], [Stage(LZW), Stage(FL)],
        [Stage(FL, pred=c([10, 12, 15]), cols=1), Stage(AHX)], [Stage(RL), Stage(A85)], [Stage(FL), Stage(A85)], [Stage(RL), Stage(RL)],
        [Stage(AHX), Stage(RL), Stage(FL, pred=15, cols=c([2, 8]))], [Stage(A85), Stage(LZW), Stage(RL)], [Stage(FL), Stage(AHX), Stage(A85)],
    ]
    return ch


def random_chain(rng):
    n = rng.choice([1, 2, 2, 3, 4])
    out = []
    for i in range(n):
        name = rng.choice([FL, LZW, AHX, A85, RL])
        st = Stage(name)
        if name in (FL, LZW) and rng.random() < 0.5:
            last = i == n - 1
            st.pred = rng.choice([1, 2, 10, 11, 12, 13, 14, 15])
            st.cols = rng.choice([1, 2, 3, 8, 31]) if last else 1
            st.colors = rng.choice([1, 1, 2, 3]) if last else 1
        if name == LZW and rng.random() < 0.5:
            st.early = rng.choice([0, 1])
        out.append(st)
    return out


def chain_label(chain):
    return "[" + " ".join(s.label() for s in chain) + "]"


def chain_row(chain):
    """payload length must be a multiple of this (whole predictor rows on the last stage)"""
    return chain[-1].row() if chain else 1


def apply_chain(chain, payload, rng, form=None):
    """returns (stream dictionary entries /Filter [/DecodeParms], encoded bytes)"""
    data = payload
    for st in reversed(chain):
        data = st.encode(data, rng)
    d = {}
    if not chain:
        return d, data
    names = [N(s.name) for s in chain]
    parms = [s.parms() for s in chain]
    form = form if form is not None else rng.randrange(4)
    if len(chain) == 1 and form in (0, 1):
        d[b"Filter"] = names[0]
        if parms[0] is not None:
            d[b"DecodeParms"] = parms[0]
        elif form == 1:
            d[b"DecodeParms"] = None                       # explicit null
    else:
        d[b"Filter"] = names
        if any(p is not None for p in parms) or form == 3:
            d[b"DecodeParms"] = parms                        # array with null for the filters without parameters
    # self-check with the oracle's own decoders: the container must decode to the payload
    back, rest = dociso.decode_stream({}, Stream(d, data))
    if rest or back != payload:
        raise AssertionError("generator self-check failed for chain %s" % chain_label(chain))
    return d, data


# ---------------------------------------------------------------- documents

def value(rng, depth=0):
    k = rng.randrange(10 if depth < 2 else 7)
    if k == 0:
        return rng.choice([0, 1, -1, rng.randint(-1000, 100000), 2 ** 31 - 1, -2 ** 31, 2 ** 40])
    if k == 1:
        return Real(rng.choice(["1.5", "-0.25", "3.", ".5", "0.0", "+2.50", "-.5", "00.125", "100.000"]))
    if k == 2:
        return Str(bytes(rng.choice(b"abcXYZ 019()\\\r\n\t") for _ in range(rng.choice([0, 1, 4, 12, 40]))))
    if k == 3:
        return Name(bytes(rng.choice(b"AZaz09#/ ()%\x7f\xe9") for _ in range(rng.randint(1, 6))))
    if k == 4:
        return rng.choice([True, False])
    if k == 5:
        return Str(bytes(rng.randrange(256) for _ in range(rng.choice([1, 3, 8, 33]))))
    if k == 6:
        return Str(bytes([rng.choice([0, 0, 0, 0x20, 0x41])]) * rng.choice([4, 9, 130, 300]))      # long runs: run-length and 'z' cases
    if k == 7 or k == 8:
        return [value(rng, depth + 1) for _ in range(rng.randint(0, 5))]
    return {b"K%d" % i: value(rng, depth + 1) for i in range(rng.randint(1, 4))}


def be(v, w):
    return v.to_bytes(w, "big") if w else b""


def build(rng, idx, stm_chains, xref_chain, placement=None):
    """one document.  stm_chains: filter chains, one object stream each.  Returns (bytes, objects {(n,0): v}, trailer, meta)"""
    npages = rng.choice([1, 2, 3, 5])
    doc = pdfgen.page_doc(npages, marker="K", kids_levels=rng.choice([1, 2]))
    extras = {}
    prev = None
    for i in range(rng.choice([4, 8, 20]) + 2 * len(stm_chains)):
        v = value(rng)
        if prev is not None and rng.random() < 0.25:
            v = {b"Prev": prev, b"V": v}                     # chains of references across object streams
        if rng.random() < 0.1:
            v = Stream(D(K=i), bytes(rng.choice(b"data \n") for _ in range(rng.choice([0, 5, 60]))))
        prev = doc.add(v)
        extras[b"E%d" % i] = prev
    doc.objects[1][b"PieceInfo"] = D(Verif=D(Private=doc.add(extras), LastModified=Str(b"D:20240101000000Z")))
    info = doc.add(D(Title=Str(b"container filters %d" % idx), Producer=Str(b"verif"), Keywords=Str(b"\0" * rng.choice([0, 8, 140]))))
    doc.trailer[b"Info"] = info
    objs = doc.objects
    # which objects live in object streams: never a stream; "extras" keeps catalog and page tree outside (what survives of the
    # document if a container cannot be read is then still a document), "all" compresses everything that may be compressed
    placement = placement or rng.choice(["extras", "all", "all-but-catalog"])
    structural = set(range(1, min(extras[b"E0"].n, info.n)))
    cand = [n for n, v in objs.items() if not isinstance(v, Stream)]
    if placement == "extras":
        cand = [n for n in cand if n not in structural]
    elif placement == "all-but-catalog":
        cand = [n for n in cand if n != 1]
    rng.shuffle(cand)
    k = len(stm_chains)
    groups = [sorted(cand[i::k]) for i in range(k)] if k else []
    groups = [g for g in groups]
    out = bytearray(b"%PDF-1.5\n%\xe2\xe3\xcf\xd3\n")
    entries = {0: (0, 0, 65535)}
    nxt = max(objs) + 1
    labels = []
    comp = set()
    prev_stm = None
    pending = []
    for g, chain in zip(groups, stm_chains):
        if not g:
            continue
        snum = nxt
        nxt += 1
        bodies, pairs, pos = [], [], 0
        for on in g:
            b = pdfgen.ser(objs[on]) + rng.choice([b"\n", b" ", b"\r\n"])
            pairs.append((on, pos))
            bodies.append(b)
            pos += len(b)
        header = b"".join(b"%d %d%s" % (on, o, rng.choice([b" ", b"\n"])) for on, o in pairs)
        payload = header + b"".join(bodies)
        payload += b" " * (-len(payload) % chain_row(chain))
        fd, enc = apply_chain(chain, payload, rng)
        d = {b"Type": N("ObjStm"), b"N": len(g), b"First": len(header)}
        if prev_stm is not None and rng.random() < 0.4:
            d[b"Extends"] = Ref(prev_stm)
        d.update(fd)
        pending.append((snum, Stream(d, enc)))
        for i, on in enumerate(g):
            entries[on] = (2, snum, i)
            comp.add(on)
        prev_stm = snum
        labels.append(chain_label(chain))
    plain = [(n, objs[n]) for n in sorted(objs) if n not in comp] + pending
    rng.shuffle(plain)
    for n, v in plain:
        entries[n] = (1, len(out), 0)
        out += pdfgen.ser_indirect(n, v)
    xnum = nxt
    nxt += 1
    xoff = len(out)
    entries[xnum] = (1, xoff, 0)
    size = nxt
    nums = sorted(entries)
    w1 = max(1, max((entries[n][1].bit_length() + 7) // 8 for n in nums)) + rng.choice([0, 0, 1])
    w2 = max(1, max((entries[n][2].bit_length() + 7) // 8 for n in nums))
    w0 = 1
    payload = b"".join(be(entries[n][0], w0) + be(entries[n][1], w1) + be(entries[n][2], w2) for n in nums)
    width = w0 + w1 + w2
    # a predictor on the last stage needs whole rows: use a row length that divides the data (the entry width always does)
    last = xref_chain[-1] if xref_chain else None
    if last is not None and last.pred not in (None, 1) and len(payload) % last.row():
        last.colors, last.bpc = 1, 8
        last.cols = width
    fd, enc = apply_chain(xref_chain, payload, rng)
    xd = {b"Type": N("XRef"), b"Size": size, b"W": [w0, w1, w2], b"Root": Ref(1), b"Info": info}
    if rng.random() < 0.3:
        xd[b"Index"] = [0, size]
    if rng.random() < 0.6:
        xd[b"ID"] = [Str(b"0123456789abcdef"), Str(b"fedcba9876543210")]
    xd.update(fd)
    out += pdfgen.ser_indirect(xnum, Stream(xd, enc))
    out += b"startxref\n%d\n%%%%EOF\n" % xoff
    A = {(n, 0): v for n, v in objs.items()}
    meta = {"objstm_filters": labels, "xref_filter": chain_label(xref_chain), "placement": placement,
            "members": len(comp), "objects": len(objs)}
    return bytes(out), A, {b"Root": Ref(1), b"Info": info}, meta


def gen_inputs(rng, n_random, per_doc=3):
    """documents covering the aimed chain table completely (each chain once on an object stream and once on the xref stream)
    plus n_random documents with random chains.  Yields (name, bytes, A, trailer, meta)"""
    aimed = aimed_chains(rng)
    xr = aimed_chains(rng)
    rng.shuffle(xr)
    docs = []
    for i, ch in enumerate(aimed):
        # the aimed chain first (it holds a third / a half / all of the compressible objects), sometimes followed by further streams
        more = [random_chain(rng) for _ in range(rng.choice([0, 0, 1, per_doc - 1]))]
        docs.append(([ch] + more, xr[i]))
    for _ in range(n_random):
        docs.append(([random_chain(rng) for _ in range(rng.choice([1, 2, 3]))], random_chain(rng)))
    for j, (sc, xc) in enumerate(docs):
        data, A, tr, meta = build(rng, j, sc, xc)
        yield ("cont%d" % j, data, A, tr, meta)
