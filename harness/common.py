# Shared machinery of the /verif checks: build /repo, build the Coq development, extract,
# build drivers, run model and implementation on the same cases, triage, evidence, verdict.
import fcntl, glob, hashlib, json, os, random, re, shutil, subprocess, sys, time

VERIF = os.path.dirname(os.path.dirname(os.path.abspath(__file__)))
REPO = os.environ.get("VERIF_REPO", "/repo")
BUILD = os.path.join(VERIF, "_build")
REPO_BUILD = os.path.join(BUILD, "repo" if REPO == "/repo" else "repo-" + hashlib.md5(REPO.encode()).hexdigest()[:8])
COQ = os.path.join(VERIF, "coq")
EXTRACT = os.path.join(BUILD, "extract")
DRV = os.path.join(BUILD, "drv" if REPO == "/repo" else "drv-" + hashlib.md5(REPO.encode()).hexdigest()[:8])   # per tree: an exe linked against another tree's library must never be reused
QPDF = os.path.join(REPO_BUILD, "qpdf", "qpdf")
FIXQDF = os.path.join(REPO_BUILD, "qpdf", "fix-qdf")
LIBQPDF = os.path.join(REPO_BUILD, "libqpdf", "libqpdf.a")
NPROC = os.cpu_count() or 4

TRUSTED_BASE_COMMON = [
    "Coq 8.16.1 kernel (coqc; vm_compute used for finite sweeps and witnesses; native_compute not used)",
    "no Axiom/Parameter/Admitted in the development; Print Assumptions output of every property theorem is recorded in coverage.assumptions",
    "extraction: ExtrOcamlBasic only (bool, option, unit, list, prod, sumbool, sumor, andb, orb); nat/positive/N/Z stay inductive; OCaml 4.13.1 ocamlopt; ocaml/runner.ml is I/O only",
    "hand-written Gallina models of the C++ named in DESIGN.md, tied to /repo by the correspondence run of this check (differential, not a proof about the C++)",
    "correspondence machinery: harness/*.py generators and comparators, harness/drv_*.cc drivers, g++ 12",
]


class Lock:
    def __init__(self, name):
        os.makedirs(BUILD, exist_ok=True)
        self.path = os.path.join(BUILD, "." + name + ".lock")

    def __enter__(self):
        self.f = open(self.path, "w")
        fcntl.flock(self.f, fcntl.LOCK_EX)

    def __exit__(self, *a):
        fcntl.flock(self.f, fcntl.LOCK_UN)
        self.f.close()


def sh(cmd, timeout=None, cwd=None, env=None, input=None, check=False):
    e = dict(os.environ)
    if env:
        e.update(env)
    p = subprocess.run(cmd, shell=isinstance(cmd, str), cwd=cwd, env=e, input=input,
                       stdout=subprocess.PIPE, stderr=subprocess.STDOUT, timeout=timeout)
    if check and p.returncode != 0:
        raise RuntimeError("command failed: %s\n%s" % (cmd, p.stdout.decode("utf-8", "replace")[-4000:]))
    return p.returncode, p.stdout


class InfraError(Exception):
    """something the check needs could not be built: reported as a broken tie, not as a property violation"""

    def __init__(self, what, detail=""):
        Exception.__init__(self, what)
        self.what = what
        self.detail = detail


# ------------------------------------------------------------------ builds

def build_repo(san=None):
    """(re)build libqpdf.a, qpdf, fix-qdf from /repo's working tree. san in {None,'asan','tsan'}"""
    bdir = REPO_BUILD if san is None else REPO_BUILD + "-" + san
    flags = "-O1 -DQPDF_VERIF -Wno-error"
    if san == "asan":
        flags += " -g -fsanitize=address,undefined -fno-sanitize-recover=all -fno-omit-frame-pointer"
    elif san == "tsan":
        flags += " -g -fsanitize=thread"
    with Lock("repo" + (san or "")):
        if not os.path.exists(os.path.join(bdir, "build.ninja")):
            rc, out = sh(["cmake", "-S", REPO, "-B", bdir, "-G", "Ninja", "-DCMAKE_BUILD_TYPE=Release",
                          "-DCMAKE_CXX_FLAGS=" + flags, "-DCMAKE_C_FLAGS=" + flags.replace("-Wno-error", ""),
                          "-DBUILD_SHARED_LIBS=OFF", "-DREQUIRE_CRYPTO_NATIVE=ON", "-DREQUIRE_CRYPTO_OPENSSL=ON",
                          "-DREQUIRE_CRYPTO_GNUTLS=ON", "-DBUILD_DOC=OFF"], timeout=600)
            if rc != 0:
                raise InfraError("build:/repo cmake configure failed", out.decode("utf-8", "replace")[-3000:])
        rc, out = sh(["ninja", "-C", bdir, "libqpdf.a", "qpdf", "fix-qdf"], timeout=3000)
        if rc != 0:
            raise InfraError("build:/repo does not compile", out.decode("utf-8", "replace")[-3000:])
    return bdir


def coq_files():
    """every .v under coq/ except Props/ (compiled by prove()) and Extract/; proof files included"""
    out = []
    for root, dirs, files in os.walk(COQ):
        rel = os.path.relpath(root, COQ)
        if rel.split(os.sep)[0] in ("Props", "Extract"):
            continue
        for f in files:
            if f.endswith(".v"):
                out.append(os.path.normpath(os.path.join(rel, f)))
    return sorted(out)


def write_coqproject():
    txt = "-Q . QV\n-arg -w -arg -notation-overridden,-deprecated-hint-without-locality,-deprecated-syntactic-definition\n" + \
        "\n".join(coq_files()) + "\n"
    cp = os.path.join(COQ, "_CoqProject")
    if not os.path.exists(cp) or open(cp).read() != txt:
        with open(cp, "w") as f:
            f.write(txt)
        return True
    return False


def write_extract_v():
    """Extract.v is assembled from coq/Extract/parts/*.txt (lines 'modules: ...' / 'functions: ...')"""
    mods, funs = [], []
    pdir = os.path.join(COQ, "Extract", "parts")
    for fn in sorted(os.listdir(pdir)):
        for line in open(os.path.join(pdir, fn)):
            line = line.strip()
            if line.startswith("modules:"):
                mods += [m for m in line[8:].split() if m not in mods]
            elif line.startswith("functions:"):
                funs += [m for m in line[10:].split() if m not in funs]
    txt = ("(* GENERATED by harness/common.py from coq/Extract/parts/*.txt. Extraction of the executable models and\n"
           "   specifications. ExtrOcamlBasic only: nat, positive, N, Z stay the inductive types. *)\n"
           "From Coq Require Import Extraction ExtrOcamlBasic.\nFrom QV Require Import Base.Bytes %s.\n"
           "Extraction Language OCaml.\nExtraction \"qvmodel.ml\"\n  %s.\n" % (" ".join(mods), "\n  ".join(funs)))
    p = os.path.join(COQ, "Extract", "Extract.v")
    if not os.path.exists(p) or open(p).read() != txt:
        with open(p, "w") as f:
            f.write(txt)


def gen_translated():
    """run the translators (source -> Gallina) of harness/translate_*.py; each writes coq/Gen/<X>.v"""
    os.makedirs(os.path.join(COQ, "Gen"), exist_ok=True)
    hdir = os.path.join(VERIF, "harness")
    for fn in sorted(os.listdir(hdir)):
        if fn.startswith("translate_") and fn.endswith(".py"):
            rc, out = sh([sys.executable, os.path.join(hdir, fn)], timeout=600)
            if rc != 0:
                raise InfraError("translator %s failed (the source no longer has the shape it translates)" % fn,
                                 out.decode("utf-8", "replace")[-3000:])


def build_coq(timeout=3000):
    """make -k of everything under coq/ (Props/ files are compiled separately by prove())."""
    with Lock("coq"):
        gen_translated()
        changed = write_coqproject()
        write_extract_v()
        mk = os.path.join(COQ, "Makefile")
        if changed or not os.path.exists(mk):
            sh("coq_makefile -f _CoqProject -o Makefile", cwd=COQ, check=True)
        rc, out = sh("timeout %d make -k -j%d" % (timeout, NPROC), cwd=COQ)
        log = out.decode("utf-8", "replace")
        with open(os.path.join(BUILD, "coq_make.log"), "w") as f:
            f.write(log)
        return rc == 0, log


def theorem_names(path):
    names = []
    with open(path) as f:
        for line in f:
            m = re.match(r"\s*Theorem\s+([A-Za-z0-9_']+)", line)
            if m:
                names.append(m.group(1))
    return names


FORBIDDEN = re.compile(r"\b(Axiom|Axioms|Parameter|Parameters|Conjecture|Conjectures|Admitted|admit|Admit\s+Obligations|"
                       r"Unset\s+Guard\s+Checking|Unset\s+Positivity\s+Checking|Unset\s+Universe\s+Checking|bypass_check|"
                       r"native_compute|Extract\s+Constant|Extract\s+Inlined\s+Constant|Extract\s+Inductive)\b")
ALLOWED_STDLIB_AXIOMS = ()    # the development is closed under the global context; any axiom is reported


def strip_coq_comments(src):
    out, depth, i = [], 0, 0
    while i < len(src):
        if src.startswith("(*", i):
            depth += 1; i += 2
        elif src.startswith("*)", i) and depth:
            depth -= 1; i += 2
        else:
            if depth == 0 or src[i] == "\n":
                out.append(src[i])
            i += 1
    return "".join(out)


def audit_coq():
    """forbidden declarations/flags anywhere in the development, and Variable/Hypothesis outside a section"""
    hits = []
    for f in coq_files() + sorted(glob.glob(os.path.join(COQ, "Props", "*.v"))) + sorted(glob.glob(os.path.join(COQ, "Extract", "*.v"))):
        path = f if os.path.isabs(f) else os.path.join(COQ, f)
        try:
            src = strip_coq_comments(open(path).read())
        except OSError:
            continue
        depth = 0
        for n, line in enumerate(src.split("\n"), 1):
            if re.match(r"\s*Section\s", line):
                depth += 1
            elif re.match(r"\s*End\s", line) and depth:
                depth -= 1
            m = FORBIDDEN.search(line)
            if m and not (os.path.basename(path) == "Extract.v" and m.group(1).startswith("Extract")):
                hits.append("%s:%d: %s" % (os.path.relpath(path, COQ), n, m.group(1)))
            if depth == 0 and re.match(r"\s*(Variable|Variables|Hypothesis|Hypotheses|Context)\b", line):
                hits.append("%s:%d: %s outside a section" % (os.path.relpath(path, COQ), n, line.split()[0]))
    for cp in ("_CoqProject",):
        try:
            t = open(os.path.join(COQ, cp)).read()
            for flag in ("-type-in-type", "-impredicative-set", "-vos", "-vok"):
                if flag in t:
                    hits.append("%s: %s" % (cp, flag))
        except OSError:
            pass
    return hits


def prove(pid):
    """compile Props/Properties_<pid>.v now (always), return dict with obligations, discharged,
    assumptions (Print Assumptions output per theorem), log, failing (first failing theorem or None)"""
    src = os.path.join(COQ, "Props", "Properties_%s.v" % pid)
    names = theorem_names(src)
    with Lock("coq"):
        rc, out = sh(["timeout", "900", "coqc", "-Q", ".", "QV", "Props/Properties_%s.v" % pid], cwd=COQ)
    log = out.decode("utf-8", "replace")
    res = {"obligations": len(names), "theorems": names, "log": log, "failing": None,
           "assumptions": {}, "checker_cmd": "cd coq && make -k -j16 && coqc -Q . QV Props/Properties_%s.v" % pid}
    audit = audit_coq()
    res["audit"] = audit
    if rc == 0 and audit:
        res["discharged"] = 0
        res["failing"] = "(audit: forbidden construct in the development: %s)" % "; ".join(audit[:5])
        return res
    if rc == 0:
        res["discharged"] = len(names)
        # Print Assumptions blocks appear in order
        blocks = re.split(r"\n(?=Closed under the global context|Axioms:)", "\n" + log)
        blocks = [b.strip() for b in blocks if b.strip().startswith(("Closed", "Axioms"))]
        for i, n in enumerate(names):
            if i < len(blocks):
                res["assumptions"][n] = " ".join(blocks[i].split())[:600]
                if blocks[i].startswith("Axioms") and res["failing"] is None:
                    axs = re.findall(r"^([A-Za-z0-9_.']+)\s*:", blocks[i], re.M)
                    bad = [a for a in axs if a not in ALLOWED_STDLIB_AXIOMS and a != "Axioms"]
                    if bad:
                        res["failing"] = "%s (depends on axiom %s)" % (n, ", ".join(bad))
                        res["discharged"] = i
    else:
        m = re.search(r'line (\d+), characters', log)
        bad_line = int(m.group(1)) if m else 0
        done = 0
        failing = names[0] if names else "?"
        with open(src) as f:
            cur = None
            for i, line in enumerate(f, 1):
                mm = re.match(r"\s*Theorem\s+([A-Za-z0-9_']+)", line)
                if mm:
                    cur = mm.group(1)
                    if i <= bad_line:
                        failing = cur
                if re.match(r"\s*Qed\.", line) and i < bad_line:
                    done += 1
        if bad_line == 0:
            failing = "(dependency of Properties_%s does not compile)" % pid
            done = 0
        res["discharged"] = done
        res["failing"] = failing
    return res


def _newer(target, sources):
    if not os.path.exists(target):
        return True
    t = os.path.getmtime(target)
    return any(os.path.getmtime(s) > t for s in sources if os.path.exists(s))


def build_extract():
    os.makedirs(EXTRACT, exist_ok=True)
    with Lock("extract"):
        vos = [os.path.join(COQ, f + "o") for f in coq_files()]
        ex_v = os.path.join(COQ, "Extract", "Extract.v")
        ml = os.path.join(EXTRACT, "qvmodel.ml")
        runner = os.path.join(EXTRACT, "model_runner")
        osrc = sorted(os.path.join(VERIF, "ocaml", f) for f in os.listdir(os.path.join(VERIF, "ocaml")) if f.endswith(".ml"))
        if _newer(ml, vos + [ex_v]):
            rc, out = sh(["timeout", "900", "coqc", "-Q", COQ, "QV", ex_v], cwd=EXTRACT)
            if rc != 0:
                raise InfraError("extract: Extract.v does not compile (a model file is broken)", out.decode("utf-8", "replace")[-3000:])
        if _newer(runner, [ml] + osrc):
            for s in osrc:
                shutil.copy(s, EXTRACT)
            names = [os.path.basename(s) for s in osrc]
            order = ["runner.ml"] + sorted(n for n in names if n.startswith("h_")) + ["main.ml"]
            rc, out = sh(["ocamlfind", "ocamlopt", "-O3", "-w", "-a", "-o", "model_runner", "qvmodel.mli", "qvmodel.ml"] + order,
                         cwd=EXTRACT, timeout=900)
            if rc != 0:
                raise InfraError("extract: ocaml runner does not compile", out.decode("utf-8", "replace")[-3000:])
    return os.path.join(EXTRACT, "model_runner")


def build_drv(san=None):
    os.makedirs(DRV, exist_ok=True)
    hdir = os.path.join(VERIF, "harness")
    srcs = sorted(os.path.join(hdir, f) for f in os.listdir(hdir) if f.startswith("drv_") and f.endswith(".cc"))
    lib = LIBQPDF if san is None else os.path.join(REPO_BUILD + "-" + san, "libqpdf", "libqpdf.a")
    bdir = REPO_BUILD if san is None else REPO_BUILD + "-" + san
    exe = os.path.join(DRV, "drv" + ("-" + san if san else ""))
    flags = ["-std=c++20", "-O1", "-DQPDF_VERIF"]
    if san == "asan":
        flags += ["-g", "-fsanitize=address,undefined", "-fno-sanitize-recover=all"]
    elif san == "tsan":
        flags += ["-g", "-fsanitize=thread"]
    with Lock("drv" + (san or "")):
        objs = []
        procs = []
        for s in srcs:
            o = os.path.join(DRV, os.path.basename(s)[:-3] + (("-" + san) if san else "") + ".o")
            objs.append(o)
            # private headers may change: depend on the library's mtime too
            if _newer(o, [s, os.path.join(hdir, "drv.hh"), lib]):
                procs.append((s, subprocess.Popen(["g++"] + flags + ["-I" + REPO + "/include", "-I" + REPO + "/libqpdf",
                                                   "-I" + bdir + "/libqpdf", "-I" + hdir, "-c", s, "-o", o],
                                                  stdout=subprocess.PIPE, stderr=subprocess.STDOUT)))
        for s, p in procs:
            out, _ = p.communicate()
            if p.returncode != 0:
                raise InfraError("driver: %s does not compile against /repo (a private interface changed?)" % os.path.basename(s),
                                 out.decode("utf-8", "replace")[-3000:])
        if procs or _newer(exe, objs + [lib]):
            rc, out = sh(["g++"] + flags + objs + [lib, "-lz", "-ljpeg", "-lssl", "-lcrypto", "-lgnutls", "-lpthread", "-o", exe], timeout=900)
            if rc != 0:
                raise InfraError("driver: link failed", out.decode("utf-8", "replace")[-3000:])
    return exe


# ------------------------------------------------------------------ running cases

def run_lines(exe, lines, timeout=1800, env=None, shards=1, memlimit_kb=12000000):
    """feed lines to a line-protocol program, return list of output lines (same length)"""
    if not lines:
        return []
    if shards > 1 and len(lines) > 64:
        n = (len(lines) + shards - 1) // shards
        chunks = [lines[i:i + n] for i in range(0, len(lines), n)]
        procs = []
        for c in chunks:
            p = subprocess.Popen(["bash", "-c", "ulimit -s unlimited 2>/dev/null; " + ("ulimit -v %d 2>/dev/null; " % memlimit_kb if memlimit_kb and "-asan" not in exe and "-tsan" not in exe else "") + "exec " + exe], stdin=subprocess.PIPE,
                                 stdout=subprocess.PIPE, stderr=subprocess.PIPE, env=dict(os.environ, **(env or {})))
            procs.append((p, c))
        import threading
        results = [None] * len(procs)

        def work(i, p, c):
            out, err = p.communicate(("\n".join(c) + "\n").encode())
            results[i] = (out, err, p.returncode)
        ths = [threading.Thread(target=work, args=(i, p, c)) for i, (p, c) in enumerate(procs)]
        for t in ths:
            t.start()
        for t in ths:
            t.join()
        outl = []
        for (out, err, rc), (p, c) in zip(results, procs):
            ls = out.decode("latin-1").split("\n")
            if ls and ls[-1] == "":
                ls.pop()
            if len(ls) != len(c):
                ls = ls + ["?crashed rc=%s %s" % (rc, err.decode("latin-1")[-300:].replace("\n", " "))] * (len(c) - len(ls))
            outl.extend(ls)
        return outl
    p = subprocess.run(["bash", "-c", "ulimit -s unlimited 2>/dev/null; " + ("ulimit -v %d 2>/dev/null; " % memlimit_kb if memlimit_kb and "-asan" not in exe and "-tsan" not in exe else "") + "exec " + exe], input=("\n".join(lines) + "\n").encode(),
                       stdout=subprocess.PIPE, stderr=subprocess.PIPE, timeout=timeout, env=dict(os.environ, **(env or {})))
    ls = p.stdout.decode("latin-1").split("\n")
    if ls and ls[-1] == "":
        ls.pop()
    if len(ls) != len(lines):
        ls = ls + ["?crashed rc=%s %s" % (p.returncode, p.stderr.decode("latin-1")[-300:].replace("\n", " "))] * (len(lines) - len(ls))
    return ls


def hexs(b):
    if isinstance(b, str):
        b = b.encode("latin-1")
    return b.hex() if b else "-"


# ------------------------------------------------------------------ verdict / evidence

class Check:
    def __init__(self, pid, tier, seed):
        self.pid = pid
        self.tier = tier
        self.seed = seed
        self.t0 = time.time()
        self.rng = random.Random("%s/%s" % (pid, seed))
        self.violations = []       # (replay dict, no_input_found)
        self.known_hits = []
        self.cov = {"evaluations": 0, "distinct_nontrivial": 0, "rule": "", "samples": [], "parts": {}}
        self.distinct = set()
        self.assumptions = []
        self.proof = None
        with open(os.path.join(VERIF, "known_findings.json")) as f:
            # (an entry that lacks a required field - e.g. a fragment left by a bad merge - suppresses nothing and must not
            # stop the checks; tools/gen_design_tables.py / tools/merge_branch.sh reject such a file)
            self.known = [k for k in json.load(f)["findings"]
                          if k.get("property") == pid and all(x in k for x in ("id", "status", "match"))]

    # -- proofs
    def run_proofs(self):
        ok, log = build_coq()
        self.proof = prove(self.pid)
        if not ok:
            # files of the development that no longer compile (the property file may then fail with a stale-library message):
            # name them, with coqc's first error for each, so that the replay points at the proof that broke
            errs = re.findall(r'File "\./([^"]+)", line (\d+)[^\n]*\n((?:[^\n]*\n){1,6})', log)
            self.proof["broken_files"] = ["%s:%s: %s" % (f, ln, " ".join(t.split())[:300]) for f, ln, t in errs if "Error" in t][:6]
            if self.proof["failing"] is not None and self.proof["broken_files"]:
                self.proof["failing"] = "%s; first broken file of the development: %s" % (self.proof["failing"], self.proof["broken_files"][0])
        self.cov["obligations"] = self.proof["obligations"]
        self.cov["discharged"] = self.proof["discharged"]
        self.cov["checker_cmd"] = self.proof["checker_cmd"]
        self.cov["theorems"] = self.proof["theorems"]
        self.cov["assumptions"] = self.proof["assumptions"]
        if self.proof["failing"] is not None:
            return False
        return True

    def proof_broken_replay(self):
        return {"kind": "proof-obligation-no-longer-checks", "property": self.pid,
                "theorem": self.proof["failing"], "broken_files": self.proof.get("broken_files", []),
                "coqc_output": self.proof["log"][-3000:]}

    # -- bookkeeping of explored cases
    def count(self, part, n, nontrivial_keys=(), samples=()):
        self.cov["evaluations"] += n
        p = self.cov["parts"].setdefault(part, {"evaluations": 0, "distinct_nontrivial": 0})
        p["evaluations"] += n
        before = len(self.distinct)
        for k in nontrivial_keys:
            self.distinct.add((part, k))
        p["distinct_nontrivial"] += len(self.distinct) - before
        for s in samples:
            if len(self.cov["samples"]) < 24:
                self.cov["samples"].append({"part": part, "case": s})

    def known_match(self, signature):
        for k in self.known:
            if k.get("status") == "known" and re.search(k["match"], signature):
                return k
        return None

    def violation(self, replay, signature="", no_input=False):
        """report a property violation (or a broken tie when no_input). signature is matched
        against known_findings.json (only status=known entries suppress)."""
        k = self.known_match(signature) if signature else None
        if k is not None and not no_input:
            if k["id"] not in [h["id"] for h in self.known_hits]:
                self.known_hits.append(k)
            return
        self.violations.append((replay, no_input))

    def finish(self, extra_assumptions=()):
        # a run against a scratch tree (VERIF_REPO, used to try seeded changes) never touches the evidence of /repo
        out_root = VERIF if REPO == "/repo" else os.path.join(BUILD, "scratch-out-" + hashlib.md5(REPO.encode()).hexdigest()[:8])
        os.makedirs(os.path.join(out_root, "evidence"), exist_ok=True)
        rdir = os.path.join(out_root, "replays", self.pid)
        if os.path.isdir(rdir):
            for fn in os.listdir(rdir):
                if fn.startswith("%s-%d-" % (self.tier, self.seed)):
                    os.unlink(os.path.join(rdir, fn))
        lines = []
        for k in self.known_hits:
            lines.append("KNOWN-FINDING: property=%s %s [%s]" % (self.pid, k["what"], k["id"]))
        # at most 5 replays are written; every violation is counted
        for i, (rep, no_input) in enumerate(self.violations[:5]):
            os.makedirs(rdir, exist_ok=True)
            path = os.path.join(rdir, "%s-%d-%d.json" % (self.tier, self.seed, i))
            with open(path, "w") as f:
                json.dump(rep, f, indent=1, default=str)
            lines.append("VIOLATION property=%s replay=%s%s" % (self.pid, path, " no-failing-input-found" if no_input else ""))
        self.cov["distinct_nontrivial"] = len(self.distinct)
        self.cov["known_findings_observed"] = [k["id"] for k in self.known_hits]
        ev = {"property_id": self.pid, "tier": self.tier, "seed": self.seed, "level": "proof",
              "coverage": self.cov, "assumptions": list(extra_assumptions),
              "wall_s": round(time.time() - self.t0, 2), "violations": len(self.violations)}
        self.cov.setdefault("trusted_base", TRUSTED_BASE_COMMON)
        with open(os.path.join(out_root, "evidence", self.pid + ".json"), "w") as f:
            json.dump(ev, f, indent=1, default=str)
        for l in lines:
            print(l)
        print("%s tier=%s seed=%d obligations=%s discharged=%s evaluations=%d distinct_nontrivial=%d violations=%d wall=%.1fs" % (
            self.pid, self.tier, self.seed, self.cov.get("obligations"), self.cov.get("discharged"),
            self.cov["evaluations"], self.cov["distinct_nontrivial"], len(self.violations), time.time() - self.t0))
        sys.stdout.flush()
        return 1 if self.violations else 0


def triage3(chk, part, cases, impl, model, spec, describe, signature=lambda c, i: "", property_holds=None):
    """Three-way comparison. impl/model/spec are parallel lists (spec may be None for 'no
    independent spec on this part': then the model is what the theorems are about and a difference is a
    broken correspondence). A case where impl != spec is a property violation with that input.
    A case where impl != model but impl == spec breaks only the tie (reported once, no-failing-input-found).
    property_holds(case, impl_out) can override the impl-vs-spec equality test."""
    tie_broken = []
    for idx, c in enumerate(cases):
        i_out, m_out = impl[idx], model[idx]
        s_out = spec[idx] if spec is not None else None
        bad_prop = False
        if property_holds is not None:
            bad_prop = not property_holds(c, i_out, s_out)
        elif spec is not None:
            bad_prop = (i_out != s_out)
        if bad_prop:
            chk.violation({"kind": "property-fails-on-implementation", "part": part, "case": describe(c),
                           "implementation": i_out, "model": m_out, "specification": s_out},
                          signature=signature(c, i_out))
        elif i_out != m_out:
            tie_broken.append((c, i_out, m_out, s_out))
    if tie_broken:
        c, i_out, m_out, s_out = tie_broken[0]
        # a known finding can also be a place where the faithful model deliberately follows the code
        chk.violation({"kind": "correspondence-broken", "correspondence": "corr:%s:%s" % (chk.pid, part),
                       "differing_cases": len(tie_broken), "first_case": describe(c), "implementation": i_out,
                       "model": m_out, "specification": s_out,
                       "note": "model and implementation differ but the specification predicate holds on the implementation's "
                               "result for every explored case; the theorems no longer speak about this code"},
                      no_input=True)
    return len(tie_broken)


# ------------------------------------------------------------------ misc helpers

def par_map(fn, items, workers=None):
    from concurrent.futures import ThreadPoolExecutor
    with ThreadPoolExecutor(max_workers=workers or NPROC) as ex:
        return list(ex.map(fn, items))


def workdir(pid):
    d = os.path.join(BUILD, "work" if REPO == "/repo" else "work-" + hashlib.md5(REPO.encode()).hexdigest()[:8], pid)
    shutil.rmtree(d, ignore_errors=True)
    os.makedirs(d)
    return d


def run_qpdf(args, timeout=120, env=None, cwd=None, exe=None):
    """returns (exit status, stdout bytes, stderr bytes)"""
    e = dict(os.environ)
    e.pop("QPDF_CRYPTO_PROVIDER", None)
    if env:
        e.update(env)
    try:
        p = subprocess.run([exe or QPDF] + list(args), stdout=subprocess.PIPE, stderr=subprocess.PIPE, timeout=timeout, env=e, cwd=cwd)
        return p.returncode, p.stdout, p.stderr
    except subprocess.TimeoutExpired:
        return -999, b"", b"timeout"
