(* C18 unbounded refinement, part B: the specification's sorted-map operations on a map given as
   "entries before ++ entry :: entries after" (the form in which an iterator position of the tree
   presents the content). *)
From Coq Require Import Sorting.Sorted.
From QV Require Import Base.Bytes Struct.NNTreeModel Struct.NNTreeSpec Struct.C18Proofs Struct.C18ProofsC Struct.C18InvA.
Local Open Scope Z_scope.

Lemma zklt_true : forall a b, k_lt Z nn_zcmp a b = true <-> a < b.
Proof. intros a b. unfold k_lt, nn_zcmp. destruct (Z.compare_spec a b); split; intros; try lia; try discriminate; reflexivity. Qed.
Lemma zklt_false : forall a b, k_lt Z nn_zcmp a b = false <-> b <= a.
Proof. intros a b. unfold k_lt, nn_zcmp. destruct (Z.compare_spec a b); split; intros; try lia; try discriminate; reflexivity. Qed.
Lemma zkeq_true : forall a b, k_eq Z nn_zcmp a b = true <-> a = b.
Proof. intros a b. unfold k_eq, nn_zcmp. destruct (Z.compare_spec a b); split; intros; try lia; try discriminate; reflexivity. Qed.
Lemma zkeq_false : forall a b, k_eq Z nn_zcmp a b = false <-> a <> b.
Proof. intros a b. unfold k_eq, nn_zcmp. destruct (Z.compare_spec a b); split; intros; try lia; try discriminate; reflexivity. Qed.

Definition all_lt (A : zmap) (k : Z) : Prop := forall a, In a A -> fst a < k.
Definition all_gt (B : zmap) (k : Z) : Prop := forall b, In b B -> k < fst b.

Lemma c18_filter_all {X} (p : X -> bool) l : (forall x, In x l -> p x = true) -> filter p l = l.
Proof. intros H. apply filter_all. rewrite Forall_forall. exact H. Qed.
Lemma c18_filter_none {X} (p : X -> bool) l : (forall x, In x l -> p x = false) -> filter p l = [].
Proof. intros H. apply filter_none. rewrite Forall_forall. exact H. Qed.

Lemma zsorted_mid : forall A e B, zsorted (A ++ e :: B) ->
  all_lt A (fst e) /\ all_gt B (fst e) /\ zsorted A /\ zsorted B.
Proof.
  intros A e B H. apply zsorted_app in H. destruct H as (HA & HeB & Hx).
  apply zsorted_cons in HeB. destruct HeB as [HB Hgt]. repeat split; try assumption.
  intros a Ha. apply Hx; [exact Ha|left; reflexivity].
Qed.
Lemma zsorted_mid_cross : forall A e B, zsorted (A ++ e :: B) ->
  forall a b, In a A -> In b B -> fst a < fst b.
Proof.
  intros A e B H a b Ha Hb. apply zsorted_app in H. destruct H as (_ & _ & Hx).
  apply Hx; [exact Ha|right; exact Hb].
Qed.
Lemma zsorted_drop_mid : forall A e B, zsorted (A ++ e :: B) -> zsorted (A ++ B).
Proof.
  intros A e B H. pose proof (zsorted_mid_cross _ _ _ H) as Hx.
  destruct (zsorted_mid _ _ _ H) as (_ & _ & HA & HB). apply zsorted_app. repeat split; assumption.
Qed.
Lemma zsorted_insert_mid : forall A k v B, zsorted (A ++ B) -> all_lt A k -> all_gt B k ->
  zsorted (A ++ (k, v) :: B).
Proof.
  intros A k v B H HA HB. apply zsorted_app in H. destruct H as (H1 & H2 & H3).
  apply zsorted_app. repeat split; [exact H1| |].
  - apply zsorted_cons. split; [exact H2|]. intros b Hb. simpl. apply HB. exact Hb.
  - intros a b Ha [<-|Hb]; [simpl; apply HA; exact Ha|apply H3; assumption].
Qed.

(* the three parts of a map around a key that is absent *)
Lemma sm_parts_absent : forall A B k, all_lt A k -> all_gt B k ->
  sm_below Z nn_zcmp k (A ++ B) = A /\ sm_above Z nn_zcmp k (A ++ B) = B /\ sm_at Z nn_zcmp k (A ++ B) = None.
Proof.
  intros A B k HA HB. unfold sm_below, sm_above, sm_at. rewrite !filter_app.
  rewrite (c18_filter_all _ A) by (intros a Ha; apply zklt_true; apply HA; exact Ha).
  rewrite (c18_filter_none (fun e => k_lt Z nn_zcmp (fst e) k) B)
    by (intros b Hb; apply zklt_false; specialize (HB b Hb); lia).
  rewrite (c18_filter_none (fun e => k_lt Z nn_zcmp k (fst e)) A)
    by (intros a Ha; apply zklt_false; specialize (HA a Ha); lia).
  rewrite (c18_filter_all _ B) by (intros b Hb; apply zklt_true; apply HB; exact Hb).
  rewrite (c18_filter_none _ A) by (intros a Ha; apply zkeq_false; specialize (HA a Ha); lia).
  rewrite (c18_filter_none _ B) by (intros b Hb; apply zkeq_false; specialize (HB b Hb); lia).
  rewrite app_nil_r. repeat split; reflexivity.
Qed.
(* ... and around a key that is present *)
Lemma sm_parts_present : forall A e B, all_lt A (fst e) -> all_gt B (fst e) ->
  sm_below Z nn_zcmp (fst e) (A ++ e :: B) = A /\ sm_above Z nn_zcmp (fst e) (A ++ e :: B) = B /\
  sm_at Z nn_zcmp (fst e) (A ++ e :: B) = Some e.
Proof.
  intros A e B HA HB. unfold sm_below, sm_above, sm_at. rewrite !filter_app. cbn [filter].
  assert (E1 : k_lt Z nn_zcmp (fst e) (fst e) = false) by (apply zklt_false; lia).
  assert (E2 : k_eq Z nn_zcmp (fst e) (fst e) = true) by (apply zkeq_true; reflexivity).
  rewrite E1, E2.
  rewrite (c18_filter_all _ A) by (intros a Ha; apply zklt_true; apply HA; exact Ha).
  rewrite (c18_filter_none (fun x => k_lt Z nn_zcmp (fst x) (fst e)) B)
    by (intros b Hb; apply zklt_false; specialize (HB b Hb); lia).
  rewrite (c18_filter_none (fun x => k_lt Z nn_zcmp (fst e) (fst x)) A)
    by (intros a Ha; apply zklt_false; specialize (HA a Ha); lia).
  rewrite (c18_filter_all _ B) by (intros b Hb; apply zklt_true; apply HB; exact Hb).
  rewrite (c18_filter_none _ A) by (intros a Ha; apply zkeq_false; specialize (HA a Ha); lia).
  rewrite app_nil_r. repeat split; reflexivity.
Qed.

Section AtEntry.
  Variables (A : zmap) (e : Z * Z) (B : zmap).
  Hypothesis Hs : zsorted (A ++ e :: B).
  Let HA : all_lt A (fst e) := proj1 (zsorted_mid A e B Hs).
  Let HB : all_gt B (fst e) := proj1 (proj2 (zsorted_mid A e B Hs)).

  Lemma sm_at_mid : sm_at Z nn_zcmp (fst e) (A ++ e :: B) = Some e.
  Proof. apply sm_parts_present; assumption. Qed.
  Lemma sm_succ_mid : sm_succ Z nn_zcmp (fst e) (A ++ e :: B) = hd_error B.
  Proof. unfold sm_succ, sm_first. destruct (sm_parts_present A e B HA HB) as (_ & -> & _). reflexivity. Qed.
  Lemma sm_pred_mid : sm_pred Z nn_zcmp (fst e) (A ++ e :: B) = hd_error (rev A).
  Proof.
    unfold sm_pred, sm_last. destruct (sm_parts_present A e B HA HB) as (-> & _ & _). rewrite rev'_rev. reflexivity.
  Qed.
  Lemma sm_remove_mid : sm_remove Z nn_zcmp (fst e) (A ++ e :: B) = A ++ B.
  Proof. unfold sm_remove. destruct (sm_parts_present A e B HA HB) as (-> & -> & _). reflexivity. Qed.
  Lemma sm_insert_mid_same : forall v, sm_insert Z nn_zcmp (fst e) v (A ++ e :: B) = A ++ (fst e, v) :: B.
  Proof. intros v. unfold sm_insert. destruct (sm_parts_present A e B HA HB) as (-> & -> & _). reflexivity. Qed.

  (* a key between this entry and the next *)
  Lemma sm_insert_after_mid : forall k v, fst e < k -> all_gt B k ->
    sm_insert Z nn_zcmp k v (A ++ e :: B) = (A ++ [e]) ++ (k, v) :: B.
  Proof.
    intros k v Hk HBk. unfold sm_insert.
    assert (HAk : all_lt (A ++ [e]) k).
    { intros a Ha. apply in_app_or in Ha. destruct Ha as [Ha|[<-|[]]]; [specialize (HA a Ha); lia|exact Hk]. }
    replace (A ++ e :: B) with ((A ++ [e]) ++ B) by (rewrite <- app_assoc; reflexivity).
    destruct (sm_parts_absent (A ++ [e]) B k HAk HBk) as (-> & -> & _). reflexivity.
  Qed.
  Lemma sm_floor_mid : forall k, fst e <= k -> all_gt B k -> sm_floor Z nn_zcmp k (A ++ e :: B) = Some e.
  Proof.
    intros k Hk HBk. unfold sm_floor. destruct (Z.eq_dec (fst e) k) as [<-|Hne].
    - rewrite sm_at_mid. reflexivity.
    - assert (HAk : all_lt (A ++ [e]) k).
      { intros a Ha. apply in_app_or in Ha. destruct Ha as [Ha|[<-|[]]]; [specialize (HA a Ha); lia|lia]. }
      replace (A ++ e :: B) with ((A ++ [e]) ++ B) by (rewrite <- app_assoc; reflexivity).
      unfold sm_pred, sm_last.
      destruct (sm_parts_absent (A ++ [e]) B k HAk HBk) as (-> & _ & ->).
      rewrite rev'_rev, rev_app_distr. reflexivity.
  Qed.
  Lemma sm_at_mid_other : forall k, fst e < k -> all_gt B k -> sm_at Z nn_zcmp k (A ++ e :: B) = None.
  Proof.
    intros k Hk HBk.
    assert (HAk : all_lt (A ++ [e]) k).
    { intros a Ha. apply in_app_or in Ha. destruct Ha as [Ha|[<-|[]]]; [specialize (HA a Ha); lia|lia]. }
    replace (A ++ e :: B) with ((A ++ [e]) ++ B) by (rewrite <- app_assoc; reflexivity).
    apply (sm_parts_absent (A ++ [e]) B k HAk HBk).
  Qed.
  Lemma sm_remove_mid_other : forall k, fst e < k -> all_gt B k ->
    sm_remove Z nn_zcmp k (A ++ e :: B) = A ++ e :: B.
  Proof.
    intros k Hk HBk. unfold sm_remove.
    assert (HAk : all_lt (A ++ [e]) k).
    { intros a Ha. apply in_app_or in Ha. destruct Ha as [Ha|[<-|[]]]; [specialize (HA a Ha); lia|lia]. }
    replace (A ++ e :: B) with ((A ++ [e]) ++ B) by (rewrite <- app_assoc; reflexivity).
    destruct (sm_parts_absent (A ++ [e]) B k HAk HBk) as (-> & -> & _). reflexivity.
  Qed.
End AtEntry.

(* a key below every entry *)
Lemma sm_before_all : forall B k, all_gt B k ->
  sm_at Z nn_zcmp k B = None /\ sm_floor Z nn_zcmp k B = None /\
  (forall v, sm_insert Z nn_zcmp k v B = (k, v) :: B) /\ sm_remove Z nn_zcmp k B = B.
Proof.
  intros B k HB. assert (HA : all_lt [] k) by (intros ? []).
  destruct (sm_parts_absent [] B k HA HB) as (H1 & H2 & H3). simpl in *.
  unfold sm_floor, sm_pred, sm_insert, sm_remove. rewrite H1, H2, H3. repeat split; reflexivity.
Qed.

(* the floor decomposition of a sorted map *)
Lemma floor_split : forall m k, zsorted m ->
  all_gt m k \/ exists A e B, m = A ++ e :: B /\ fst e <= k /\ all_gt B k.
Proof.
  induction m as [|x m IH]; intros k Hs.
  - left. intros ? [].
  - apply zsorted_cons in Hs. destruct Hs as [Hs Hx].
    destruct (Z_lt_le_dec k (fst x)) as [Hlt|Hle].
    + left. intros b [<-|Hb]; [exact Hlt|]. specialize (Hx b Hb). lia.
    + right. destruct (IH k Hs) as [Hall|(A & e & B & -> & He & HB)].
      * exists [], x, m. repeat split; assumption.
      * exists (x :: A), e, B. repeat split; assumption.
Qed.

Lemma sm_first_cons : forall e (m : zmap), sm_first Z (e :: m) = Some e.
Proof. reflexivity. Qed.
Lemma sm_last_snoc : forall (m : zmap) e, sm_last Z (m ++ [e]) = Some e.
Proof. intros. unfold sm_last. rewrite rev'_rev, rev_app_distr. reflexivity. Qed.
