(* C03, object layer: the parser model (Obj/ParseModel.v) against the object-syntax specification
   (Obj/SynSpec.v). *)
From QV Require Import Base.Bytes Lex.TokModel Lex.LexSpec Lex.TokInterp Lex.LexRun Lex.LexProofs Obj.SynSpec Obj.ParseModel.
Local Open Scope N_scope.

(* reading of a model object as a specification object: integers by value, reals by mantissa/scale of
   the stored spelling, names without the leading '/' *)
Fixpoint mo_abs (o : mobj) : option sobj :=
  match o with
  | MoNull => Some SyNull
  | MoBool b => Some (SyBool b)
  | MoInt z => Some (SyInt z)
  | MoReal t => let '(m, k) := real_of_text t in Some (SyReal m k)
  | MoStr s => Some (SyStr s)
  | MoName n => match n with c :: r => if c =? 47 then Some (SyName r) else None | [] => None end
  | MoArr l =>
      match (fix go (l : list mobj) : option (list sobj) :=
               match l with
               | [] => Some []
               | x :: r => match mo_abs x, go r with Some a, Some b => Some (a :: b) | _, _ => None end
               end) l with
      | Some l' => Some (SyArr l')
      | None => None
      end
  | MoDict d =>
      match (fix go (d : list (list N * mobj)) : option (list (list N * sobj)) :=
               match d with
               | [] => Some []
               | (k, x) :: r =>
                   match k, mo_abs x, go r with
                   | c :: k', Some a, Some b => if c =? 47 then Some ((k', a) :: b) else None
                   | _, _, _ => None
                   end
               end) d with
      | Some d' => Some (SyDict d')
      | None => None
      end
  | MoRef i g => Some (SyRef i g)
  | MoOp _ => None
  end.

(* the object spelled by a single token *)
Definition scalar_of (tok : ptoken) : option sobj :=
  match tok with
  | PInt z => if ((-9223372036854775808 <=? z) && (z <=? 9223372036854775807))%Z then Some (SyInt z) else None
  | PReal m k => Some (SyReal m k)
  | PStr s => Some (SyStr s)
  | PName n => Some (SyName n)
  | PBool b => Some (SyBool b)
  | PNull => Some SyNull
  | _ => None
  end.

Lemma interp_err_none tok p : tok_interp tok = Some p -> tok_err tok = TE_none.
Proof. unfold tok_interp. destruct (tok_err tok); cbn; try discriminate. reflexivity. Qed.

Lemma tk_token_err t : tok_err (tk_token t) = t_err t.
Proof. unfold tk_token. destruct (t_type t); reflexivity. Qed.
Lemma tk_token_type t : tok_type (tk_token t) = t_type t.
Proof. unfold tk_token. destruct (t_type t); reflexivity. Qed.

Lemma text_to_ll_int s z : int_of_text s = z ->
  ((-9223372036854775808 <=? z) && (z <=? 9223372036854775807))%Z = true -> text_to_ll s = Some z.
Proof.
  unfold int_of_text, text_to_ll, text_sign. intros H R.
  destruct s as [|b r].
  - cbn in *. subst z. reflexivity.
  - destruct (b =? 45); [rewrite H, R; reflexivity|]. destruct (b =? 43); rewrite H, R; reflexivity.
Qed.

(* parse_complete for single-token objects: every legal spelling of an integer (within long long), real,
   string, name, boolean or null, preceded by any white space and comments, is read by Parser::parse as that
   object, without a warning, leaving exactly what the specification lexer leaves.

   Arrays and dictionaries (with "n g R") are parse_complete_container in Obj/ParseSim.v. *)
Lemma parse_complete_scalar_lemma : forall inp tok rest o t pos,
  bytes_ok inp -> t_incl_ign t = false -> t_state t <> TS_inline_image ->
  spec_next inp = LexTok tok rest -> ~ In 11 (head_run inp) -> scalar_of tok = Some o ->
  exists o', pr_obj (parse_object false false t inp pos) = Some o' /\ mo_abs o' = Some o /\
             pr_warn (parse_object false false t inp pos) = [] /\ pr_rest (parse_object false false t inp pos) = rest.
Proof.
  intros inp tok rest o t pos Hb Hii Hst Hs Hvt Hsc.
  destruct (next_token_complete_lemma inp tok rest t pos Hb Hii Hst Hs Hvt) as (t1 & np & last & Hn & Hi).
  unfold parse_object. rewrite Hn.
  pose proof (interp_err_none _ _ Hi) as He. rewrite tk_token_err in He.
  unfold tok_warn. rewrite He.
  unfold tok_interp in Hi. rewrite tk_token_err, He in Hi. cbn [terr_is_none negb] in Hi.
  destruct (tok_type (tk_token t1)) eqn:Ety; try discriminate; try (injection Hi as <-; discriminate Hsc).
  - (* integer *) injection Hi as <-. cbn [scalar_of] in Hsc.
    destruct ((-9223372036854775808 <=? int_of_text (tok_value (tk_token t1)))%Z &&
              (int_of_text (tok_value (tk_token t1)) <=? 9223372036854775807)%Z) eqn:R; [|discriminate].
    injection Hsc as <-. rewrite (text_to_ll_int _ _ eq_refl R). cbn. eexists. repeat split.
  - (* name *) destruct (tok_value (tk_token t1)) as [|c n] eqn:Ev; [discriminate|].
    destruct (c =? 47) eqn:Ec; [|discriminate]. injection Hi as <-. injection Hsc as <-.
    cbn. eexists. split; [reflexivity|]. rewrite ?Ev. cbn [mo_abs]. rewrite ?Ev, Ec. repeat split.
  - (* real *) destruct (real_of_text (tok_value (tk_token t1))) as [m k] eqn:Er. injection Hi as <-. injection Hsc as <-.
    cbn. eexists. split; [reflexivity|]. cbn [mo_abs]. rewrite Er. repeat split.
  - (* string *) injection Hi as <-. injection Hsc as <-. cbn. eexists. repeat split.
  - (* null *) injection Hi as <-. injection Hsc as <-. cbn. eexists. repeat split.
  - (* bool *) injection Hi as <-. injection Hsc as <-. cbn. eexists. repeat split.
Qed.
