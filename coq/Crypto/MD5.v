(* MD5 as RFC 1321 defines it, over N words (32-bit values kept below 2^32 by masking).
   Used both by the model of qpdf's key derivation and by the ISO reference reader; it is tied to
   the code by the correspondence with the MD5 class of libqpdf.a under every crypto provider. *)
From QV Require Import Base.Bytes.
Local Open Scope N_scope.

Definition m32 : N := 4294967295.
Definition add32 (x y : N) : N := N.land (x + y) m32.
Definition rotl32 (x s : N) : N := N.land (N.lor (N.shiftl x s) (N.shiftr x (32 - s))) m32.
Definition not32 (x : N) : N := N.lxor x m32.

Definition le32_of (b0 b1 b2 b3 : N) : N :=
  N.lor b0 (N.lor (N.shiftl b1 8) (N.lor (N.shiftl b2 16) (N.shiftl b3 24))).
Fixpoint words_le32 (l : list N) : list N :=
  match l with
  | b0 :: b1 :: b2 :: b3 :: t => le32_of b0 b1 b2 b3 :: words_le32 t
  | _ => []
  end.
Definition bytes_le32 (w : N) : list N :=
  [N.land w 255; N.land (N.shiftr w 8) 255; N.land (N.shiftr w 16) 255; N.land (N.shiftr w 24) 255].
Definition bytes_le64 (w : N) : list N :=
  bytes_le32 (N.land w m32) ++ bytes_le32 (N.land (N.shiftr w 32) m32).

(* (round, K[i] = floor(2^32 * abs(sin(i+1))), shift, message word index) for the 64 steps *)
Definition md5_table : list (N * N * N * N) :=
[
  (0,3614090360,7,0); (0,3905402710,12,1);
  (0,606105819,17,2); (0,3250441966,22,3);
  (0,4118548399,7,4); (0,1200080426,12,5);
  (0,2821735955,17,6); (0,4249261313,22,7);
  (0,1770035416,7,8); (0,2336552879,12,9);
  (0,4294925233,17,10); (0,2304563134,22,11);
  (0,1804603682,7,12); (0,4254626195,12,13);
  (0,2792965006,17,14); (0,1236535329,22,15);
  (1,4129170786,5,1); (1,3225465664,9,6);
  (1,643717713,14,11); (1,3921069994,20,0);
  (1,3593408605,5,5); (1,38016083,9,10);
  (1,3634488961,14,15); (1,3889429448,20,4);
  (1,568446438,5,9); (1,3275163606,9,14);
  (1,4107603335,14,3); (1,1163531501,20,8);
  (1,2850285829,5,13); (1,4243563512,9,2);
  (1,1735328473,14,7); (1,2368359562,20,12);
  (2,4294588738,4,5); (2,2272392833,11,8);
  (2,1839030562,16,11); (2,4259657740,23,14);
  (2,2763975236,4,1); (2,1272893353,11,4);
  (2,4139469664,16,7); (2,3200236656,23,10);
  (2,681279174,4,13); (2,3936430074,11,0);
  (2,3572445317,16,3); (2,76029189,23,6);
  (2,3654602809,4,9); (2,3873151461,11,12);
  (2,530742520,16,15); (2,3299628645,23,2);
  (3,4096336452,6,0); (3,1126891415,10,7);
  (3,2878612391,15,14); (3,4237533241,21,5);
  (3,1700485571,6,12); (3,2399980690,10,3);
  (3,4293915773,15,10); (3,2240044497,21,1);
  (3,1873313359,6,8); (3,4264355552,10,15);
  (3,2734768916,15,6); (3,1309151649,21,13);
  (3,4149444226,6,4); (3,3174756917,10,11);
  (3,718787259,15,2); (3,3951481745,21,9)].

Definition md5_step (M : list N) (st : N * N * N * N) (e : N * N * N * N) : N * N * N * N :=
  let '(a, b, c, d) := st in
  let '(r, k, s, g) := e in
  let f := match r with
           | 0 => N.lor (N.land b c) (N.land (not32 b) d)
           | 1 => N.lor (N.land d b) (N.land (not32 d) c)
           | 2 => N.lxor b (N.lxor c d)
           | _ => N.lxor c (N.lor b (not32 d))
           end in
  let f' := add32 (add32 (add32 f a) k) (nth (N.to_nat g) M 0) in
  (d, add32 b (rotl32 f' s), b, c).

Definition md5_block (st : N * N * N * N) (M : list N) : N * N * N * N :=
  let '(a, b, c, d) := st in
  let '(a', b', c', d') := fold_left (md5_step M) md5_table st in
  (add32 a a', add32 b b', add32 c c', add32 d d').

Definition md5_pad (msg : list N) : list N :=
  let len := N.of_nat (length msg) in
  msg ++ 128 :: repeat 0 (N.to_nat ((119 - len mod 64) mod 64)) ++ bytes_le64 (N.land (8 * len) 18446744073709551615).

Fixpoint md5_blocks (fuel : nat) (l : list N) (st : N * N * N * N) : N * N * N * N :=
  match fuel with
  | O => st
  | S f => match l with
           | [] => st
           | _ => md5_blocks f (skipn 64 l) (md5_block st (words_le32 (firstn 64 l)))
           end
  end.

Definition md5_init : N * N * N * N := (1732584193, 4023233417, 2562383102, 271733878).

Definition md5 (msg : list N) : list N :=
  let p := md5_pad msg in
  let '(a, b, c, d) := md5_blocks (S (length p / 64)) p md5_init in
  bytes_le32 a ++ bytes_le32 b ++ bytes_le32 c ++ bytes_le32 d.

(* RFC 1321 A.5 test suite *)
Example md5_empty : md5 [] = [212;29;140;217;143;0;178;4;233;128;9;152;236;248;66;126].
Proof. vm_compute. reflexivity. Qed.
Example md5_a : md5 [97] = [12;193;117;185;192;241;182;168;49;195;153;226;105;119;38;97].
Proof. vm_compute. reflexivity. Qed.
Example md5_abc : md5 [97;98;99] = [144;1;80;152;60;210;79;176;214;150;63;125;40;225;127;114].
Proof. vm_compute. reflexivity. Qed.
(* "12345678901234567890123456789012345678901234567890123456789012345678901234567890" (two blocks) *)
Example md5_80digits :
  md5 (concat (repeat [49;50;51;52;53;54;55;56;57;48] 8)) =
  [87;237;244;162;43;227;201;85;172;73;218;46;33;7;182;122].
Proof. vm_compute. reflexivity. Qed.
