(* C16 extension (ci_): idempotence of content normalisation.
   Model: Struct/ContentNorm.v (Pl_QPDFTokenizer::finish + ContentNormalizer::handleToken).  Normal form: Struct/ContentNF.v.
     ci_normalize_normal_form        normalisation of any cleanly readable stream is in normal form
     ci_normal_form_fixpoint         normalisation is the identity on normal forms
     ci_normalize_idempotent         normalize (normalize c) = normalize c for every cleanly readable stream without
                                     inline images; with inline images under the executable side condition that
                                     findEI picks the specified end of data in the normalised stream too
   The simulation follows Struct/C16ProofsF.v (ign_loop, norm_main), strengthened by what is written. *)
From QV Require Import Base.Bytes Lex.TokModel Lex.LexSpec Lex.TokInterp Lex.LexRun Lex.LexProofs Obj.Unparse Obj.UnparseProofs Struct.ContentNorm Struct.ContentSem Struct.ContentRel Struct.C16ProofsA Struct.C16ProofsB Struct.C16ProofsC Struct.C16ProofsD Struct.C16ProofsE Struct.C16ProofsF Struct.C16Proofs Struct.ContentNF.
Local Open Scope N_scope.

Local Arguments N.eqb : simpl never.
Local Arguments N.leb : simpl never.
Local Arguments N.ltb : simpl never.
Local Arguments rev' : simpl never.
Local Arguments list_eqb : simpl never.
Local Arguments run : simpl never.
Local Arguments span_while : simpl never.
Local Arguments string_unparse : simpl never.
Local Arguments name_normalize : simpl never.
Local Arguments c16_find_ei : simpl never.

(* ---------------------------------------------------------------- the tt_space branch *)
Lemma ci_space_norm_no_cr : forall l, ~ In 13 (c16_space_norm l).
Proof.
  induction l as [|b r IH]; [intros []|]. cbn [c16_space_norm]. destruct (b =? 13) eqn:E.
  - destruct r as [|c r']; [intros [X|[]]; discriminate|]. destruct (c =? 10); [exact IH|].
    intros [X|X]; [discriminate|exact (IH X)].
  - intros [X|X]; [subst b; discriminate|exact (IH X)].
Qed.

Lemma ci_space_norm_id : forall l, ~ In 13 l -> c16_space_norm l = l.
Proof.
  induction l as [|b r IH]; intros H; [reflexivity|]. cbn [c16_space_norm]. destruct (b =? 13) eqn:E.
  - exfalso. apply H. left. apply N.eqb_eq in E. auto.
  - f_equal. apply IH. intros X. apply H. right. exact X.
Qed.

Lemma ci_space_norm_in : forall l x, In x (c16_space_norm l) -> In x l \/ x = 10.
Proof.
  induction l as [|b r IH]; intros x H; [destruct H|]. cbn [c16_space_norm] in H. destruct (b =? 13) eqn:E.
  - destruct r as [|c r']; [destruct H as [H|[]]; right; auto|]. destruct (c =? 10).
    + destruct (IH x H) as [Y|Y]; [left; right; exact Y|right; exact Y].
    + destruct H as [H|H]; [right; auto|]. destruct (IH x H) as [Y|Y]; [left; right; exact Y|right; exact Y].
  - destruct H as [H|H]; [left; left; exact H|]. destruct (IH x H) as [Y|Y]; [left; right; exact Y|right; exact Y].
Qed.

(* ---------------------------------------------------------------- white space and comments in front of a token:
   ign_loop of C16ProofsF.v with three more facts about what is written for them *)
Lemma ci_ign_loop : forall n c, (length c <= n)%nat -> bytes_ok c -> ~ In 11 c ->
  forall t, tinv t ->
  exists pre toks_pre t',
    c = pre ++ skip_ignorable false c /\ tinv t' /\
    (length toks_pre <= length pre)%nat /\
    Forall tok_plain toks_pre /\
    (forall toksK, loop_rel t' (skip_ignorable false c) toksK -> loop_rel t c (toks_pre ++ toksK)) /\
    (forall Y, head_cond (skip_ignorable false c) Y -> skip_ignorable false (concat (map c16_emit toks_pre) ++ Y) = Y) /\
    (forall e r, c = e :: r -> iso_eol e = true -> exists E2, concat (map c16_emit toks_pre) = 10 :: E2) /\
    (pre <> [] -> exists e E2, concat (map c16_emit toks_pre) = e :: E2 /\ iso_regular e = false) /\
    ~ In 13 (concat (map c16_emit toks_pre)) /\
    (~ In 13 pre -> concat (map c16_emit toks_pre) = pre) /\
    (forall x, In x (concat (map c16_emit toks_pre)) -> In x pre \/ x = 10).
Proof.
  induction n as [|n IH]; intros c Hl Hb Hvt t Ht.
  { destruct c; [|cbn in Hl; lia]. exists [], [], t. cbn [skip_ignorable app length map concat].
    split; [reflexivity|]. split; [exact Ht|]. split; [lia|]. split; [constructor|]. split; [intros toksK HK; exact HK|].
    split; [intros Y HY; cbn in HY; rewrite HY; reflexivity|]. split; [intros e r H; discriminate|]. split; [intros H; contradiction|]. split; [intros []|]. split; [reflexivity|intros x []]. }
  destruct c as [|b r].
  { exists [], [], t. cbn [skip_ignorable app length map concat].
    split; [reflexivity|]. split; [exact Ht|]. split; [lia|]. split; [constructor|]. split; [intros toksK HK; exact HK|].
    split; [intros Y HY; cbn in HY; rewrite HY; reflexivity|]. split; [intros e r H; discriminate|]. split; [intros H; contradiction|]. split; [intros []|]. split; [reflexivity|intros x []]. }
  cbn [length] in Hl.
  destruct Ht as (Hii & Hae & Hst). pose proof (reset_ii t Hii Hae) as Hreset.
  assert (Hb0 : b < 256) by (inversion Hb; assumption).
  destruct (iso_white b) eqn:Ew.
  - (* a run of white space *)
    destruct (span_while iso_white (b :: r)) as [ws c'] eqn:Esp.
    destruct (span_while_spec _ _ _ _ Esp) as (Hc & Hws & Hhd).
    assert (Hne : exists ws', ws = b :: ws').
    { unfold span_while in Esp. fold (span_while iso_white r) in Esp. rewrite Ew in Esp.
      destruct (span_while iso_white r). injection Esp as <- _. eauto. }
    destruct Hne as (ws' & ->).
    assert (Hbc : bytes_ok c') by (rewrite Hc in Hb; apply bytes_ok_app in Hb; tauto).
    assert (Hvc : ~ In 11 c') by (rewrite Hc in Hvt; eapply not_in_suffix; exact Hvt).
    assert (Hsp : forallb tk_is_space (b :: ws') = true).
    { apply forallb_forall. intros x Hx. rewrite forallb_forall in Hws. destruct (white_props x (Hws x Hx)) as (W & _). exact W. }
    assert (Hstop : stops_space c').
    { destruct c' as [|x c'']; [exact I|]. cbn. rewrite space_agree; [exact Hhd| |].
      - inversion Hbc; assumption.
      - intros ->. apply Hvc. left. reflexivity. }
    cbn [forallb] in Hsp. apply andb_true_iff in Hsp. destruct Hsp as [Hsp1 Hsp2].
    destruct (space_token_run b ws' c' (t_code t) (t_hexch t) (t_digits t) Hsp1 Hsp2 Hstop) as (t1 & Hr1 & Hty & Hraw).
    cbn [app] in Hc. rewrite <- Hc, <- Hreset in Hr1.
    destruct (token_of_simple t1 TT_space (b :: ws') Hty Hraw I) as (T1 & T2).
    assert (Hplain : tok_plain (tk_token t1)).
    { unfold tok_plain, tok_is_bad, c16_is_word_ID. rewrite T1. auto. }
    assert (Ht1 : tinv (tk_reset t1)) by (eapply tinv_reset; [split; [exact Hii|split; [exact Hae|exact Hst]]|exact Hr1]).
    assert (Hlen : (length c' <= n)%nat).
    { assert (length (b :: r) = length ((b :: ws') ++ c')) by (rewrite Hc; reflexivity). rewrite app_length in H. cbn [length] in H. lia. }
    destruct (IH c' Hlen Hbc Hvc (tk_reset t1) Ht1) as (pre & tp & t' & Hpre & Ht' & Hlp & Hpl & Hk & HY & Heol & Hnr & X1 & X2 & X3).
    assert (Hskip : skip_ignorable false (b :: r) = skip_ignorable false c').
    { rewrite Hc. change (b :: ws' ++ c') with ((b :: ws') ++ c'). apply skip_white_run, Hws. }
    exists ((b :: ws') ++ pre), (tk_token t1 :: tp), t'. rewrite Hskip.
    assert (Hemit : c16_emit (tk_token t1) = c16_space_norm (b :: ws')) by (unfold c16_emit; rewrite T1, T2; reflexivity).
    split; [rewrite <- app_assoc, <- Hpre; exact Hc|]. split; [exact Ht'|].
    split; [rewrite app_length; cbn [length]; lia|]. split; [constructor; assumption|].
    split.
    { intros toksK HK. cbn [app]. eapply loop_step; [split; [exact Hii|split; [exact Hae|exact Hst]]|exact Hr1|exact Hplain|apply Hk, HK]. }
    cbn [map concat]. rewrite Hemit.
    split.
    { intros Y HYc. rewrite <- app_assoc. rewrite skip_white_run; [apply HY, HYc|].
      apply (space_norm_white (length (b :: ws'))); [lia|exact Hws]. }
    split.
    { intros e r0 He Heol'. injection He as <- <-.
      destruct (space_norm_head b ws' Ew) as (e & E2 & Hs & _ & He10). rewrite Hs, (He10 Heol'). eexists. reflexivity. }
    split.
    { intros _. destruct (space_norm_head b ws' Ew) as (e & E2 & Hs & Hwe & _). rewrite Hs. exists e. eexists. split; [reflexivity|].
      apply white_not_regular, Hwe. }
    split.
    { intros X. apply in_app_or in X. destruct X as [X|X]; [exact (ci_space_norm_no_cr _ X)|exact (X1 X)]. }
    split.
    { intros X. rewrite ci_space_norm_id by (eapply not_in_prefix; exact X). rewrite X2 by (eapply not_in_suffix; exact X). reflexivity. }
    { intros x X. apply in_app_or in X. destruct X as [X|X].
      - destruct (ci_space_norm_in _ _ X) as [Y|Y]; [left; apply in_or_app; left; exact Y|right; exact Y].
      - destruct (X3 x X) as [Y|Y]; [left; apply in_or_app; right; exact Y|right; exact Y]. }
  - destruct (b =? 37) eqn:E37.
    + (* a comment *)
      apply N.eqb_eq in E37. subst b.
      destruct (span_while (fun b => negb (iso_eol b)) r) as [body c'] eqn:Esp.
      destruct (span_while_spec _ _ _ _ Esp) as (Hc & Hbody & Hhd).
      assert (Hbc : bytes_ok c').
      { inversion Hb as [|? ? _ Hb2]; subst. apply bytes_ok_app in Hb2. tauto. }
      assert (Hvc : ~ In 11 c').
      { intros X. apply Hvt. right. rewrite Hc. apply in_or_app. right. exact X. }
      assert (Hstop : stops_comment c').
      { destruct c' as [|x c'']; [exact I|]. cbn. cbv beta in Hhd. apply negb_false_iff in Hhd. exact Hhd. }
      destruct (comment_token_run body c' (t_code t) (t_hexch t) (t_digits t) Hbody Hstop) as (t1 & Hr1 & Hty & Hraw).
      rewrite <- Hc, <- Hreset in Hr1.
      destruct (token_of_simple t1 TT_comment (37 :: body) Hty Hraw I) as (T1 & T2).
      assert (Hplain : tok_plain (tk_token t1)).
      { unfold tok_plain, tok_is_bad, c16_is_word_ID. rewrite T1. auto. }
      assert (Ht1 : tinv (tk_reset t1)) by (eapply tinv_reset; [split; [exact Hii|split; [exact Hae|exact Hst]]|exact Hr1]).
      assert (Hlen : (length c' <= n)%nat).
      { assert (length r = length (body ++ c')) by (rewrite Hc; reflexivity). rewrite app_length in H. lia. }
      destruct (IH c' Hlen Hbc Hvc (tk_reset t1) Ht1) as (pre & tp & t' & Hpre & Ht' & Hlp & Hpl & Hk & HY & Heol & Hnr & X1 & X2 & X3).
      assert (Hskip : skip_ignorable false (37 :: r) = skip_ignorable false c').
      { cbn [skip_ignorable]. change (iso_white 37) with false. change (37 =? 37) with true. cbv iota.
        rewrite Hc, skip_comment_body by exact Hbody.
        destruct c' as [|e c'']; [reflexivity|]. cbn in Hstop. cbn [skip_ignorable]. rewrite Hstop, (eol_white _ Hstop). reflexivity. }
      exists ((37 :: body) ++ pre), (tk_token t1 :: tp), t'. rewrite Hskip.
      assert (Hemit : c16_emit (tk_token t1) = 37 :: body) by (unfold c16_emit; rewrite T1, T2; reflexivity).
      split; [rewrite <- app_assoc, <- Hpre; cbn [app]; rewrite Hc; reflexivity|]. split; [exact Ht'|].
      split; [rewrite app_length; cbn [length]; lia|]. split; [constructor; assumption|].
      split.
      { intros toksK HK. cbn [app]. eapply loop_step; [split; [exact Hii|split; [exact Hae|exact Hst]]|exact Hr1|exact Hplain|apply Hk, HK]. }
      cbn [map concat]. rewrite Hemit.
      split.
      { intros Y HYc. cbn [app skip_ignorable]. change (iso_white 37) with false. change (37 =? 37) with true. cbv iota.
        rewrite <- app_assoc, skip_comment_body by exact Hbody.
        destruct c' as [|e c''].
        - (* the comment runs to the end of the input *)
          destruct pre as [|x pre']; [|destruct (skip_ignorable false []); discriminate].
          destruct tp as [|x tp']; [|cbn in Hlp; lia]. cbn [map concat app]. cbn in HYc. rewrite HYc. reflexivity.
        - cbn in Hstop. destruct (Heol e c'' eq_refl Hstop) as (E2 & HE2). rewrite HE2. cbn [app skip_ignorable].
          change (iso_eol 10) with true. cbn [negb].
          specialize (HY Y HYc). rewrite HE2 in HY. cbn [app skip_ignorable] in HY. change (iso_white 10) with true in HY. exact HY. }
      split.
      { intros e r0 He Heol'. injection He as <- _. discriminate. }
      split.
      { intros _. exists 37. eexists. split; [reflexivity|]. reflexivity. }
      assert (Hb13 : ~ In 13 (37 :: body)).
      { intros [X|X]; [discriminate|]. rewrite forallb_forall in Hbody. specialize (Hbody 13 X). discriminate. }
      split.
      { intros X. apply in_app_or in X. destruct X as [X|X]; [exact (Hb13 X)|exact (X1 X)]. }
      split.
      { intros X. rewrite X2 by (eapply not_in_suffix; exact X). reflexivity. }
      { intros x X. apply in_app_or in X. destruct X as [X|X]; [left; apply in_or_app; left; exact X|].
        destruct (X3 x X) as [Y|Y]; [left; apply in_or_app; right; exact Y|right; exact Y]. }
    + (* a token starts here *)
      exists [], [], t. cbn [skip_ignorable]. rewrite Ew, E37. cbn [app length map concat].
      split; [reflexivity|]. split; [split; [exact Hii|split; [exact Hae|exact Hst]]|]. split; [lia|]. split; [constructor|].
      split; [intros toksK HK; exact HK|].
      split.
      { intros Y (y & Y' & -> & Hy). apply skip_start, Hy. }
      split.
      { intros e r0 He Heol'. injection He as <- _. apply eol_white in Heol'. congruence. }
      split; [intros H; contradiction|]. split; [intros []|]. split; [reflexivity|intros x []].
Qed.

(* ---------------------------------------------------------------- what the printers print *)
Definition ci_plain (b : N) : bool := negb (b =? 10) && negb (b =? 13) && negb (b =? 11).

Lemma ci_esc_plain ch : ch < 256 -> forallb ci_plain (esc ch) = true.
Proof. intros H. exact (byte_sweep (fun ch => forallb ci_plain (esc ch)) ltac:(vm_compute; reflexivity) ch H). Qed.

Lemma ci_hex_plain ch : ch < 256 -> forallb ci_plain [hexchar_lc (N.shiftr ch 4); hexchar_lc (N.land ch 15)] = true.
Proof. intros H. exact (byte_sweep (fun ch => forallb ci_plain [hexchar_lc (N.shiftr ch 4); hexchar_lc (N.land ch 15)]) ltac:(vm_compute; reflexivity) ch H). Qed.

Lemma ci_litenc_plain v : bytes_ok v -> forallb ci_plain (litenc v) = true.
Proof.
  induction 1 as [|c v Hc Hv IH]; [reflexivity|]. cbn [litenc flat_map]. fold (litenc v).
  rewrite forallb_app, (ci_esc_plain c Hc), IH. reflexivity.
Qed.

Lemma ci_hexenc_plain v : bytes_ok v -> forallb ci_plain (hexenc v) = true.
Proof.
  induction 1 as [|c v Hc Hv IH]; [reflexivity|]. cbn [hexenc flat_map]. fold (hexenc v).
  rewrite forallb_app, (ci_hex_plain c Hc), IH. reflexivity.
Qed.

Lemma ci_unparse_plain fb v : bytes_ok v -> forallb ci_plain (string_unparse fb v) = true.
Proof.
  intros Hv. rewrite string_unparse_form. destruct (fb || use_hex_string v); cbn [forallb]; rewrite forallb_app.
  - rewrite (ci_hexenc_plain v Hv). reflexivity.
  - rewrite (ci_litenc_plain v Hv). reflexivity.
Qed.

Lemma ci_name_plain n : bytes_ok n -> ~ In 0 n -> forallb ci_plain (name_normalize (47 :: n)) = true.
Proof.
  intros Hn H0. rewrite name_normalize_form. destruct (nameenc_props n Hn H0) as (R & _ & V & _).
  cbn [forallb]. change (ci_plain 47) with true. cbn [andb]. apply forallb_forall. intros x Hx.
  rewrite forallb_forall in R. specialize (R x Hx). unfold ci_plain.
  destruct (x =? 10) eqn:E10; [apply N.eqb_eq in E10; subst x; discriminate|].
  destruct (x =? 13) eqn:E13; [apply N.eqb_eq in E13; subst x; discriminate|].
  destruct (x =? 11) eqn:E11; [apply N.eqb_eq in E11; subst x; contradiction|]. reflexivity.
Qed.

Lemma ci_plain_no_eol l : forallb ci_plain l = true -> c16_has_eol l = false.
Proof.
  unfold c16_has_eol. induction l as [|b r IH]; intros H; [reflexivity|]. cbn [forallb] in H. apply andb_true_iff in H. destruct H as [Hb Hr].
  cbn [existsb]. rewrite (IH Hr). unfold ci_plain in Hb. apply andb_true_iff in Hb. destruct Hb as [Hb _]. apply andb_true_iff in Hb.
  destruct Hb as [A B]. apply negb_true_iff in A, B. rewrite A, B. reflexivity.
Qed.

Lemma ci_plain_no_vt l : forallb ci_plain l = true -> ~ In 11 l.
Proof.
  intros H X. rewrite forallb_forall in H. specialize (H 11 X). discriminate.
Qed.

(* bytes without VT: what the simulation lemmas need of their input *)
Definition ci_ok (l : list N) : Prop := bytes_ok l /\ ~ In 11 l.

Lemma ci_ok_app a b : ci_ok (a ++ b) <-> ci_ok a /\ ci_ok b.
Proof.
  unfold ci_ok, bytes_ok. rewrite Forall_app. split.
  - intros (A & B). repeat split; try tauto; intros X; apply B, in_or_app; auto.
  - intros ((A & B) & (C & D)). repeat split; try assumption. intros X. apply in_app_or in X. tauto.
Qed.

Lemma ci_ok_sub a b : (forall x, In x a -> In x b \/ x = 10) -> ci_ok b -> ci_ok a.
Proof.
  intros H (A & B). unfold ci_ok, bytes_ok in *. rewrite Forall_forall in *. split.
  - intros x Hx. destruct (H x Hx) as [Y| ->]; [apply A, Y|reflexivity].
  - intros X. destruct (H 11 X) as [Y|Y]; [exact (B Y)|discriminate].
Qed.

Lemma ci_ok_nl nl : nl_or_nil nl -> ci_ok nl.
Proof.
  unfold nl_or_nil. intros [->| ->]; split.
  - constructor.
  - intros [].
  - constructor; [reflexivity|constructor].
  - intros [X|[]]; discriminate.
Qed.

(* ---------------------------------------------------------------- one token: what handleToken writes, by kind *)
Lemma ci_emit_form tok tk p : tok_interp tok = Some tk -> tok_raw tok = p ->
  c16_emit tok = match tk with
                 | PStr v => string_unparse false v ++ (if c16_has_eol p then [10] else [])
                 | PName n => name_normalize (47 :: n) ++ (if c16_has_eol p then [10] else [])
                 | _ => p
                 end.
Proof.
  unfold tok_interp, c16_emit. intros Hi <-. destruct (negb (terr_is_none (tok_err tok))); [discriminate|].
  destruct (tok_type tok) eqn:Ety; try discriminate; try (injection Hi as <-; reflexivity).
  - destruct (tok_value tok) as [|s n']; [discriminate|]. destruct (s =? 47) eqn:E; [|discriminate].
    injection Hi as <-. apply N.eqb_eq in E. subst s. reflexivity.
  - destruct (real_of_text (tok_value tok)). injection Hi as <-. reflexivity.
Qed.

Lemma ci_tail_split a x b y : a ++ x = b ++ y -> ends_nonwhite a -> ends_nonwhite b -> nl_or_nil x -> nl_or_nil y ->
  a = b /\ x = y.
Proof.
  unfold nl_or_nil. intros H Ha Hb [->| ->] [->| ->].
  - rewrite !app_nil_r in H. auto.
  - rewrite app_nil_r in H. subst a. exfalso. unfold ends_nonwhite in Ha. rewrite rev_app_distr in Ha. cbn [rev app] in Ha.
    change (iso_white 10) with true in Ha. discriminate.
  - rewrite app_nil_r in H. subst b. exfalso. unfold ends_nonwhite in Hb. rewrite rev_app_distr in Hb. cbn [rev app] in Hb.
    change (iso_white 10) with true in Hb. discriminate.
  - apply app_inj_tail in H. destruct H; auto.
Qed.

Lemma ci_unparse_ends v : ends_nonwhite (string_unparse false v).
Proof.
  rewrite string_unparse_form. destruct (false || use_hex_string v).
  - change (60 :: hexenc v ++ [62]) with ((60 :: hexenc v) ++ [62]). apply ends_nonwhite_last. reflexivity.
  - change (40 :: litenc v ++ [41]) with ((40 :: litenc v) ++ [41]). apply ends_nonwhite_last. reflexivity.
Qed.

Lemma ci_name_ends n : bytes_ok n -> ~ In 0 n -> ends_nonwhite (name_normalize (47 :: n)).
Proof.
  intros Hn H0. rewrite name_normalize_form. destruct (nameenc_props n Hn H0) as (R & _ & _ & _).
  destruct (nameenc n) as [|x l] eqn:E.
  - apply (ends_nonwhite_last [] 47). reflexivity.
  - apply ends_nonwhite_cons. apply forallb_regular_ends; [exact R|discriminate].
Qed.

(* the text U written for a token and the optional newline after it *)
Lemma ci_emit_split t1 tk s p rest :
  ci_ok s -> spec_token_at s = LexTok tk rest -> s = p ++ rest ->
  tok_interp (tk_token t1) = Some tk -> rawof t1 = rev p ->
  exists U nl, c16_emit (tk_token t1) = U ++ nl /\ nl_or_nil nl /\ ends_nonwhite U /\ ci_canon tk U /\ ci_ok U /\
               (match tk with PStr _ | PName _ => c16_has_eol U = false | _ => U = p end).
Proof.
  intros (Hb & Hvt) Hs Hsp Hi Hraw.
  pose proof (token_value_props _ _ _ Hs Hb) as Hval.
  destruct (token_local _ _ _ Hs) as (p' & Hp' & Hendp & _).
  assert (p' = p) by (rewrite Hsp in Hp'; apply app_inv_tail in Hp'; congruence). subst p'.
  assert (Hrawtok : tok_raw (tk_token t1) = p).
  { rewrite tok_raw_tk. unfold rawof in Hraw. rewrite Hraw, rev'_rev, rev_involutive. reflexivity. }
  assert (Hokp : ci_ok p).
  { assert (X : ci_ok (p ++ rest)) by (rewrite <- Hsp; split; assumption). apply ci_ok_app in X. tauto. }
  rewrite (ci_emit_form _ _ _ Hi Hrawtok).
  assert (Hnl : nl_or_nil (if c16_has_eol p then [10] else [])) by (destruct (c16_has_eol p); [right|left]; reflexivity).
  destruct tk as [| | | | | |z|m k|v|n|b| |w]; try (exists p, []; rewrite app_nil_r; split; [reflexivity|]; split; [left; reflexivity|]; split; [exact Hendp|];
                    split; [exact I|]; split; [exact Hokp|reflexivity]).
  - (* string *)
    eexists. eexists. split; [reflexivity|]. split; [exact Hnl|]. split; [apply ci_unparse_ends|].
    split; [reflexivity|]. pose proof (ci_unparse_plain false v Hval) as Hpl. split.
    + split; [apply string_unparse_bytes, Hval|apply ci_plain_no_vt, Hpl].
    + apply ci_plain_no_eol, Hpl.
  - (* name *)
    destruct Hval as [Hbn Hn0]. eexists. eexists. split; [reflexivity|]. split; [exact Hnl|]. split; [apply ci_name_ends; assumption|].
    split; [reflexivity|]. pose proof (ci_name_plain n Hbn Hn0) as Hpl. split.
    + split; [|apply ci_plain_no_vt, Hpl]. rewrite name_normalize_form. destruct (nameenc_props n Hbn Hn0) as (_ & _ & _ & B).
      constructor; [reflexivity|exact B].
    + apply ci_plain_no_eol, Hpl.
Qed.

(* white space in front of a normal form *)
Lemma ci_nf_white X : ci_normal_form X -> ci_normal_form (10 :: X).
Proof.
  assert (Hsk : forall Y, skip_ignorable false (10 :: Y) = skip_ignorable false Y) by (intros Y; reflexivity).
  assert (H13 : forall pre, ~ In 13 pre -> ~ In 13 (10 :: pre)) by (intros pre H [A|A]; [discriminate|exact (H A)]).
  intros H. inversion H as [c Hs Hn|c pre u tk rest Hc Hs Hn Ht Hid Hcan Hr|c pre u w ws data rest Hc Hs Hn Ht Hid Ha Hws Hr]; subst.
  - apply ci_nf_end; [rewrite Hsk; exact Hs|apply H13, Hn].
  - eapply (ci_nf_tok _ (10 :: pre)); [reflexivity|rewrite Hsk; exact Hs|apply H13, Hn|exact Ht|exact Hid|exact Hcan|exact Hr].
  - eapply (ci_nf_img _ (10 :: pre)); [reflexivity|rewrite Hsk; exact Hs|apply H13, Hn|exact Ht|exact Hid|exact Ha|exact Hws|exact Hr].
Qed.

Lemma ci_space_norm_single ws : iso_white ws = true ->
  exists ws', c16_space_norm [ws] = [ws'] /\ iso_white ws' = true /\ ws' <> 13 /\ (ws' = 10 \/ ws' = ws).
Proof.
  intros H. cbn [c16_space_norm]. destruct (ws =? 13) eqn:E.
  - exists 10. repeat split; [discriminate|left; reflexivity].
  - exists ws. repeat split; [exact H|intros ->; discriminate|right; reflexivity].
Qed.

(* ---------------------------------------------------------------- the simulation of C16ProofsF.v (norm_main), with the
   normal form of what is written *)
Lemma ci_norm_main : forall c, ei_ok c -> bytes_ok c -> ~ In 11 c ->
  forall ts, sem_rel c ts -> forall t, tinv t ->
  exists toks,
    loop_rel t c toks /\ (length toks <= length c + 1)%nat /\ existsb tok_is_bad toks = false /\
    sem_rel (concat (map c16_emit toks)) ts /\
    (ends_cleanly c -> ends_cleanly (concat (map c16_emit toks))) /\
    ci_normal_form (concat (map c16_emit toks)) /\ ci_ok (concat (map c16_emit toks)).
Proof.
  induction 1 as [c Hstep|c x rest Hstep Hok IH|c w data rest Hstep Hne Hei Hok IH]; intros Hb Hvt ts Hsem t Ht.
  - (* only white space and comments remain *)
    inversion Hsem as [? _|? ? ? ? Hs2 _]; subst; [|rewrite Hstep in Hs2; discriminate].
    assert (Hskip : skip_ignorable false c = []).
    { unfold c16_step, spec_next in Hstep. destruct (skip_ignorable false c) as [|b s]; [reflexivity|].
      exfalso. destruct (spec_token_at (b :: s)) as [|tk r|] eqn:Et; [exact (token_at_not_end _ _ Et)| |discriminate].
      destruct tk; try discriminate. destruct (list_eqb N.eqb w c16_kw_ID); [|discriminate]. destruct (c16_after_ID r) as [[? ?]|]; discriminate. }
    destruct (ci_ign_loop (length c) c (le_n _) Hb Hvt t Ht) as (pre & tp & t' & Hpre & Ht' & Hlp & Hpl & Hk & HY & _ & Hnr & X1 & X2 & X3).
    assert (Hokc : ci_ok c) by (split; assumption).
    rewrite Hskip in *. rewrite app_nil_r in Hpre. subst pre.
    destruct Ht' as (Hii & Hae & Hst). destruct (read_token_run t' [] Hst) as (np & last & Hrt).
    rewrite (reset_ii t' Hii Hae) in Hrt. rewrite run_nil in Hrt. cbn in Hrt.
    change (rev' (@nil N)) with (@nil N) in Hrt. set (eof := mkToken TT_eof [] [] TE_none) in Hrt.
    assert (Hl : loop_rel t' [] [eof]) by (eapply lr_eof; [exact Hrt|reflexivity]).
    exists (tp ++ [eof]). split; [apply Hk, Hl|]. split; [rewrite app_length; cbn; lia|].
    assert (Hnb : existsb tok_is_bad tp = false).
    { clear - Hpl. induction Hpl as [|y l (A & _) _ IHl]; [reflexivity|]. cbn. rewrite A, IHl. reflexivity. }
    split; [rewrite existsb_app, Hnb; reflexivity|].
    rewrite map_app, concat_app. cbn [map concat]. change (c16_emit eof) with (@nil N). rewrite !app_nil_r.
    assert (NF : ci_normal_form (concat (map c16_emit tp))).
    { apply ci_nf_end; [|exact X1]. pose proof (HY [] eq_refl) as HY0. rewrite app_nil_r in HY0. exact HY0. }
    assert (NK : ci_ok (concat (map c16_emit tp))) by (eapply ci_ok_sub; [exact X3|exact Hokc]).
    split; [|split; [|split; [exact NF|exact NK]]].
    + apply sem_end. unfold c16_step, spec_next. specialize (HY [] eq_refl). rewrite app_nil_r in HY. rewrite HY. reflexivity.
    + intros Hc. destruct c as [|b r]; [destruct tp; [exact I|cbn in Hlp; lia]|].
      destruct (Hnr ltac:(discriminate)) as (e & E2 & -> & He). exact He.
  - (* one token *)
    inversion Hsem as [? Hs1|? toks0 rest0 ts0 Hs2 Hsr]; subst; [rewrite Hstep in Hs1; discriminate|].
    rewrite Hstep in Hs2. injection Hs2 as <- <-.
    destruct (step_single _ _ _ Hstep) as (tk & Hsn & Hstepf & Hnid).
    destruct (ci_ign_loop (length c) c (le_n _) Hb Hvt t Ht) as (pre & tp & t' & Hpre & Ht' & Hlp & Hpl & Hk & HY & _ & Hnr & X1 & X2 & X3).
    assert (Hokc : ci_ok c) by (split; assumption).
    unfold spec_next in Hsn. set (s := skip_ignorable false c) in *.
    destruct (token_at_nonempty _ _ _ Hsn) as (b0 & s0 & Hs0).
    assert (Hstart : token_start b0) by (eapply skip_head; exact Hs0).
    assert (Hbs : bytes_ok s) by (rewrite Hpre in Hb; apply bytes_ok_app in Hb; tauto).
    assert (Hvs : ~ In 11 s) by (rewrite Hpre in Hvt; eapply not_in_suffix; exact Hvt).
    destruct Ht' as (Hii & Hae & Hst).
    destruct (token_run_ii s tk rest (t_code t') (t_hexch t') (t_digits t') Hbs Hsn ltac:(intros X; apply Hvs, in_token_run, X))
      as (t1 & p & Hr1 & Hi1 & Hsp & Hraw1).
    rewrite <- (reset_ii t' Hii Hae) in Hr1.
    destruct (emit_token t1 tk s p rest Hbs Hsn Hsp ltac:(eauto) Hi1 Hraw1) as (P1 & P2 & P3 & _ & Phead & Pclean & Pout).
    assert (Hplain : tok_plain (tk_token t1)).
    { split; [exact P1|]. split; [exact P2|]. rewrite P3. destruct tk; try reflexivity. exact Hnid. }
    assert (Ht1 : tinv (tk_reset t1)) by (eapply tinv_reset; [split; [exact Hii|split; [exact Hae|exact Hst]]|exact Hr1]).
    assert (Hbr : bytes_ok rest) by (rewrite Hsp in Hbs; apply bytes_ok_app in Hbs; tauto).
    assert (Hvr : ~ In 11 rest) by (rewrite Hsp in Hvs; eapply not_in_suffix; exact Hvs).
    destruct (IH Hbr Hvr _ Hsr (tk_reset t1) Ht1) as (tr & Hlr & Hlen & Hbad & Hsemr & Hcl & NFr & NKr).
    exists (tp ++ tk_token t1 :: tr).
    split; [apply Hk; eapply loop_step; [split; [exact Hii|split; [exact Hae|exact Hst]]|exact Hr1|exact Hplain|exact Hlr]|].
    split.
    { rewrite app_length. cbn [length]. rewrite Hpre, Hsp, !app_length.
      assert (length p > 0)%nat by (pose proof (token_consumes _ _ _ _ Hsn Hsp); destruct p; [contradiction|cbn; lia]).
      lia. }
    assert (Hnb : existsb tok_is_bad tp = false).
    { clear - Hpl. induction Hpl as [|y l (A & _) _ IHl]; [reflexivity|]. cbn. rewrite A, IHl. reflexivity. }
    split; [rewrite existsb_app, Hnb; cbn [existsb]; rewrite P1, Hbad; reflexivity|].
    rewrite map_app, concat_app. cbn [map concat].
    set (E := concat (map c16_emit tp)) in *. set (OUT := concat (map c16_emit tr)) in *.
    destruct (Pout OUT Hcl) as (nl & Hnl & Hspec).
    destruct Phead as (y & Y' & Hy & Hystart).
    assert (Hskip' : skip_ignorable false (E ++ c16_emit (tk_token t1) ++ OUT) = c16_emit (tk_token t1) ++ OUT).
    { apply HY. unfold head_cond. fold s. rewrite Hs0. rewrite Hy. cbn [app]. eauto. }
    assert (Hsn' : spec_next (E ++ c16_emit (tk_token t1) ++ OUT) = LexTok tk (nl ++ OUT)).
    { unfold spec_next. rewrite Hskip'. exact Hspec. }
    assert (Hoks : ci_ok s) by (split; assumption).
    assert (Hokpre : ci_ok pre) by (rewrite Hpre in Hokc; apply ci_ok_app in Hokc; tauto).
    destruct (ci_emit_split t1 tk s p rest Hoks Hsn Hsp Hi1 Hraw1) as (U & nl0 & HeU & Hnl0 & HendU & HcanU & HokU & _).
    destruct (token_local _ _ _ Hspec) as (p2 & Hp2 & Hendp2 & _).
    assert (HU : U = p2 /\ nl0 = nl).
    { rewrite HeU in Hp2. rewrite <- app_assoc in Hp2. rewrite !app_assoc in Hp2. apply app_inv_tail in Hp2.
      apply (ci_tail_split _ _ _ _ Hp2 HendU Hendp2 Hnl0 Hnl). }
    destruct HU as [<- <-].
    assert (NFnl : ci_normal_form (nl0 ++ OUT)).
    { destruct Hnl0 as [->| ->]; [exact NFr|]. apply ci_nf_white, NFr. }
    assert (NF : ci_normal_form (E ++ c16_emit (tk_token t1) ++ OUT)).
    { eapply (ci_nf_tok _ E U tk (nl0 ++ OUT)).
      - rewrite HeU, <- app_assoc. reflexivity.
      - rewrite Hskip', HeU, <- app_assoc. reflexivity.
      - exact X1.
      - rewrite HeU, <- app_assoc in Hspec. exact Hspec.
      - exact Hnid.
      - exact HcanU.
      - exact NFnl. }
    assert (NK : ci_ok (E ++ c16_emit (tk_token t1) ++ OUT)).
    { apply ci_ok_app. split; [eapply ci_ok_sub; [exact X3|exact Hokpre]|]. apply ci_ok_app. split; [|exact NKr].
      rewrite HeU. apply ci_ok_app. split; [exact HokU|apply ci_ok_nl, Hnl0]. }
    split; [|split; [|split; [exact NF|exact NK]]].
    + change [x] with ([x] ++ []). change (x :: ts0) with ([x] ++ ts0). eapply sem_step; [apply Hstepf, Hsn'|].
      destruct Hnl as [->| ->]; [exact Hsemr|]. apply sem_rel_white; [reflexivity|exact Hsemr].
    + intros Hc. destruct pre as [|pb pre'].
      * destruct tp; [|cbn in Hlp; lia]. subst E. cbn [map concat app]. cbn [app] in Hpre. rewrite <- Hpre in Pclean.
        destruct (Pclean Hc) as (y2 & Y2 & -> & Hy2). exact Hy2.
      * destruct (Hnr ltac:(discriminate)) as (e & E2 & -> & He). exact He.
  - (* an inline image *)
    inversion Hsem as [? Hs1|? toks0 rest0 ts0 Hs2 Hsr]; subst; [rewrite Hstep in Hs1; discriminate|].
    rewrite Hstep in Hs2. injection Hs2 as <- <-.
    destruct (step_image _ _ _ _ Hstep) as (ws & Hsn & Hid & Hws & Hcr & Himg).
    destruct (ci_ign_loop (length c) c (le_n _) Hb Hvt t Ht) as (pre & tp & t' & Hpre & Ht' & Hlp & Hpl & Hk & HY & _ & Hnr & X1 & X2 & X3).
    assert (Hokc : ci_ok c) by (split; assumption).
    unfold spec_next in Hsn. set (s := skip_ignorable false c) in *.
    set (rest0 := ws :: data ++ 69 :: 73 :: rest) in *.
    destruct (token_at_nonempty _ _ _ Hsn) as (b0 & s0 & Hs0).
    assert (Hstart : token_start b0) by (eapply skip_head; exact Hs0).
    assert (Hbs : bytes_ok s) by (rewrite Hpre in Hb; apply bytes_ok_app in Hb; tauto).
    assert (Hvs : ~ In 11 s) by (rewrite Hpre in Hvt; eapply not_in_suffix; exact Hvt).
    destruct Ht' as (Hii & Hae & Hst).
    destruct (token_run_ii s _ rest0 (t_code t') (t_hexch t') (t_digits t') Hbs Hsn ltac:(intros X; apply Hvs, in_token_run, X))
      as (t1 & p & Hr1 & Hi1 & Hsp & Hraw1).
    rewrite <- (reset_ii t' Hii Hae) in Hr1.
    destruct (emit_token t1 _ s p rest0 Hbs Hsn Hsp ltac:(eauto) Hi1 Hraw1) as (P1 & P2 & P3 & Pemit & Phead & Pclean & Pout).
    rewrite Hid in P3.
    assert (Ht1 : tinv (tk_reset t1)) by (eapply tinv_reset; [split; [exact Hii|split; [exact Hae|exact Hst]]|exact Hr1]).
    assert (Hbr0 : bytes_ok rest0) by (rewrite Hsp in Hbs; apply bytes_ok_app in Hbs; tauto).
    assert (Hvr0 : ~ In 11 rest0) by (rewrite Hsp in Hvs; eapply not_in_suffix; exact Hvs).
    (* the tokenizer in inline-image mode *)
    set (d := data ++ 69 :: 73 :: rest) in *.
    set (tI := c16_expect_inline_image (tk_reset t1) d).
    assert (HtI : t_state tI = TS_inline_image /\ t_in_token tI = true /\ t_before tI = false /\ t_iib tI = N.of_nat (length data) /\
                  t_raw tI = [] /\ t_incl_ign tI = true /\ t_allow_eof tI = true).
    { destruct Ht1 as (A & B & _). unfold tI, c16_expect_inline_image. change (is_ready (tk_reset t1)) with false. cbv iota.
      unfold d at 1. rewrite Hei. cbn in A, B |- *. repeat split; assumption. }
    destruct HtI as (I1 & I2 & I3 & I4 & I5 & I6 & I7).
    destruct (image_run data tI (69 :: 73 :: rest) Hne I1 I2 I3 ltac:(unfold raw_len; rewrite I4, I5; cbn; lia)) as (t2 & Hr2 & Hty2 & Hraw2).
    fold d in Hr2. rewrite I5, app_nil_r in Hraw2.
    destruct (token_of_simple t2 TT_inline_image data Hty2 Hraw2 I) as (T1 & T2).
    destruct (read_token_image tI d I1) as (np2 & last2 & Hrt2). rewrite Hr2 in Hrt2. cbn [fst snd] in Hrt2.
    destruct (run_facts _ _ _ _ Hr2) as (F1 & F2 & _).
    assert (Ht2 : tinv (tk_reset t2)).
    { unfold tinv, tk_reset. cbn. rewrite F1, F2, I6, I7. repeat split; discriminate. }
    (* the EI operator *)
    assert (Hbd : bytes_ok d) by (eapply bytes_ok_cons_inv; exact Hbr0).
    assert (Hbe : bytes_ok (69 :: 73 :: rest)) by (unfold d in Hbd; apply bytes_ok_app in Hbd; tauto).
    assert (Hve : ~ In 11 (69 :: 73 :: rest)).
    { intros X. apply Hvr0. right. unfold d. apply in_or_app. right. exact X. }
    destruct Ht2 as (Hii2 & Hae2 & Hst2).
    destruct (token_run_ii (69 :: 73 :: rest) _ rest (t_code (tk_reset t2)) (t_hexch (tk_reset t2)) (t_digits (tk_reset t2)) Hbe (ei_token rest Hcr)
                ltac:(intros X; apply Hve, in_token_run, X)) as (t3 & p3 & Hr3 & Hi3 & Hsp3 & Hraw3).
    rewrite <- (reset_ii (tk_reset t2) Hii2 Hae2) in Hr3.
    destruct (emit_token t3 _ (69 :: 73 :: rest) p3 rest Hbe (ei_token rest Hcr) Hsp3 ltac:(exists 69; eexists; split; [reflexivity|split; reflexivity]) Hi3 Hraw3)
      as (Q1 & Q2 & Q3 & Qemit & _ & _ & _).
    assert (Hp3 : p3 = [69; 73]).
    { change (69 :: 73 :: rest) with ([69; 73] ++ rest) in Hsp3. apply app_inv_tail in Hsp3. congruence. }
    rewrite Hp3 in Qemit. cbn in Q3.
    assert (Ht3 : tinv (tk_reset t3)) by (eapply tinv_reset; [split; [exact Hii2|split; [exact Hae2|exact Hst2]]|exact Hr3]).
    assert (Hbr : bytes_ok rest) by (do 2 apply bytes_ok_cons_inv in Hbe; exact Hbe).
    assert (Hvr : ~ In 11 rest) by (intros X; apply Hve; right; right; exact X).
    destruct (IH Hbr Hvr _ Hsr (tk_reset t3) Ht3) as (tr & Hlr & Hlen & Hbad & Hsemr & Hcl & NFr & NKr).
    set (Tid := tk_token t1) in *. set (Timg := tk_token t2) in *. set (Tei := tk_token t3) in *.
    exists (tp ++ Tid :: c16_space_token ws :: Timg :: Tei :: tr).
    assert (Hloop : loop_rel t' s (Tid :: c16_space_token ws :: Timg :: Tei :: tr)).
    { destruct (read_token_run t' s Hst) as (np & last & Hrt). rewrite Hr1 in Hrt. cbn [fst snd] in Hrt.
      change (c16_space_token ws) with (c16_space_token (hd 32 rest0)).
      eapply lr_id; [exact Hrt|exact P2|exact P3|]. change (tl rest0) with d. fold tI.
      eapply lr_tok; [exact Hrt2| | |].
      - rewrite T1. reflexivity.
      - unfold c16_is_word_ID. rewrite T1. reflexivity.
      - eapply loop_step; [split; [exact Hii2|split; [exact Hae2|exact Hst2]]|exact Hr3| |exact Hlr].
        split; [exact Q1|]. split; [exact Q2|]. change (c16_is_word_ID Tei = false). rewrite Q3. reflexivity. }
    split; [apply Hk, Hloop|].
    split.
    { rewrite app_length. cbn [length]. rewrite Hpre, Hsp, !app_length. unfold rest0, d. cbn [length]. rewrite app_length. cbn [length].
      assert (length p > 0)%nat by (pose proof (token_consumes _ _ _ _ Hsn Hsp); destruct p; [contradiction|cbn; lia]).
      assert (length data > 0)%nat by (destruct data; [contradiction|cbn; lia]). lia. }
    assert (Hnb : existsb tok_is_bad tp = false).
    { clear - Hpl. induction Hpl as [|y l (A & _) _ IHl]; [reflexivity|]. cbn. rewrite A, IHl. reflexivity. }
    split.
    { rewrite existsb_app, Hnb. cbn [existsb]. rewrite P1, Q1, Hbad. unfold tok_is_bad at 2. rewrite T1. reflexivity. }
    rewrite map_app, concat_app. cbn [map concat].
    set (E := concat (map c16_emit tp)) in *. set (OUT := concat (map c16_emit tr)) in *.
    assert (E1 : c16_emit Tid = p) by exact Pemit.
    assert (E3 : c16_emit Timg = data) by (unfold c16_emit; rewrite T1, T2; reflexivity).
    assert (E4 : c16_emit Tei = [69; 73]) by exact Qemit.
    destruct (ci_space_norm_single ws Hws) as (ws' & E2 & Hws' & Hws13 & Hwsor).
    change (c16_emit (c16_space_token ws)) with (c16_space_norm [ws]). rewrite E1, E2, E3, E4.
    destruct Phead as (y & Y' & Hy & Hystart). rewrite E1 in Hy.
    destruct (token_local _ _ _ Hsn) as (p' & Hp' & _ & Hloc).
    assert (p' = p) by (rewrite Hsp in Hp'; apply app_inv_tail in Hp'; congruence). subst p'.
    set (Z := [ws'] ++ data ++ [69; 73] ++ OUT).
    assert (Hskip' : skip_ignorable false (E ++ p ++ Z) = p ++ Z).
    { apply HY. unfold head_cond. fold s. rewrite Hs0, Hy. cbn [app]. eauto. }
    assert (Hspec' : spec_token_at (p ++ Z) = LexTok (PKeyword w) Z).
    { apply Hloc. intros _. unfold Z. cbn. apply white_not_regular, Hws'. }
    assert (Hsn' : spec_next (E ++ p ++ Z) = LexTok (PKeyword w) Z).
    { unfold spec_next. rewrite Hskip'. exact Hspec'. }
    assert (Hafter : c16_after_ID Z = Some (data, OUT)).
    { unfold Z. cbn [app c16_after_ID]. rewrite Hws'. exact (Himg OUT (Hcl Hcr)). }
    assert (NF : ci_normal_form (E ++ p ++ Z)).
    { eapply (ci_nf_img _ E p w ws' data OUT); [reflexivity|exact Hskip'|exact X1|exact Hspec'|exact Hid|exact Hafter|exact Hws13|exact NFr]. }
    assert (Hoks : ci_ok s) by (split; assumption).
    assert (Hokpre : ci_ok pre) by (rewrite Hpre in Hokc; apply ci_ok_app in Hokc; tauto).
    assert (Hokp : ci_ok p /\ ci_ok rest0) by (rewrite Hsp in Hoks; apply ci_ok_app in Hoks; exact Hoks).
    assert (NK : ci_ok (E ++ p ++ Z)).
    { apply ci_ok_app. split; [eapply ci_ok_sub; [exact X3|exact Hokpre]|]. apply ci_ok_app. split; [tauto|].
      destruct Hokp as [_ Hok0]. unfold rest0 in Hok0. change (ws :: d) with ([ws] ++ d) in Hok0. apply ci_ok_app in Hok0.
      destruct Hok0 as [Hokws Hokd]. unfold d in Hokd. apply ci_ok_app in Hokd. destruct Hokd as [Hokdata _].
      unfold Z. apply ci_ok_app. split.
      - destruct Hwsor as [->| ->]; [apply ci_ok_nl; right; reflexivity|exact Hokws].
      - apply ci_ok_app. split; [exact Hokdata|]. apply ci_ok_app. split; [|exact NKr].
        split; [repeat constructor|intros [X|[X|[]]]; discriminate]. }
    split; [|split; [|split; [exact NF|exact NK]]].
    + change (CsOp w :: CsImage data :: ts0) with ([CsOp w; CsImage data] ++ ts0).
      eapply sem_step; [|exact Hsemr]. unfold c16_step. rewrite Hsn', Hid. unfold Z. cbn [app c16_after_ID]. rewrite Hws'.
      rewrite (Himg OUT (Hcl Hcr)). reflexivity.
    + intros Hc. destruct pre as [|pb pre'].
      * destruct tp; [|cbn in Hlp; lia]. subst E. cbn [map concat app]. cbn [app] in Hpre. rewrite <- Hpre in Pclean.
        destruct (Pclean Hc) as (y2 & Y2 & Hy2 & Hy3). rewrite E1 in Hy2. rewrite Hy2. exact Hy3.
      * destruct (Hnr ltac:(discriminate)) as (e & E2' & -> & He). exact He.
Qed.

(* ---------------------------------------------------------------- normalisation is the identity on normal forms *)
Lemma ci_nobad_plain tp : Forall tok_plain tp -> existsb tok_is_bad tp = false.
Proof. induction 1 as [|y l (A & _) _ IHl]; [reflexivity|]. cbn. rewrite A, IHl. reflexivity. Qed.

Lemma ci_nf_fix : forall c, ci_normal_form c -> ei_ok c -> ci_ok c -> forall t, tinv t ->
  exists toks, loop_rel t c toks /\ (length toks <= length c + 1)%nat /\ existsb tok_is_bad toks = false /\
               concat (map c16_emit toks) = c.
Proof.
  induction 1 as [c Hskip H13|c pre u tk rest Hc Hskip H13 Htok Hnid Hcan Hnf IH|c pre u w ws data rest Hc Hskip H13 Htok Hid Hafter Hws13 Hnf IH];
    intros Hei Hokc t Ht; pose proof Hokc as (Hb & Hvt).
  - (* only white space and comments remain *)
    destruct (ci_ign_loop (length c) c (le_n _) Hb Hvt t Ht) as (pre & tp & t' & Hpre & Ht' & Hlp & Hpl & Hk & HY & _ & Hnr & X1 & X2 & X3).
    rewrite Hskip in *. rewrite app_nil_r in Hpre. subst pre.
    destruct Ht' as (Hii & Hae & Hst). destruct (read_token_run t' [] Hst) as (np & last & Hrt).
    rewrite (reset_ii t' Hii Hae) in Hrt. rewrite run_nil in Hrt. cbn in Hrt.
    change (rev' (@nil N)) with (@nil N) in Hrt. set (eof := mkToken TT_eof [] [] TE_none) in Hrt.
    assert (Hl : loop_rel t' [] [eof]) by (eapply lr_eof; [exact Hrt|reflexivity]).
    exists (tp ++ [eof]). split; [apply Hk, Hl|]. split; [rewrite app_length; cbn; lia|].
    split; [rewrite existsb_app, (ci_nobad_plain _ Hpl); reflexivity|].
    rewrite map_app, concat_app. cbn [map concat]. change (c16_emit eof) with (@nil N). rewrite !app_nil_r. apply X2, H13.
  - (* one token *)
    destruct (ci_ign_loop (length c) c (le_n _) Hb Hvt t Ht) as (pre0 & tp & t' & Hpre & Ht' & Hlp & Hpl & Hk & HY & _ & Hnr & X1 & X2 & X3).
    rewrite Hskip in *.
    assert (Hpp : pre ++ (u ++ rest) = pre0 ++ (u ++ rest)) by (rewrite <- Hc; exact Hpre). apply app_inv_tail in Hpp. subst pre0.
    assert (Hoks : ci_ok (u ++ rest)).
    { assert (X : ci_ok (pre ++ u ++ rest)) by (rewrite <- Hc; exact Hokc). apply ci_ok_app in X. tauto. }
    pose proof Hoks as (Hbs & Hvs).
    assert (Hokr : ci_ok rest) by (apply ci_ok_app in Hoks; tauto).
    destruct (token_at_nonempty _ _ _ Htok) as (b0 & s0 & Hs0).
    assert (Hstart : token_start b0) by (eapply skip_head; rewrite <- Hs0; exact Hskip).
    destruct Ht' as (Hii & Hae & Hst).
    destruct (token_run_ii (u ++ rest) tk rest (t_code t') (t_hexch t') (t_digits t') Hbs Htok ltac:(intros X; apply Hvs, in_token_run, X))
      as (t1 & p & Hr1 & Hi1 & Hsp & Hraw1).
    assert (p = u) by (apply app_inv_tail in Hsp; auto). subst p.
    rewrite <- (reset_ii t' Hii Hae) in Hr1.
    destruct (emit_token t1 tk (u ++ rest) u rest Hbs Htok Hsp ltac:(eauto) Hi1 Hraw1) as (P1 & P2 & P3 & _).
    assert (Hrawtok : tok_raw (tk_token t1) = u).
    { rewrite tok_raw_tk. unfold rawof in Hraw1. rewrite Hraw1, rev'_rev, rev_involutive. reflexivity. }
    assert (Hemit : c16_emit (tk_token t1) = u).
    { rewrite (ci_emit_form _ _ _ Hi1 Hrawtok). pose proof (token_value_props _ _ _ Htok Hbs) as Hval.
      destruct tk as [| | | | | |z|m k|v|n|b| |w]; try reflexivity.
      - cbn in Hcan. rewrite Hcan. rewrite (ci_plain_no_eol _ (ci_unparse_plain false v Hval)). apply app_nil_r.
      - cbn in Hcan. destruct Hval as [Hbn Hn0]. rewrite Hcan. rewrite (ci_plain_no_eol _ (ci_name_plain n Hbn Hn0)). apply app_nil_r. }
    assert (Hplain : tok_plain (tk_token t1)).
    { split; [exact P1|]. split; [exact P2|]. rewrite P3. destruct tk; try reflexivity. exact Hnid. }
    assert (Ht1 : tinv (tk_reset t1)) by (eapply tinv_reset; [split; [exact Hii|split; [exact Hae|exact Hst]]|exact Hr1]).
    assert (Heir : ei_ok rest).
    { assert (Hstep : exists x, c16_step c = CsStep [x] rest).
      { unfold c16_step, spec_next. rewrite Hskip, Htok. destruct tk; try (eexists; reflexivity). rewrite Hnid. eexists; reflexivity. }
      destruct Hstep as (x & Hstep).
      inversion Hei as [c0 He|c0 x0 rest0 He Hr|c0 w0 d0 rest0 He Hne Hf Hr]; subst c0; rewrite Hstep in He; try discriminate.
      injection He as _ <-. exact Hr. }
    destruct (IH Heir Hokr (tk_reset t1) Ht1) as (tr & Hlr & Hlen & Hbad & Hout).
    exists (tp ++ tk_token t1 :: tr).
    split; [apply Hk; eapply loop_step; [split; [exact Hii|split; [exact Hae|exact Hst]]|exact Hr1|exact Hplain|exact Hlr]|].
    split.
    { rewrite app_length. cbn [length]. rewrite Hc, !app_length.
      assert (length u > 0)%nat by (pose proof (token_consumes _ _ _ _ Htok Hsp); destruct u; [contradiction|cbn; lia]).
      lia. }
    split; [rewrite existsb_app, (ci_nobad_plain _ Hpl); cbn [existsb]; rewrite P1, Hbad; reflexivity|].
    rewrite map_app, concat_app. cbn [map concat]. rewrite Hemit, Hout, (X2 H13). symmetry. exact Hc.
  - (* an inline image *)
    set (d := data ++ 69 :: 73 :: rest) in *. set (rest0 := ws :: d) in *.
    assert (Hstep : c16_step c = CsStep [CsOp w; CsImage data] rest).
    { unfold c16_step, spec_next. rewrite Hskip, Htok, Hid, Hafter. reflexivity. }
    assert (Hei3 : data <> [] /\ c16_find_ei d = N.of_nat (length data) /\ ei_ok rest).
    { inversion Hei as [c0 He|c0 x0 rest1 He Hr|c0 w0 d0 rest1 He Hne Hf Hr]; subst c0; rewrite Hstep in He; try discriminate.
      injection He as <- <- <-. auto. }
    destruct Hei3 as (Hne & Hfind & Heir).
    destruct (step_image _ _ _ _ Hstep) as (ws0 & _ & _ & _ & Hcr & _).
    assert (Hws : iso_white ws = true).
    { unfold rest0, c16_after_ID in Hafter. destruct (iso_white ws); [reflexivity|discriminate]. }
    destruct (ci_ign_loop (length c) c (le_n _) Hb Hvt t Ht) as (pre0 & tp & t' & Hpre & Ht' & Hlp & Hpl & Hk & HY & _ & Hnr & X1 & X2 & X3).
    rewrite Hskip in *.
    assert (Hpp : pre ++ (u ++ rest0) = pre0 ++ (u ++ rest0)) by (rewrite <- Hc; exact Hpre). apply app_inv_tail in Hpp. subst pre0.
    assert (Hoks : ci_ok (u ++ rest0)).
    { assert (X : ci_ok (pre ++ u ++ rest0)) by (rewrite <- Hc; exact Hokc). apply ci_ok_app in X. tauto. }
    pose proof Hoks as (Hbs & Hvs).
    destruct (token_at_nonempty _ _ _ Htok) as (b0 & s0 & Hs0).
    assert (Hstart : token_start b0) by (eapply skip_head; rewrite <- Hs0; exact Hskip).
    destruct Ht' as (Hii & Hae & Hst).
    destruct (token_run_ii (u ++ rest0) _ rest0 (t_code t') (t_hexch t') (t_digits t') Hbs Htok ltac:(intros X; apply Hvs, in_token_run, X))
      as (t1 & p & Hr1 & Hi1 & Hsp & Hraw1).
    assert (p = u) by (apply app_inv_tail in Hsp; auto). subst p.
    rewrite <- (reset_ii t' Hii Hae) in Hr1.
    destruct (emit_token t1 _ (u ++ rest0) u rest0 Hbs Htok Hsp ltac:(eauto) Hi1 Hraw1) as (P1 & P2 & P3 & Pemit & _).
    rewrite Hid in P3.
    assert (Ht1 : tinv (tk_reset t1)) by (eapply tinv_reset; [split; [exact Hii|split; [exact Hae|exact Hst]]|exact Hr1]).
    assert (Hbr0 : bytes_ok rest0) by (apply bytes_ok_app in Hbs; tauto).
    assert (Hvr0 : ~ In 11 rest0) by (eapply not_in_suffix; exact Hvs).
    (* the tokenizer in inline-image mode *)
    set (tI := c16_expect_inline_image (tk_reset t1) d).
    assert (HtI : t_state tI = TS_inline_image /\ t_in_token tI = true /\ t_before tI = false /\ t_iib tI = N.of_nat (length data) /\
                  t_raw tI = [] /\ t_incl_ign tI = true /\ t_allow_eof tI = true).
    { destruct Ht1 as (A & B & _). unfold tI, c16_expect_inline_image. change (is_ready (tk_reset t1)) with false. cbv iota.
      rewrite Hfind. cbn in A, B |- *. repeat split; assumption. }
    destruct HtI as (I1 & I2 & I3 & I4 & I5 & I6 & I7).
    destruct (image_run data tI (69 :: 73 :: rest) Hne I1 I2 I3 ltac:(unfold raw_len; rewrite I4, I5; cbn; lia)) as (t2 & Hr2 & Hty2 & Hraw2).
    fold d in Hr2. rewrite I5, app_nil_r in Hraw2.
    destruct (token_of_simple t2 TT_inline_image data Hty2 Hraw2 I) as (T1 & T2).
    destruct (read_token_image tI d I1) as (np2 & last2 & Hrt2). rewrite Hr2 in Hrt2. cbn [fst snd] in Hrt2.
    destruct (run_facts _ _ _ _ Hr2) as (F1 & F2 & _).
    assert (Ht2 : tinv (tk_reset t2)).
    { unfold tinv, tk_reset. cbn. rewrite F1, F2, I6, I7. repeat split; discriminate. }
    (* the EI operator *)
    assert (Hbd : bytes_ok d) by (eapply bytes_ok_cons_inv; exact Hbr0).
    assert (Hbe : bytes_ok (69 :: 73 :: rest)) by (unfold d in Hbd; apply bytes_ok_app in Hbd; tauto).
    assert (Hve : ~ In 11 (69 :: 73 :: rest)).
    { intros X. apply Hvr0. right. unfold d. apply in_or_app. right. exact X. }
    destruct Ht2 as (Hii2 & Hae2 & Hst2).
    destruct (token_run_ii (69 :: 73 :: rest) _ rest (t_code (tk_reset t2)) (t_hexch (tk_reset t2)) (t_digits (tk_reset t2)) Hbe (ei_token rest Hcr)
                ltac:(intros X; apply Hve, in_token_run, X)) as (t3 & p3 & Hr3 & Hi3 & Hsp3 & Hraw3).
    rewrite <- (reset_ii (tk_reset t2) Hii2 Hae2) in Hr3.
    destruct (emit_token t3 _ (69 :: 73 :: rest) p3 rest Hbe (ei_token rest Hcr) Hsp3 ltac:(exists 69; eexists; split; [reflexivity|split; reflexivity]) Hi3 Hraw3)
      as (Q1 & Q2 & Q3 & Qemit & _ & _ & _).
    assert (Hp3 : p3 = [69; 73]).
    { change (69 :: 73 :: rest) with ([69; 73] ++ rest) in Hsp3. apply app_inv_tail in Hsp3. congruence. }
    rewrite Hp3 in Qemit. cbn in Q3.
    assert (Ht3 : tinv (tk_reset t3)) by (eapply tinv_reset; [split; [exact Hii2|split; [exact Hae2|exact Hst2]]|exact Hr3]).
    assert (Hokr : ci_ok rest).
    { split; [do 2 apply bytes_ok_cons_inv in Hbe; exact Hbe|intros X; apply Hve; right; right; exact X]. }
    destruct (IH Heir Hokr (tk_reset t3) Ht3) as (tr & Hlr & Hlen & Hbad & Hout).
    set (Tid := tk_token t1) in *. set (Timg := tk_token t2) in *. set (Tei := tk_token t3) in *.
    exists (tp ++ Tid :: c16_space_token ws :: Timg :: Tei :: tr).
    assert (Hloop : loop_rel t' (u ++ rest0) (Tid :: c16_space_token ws :: Timg :: Tei :: tr)).
    { destruct (read_token_run t' (u ++ rest0) Hst) as (np & last & Hrt). rewrite Hr1 in Hrt. cbn [fst snd] in Hrt.
      change (c16_space_token ws) with (c16_space_token (hd 32 rest0)).
      eapply lr_id; [exact Hrt|exact P2|exact P3|]. change (tl rest0) with d. fold tI.
      eapply lr_tok; [exact Hrt2| | |].
      - rewrite T1. reflexivity.
      - unfold c16_is_word_ID. rewrite T1. reflexivity.
      - eapply loop_step; [split; [exact Hii2|split; [exact Hae2|exact Hst2]]|exact Hr3| |exact Hlr].
        split; [exact Q1|]. split; [exact Q2|]. change (c16_is_word_ID Tei = false). rewrite Q3. reflexivity. }
    split; [apply Hk, Hloop|].
    split.
    { rewrite app_length. cbn [length]. rewrite Hc, !app_length. unfold rest0, d. cbn [length]. rewrite app_length. cbn [length].
      assert (length u > 0)%nat by (pose proof (token_consumes _ _ _ _ Htok Hsp); destruct u; [contradiction|cbn; lia]).
      assert (length data > 0)%nat by (destruct data; [contradiction|cbn; lia]). lia. }
    split.
    { rewrite existsb_app, (ci_nobad_plain _ Hpl). cbn [existsb]. rewrite P1, Q1, Hbad. unfold tok_is_bad at 2. rewrite T1. reflexivity. }
    rewrite map_app, concat_app. cbn [map concat].
    assert (E1 : c16_emit Tid = u) by exact Pemit.
    assert (E3 : c16_emit Timg = data) by (unfold c16_emit; rewrite T1, T2; reflexivity).
    assert (E4 : c16_emit Tei = [69; 73]) by exact Qemit.
    assert (E2 : c16_emit (c16_space_token ws) = [ws]).
    { change (c16_emit (c16_space_token ws)) with (c16_space_norm [ws]). apply ci_space_norm_id. intros [X|[]]. apply Hws13. auto. }
    rewrite E1, E2, E3, E4, Hout, (X2 H13). rewrite Hc. unfold rest0, d. cbn [app]. reflexivity.
Qed.

(* ---------------------------------------------------------------- the theorems *)
(* What ContentNormalizer writes for a cleanly readable stream is in normal form (for all byte strings without raw VT whose
   inline images - if any - are ended by findEI where ISO 32000-1 8.9.7 ends them: c16_clean, as in
   normalize_preserves_tokens_partial). *)
Lemma ci_normalize_normal_form_lemma : forall c ts,
  c16_clean c = true -> c16_sem c = Some ts -> ci_normal_form (c16_normalize c).
Proof.
  intros c ts Hcl Hsem. destruct (clean_props c Hcl) as (Hb & Hvt & Hok). apply sem_iff in Hsem.
  destruct (ci_norm_main c Hok Hb Hvt ts Hsem c16_tokenizer tokenizer_tinv) as (toks & Hl & Hlen & Hbad & Hs & _ & NF & _).
  destruct (normalize_of_loop c toks Hl ltac:(unfold c16_fuel; lia)) as [Hn _]. rewrite Hn. exact NF.
Qed.

(* ... without inline images no side condition about findEI is needed: ALL byte strings (without raw VT) that read cleanly *)
Lemma ci_normalize_normal_form_noimage_lemma : forall c ts,
  Forall (fun b => b < 256) c -> ~ In 11 c -> c16_sem c = Some ts -> (forall d, ~ In (CsImage d) ts) ->
  ci_normal_form (c16_normalize c).
Proof.
  intros c ts Hb Hvt Hsem Hni. apply sem_iff in Hsem. pose proof (no_image_ei_ok c ts Hsem Hni) as Hok.
  destruct (ci_norm_main c Hok Hb Hvt ts Hsem c16_tokenizer tokenizer_tinv) as (toks & Hl & Hlen & Hbad & Hs & _ & NF & _).
  destruct (normalize_of_loop c toks Hl ltac:(unfold c16_fuel; lia)) as [Hn _]. rewrite Hn. exact NF.
Qed.

(* Normalisation is the identity on normal forms, and silent. *)
Lemma ci_normal_form_fixpoint_lemma : forall c,
  ci_normal_form c -> c16_clean c = true -> c16_normalize c = c /\ c16_warnings c = [].
Proof.
  intros c NF Hcl. destruct (clean_props c Hcl) as (Hb & Hvt & Hok).
  destruct (ci_nf_fix c NF Hok (conj Hb Hvt) c16_tokenizer tokenizer_tinv) as (toks & Hl & Hlen & Hbad & Hout).
  destruct (normalize_of_loop c toks Hl ltac:(unfold c16_fuel; lia)) as [Hn Ha].
  split; [rewrite Hn; exact Hout|].
  unfold c16_warnings. destruct (c16_normalize_run c) as [[out any] last]. cbn [fst snd] in Ha. rewrite Ha, Hbad. reflexivity.
Qed.

(* ci_normalize_idempotent.  For ALL byte strings c (without raw VT, finding D11) that read cleanly and contain no inline
   image: normalising the normalised stream changes nothing, and raises no warning. *)
Lemma ci_normalize_idempotent_lemma : forall c ts,
  Forall (fun b => b < 256) c -> ~ In 11 c -> c16_sem c = Some ts -> (forall d, ~ In (CsImage d) ts) ->
  c16_normalize (c16_normalize c) = c16_normalize c /\ c16_warnings (c16_normalize c) = [].
Proof.
  intros c ts Hb Hvt Hsem Hni. apply sem_iff in Hsem. pose proof (no_image_ei_ok c ts Hsem Hni) as Hok.
  destruct (ci_norm_main c Hok Hb Hvt ts Hsem c16_tokenizer tokenizer_tinv) as (toks & Hl & Hlen & Hbad & Hs & _ & NF & NK).
  destruct (normalize_of_loop c toks Hl ltac:(unfold c16_fuel; lia)) as [Hn _]. rewrite Hn.
  set (O := concat (map c16_emit toks)) in *.
  pose proof (no_image_ei_ok O ts Hs Hni) as HokO.
  destruct (ci_nf_fix O NF HokO NK c16_tokenizer tokenizer_tinv) as (toks2 & Hl2 & Hlen2 & Hbad2 & Hout2).
  destruct (normalize_of_loop O toks2 Hl2 ltac:(unfold c16_fuel; lia)) as [Hn2 Ha2].
  split; [rewrite Hn2; exact Hout2|].
  unfold c16_warnings. destruct (c16_normalize_run O) as [[out any] last]. cbn [fst snd] in Ha2. rewrite Ha2, Hbad2. reflexivity.
Qed.

(* With inline images (image data are copied verbatim, the byte after ID loses its CR): idempotent whenever findEI ends
   every image of the NORMALISED stream where 8.9.7 ends it - an executable side condition (c16_ei_okb) that the harness
   evaluates on every generated stream.  What is not proved: that findEI's ten-token look-ahead decides alike before and
   after the tokens behind the image have been re-spelt (c16_ei_okb c -> c16_ei_okb (c16_normalize c)). *)
Lemma ci_normalize_idempotent_images_partial_lemma : forall c ts,
  c16_clean c = true -> c16_sem c = Some ts -> c16_ei_okb (c16_normalize c) = true ->
  c16_normalize (c16_normalize c) = c16_normalize c /\ c16_warnings (c16_normalize c) = [].
Proof.
  intros c ts Hcl Hsem HokbO. destruct (clean_props c Hcl) as (Hb & Hvt & Hok). apply sem_iff in Hsem.
  destruct (ci_norm_main c Hok Hb Hvt ts Hsem c16_tokenizer tokenizer_tinv) as (toks & Hl & Hlen & Hbad & Hs & _ & NF & NK).
  destruct (normalize_of_loop c toks Hl ltac:(unfold c16_fuel; lia)) as [Hn _]. rewrite Hn in *.
  set (O := concat (map c16_emit toks)) in *.
  pose proof (ei_okb_sound _ _ HokbO) as HokO.
  destruct (ci_nf_fix O NF HokO NK c16_tokenizer tokenizer_tinv) as (toks2 & Hl2 & Hlen2 & Hbad2 & Hout2).
  destruct (normalize_of_loop O toks2 Hl2 ltac:(unfold c16_fuel; lia)) as [Hn2 Ha2].
  split; [rewrite Hn2; exact Hout2|].
  unfold c16_warnings. destruct (c16_normalize_run O) as [[out any] last]. cbn [fst snd] in Ha2. rewrite Ha2, Hbad2. reflexivity.
Qed.

(* the normal form is not vacuous, and normalisation really changes something before reaching it:
   "(a<CR>b) Tj<CR><LF>/A#42 gs<CR>" *)
Definition ci_example_in : list N := [40;97;13;98;41;32;84;106;13;10;47;65;35;52;50;32;103;115;13].
Lemma ci_normalize_idempotent_example_lemma :
  c16_normalize ci_example_in = [40;97;92;110;98;41;10;32;84;106;10;47;65;66;32;103;115;10] /\
  c16_normalize (c16_normalize ci_example_in) = c16_normalize ci_example_in /\
  c16_normalize ci_example_in <> ci_example_in.
Proof. split; [vm_compute; reflexivity|]. split; [vm_compute; reflexivity|]. vm_compute. discriminate. Qed.

(* ---------------------------------------------------------------- finding C16-F8: with inline images idempotence is FALSE
   The side condition of ci_normalize_idempotent_images_partial cannot be dropped.  Witness (confirmed with the real
   normaliser and with `qpdf --qdf` run twice):
       BI ID a EI a1 <204549203c34313e20> Tj
   reads cleanly (one image with data "a ", the word a1, a string, Tj); findEI rejects the image's EI because the word
   "a1" mixes letters and digits (ei_heuristic_restrictive), finds no other EI and falls back to it: the first pass is
   right and silent, and re-spells the hexadecimal string as the literal "( EI <41> )".  In its own output findEI again
   rejects the real EI, but now finds "EI " INSIDE the re-spelt string, rejects it too (")" follows) and falls back to that
   one: the image swallows "a1 ( ", "<41>" is read as a token of its own and re-spelt "(A)", ")" is a bad token.  The second
   pass changes the bytes (the string operand " EI <41> " becomes " EI (A) ") and warns. *)
Definition ci_witness_f8 : list N :=
  [66;73;32;73;68;32;97;32;69;73;32;97;49;32;60;50;48;52;53;52;57;50;48;51;99;51;52;51;49;51;101;50;48;62;32;84;106].

Lemma ci_normalize_idempotent_images_refuted_lemma :
  exists c ts, c16_clean c = true /\ c16_sem c = Some ts /\ c16_warnings c = [] /\
               c16_normalize (c16_normalize c) <> c16_normalize c /\
               c16_warnings (c16_normalize c) <> [] /\
               c16_ei_okb (c16_normalize c) = false.
Proof.
  exists ci_witness_f8. eexists. split; [vm_compute; reflexivity|]. split; [vm_compute; reflexivity|].
  split; [vm_compute; reflexivity|]. split; [vm_compute; discriminate|]. split; [vm_compute; discriminate|vm_compute; reflexivity].
Qed.

(* what the two passes write for the witness *)
Lemma ci_witness_f8_passes_lemma :
  c16_normalize ci_witness_f8 = [66;73;32;73;68;32;97;32;69;73;32;97;49;32;40;32;69;73;32;60;52;49;62;32;41;32;84;106] /\
  c16_normalize (c16_normalize ci_witness_f8) = [66;73;32;73;68;32;97;32;69;73;32;97;49;32;40;32;69;73;32;40;65;41;32;41;32;84;106].
Proof. split; vm_compute; reflexivity. Qed.

(* the normal forms are exactly the fixpoints of normalisation (among the cleanly readable streams) *)
Lemma ci_fixpoint_iff_normal_form_lemma : forall c ts,
  c16_clean c = true -> c16_sem c = Some ts -> (c16_normalize c = c <-> ci_normal_form c).
Proof.
  intros c ts Hcl Hsem. split.
  - intros Hfix. rewrite <- Hfix. eapply ci_normalize_normal_form_lemma; eassumption.
  - intros NF. apply (ci_normal_form_fixpoint_lemma c NF Hcl).
Qed.
