(* handlers: model of qpdf's damage recovery (File/Recover.v) and its specification side (File/RecoverSpec.v) *)
open Qvmodel
open Runner

let rc_read_file (path : string) : string =
  let ic = open_in_bin path in
  let n = in_channel_length ic in
  let s = really_input_string ic n in
  close_in ic; s

let tt_index (t : rc_tt) : int = match t with
  | TtBad -> 0 | TtArrClose -> 1 | TtArrOpen -> 2 | TtBraceClose -> 3 | TtBraceOpen -> 4 | TtDictClose -> 5
  | TtDictOpen -> 6 | TtInteger -> 7 | TtName -> 8 | TtReal -> 9 | TtString -> 10 | TtNull -> 11 | TtBool -> 12
  | TtWord -> 13 | TtEof -> 14

let rec drop (n : int) (l : 'a list) : 'a list = if n <= 0 then l else match l with [] -> [] | _ :: r -> drop (n - 1) r

(* rc_tok <hex> <maxlen> : the token sequence of the buffer, "type:rawhex:endoffset" joined by ';' (at most 300 tokens) *)
let tok_seq (data : string) (maxlen : int) : string =
  let b = Buffer.create 256 in
  let rec go (s : n list) (pos : int) (k : int) =
    if k >= 300 then () else begin
      let t = rc_read_token (n_of_int maxlen) s in
      let e = int_of_n t.rc_t_end in
      if k > 0 then Buffer.add_char b ';';
      Buffer.add_string b (Printf.sprintf "%d:%s:%d" (tt_index t.rc_t_ty) (hexbytes t.rc_t_raw) (pos + e));
      match t.rc_t_ty with
      | TtEof -> ()
      | _ -> if e = 0 && s = [] then () else go (drop e s) (pos + e) (k + 1)
    end in
  go (bytes_of_string data) 0 0;
  Buffer.contents b

let table_str (t : ((z * z) * n) list) : string =
  String.concat ";" (List.map (fun ((o, g), off) -> Printf.sprintf "%d,%d,%d" (int_of_z o) (int_of_z g) (int_of_n off)) t)

let view_str (r : rc_result) : string =
  if r.r_unsupported then "unsupported" else
  if r.r_fatal then "fatal" else
  Printf.sprintf "ok warn=%d recon=%d root=%s table=%s exit=%d"
    (if r.r_warn then 1 else 0) (if r.r_recon then 1 else 0)
    (match r.r_root with Some (o, g) -> Printf.sprintf "%d,%d" (int_of_z o) (int_of_z g) | None -> "none")
    (table_str r.r_table) (int_of_n (rc_exit_code r))

let events_str (evs : rc_event list) : string =
  String.concat ";" (List.map (fun e -> match e with
    | EvObj (o, g, a) -> Printf.sprintf "o%d,%d,%d" (int_of_z o) (int_of_z g) (int_of_n a)
    | EvTrailer p -> Printf.sprintf "t%d" (int_of_n p)
    | EvStartxref p -> Printf.sprintf "s%d" (int_of_n p)) evs)

(* rj_job <recover 0|1> <dir> <role>:<name> ... : roles M (main input), P (--pages, command-line order; "." is passed
   as the main input's name), O (--overlay/--underlay), A (--copy-attachments-from), E (--copy-encryption).  Every file
   is read with the recovery model (rc_view); the job model and the job specification turn the results into an exit
   status: "model=<n> spec=<n> files=<name>:<fatal><warn>,..." *)
let rj_cache : (string, rc_result) Hashtbl.t = Hashtbl.create 16
let rj_view (recover : bool) (path : string) : rc_result =
  let key = (if recover then "1" else "0") ^ path in
  match Hashtbl.find_opt rj_cache key with
  | Some r -> r
  | None -> let r = rc_view recover (bytes_of_string (rc_read_file path)) in Hashtbl.add rj_cache key r; r

let rj_job_str (recover : bool) (dir : string) (specs : string list) : string =
  let unsupported = ref false in
  let file (name : string) : rj_file =
    let r = rj_view recover (Filename.concat dir name) in
    if r.r_unsupported then unsupported := true;
    rj_of_view (bytes_of_string name) r in
  let main = ref None and pages = ref [] and uo = ref [] and att = ref [] and enc = ref None in
  List.iter (fun s ->
    let role = s.[0] and name = String.sub s 2 (String.length s - 2) in
    match role with
    | 'M' -> main := Some (file name)
    | 'P' -> pages := !pages @ [file name]
    | 'O' -> uo := !uo @ [file name]
    | 'A' -> att := !att @ [file name]
    | 'E' -> enc := Some (file name)
    | _ -> failwith "role") specs;
  let j = { rj_main = !main; rj_pages = !pages; rj_uo = !uo; rj_attach = !att; rj_enc = !enc } in
  if !unsupported then "unsupported" else
  Printf.sprintf "model=%d spec=%d files=%s" (int_of_n (rj_exit j)) (int_of_n (rjs_exit j))
    (String.concat "," (List.map (fun f -> Printf.sprintf "%s:%d%d" (string_of_bytes f.rj_name)
                                    (if f.rj_fatal then 1 else 0) (if f.rj_warn then 1 else 0)) (rj_files j)))

let () =
  register "rj_job" (fun args -> match args with
    | rcv :: dir :: specs -> rj_job_str (rcv = "1") dir specs
    | _ -> "?args");
  register "rc_tok" (fun args -> match args with
    | [h; ml] -> tok_seq (unhex h) (int_of_string ml)
    | _ -> "?args");
  register "rc_view" (fun args -> match args with
    | [path; rcv] -> view_str (rc_view (rcv = "1") (bytes_of_string (rc_read_file path)))
    | _ -> "?args");
  register "rc_scan" (fun args -> match args with
    | [path] -> events_str (rc_scan_events (bytes_of_string (rc_read_file path)))
    | _ -> "?args");
  (* rc_quiet <hex body> : the no_lookalike test of the specification side *)
  register "rc_quiet" (fun args -> match args with
    | [h] -> if rs_quiet (unhexbytes h) then "1" else "0"
    | _ -> "?args");
  register "rc_tailquiet" (fun args -> match args with
    | [h] -> if rs_tail_quiet (unhexbytes h) then "1" else "0"
    | _ -> "?args")
