(* handlers: model of qpdf's damage recovery (File/Recover.v) and its specification side (File/RecoverSpec.v) *)
open Qvmodel
open Runner

let rc_read_file (path : string) : string =
  let ic = open_in_bin path in
  let n = in_channel_length ic in
  let s = really_input_string ic n in
  close_in ic; s

let tt_index (t : rc_tt) : int = match t with
  | TtBad -> 0 | TtArrClose -> 1 | TtArrOpen -> 2 | TtBraceClose -> 3 | TtBraceOpen -> 4 | TtDictClose -> 5
  | TtDictOpen -> 6 | TtInteger -> 7 | TtName -> 8 | TtReal -> 9 | TtString -> 10 | TtNull -> 11 | TtBool -> 12
  | TtWord -> 13 | TtEof -> 14

let rec drop (n : int) (l : 'a list) : 'a list = if n <= 0 then l else match l with [] -> [] | _ :: r -> drop (n - 1) r

(* rc_tok <hex> <maxlen> : the token sequence of the buffer, "type:rawhex:endoffset" joined by ';' (at most 300 tokens) *)
let tok_seq (data : string) (maxlen : int) : string =
  let b = Buffer.create 256 in
  let rec go (s : n list) (pos : int) (k : int) =
    if k >= 300 then () else begin
      let t = rc_read_token (n_of_int maxlen) s in
      let e = int_of_n t.rc_t_end in
      if k > 0 then Buffer.add_char b ';';
      Buffer.add_string b (Printf.sprintf "%d:%s:%d" (tt_index t.rc_t_ty) (hexbytes t.rc_t_raw) (pos + e));
      match t.rc_t_ty with
      | TtEof -> ()
      | _ -> if e = 0 && s = [] then () else go (drop e s) (pos + e) (k + 1)
    end in
  go (bytes_of_string data) 0 0;
  Buffer.contents b

let table_str (t : ((z * z) * n) list) : string =
  String.concat ";" (List.map (fun ((o, g), off) -> Printf.sprintf "%d,%d,%d" (int_of_z o) (int_of_z g) (int_of_n off)) t)

let view_str (r : rc_result) : string =
  if r.r_unsupported then "unsupported" else
  if r.r_fatal then "fatal" else
  Printf.sprintf "ok warn=%d recon=%d root=%s table=%s exit=%d"
    (if r.r_warn then 1 else 0) (if r.r_recon then 1 else 0)
    (match r.r_root with Some (o, g) -> Printf.sprintf "%d,%d" (int_of_z o) (int_of_z g) | None -> "none")
    (table_str r.r_table) (int_of_n (rc_exit_code r))

let events_str (evs : rc_event list) : string =
  String.concat ";" (List.map (fun e -> match e with
    | EvObj (o, g, a) -> Printf.sprintf "o%d,%d,%d" (int_of_z o) (int_of_z g) (int_of_n a)
    | EvTrailer p -> Printf.sprintf "t%d" (int_of_n p)
    | EvStartxref p -> Printf.sprintf "s%d" (int_of_n p)) evs)

let () =
  register "rc_tok" (fun args -> match args with
    | [h; ml] -> tok_seq (unhex h) (int_of_string ml)
    | _ -> "?args");
  register "rc_view" (fun args -> match args with
    | [path; rcv] -> view_str (rc_view (rcv = "1") (bytes_of_string (rc_read_file path)))
    | _ -> "?args");
  register "rc_scan" (fun args -> match args with
    | [path] -> events_str (rc_scan_events (bytes_of_string (rc_read_file path)))
    | _ -> "?args");
  (* rc_quiet <hex body> : the no_lookalike test of the specification side *)
  register "rc_quiet" (fun args -> match args with
    | [h] -> if rs_quiet (unhexbytes h) then "1" else "0"
    | _ -> "?args");
  register "rc_tailquiet" (fun args -> match args with
    | [h] -> if rs_tail_quiet (unhexbytes h) then "1" else "0"
    | _ -> "?args")
