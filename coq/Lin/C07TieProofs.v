(* C07 - tie between the C++ source and the model: the definition generated on every run from the clang AST of
   `static inline int nbits(int val)` (libqpdf/QPDF_linearization.cc; Gen/Leaf.v, lf_nbits, the recursion turned into
   fuel) equals the model nbits (Lin/Hints.v) for every non-negative int, for every fuel from 32 on. *)
From QV Require Import Base.Bytes Lin.HintTypes Lin.Hints.
From Coq Require Import Lia ZifyBool ZifyNat ZifyN.
From QV Require Import Base.LeafSem Base.LeafSemFacts Gen.Leaf.
Local Open Scope N_scope.

Lemma nbits_fuel_zero : forall f, nbits_fuel f 0 = 0.
Proof. destruct f; reflexivity. Qed.

Lemma nbits_fuel_irrelevant : forall m f n, (m <= f)%nat -> n < 2 ^ N.of_nat m ->
  nbits_fuel (S f) n = nbits_fuel (S m) n.
Proof.
  induction m as [|m IH]; intros f n Hf Hn.
  - change (2 ^ N.of_nat 0) with 1 in Hn. assert (n = 0) by lia. subst n. rewrite !nbits_fuel_zero. reflexivity.
  - destruct f as [|f]; [lia|].
    cbn [nbits_fuel]. destruct (N.eqb_spec n 0); [reflexivity|].
    f_equal. apply IH; [lia|].
    rewrite Nat2N.inj_succ, N.pow_succ_r' in Hn.
    apply N.div_lt_upper_bound; lia.
Qed.

Lemma lf_nbits_rec : forall m f v, (m < f)%nat -> (m <= 31)%nat -> (0 <= v < 2 ^ Z.of_nat m)%Z ->
  lf_nbits f v = Z.of_N (nbits_fuel (S m) (Z.to_N v)) /\ (0 <= lf_nbits f v <= Z.of_nat m)%Z.
Proof.
  induction m as [|m IH]; intros f v Hf Hm Hv.
  - change (2 ^ Z.of_nat 0)%Z with 1%Z in Hv. assert (v = 0%Z) by lia. subst v.
    destruct f as [|f]; [lia|]. cbn. lia.
  - destruct f as [|f]; [lia|].
    cbn [lf_nbits].
    destruct (Z.eqb_spec v 0) as [E|E].
    + subst v. cbn. lia.
    + rewrite Z.shiftr_div_pow2 by lia. change (2 ^ 1)%Z with 2%Z.
      rewrite Nat2Z.inj_succ, Z.pow_succ_r in Hv by lia.
      assert (Hq : (0 <= v / 2 < 2 ^ Z.of_nat m)%Z).
      { split; [apply Z.div_pos; lia|]. apply Z.div_lt_upper_bound; lia. }
      destruct (IH f (v / 2)%Z ltac:(lia) ltac:(lia) Hq) as [E1 B1].
      rewrite lf_wrap_s_32_small by lia.
      split; [|lia].
      rewrite E1.
      change (nbits_fuel (S (S m)) (Z.to_N v))
        with (if Z.to_N v =? 0 then 0 else 1 + nbits_fuel (S m) (Z.to_N v / 2)).
      destruct (N.eqb_spec (Z.to_N v) 0); [lia|].
      rewrite Z2N.inj_div by lia. change (Z.to_N 2) with 2. lia.
Qed.

(* the translated C++ of nbits computes the model's nbits for every non-negative int, whatever fuel >= 32 is
   supplied: the C++ recursion is at most 32 deep *)
Lemma nbits_src_lemma : forall fuel v, (32 <= fuel)%nat -> (0 <= v < 2 ^ 31)%Z ->
  lf_nbits fuel v = Z.of_N (nbits (Z.to_N v)).
Proof.
  intros fuel v Hf Hv. unfold nbits.
  destruct (lf_nbits_rec 31 fuel v ltac:(lia) ltac:(lia) Hv) as [E _]. exact E.
Qed.
