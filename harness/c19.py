# C19 - command line, job JSON and the C job API are equivalent.
# Proof: Props/Properties_C19.v (tables_equivalent* over the option tables regenerated from the qpdf source on every run, the
#   front-end model's argv/JSON equivalence, commutation of Config calls).
# Tie / oracle:
#   e2e     option sets drawn from the generated tables (every main option with every allowed value, the nested tables, valid and
#           invalid combinations) rendered as argv, as job JSON, as argv + partial --job-json-file, and through
#           qpdfjob_run_from_argv / qpdfjob_run_from_json; output files, exit status and normalised diagnostics compared.
#   pairs   every ordered pair of main options (and of the options of each nested table) applied in both command-line orders and
#           as job JSON, compared at the configuration the front ends build (QPDFJob::Members dump) and, where that differs,
#           end to end: the non-commuting pairs (DESIGN §6 D12) are found mechanically; pairs not in known_findings.json are reported.
#   model   (part 'front') the extracted front-end model against the configuration dump of the real front ends.
#   spec    (harness/c19_spec.py) the extracted SPECIFICATION of jobs over every option table (Sys/JobSpecX.v: denotation, argv and
#           JSON renderings) against both real front ends and the real Config API: the jobs the refinement theorems quantify over.
#   cwd-*   the hand-written positional / nested handlers in working directories that contain entries named like every kind of word a
#           handler may expect next (page ranges, '--', option words, passwords, key lengths), inputs named like page ranges:
#           cwd-cfg (argv vs job JSON at the configuration dump), cwd-front (model given the directory's names vs implementation),
#           cwd-e2e (five renderings end to end). Theorems: pages_* in Sys/C19ProofsD.v over the specification Sys/JobPagesSpec.v.
import hashlib, itertools, json, os, re, shutil, subprocess
import common, pdfgen
import translate_job_tables as TJ
from common import hexs

ASSUMPTIONS = [
    "outputs are made comparable with --static-id --static-aes-iv; fresh 256-bit encryption draws a random file key (DESIGN D10), so such "
    "outputs are compared after decryption by qpdf itself (--decrypt --static-id) plus their --show-encryption report",
    "usage errors are compared as 'rejected in every form' (exit status 2 everywhere; message text is compared only between the two argv "
    "renderings and between the two JSON renderings, because the parser-level wording legitimately differs between argv and JSON)",
    "the configuration dump reads QPDFJob::Members through the private header compiled with private spelled public (read only)",
    "help-table options (--version, --help, --copyright, --show-crypto, --job-json-help, --json-help, --zopfli, completion) have no job-JSON form by "
    "design and are outside the equivalence; @argfile expansion and reading passwords/arguments from standard input are not exercised "
    "(words @name are used only where no file of that name exists: then they are ordinary words)",
    "cwd parts: the positional --pages grammar cannot say 'range omitted, next file named like a page range' (theorem "
    "pages_positional_rangelike_file_refuted); the renderer gives such a file as --file=, which the manual allows to be mixed in; a page range "
    "that is not one syntactically is given positionally only when no entry of that name exists in the working directory (otherwise the "
    "grammar reads it as a file name)",
]

POOL = ["A.pdf", "B.pdf", "C.pdf", "E.pdf", "E256.pdf", "F.pdf", "att.txt", "att2.txt", "pwfile.txt", "AJ.json", "O.pdf", "W.pdf"]
STAMP = "D:20240102030405Z"

# ------------------------------------------------------------------------------------------------ tables


class Tables:
    def __init__(self):
        d = TJ.parse_all()
        self.raw = d
        self.by_table = {}
        for e in d["argv"]:
            self.by_table.setdefault(e["table"], []).append(e)
        jpaths = {tuple(e["path"]): e for e in d["json"]}
        self.jpaths = jpaths

        def opts(table):
            r = {}
            for e in self.by_table.get(table, []):
                if e["kind"] in ("end", "positional"):
                    continue
                r[TJ.camel(e["flag"])] = e
            return r
        self.main = opts("main")
        self.arrays = {k for k in self.main if (k, "[]") in jpaths and jpaths[(k,)]["kind"] == "array"
                       and jpaths[(k, "[]")]["kind"] in ("bare", "param", "choices", "optchoices")}
        self.sub = {"pages": opts("pages"), "40bit": opts("40-bit-encryption"), "128bit": opts("128-bit-encryption"),
                    "256bit": opts("256-bit-encryption"), "uo": opts("underlay/overlay"), "att": opts("attachment"),
                    "copyatt": opts("copy-attachment"), "global": opts("global"), "enc": opts("encryption")}
        # main options that open a nested table or are otherwise hand-written: rendered specially
        self.structured = {"pages", "encrypt", "overlay", "underlay", "addAttachment", "copyAttachmentsFrom", "global", "setPageLabels",
                           "empty", "replaceInput"}


VALUES = {
    # option -> candidate parameter values (valid first, then boundary / invalid)
    "compressionLevel": ["6", "1", "9", "0", "10", "x", ""],
    "jpegQuality": ["50", "0", "100", "101", "-1", "q"],
    "encryptionFilePassword": ["pw", ""],
    "forceVersion": ["1.7", "2.0", "1.4", "x"],
    "minVersion": ["1.6", "1.7.3", "2.0", "bad"],
    "iiMinBytes": ["100", "0", "x"],
    "jsonObject": ["trailer", "1,0", "2", "bad"],
    "keepFilesOpenThreshold": ["10", "1", "x"],
    "oiMinArea": ["100", "0", "x"],
    "oiMinHeight": ["10", "x"],
    "oiMinWidth": ["10", "x"],
    "password": ["pw", "wrong", ""],
    "removeAttachment": ["att1", "nokey"],
    "rotate": ["+90", "90:1", "-90:2-z", "180:1,3", "45", "+90:bad", "0"],
    "showAttachment": ["att1", "nokey"],
    "showObject": ["trailer", "1", "3,0", "999", "x"],
    "copyEncryption": ["E.pdf", "E256.pdf", "nofile.pdf"],
    "linearizePass1": ["p1.tmp"],
    "passwordFile": ["pwfile.txt", "nofile.txt"],
    "updateFromJson": ["AJ.json", "nofile.json"],
    "jsonStreamPrefix": ["pre"],
    "collate": ["", "2", "1,2", "x", "1,"],
    "splitPages": ["", "2", "0", "x"],
    "jobJsonFile": [],
    # nested tables
    "range": ["1", "1-z", "z-1", "2,1", "r1", "1-2:even", "9", "x"],
    "to": ["1", "1-z", "2", "x"],
    "from": ["1", "", "1-z", "x"],
    "repeat": ["1", "", "x"],
    "key": ["k1", ""],
    "filename": ["shown.txt", ""],
    "creationdate": [STAMP, "D:2020", "yesterday"],
    "moddate": [STAMP, "nope"],
    "mimetype": ["text/plain", "textplain"],
    "description": ["some text", ""],
    "prefix": ["p-", ""],
    "parserMaxContainerSize": ["100", "0", "4294967295", "4294967296", "-1", "x"],
    "parserMaxContainerSizeDamaged": ["50", "x"],
    "parserMaxErrors": ["5", "0", "x"],
    "parserMaxNesting": ["10", "x"],
    "maxStreamFilters": ["3", "0", "x"],
}


def values_for(key, e):
    """candidate JSON values of one option (valid and invalid), from the table entry"""
    k = e["kind"]
    if k == "bare":
        return ["", "x"]
    if k in ("choices", "optchoices"):
        return list(e["choices"]) + ([""] if k == "optchoices" else []) + ["bogus"]
    return VALUES.get(key, ["v"])


def valid_values_for(key, e):
    k = e["kind"]
    if k == "bare":
        return [""]
    if k in ("choices", "optchoices"):
        return list(e["choices"]) + ([""] if k == "optchoices" else [])
    return VALUES.get(key, ["v"])[:1]


# ------------------------------------------------------------------------------------------------ rendering

def flag_arg(e, v):
    """one option as a command-line word. bare: --flag (a non-empty JSON value has no valid argv form: --flag=v is the closest, and is
    rejected by both front ends); optional parameter / optional choice: --flag when the value is empty"""
    f = "--" + e["flag"]
    if e["kind"] == "bare":
        return f if v == "" else f + "=" + v
    if e["kind"] in ("optparam", "optchoices"):
        return f if v == "" else f + "=" + v
    return f + "=" + v


GROUP_RE = re.compile(r"(x)?(z|r?[0-9]+)(?:-(z|r?[0-9]+))?$")


def range_syntax_ok(s):
    """the word is a page range as far as the command line can tell (QUtil::parse_numrange(word, 0) accepts it: the page count is
    not known while the command line is parsed). Written from the manual's page-range grammar (cli.rst, 'Page Ranges'): comma-separated
    groups n | n-m with n = number | rnumber | z, groups after the first may be exclusions (x...), an optional :odd / :even at the end;
    the empty range selects nothing and is accepted."""
    i = s.find(":")
    body = s
    if i >= 0:
        if s[i:] not in (":odd", ":even"):
            return False
        body = s[:i]
    if body == "":
        return True
    first = True
    for g in body.split(","):
        m = GROUP_RE.match(g)
        if not m or (first and m.group(1)):
            return False
        first = False
        for n in (m.group(2), m.group(3)):
            if n and n != "z" and int(n.lstrip("r")) > 2 ** 31 - 1:
                return False
    return True


def posword(w):
    """the word can be given as a positional argument: option words start with '-' (the single word "-" is positional), and a word
    @name is replaced by the lines of the file name when that file exists (QPDFArgParser::handleArgFileArguments)"""
    return not (len(w) >= 2 and w[0] in "-@")


def render_pages(specs, style, files=frozenset()):
    """--pages ... -- for the page specifications of a job. style even: the manual's positional grammar
           filename [--password=password] [page-range]      repeated
    in which a word after a file name is that file's page range when it is a page range, and otherwise the next file name (which must
    then be '.' or an existing file); style odd: --file= / --password= / --range=. The positional form is used for a word only where
    the grammar reads it back as what the job says (files: the names that exist in the working directory); otherwise that word is
    given in the named form, which the manual allows to be mixed in."""
    out = ["--pages"]
    seen_file = False      # a positional file name has been given
    after_range = False    # the last positional word was a page range
    for it in specs:
        named = True
        if "file" in it:
            f = it["file"]
            if style % 2 == 0 and posword(f) and (not seen_file or after_range or not range_syntax_ok(f)):
                out.append(f)
                seen_file, after_range, named = True, False, False
            else:
                out.append("--file=" + f)
        for sk in sorted(it):
            if sk == "password":
                out.append("--password=" + it[sk])
            elif sk == "range":
                r = it[sk]
                if not named and r != "" and posword(r) and (range_syntax_ok(r) or (r != "." and r not in files)):
                    out.append(r)
                    after_range = True
                else:
                    out.append("--range=" + r)
    out.append("--")
    return out


def render_argv(T, job, order=None, style=0, files=frozenset()):
    """the job (JSON-shaped dict) as argv words, options in the given key order (default: byte order of the JSON keys, which is the
    order in which the JSON front end visits them). files: names that exist in the working directory (the positional --pages grammar
    depends on them)"""
    keys = order if order is not None else sorted(job)
    out = []
    for k in keys:
        v = job[k]
        if k == "inputFile":
            out.append(v)
        elif k == "outputFile":
            out.append(v)
        elif k == "pages":
            out += render_pages(v, style, files)
        elif k == "encrypt":
            bits = [b for b in ("40bit", "128bit", "256bit") if b in v]
            b = bits[0] if bits else None
            if style % 2 == 0 and posword(v.get("userPassword", "")) and posword(v.get("ownerPassword", "")):
                out += ["--encrypt", v.get("userPassword", ""), v.get("ownerPassword", ""), b[:-3] if b else "0"]
            else:
                out += ["--encrypt", "--user-password=" + v.get("userPassword", ""), "--owner-password=" + v.get("ownerPassword", ""),
                        "--bits=" + (b[:-3] if b else "0")]
            if b:
                sub = T.sub[b]
                for sk in sorted(v[b]):
                    out.append(flag_arg(sub[sk], v[b][sk]) if sk in sub else "--" + sk + "=" + v[b][sk])
            out.append("--")
        elif k in ("overlay", "underlay"):
            for it in v:
                out.append("--" + k)
                if "file" in it:
                    out.append(it["file"] if style % 2 == 0 and posword(it["file"]) else "--file=" + it["file"])
                for sk in sorted(it):
                    if sk != "file":
                        out.append(flag_arg(T.sub["uo"][sk], it[sk]))
                out.append("--")
        elif k == "addAttachment":
            for it in v:
                out.append("--add-attachment")
                for sk in sorted(it):
                    if sk == "file":
                        out.append(it[sk])
                    else:
                        out.append(flag_arg(T.sub["att"][sk], it[sk]))
                out.append("--")
        elif k == "copyAttachmentsFrom":
            for it in v:
                out.append("--copy-attachments-from")
                for sk in sorted(it):
                    if sk == "file":
                        out.append(it[sk])
                    else:
                        out.append(flag_arg(T.sub["copyatt"][sk], it[sk]))
                out.append("--")
        elif k == "global":
            out.append("--global")
            for sk in sorted(v):
                out.append(flag_arg(T.sub["global"][sk], v[sk]))
            out.append("--")
        elif k == "setPageLabels":
            out += ["--set-page-labels"] + list(v) + ["--"]
        elif k in T.arrays:
            for x in v:
                out.append(flag_arg(T.main[k], x))
        elif k in T.main:
            out.append(flag_arg(T.main[k], v))
        else:
            out.append("--" + k + "=" + str(v))
    return out


# ------------------------------------------------------------------------------------------------ pool

def make_pool(wd):
    pool = os.path.join(wd, "pool")
    os.makedirs(pool)

    def q(*args):
        rc, so, se = common.run_qpdf(list(args), cwd=pool)
        if rc not in (0, 3):
            raise common.InfraError("C19: cannot prepare input pool", "qpdf %s -> %d %s" % (" ".join(args), rc, se.decode("latin-1")[-500:]))
    doc = pdfgen.page_doc(5, marker="A", kids_levels=2, rotate={2: 90})
    open(os.path.join(pool, "A.pdf"), "wb").write(pdfgen.write_classic(doc)[0])
    doc = pdfgen.page_doc(3, marker="B", mediabox={1: [0, 0, 300, 400]})
    open(os.path.join(pool, "B.pdf"), "wb").write(pdfgen.write_classic(doc)[0])
    doc = pdfgen.page_doc(2, marker="O")
    open(os.path.join(pool, "O.pdf"), "wb").write(pdfgen.write_classic(doc)[0])
    open(os.path.join(pool, "att.txt"), "wb").write(b"attachment one\n")
    open(os.path.join(pool, "att2.txt"), "wb").write(b"attachment two, a little longer\n" * 3)
    open(os.path.join(pool, "pwfile.txt"), "wb").write(b"pw\n")
    q("A.pdf", "--static-id", "--object-streams=generate", "--compress-streams=y", "C.pdf")
    q("A.pdf", "--static-id", "--static-aes-iv", "--encrypt", "pw", "opw", "128", "--use-aes=y", "--", "E.pdf")
    q("B.pdf", "--static-id", "--static-aes-iv", "--encrypt", "pw", "opw", "256", "--print=low", "--", "E256.pdf")
    q("A.pdf", "--static-id", "--add-attachment", "att.txt", "--key=att1", "--creationdate=" + STAMP, "--moddate=" + STAMP, "--", "F.pdf")
    q("B.pdf", "--json-output", "AJ.json")
    # a damaged file (wrong startxref): read with warnings, exit status 3
    data = open(os.path.join(pool, "B.pdf"), "rb").read()
    data = re.sub(rb"startxref\n(\d+)", lambda m: b"startxref\n%d" % (int(m.group(1)) + 7), data)
    open(os.path.join(pool, "W.pdf"), "wb").write(data)
    return pool


# ---- what else lies in the working directory. The command line is the only front end whose reading of a word may depend on the
# directory (ArgParser::argPagesPositional asks whether the word names a file; QPDFArgParser expands @file), so every job of the 'cwd'
# parts is run in directories that contain entries named like each kind of word a hand-written handler may expect next: page ranges,
# the table terminator, option words of the nested tables, passwords, key lengths, rotations.
RANGE_NAMES = {"1": "B.pdf", "2": "B.pdf", "1-3": "A.pdf", "z": "F.pdf", "r1": "E.pdf", "1-z": "B.pdf", "z-1": "B.pdf", "2,1": "B.pdf",
               "3,1": "A.pdf", "1-2:even": "B.pdf", "1-z:odd": "B.pdf", "9": "B.pdf", ":odd": "B.pdf", "1,x1": "B.pdf", "r2-r1": "A.pdf"}
TOKEN_NAMES = {"--": "O.pdf", "--password=pw": "O.pdf", "--range=1": "O.pdf", "--file=B.pdf": "O.pdf", "--to=1": "O.pdf", "--from=1": "O.pdf",
               "--repeat=1": "O.pdf", "--key=k1": "att.txt", "--prefix=p-": "F.pdf", "--replace": "att.txt", "--bits=256": "O.pdf",
               "--user-password=u": "O.pdf", "--owner-password=o": "O.pdf", "pw": "O.pdf", "u": "O.pdf", "o": "O.pdf", "opw": "O.pdf",
               "256": "O.pdf", "128": "O.pdf", "40": "O.pdf", "+90": "O.pdf", "+90:1": "O.pdf", "90": "O.pdf", "k1": "att.txt", "p-": "F.pdf",
               "x": "O.pdf", "-x": "O.pdf", "y": "O.pdf", "n": "O.pdf", "--collate": "O.pdf", "--split-pages": "O.pdf"}
FLAVOURS = {
    "plain": {},
    "ranges-pdf": dict(RANGE_NAMES),                               # PDF files named like page ranges
    "ranges-dir": {k: None for k in RANGE_NAMES},                  # directories named like page ranges (fopen succeeds on a directory)
    "tokens": dict(TOKEN_NAMES),                                   # files named like the other words of the nested tables
    "all": dict(list(RANGE_NAMES.items()) + list(TOKEN_NAMES.items())),
}
FLAVOUR_ORDER = ["all", "ranges-dir", "ranges-pdf", "tokens", "plain"]


def flavour_files(flavour):
    """the names QUtil::file_can_be_opened accepts in a run directory of that flavour"""
    return frozenset(POOL) | frozenset(FLAVOURS[flavour])


def job_words(v):
    """every string in a JSON-shaped job"""
    if isinstance(v, str):
        return {v}
    if isinstance(v, dict):
        return set().union(*[job_words(x) for x in v.values()]) if v else set()
    if isinstance(v, list):
        return set().union(*[job_words(x) for x in v]) if v else set()
    return set()


def new_rundir(wd, pool, name, flavour="plain", only=None):
    """only: create just those entries of the flavour (the end-to-end runs need five directories per job and create the look-alike
    entries whose name is a word of the job - a front end can only ask about names it is given; the configuration-level and model
    runs use the whole flavour)"""
    d = os.path.join(wd, "r", name)
    os.makedirs(d)
    for f in POOL:
        os.symlink(os.path.join(pool, f), os.path.join(d, f))
    for f, target in FLAVOURS[flavour].items():
        if only is not None and f not in only:
            continue
        if target is None:
            os.mkdir(os.path.join(d, f))
        else:
            os.symlink(os.path.join(pool, target), os.path.join(d, f))
    return d


# ------------------------------------------------------------------------------------------------ running the renderings

BANNER_RE = re.compile(r"\n\nFor help:\n  \S+ --help=usage +usage information\n  \S+ --help=topic +help on a topic\n"
                       r"  \S+ --help=--option +help on an option\n  \S+ --help +general help and a topic list\n\n$")


def normalise_err(err):
    s = err.decode("latin-1")
    usage = False
    m = BANNER_RE.search(s)
    if m:
        # usageExit of the qpdf executable: "\n<whoami>: <message>\n\nFor help: ..." (possibly after warnings already printed)
        head = s[:m.start()]
        i = 0 if head.startswith("\nqpdf: ") else head.rfind("\n\nqpdf: ")
        if i >= 0:
            usage = True
            s = (head[1:] if i == 0 else head[:i + 1] + head[i + 2:]) + "\n"
    s = re.sub(r"^qpdfjob json: ", "qpdf: ", s, flags=re.M)
    s = re.sub(r"error with job-json file \S+: ", "", s)
    s = re.sub(r"\nRun qpdf --job-json-help for information on the file format\.", "", s)
    s = re.sub(r"qpdf-max-memory-usage \d+", "qpdf-max-memory-usage N", s)
    return usage, s


SKIP_FILES = {"job.json", "part.json", "capi.out", "capi.err"}


def collect(d, job, T):
    files = {}
    for root, dirs, fs in os.walk(d):
        for f in fs:
            p = os.path.join(root, f)
            rel = os.path.relpath(p, d)
            if rel in SKIP_FILES or rel.endswith(".dec") or rel.endswith(".senc"):
                continue
            if os.path.islink(p):
                continue
            files[rel] = p
    enc256 = isinstance(job.get("encrypt"), dict) and "256bit" in job["encrypt"]
    res = {}
    for rel, p in sorted(files.items()):
        data = open(p, "rb").read()
        if enc256 and data.startswith(b"%PDF"):
            e = job["encrypt"]
            pw = e.get("ownerPassword", "") or e.get("userPassword", "")
            rc, so, se = common.run_qpdf(["--password=" + pw, "--decrypt", "--static-id", p, p + ".dec"])
            rc2, so2, se2 = common.run_qpdf(["--password=" + pw, "--show-encryption", p])
            dec = open(p + ".dec", "rb").read() if os.path.exists(p + ".dec") else b""
            res[rel] = "dec:%d:%s:enc:%s" % (rc, hashlib.sha256(dec).hexdigest()[:16], hashlib.sha256(so2 + se2.replace(p.encode(), b"F")).hexdigest()[:16])
        else:
            res[rel] = hashlib.sha256(data).hexdigest()[:16] + ":%d" % len(data)
    return res


class Runner:
    """runs one job in its renderings and compares"""

    def __init__(self, chk, T, wd, pool, drv):
        self.chk, self.T, self.wd, self.pool, self.drv = chk, T, wd, pool, drv
        self.n = 0

    def prepare(self, job, tag, argv_order=None, mix_cut=None, style=0, json_job=None, argv_override=None, flavour="plain"):
        """-> list of (rendering name, kind, dir, payload). flavour: what else lies in the working directories (FLAVOURS)"""
        T = self.T
        self.n += 1
        base = "%s%05d" % (tag, self.n)
        rs = []
        files = flavour_files(flavour)
        only = job_words(job) | job_words(json_job) if flavour != "plain" else None

        def rundir(name):
            return new_rundir(self.wd, self.pool, base + "/" + name, flavour, only)
        argv = argv_override if argv_override is not None else render_argv(T, job, argv_order, style, files)
        rs.append(("cli-argv", "cli", rundir("cli-argv"), argv))
        d = rundir("cli-json")
        jj = json_job if json_job is not None else job
        open(os.path.join(d, "job.json"), "w").write(json.dumps(jj))
        rs.append(("cli-json", "cli", d, ["--job-json-file=job.json"]))
        # argv + partial JSON: a contiguous cut of the key order goes to the file, so that the overall order of Config calls is kept
        keys = argv_order if argv_order is not None else sorted(job)
        pos = [k for k in keys if k in ("inputFile", "outputFile", "empty", "replaceInput")]   # positional / their substitutes: one side
        okeys = [k for k in keys if k not in pos]
        cut = mix_cut if mix_cut is not None else (len(okeys) // 2)
        first, second = okeys[:cut], okeys[cut:]
        d = rundir("cli-mix")
        if self.n % 2 == 0:
            part = {k: jj[k] for k in first}
            rest = {k: job[k] for k in second + pos}
            margv = ["--job-json-file=part.json"] + render_argv(T, rest, [k for k in keys if k in rest], style, files)
        else:
            part = {k: jj[k] for k in second}
            rest = {k: job[k] for k in first + pos}
            margv = render_argv(T, rest, [k for k in keys if k in rest], style, files) + ["--job-json-file=part.json"]
        open(os.path.join(d, "part.json"), "w").write(json.dumps(part))
        rs.append(("cli-mix", "cli", d, margv))
        rs.append(("capi-argv", "capi-argv", rundir("capi-argv"), argv))
        rs.append(("capi-json", "capi-json", rundir("capi-json"), json.dumps(jj)))
        return rs

    def run_all(self, prepared):
        """prepared: list of (job, renderings). returns list of dict name -> outcome"""
        cli = [(ji, ri) for ji, (job, rs) in enumerate(prepared) for ri, r in enumerate(rs) if r[1] == "cli"]

        def run_cli(x):
            ji, ri = x
            name, kind, d, payload = prepared[ji][1][ri]
            return common.run_qpdf(payload, cwd=d, timeout=60)
        cli_res = common.par_map(run_cli, cli, workers=4)
        lines, lidx = [], []
        for ji, (job, rs) in enumerate(prepared):
            for ri, r in enumerate(rs):
                if r[1] == "capi-argv":
                    lines.append("run_argv %s %s %s" % (hexs(r[2]), hexs("capi"), " ".join(hexs(a) if a != "" else "-" for a in r[3])))
                    lidx.append((ji, ri))
                elif r[1] == "capi-json":
                    lines.append("run_json %s %s %s" % (hexs(r[2]), hexs("capi"), hexs(r[3])))
                    lidx.append((ji, ri))
        capi = common.run_lines(self.drv, lines, shards=4)
        raw = {}
        for (ji, ri), (rc, so, se) in zip(cli, cli_res):
            raw[(ji, ri)] = (rc, so, se)
        for (ji, ri), o in zip(lidx, capi):
            d = prepared[ji][1][ri][2]
            if o.startswith("rc "):
                rc = int(o[3:])
                so = open(os.path.join(d, "capi.out"), "rb").read()
                se = open(os.path.join(d, "capi.err"), "rb").read()
            else:
                rc, so, se = -1, b"", o.encode()
            raw[(ji, ri)] = (rc, so, se)
        results = []

        def fin(ji):
            job, rs = prepared[ji]
            res = {}
            for ri, r in enumerate(rs):
                rc, so, se = raw[(ji, ri)]
                usage, err = normalise_err(se)
                so = re.sub(rb"(?m)^qpdfjob json: ", b"qpdf: ", so)
                res[r[0]] = {"rc": rc, "usage": usage, "stdout": hashlib.sha256(so).hexdigest()[:16] + ":%d" % len(so), "stderr": err,
                             "files": collect(r[2], job, self.T) if rc in (0, 3) else {}, "payload": r[3]}
            return res
        return common.par_map(fin, range(len(prepared)), workers=4)


def compare(res):
    """-> None when the renderings agree, else a short reason"""
    names = list(res)
    ref = res["cli-argv"]
    rcs = {n: res[n]["rc"] for n in names}
    if len(set(rcs.values())) != 1:
        return "exit status differs: %s" % rcs
    if ref["rc"] == 2:
        if ref["usage"]:
            # rejected as a usage error: every form must reject; wording is compared inside each front-end family
            if res["capi-argv"]["stderr"] != ref["stderr"]:
                return "usage message differs between the qpdf executable and qpdfjob_run_from_argv"
            if res["cli-json"]["usage"] and res["capi-json"]["stderr"] != res["cli-json"]["stderr"]:
                return "usage message differs between --job-json-file and qpdfjob_run_from_json"
            return None
    for n in names[1:]:
        for what in ("stdout", "stderr", "files"):
            if res[n][what] != ref[what]:
                if what == "stderr" and ref["rc"] == 2 and (res[n]["usage"] or ref["usage"]):
                    continue
                return "%s differs between cli-argv and %s" % (what, n)
    return None


# ------------------------------------------------------------------------------------------------ job generation

def base_job(inp="A.pdf", out="out.pdf"):
    j = {"inputFile": inp, "staticId": "", "staticAesIv": ""}
    if out is not None:
        j["outputFile"] = out
    return j


def context_for(key, v, j):
    """adjust the surrounding job so that the option is exercised where it means something"""
    if key in ("password", "passwordFile", "decrypt", "requiresPassword", "isEncrypted", "showEncryption", "showEncryptionKey", "removeRestrictions",
               "suppressPasswordRecovery", "passwordMode", "passwordIsHexKey"):
        j["inputFile"] = "E.pdf"
        if key not in ("password", "passwordFile", "passwordIsHexKey", "requiresPassword", "isEncrypted"):
            j["password"] = "pw"
    if key in ("removeAttachment", "showAttachment", "listAttachments"):
        j["inputFile"] = "F.pdf"
    if key in ("jsonKey", "jsonObject", "jsonStreamData", "jsonStreamPrefix"):
        j["json"] = "2"
    if key == "jsonInput":
        j["inputFile"] = "AJ.json"
    if key == "encryptionFilePassword":
        j["copyEncryption"] = "E.pdf"
    if key == "collate":
        j["pages"] = [{"file": ".", "range": "1-2"}, {"file": "B.pdf", "range": "1-3"}]
    if key == "linearizePass1":
        j["linearize"] = ""
    if key == "showEncryptionKey":
        j["showEncryption"] = ""
    if key == "withImages":
        j["showPages"] = ""
    if key in ("filteredStreamData", "rawStreamData"):
        j["showObject"] = "8"
    if key in ("keepInlineImages", "oiMinArea", "oiMinHeight", "oiMinWidth", "jpegQuality"):
        j["optimizeImages"] = ""
    if key == "iiMinBytes":
        j["externalizeInlineImages"] = ""
    if key == "noOriginalObjectIds":
        j["qdf"] = ""
    if key == "splitPages":
        j["outputFile"] = "split-%d.pdf"
    if key == "allowWeakCrypto":
        j["encrypt"] = {"userPassword": "u", "ownerPassword": "o", "40bit": {}}
    return j


def sub_values(T):
    """(table name, option, value) instances of the nested tables"""
    r = []
    for tb in ("40bit", "128bit", "256bit", "uo", "att", "copyatt", "global", "pages"):
        for k, e in sorted(T.sub[tb].items()):
            if tb == "pages" and k == "file":
                continue
            if tb == "uo" and k == "file":
                continue
            for v in values_for(k, e):
                r.append((tb, k, v))
    return r


def nested_job(tb, k, v):
    j = base_job()
    if tb in ("40bit", "128bit", "256bit"):
        j["encrypt"] = {"userPassword": "u", "ownerPassword": "o", tb: {k: v}}
        if tb != "256bit":
            j["allowWeakCrypto"] = ""
    elif tb == "uo":
        it = {"file": "O.pdf", k: v}
        j["overlay" if len(v) % 2 == 0 else "underlay"] = [it]
    elif tb == "att":
        it = {"file": "att.txt", "creationdate": STAMP, "moddate": STAMP}
        it[k] = v
        j["addAttachment"] = [it]
    elif tb == "copyatt":
        it = {"file": "F.pdf"}
        it[k] = v
        j["copyAttachmentsFrom"] = [it]
    elif tb == "global":
        j["global"] = {k: v}
    elif tb == "pages":
        it = {"file": "B.pdf" if k == "range" else "E.pdf"}
        it[k] = v
        j["pages"] = [{"file": "."}, it]
    return j


STRUCT_JOBS = [
    # hand-made structures around the hand-written handlers, valid and invalid
    {"pages": [{"file": ".", "range": "1-2"}, {"file": "B.pdf"}]},
    {"pages": [{"file": "B.pdf", "range": "z-1"}, {"file": ".", "range": "1"}, {"file": "B.pdf", "range": "2"}]},
    {"pages": [{"file": "E.pdf", "password": "pw", "range": "1"}]},
    {"pages": [{"file": "E.pdf", "password": "pw", "range": "1"}, {"file": "E.pdf", "password": "other", "range": "2"}]},
    {"pages": [{"file": "E.pdf", "range": "1"}]},
    {"pages": []},
    {"pages": [{"range": "1"}]},
    {"pages": [{"file": "A.pdf", "range": "1-2"}], "collate": ""},
    {"pages": [{"file": ".", "range": "1-4"}, {"file": "B.pdf", "range": "1-3"}], "collate": "2,1"},
    {"pages": [{"file": "nofile.pdf"}]},
    {"inputFile": "B.pdf", "pages": [{"file": "."}, {"file": "A.pdf", "range": "1"}]},
    {"empty": "", "inputFile": None, "pages": [{"file": "A.pdf", "range": "1,3"}]},
    {"empty": "", "inputFile": None},
    {"empty": ""},
    {"replaceInput": "", "outputFile": None},
    {"replaceInput": ""},
    {"replaceInput": "", "outputFile": None, "splitPages": ""},
    {"outputFile": None},
    {"outputFile": "-"},
    {"outputFile": "A.pdf"},
    {"inputFile": "nofile.pdf"},
    {"encrypt": {"userPassword": "u", "ownerPassword": "o", "256bit": {}}},
    {"encrypt": {"userPassword": "", "ownerPassword": "o", "256bit": {"print": "low", "modify": "form", "extract": "n"}}},
    {"encrypt": {"userPassword": "u", "ownerPassword": "", "256bit": {}}},
    {"encrypt": {"userPassword": "u", "ownerPassword": "", "256bit": {"allowInsecure": ""}}},
    {"encrypt": {"userPassword": "u", "ownerPassword": "o", "256bit": {"forceR5": ""}}},
    {"encrypt": {"userPassword": "u", "ownerPassword": "o", "128bit": {"useAes": "y"}}, "allowWeakCrypto": ""},
    {"encrypt": {"userPassword": "u", "ownerPassword": "o", "128bit": {"useAes": "y", "cleartextMetadata": "", "forceV4": ""}}},
    {"encrypt": {"userPassword": "u", "ownerPassword": "o", "128bit": {}}},
    {"encrypt": {"userPassword": "u", "ownerPassword": "o", "40bit": {"extract": "n", "annotate": "n"}}, "allowWeakCrypto": ""},
    {"encrypt": {"userPassword": "u", "ownerPassword": "o", "40bit": {}}},
    {"encrypt": {"userPassword": "u", "ownerPassword": "o", "256bit": {}}, "deterministicId": "", "staticId": None},
    {"encrypt": {"userPassword": "u", "ownerPassword": "o", "256bit": {}}, "linearize": ""},
    {"copyEncryption": "E.pdf", "encryptionFilePassword": "pw"},
    {"copyEncryption": "E.pdf", "encryptionFilePassword": "bad"},
    {"inputFile": "E.pdf", "password": "pw", "decrypt": ""},
    {"overlay": [{"file": "O.pdf"}]},
    {"overlay": [{"file": "O.pdf", "to": "1-3", "from": "1", "repeat": "2"}], "underlay": [{"file": "B.pdf", "to": "2"}]},
    {"overlay": [{"file": "O.pdf", "to": "1"}, {"file": "B.pdf", "to": "2", "from": "3"}]},
    {"underlay": [{"file": "E.pdf", "password": "pw"}]},
    {"underlay": [{"file": "E.pdf"}]},
    {"overlay": [{"to": "1"}]},
    {"overlay": [{"file": "O.pdf", "to": "bad"}]},
    {"addAttachment": [{"file": "att.txt", "creationdate": STAMP, "moddate": STAMP}]},
    {"addAttachment": [{"file": "att.txt", "key": "k", "filename": "f.txt", "mimetype": "text/plain", "description": "d", "creationdate": STAMP, "moddate": STAMP},
                       {"file": "att2.txt", "creationdate": STAMP, "moddate": STAMP}]},
    {"inputFile": "F.pdf", "addAttachment": [{"file": "att2.txt", "key": "att1", "creationdate": STAMP, "moddate": STAMP}]},
    {"inputFile": "F.pdf", "addAttachment": [{"file": "att2.txt", "key": "att1", "replace": "", "creationdate": STAMP, "moddate": STAMP}]},
    {"addAttachment": [{"key": "k"}]},
    {"addAttachment": [{"file": "nofile.txt", "creationdate": STAMP, "moddate": STAMP}]},
    {"copyAttachmentsFrom": [{"file": "F.pdf"}]},
    {"copyAttachmentsFrom": [{"file": "F.pdf", "prefix": "x-"}, {"file": "F.pdf", "prefix": "y-"}]},
    {"copyAttachmentsFrom": [{"prefix": "x-"}]},
    {"inputFile": "F.pdf", "removeAttachment": ["att1"]},
    {"inputFile": "F.pdf", "removeAttachment": ["att1", "att1"]},
    {"global": {}},
    {"global": {"noDefaultLimits": "", "parserMaxErrors": "3"}},
    {"global": {"parserMaxNesting": "2"}},
    {"setPageLabels": ["1:r", "3:D/5", "z:A//x-"]},
    {"setPageLabels": ["1:"]},
    {"setPageLabels": []},
    {"setPageLabels": ["bad"]},
    {"setPageLabels": ["1:D/0"]},
    {"setPageLabels": ["3:r", "1:D"]},
    {"rotate": ["+90:1", "180:2"]},
    {"rotate": ["+90:1", "-90:1"]},
    {"jsonKey": ["pages", "outlines"], "json": "2"},
    {"jsonKey": ["qpdf"], "json": "1"},
    {"jsonKey": ["objects"], "json": "2"},
    {"json": "", "jsonObject": ["1,0", "trailer"], "jsonKey": ["qpdf"]},
    {"json": "latest", "outputFile": None},
    {"jsonOutput": "", "outputFile": None},
    {"jsonOutput": "2", "jsonStreamData": "file", "jsonStreamPrefix": "pre"},
    {"qdf": "", "linearize": ""},
    {"inputFile": "AJ.json", "jsonInput": ""},
    {"updateFromJson": "AJ.json", "inputFile": "B.pdf"},
    {"requiresPassword": "", "isEncrypted": "", "outputFile": None},
    {"check": "", "outputFile": None, "inputFile": "C.pdf"},
    {"showNpages": "", "outputFile": None, "verbose": ""},
    {"splitPages": "2", "outputFile": "s-%d.pdf"},
    {"splitPages": "", "outputFile": "-"},
    {"progress": "", "verbose": ""},
    {"warningExit0": "", "inputFile": "E.pdf"},
    {"inputFile": "W.pdf"},
    {"inputFile": "W.pdf", "warningExit0": ""},
    {"inputFile": "W.pdf", "noWarn": ""},
    {"inputFile": "W.pdf", "check": "", "outputFile": None},
    {"inputFile": "W.pdf", "suppressRecovery": ""},
    {"pages": [{"file": "W.pdf", "range": "1"}]},
]


def struct_job(s):
    j = base_job()
    for k, v in s.items():
        if v is None:
            j.pop(k, None)
        else:
            j[k] = v
    return j


def random_job(T, rng):
    j = base_job(rng.choice(["A.pdf", "A.pdf", "B.pdf", "C.pdf", "F.pdf", "W.pdf"]))
    simple = [k for k in T.main if k not in T.structured and k not in ("jobJsonFile", "passwordFile")]
    for _ in range(rng.randint(2, 5)):
        k = rng.choice(simple)
        e = T.main[k]
        vals = valid_values_for(k, e) if rng.random() < 0.85 else values_for(k, e)
        if not vals:
            continue
        v = rng.choice(vals)
        if k in T.arrays:
            j[k] = [v] if rng.random() < 0.6 else [v, rng.choice(vals)]
        else:
            j[k] = v
        if rng.random() < 0.5:
            context_for(k, v, j)
    r = rng.random()
    if r < 0.45:
        s = rng.choice([x for x in STRUCT_JOBS if "empty" not in x and "replaceInput" not in x])
        for k, v in s.items():
            if v is not None and k not in ("inputFile", "outputFile"):
                j[k] = v
    return j


# ------------------------------------------------------------------------------------------------ parts

def report(chk, part, job, res, why, signature="", extra=None):
    rep = {"kind": "property-fails-on-implementation", "part": part, "why": why, "job_json": job, "job_json_as_given": res["capi-json"]["payload"],
           "renderings": {n: {"payload": r["payload"], "rc": r["rc"], "stderr": r["stderr"][-600:], "stdout": r["stdout"], "files": r["files"]}
                          for n, r in res.items()}}
    rep.update(extra or {})
    chk.violation(rep, signature=signature)


def enc40_signature(job, res):
    """input classes of the recorded findings (known_findings.json):
    C19:enc40-choices      encrypt.40bit.print / .modify take the 128-bit choice lists in the job JSON
    C19:empty-with-inputFile   job JSON accepts "empty" together with "inputFile" (the command line rejects both orders)"""
    e = job.get("encrypt")
    if isinstance(e, dict) and isinstance(e.get("40bit"), dict):
        ks = sorted(k for k in e["40bit"] if k in ("print", "modify"))
        if ks:
            return "C19:enc40-choices:" + "+".join(ks)
    if "empty" in job and "inputFile" in job and job["empty"] == "":
        return "C19:empty-with-inputFile"
    return ""


def part_e2e(chk, T, runner, pending=()):
    rng = chk.rng
    jobs = [("c", j) for j in pending[:200]]   # (tag, job)
    # 1. every main option with every candidate value
    for k, e in sorted(T.main.items()):
        if k in T.structured or k == "jobJsonFile":
            continue
        for v in values_for(k, e):
            j = base_job()
            j[k] = [v] if k in T.arrays else v
            context_for(k, v, j)
            jobs.append(("m", j))
    # 2. nested tables
    for tb, k, v in sub_values(T):
        jobs.append(("n", nested_job(tb, k, v)))
    # 3. hand-made structures
    for s in STRUCT_JOBS:
        jobs.append(("s", struct_job(s)))
    # 4. random combinations
    nrand = 150 if chk.tier == "quick" else 15000
    for _ in range(nrand):
        jobs.append(("r", random_job(T, rng)))
    # 5. job JSON with a single item where the schema has an array (JSON::checkSchema accepts it): same job, other JSON shape
    singles, per_key = {}, {}
    for tag, j in list(jobs):
        for k, v in j.items():
            if isinstance(v, list) and len(v) == 1 and (k, json.dumps(v)) not in singles and per_key.get(k, 0) < (4 if chk.tier == "quick" else 40):
                singles[(k, json.dumps(v))] = j
                per_key[k] = per_key.get(k, 0) + 1
    njobs_plain = len(jobs)
    alt = {}
    for (k, _), j in singles.items():
        jj = dict(j)
        jj[k] = j[k][0]
        alt[len(jobs)] = (k, jj)
        jobs.append(("a", j))
    # inspection options refuse an output file: exercise them without one as well
    prepared = [(j, runner.prepare(j, tag, style=i, json_job=alt[i][1] if i in alt else None)) for i, (tag, j) in enumerate(jobs)]
    results = runner.run_all(prepared)
    extra = []
    for (tag, j), res in zip(jobs, results):
        if res["cli-argv"]["usage"] and "no output file may be given for this option" in res["cli-argv"]["stderr"] and "outputFile" in j:
            j2 = dict(j)
            j2.pop("outputFile")
            extra.append((tag + "i", j2))
    prepared2 = [(j, runner.prepare(j, tag, style=i)) for i, (tag, j) in enumerate(extra)]
    results2 = runner.run_all(prepared2)
    alljobs = jobs + extra
    allres = results + results2
    nontriv, dist = set(), {"ok": 0, "warn": 0, "usage": 0, "error": 0}
    nontriv_idx = []
    alt_key = {id(results[i]): alt[i][0] for i in alt}
    for (tag, j), res in zip(alljobs, allres):
        why = compare(res)
        ref = res["cli-argv"]
        cls = "usage" if ref["usage"] else {0: "ok", 3: "warn"}.get(ref["rc"], "error")
        dist[cls] = dist.get(cls, 0) + 1
        if ref["rc"] in (0, 3) and (ref["files"] or ref["stdout"][-2:] != ":0"):
            nontriv.add(json.dumps(j, sort_keys=True))
        if why:
            idx = len(nontriv_idx)
            sig = enc40_signature(j, res)
            if tag == "a" and not sig:
                sig = "C19:json-single-item:" + alt_key.get(id(res), "?")
            report(chk, "e2e", j, res, why, signature=sig)
    chk.count("e2e", 5 * len(alljobs), nontriv,
              samples=[{"job": alljobs[i][1], "argv": allres[i]["cli-argv"]["payload"], "rc": allres[i]["cli-argv"]["rc"]} for i in (3, len(jobs) // 2, len(jobs) - 1)])
    chk.cov["parts"]["e2e"]["distribution"] = dist
    chk.cov["parts"]["e2e"]["option_sets"] = len(alljobs)
    chk.cov["parts"]["e2e"]["streams"] = {"main option x value": sum(1 for t, _ in jobs if t == "m"), "nested option x value": sum(1 for t, _ in jobs if t == "n"),
                                          "hand-made structures": sum(1 for t, _ in jobs if t == "s"), "random": nrand, "inspection reruns": len(extra)}


# ---- order-sensitive pairs

def cfg_lines_for(T, job, order):
    argv = render_argv(T, job, order)
    forked = "global" in job
    return ("cfgf_argv " if forked else "cfg_argv ") + " ".join(hexs(a) if a != "" else "-" for a in argv)


def NOW_PREFIXES():
    import time
    t = time.time()
    return {time.strftime("D:%Y%m%d", f(t + dt)) for f in (time.gmtime, time.localtime) for dt in (-86400, 0, 86400)}


def parse_dump(o):
    if o.startswith("ok "):
        d = dict(x.split("=", 1) for x in o[3:].split(";") if x)
        # AttConfig::endAddAttachment defaults the dates to a per-process static "now": not comparable between processes
        for k in d:
            if k.endswith((".creationdate", ".moddate")) and d[k] != "-":
                v = bytes.fromhex(d[k]).decode("latin-1")
                if re.match(r"^D:20\d{12}", v) and v[:10] in NOW_PREFIXES():
                    d[k] = "now"
        return ("ok", d)
    if o.startswith("usage "):
        return ("usage", bytes.fromhex(o[6:]).decode("latin-1") if o[6:] != "-" else "")
    return ("error", o)


def dump_diff(a, b):
    if a[0] != b[0]:
        return ["outcome: %s / %s" % (a[0], b[0])]
    if a[0] == "usage":
        return []
    if a[0] == "ok":
        return sorted(k for k in set(a[1]) | set(b[1]) if a[1].get(k) != b[1].get(k))
    return [] if a[1] == b[1] else ["message"]


def pair_instances(T, tier):
    """(key, value) instances of the main table used for the pair sweep"""
    inst = []
    for k, e in sorted(T.main.items()):
        if k in ("jobJsonFile", "passwordFile") or k in ("pages", "overlay", "underlay", "addAttachment", "copyAttachmentsFrom", "global", "setPageLabels"):
            continue
        if k == "encrypt":
            inst.append((k, {"userPassword": "u", "ownerPassword": "o", "256bit": {}}))
            continue
        vals = valid_values_for(k, e)
        if e["kind"] not in ("choices", "optchoices") and tier == "quick":
            vals = vals[:1]
        if tier == "quick" and e["kind"] in ("choices", "optchoices"):
            vals = vals[:2] + vals[-1:] if len(vals) > 3 else vals
        for v in vals:
            inst.append((k, [v] if k in T.arrays else v))
    return inst


def part_pairs(chk, T, runner):
    """Config calls are applied in command-line order by argv and in key order by job JSON: find every pair of options for which the
    two command-line orders build different configurations (mechanically, over the generated tables)."""
    inst = pair_instances(T, chk.tier)
    base = base_job()
    cases = []
    for (k1, v1), (k2, v2) in itertools.combinations(inst, 2):
        if k1 == k2:
            continue
        j = dict(base)
        j[k1], j[k2] = v1, v2
        rest = [k for k in sorted(base)]
        cases.append((j, rest + [k1, k2], rest + [k2, k1], (k1, k2)))
    # nested tables: pairs inside one encryption table
    for tb in ("128bit", "256bit", "40bit"):
        sub = []
        for k, e in sorted(T.sub[tb].items()):
            for v in valid_values_for(k, e):
                sub.append((k, v))
        for (k1, v1), (k2, v2) in itertools.combinations(sub, 2):
            if k1 == k2:
                continue
            cases.append(("enc", tb, (k1, v1), (k2, v2)))
    lines = []
    for c in cases:
        if c[0] == "enc":
            _, tb, (k1, v1), (k2, v2) = c
            pre = ["A.pdf", "out.pdf", "--encrypt", "u", "o", tb[:-3]]
            e1, e2 = flag_arg(T.sub[tb][k1], v1), flag_arg(T.sub[tb][k2], v2)
            for words in (pre + [e1, e2, "--"], pre + [e2, e1, "--"]):
                lines.append("cfg_argv " + " ".join(hexs(a) for a in words))
        else:
            j, o1, o2, _ = c
            lines.append(cfg_lines_for(T, j, o1))
            lines.append(cfg_lines_for(T, j, o2))
    outs = common.run_lines(runner.drv, lines, shards=4)
    found = {}   # pair name -> (case, differing fields)
    for i, c in enumerate(cases):
        a, b = parse_dump(outs[2 * i]), parse_dump(outs[2 * i + 1])
        df = dump_diff(a, b)
        if df:
            if c[0] == "enc":
                name = "encrypt.%s:%s+%s" % ((c[1],) + tuple(sorted((c[2][0], c[3][0]))))
            else:
                name = "+".join(sorted(c[3]))
            found.setdefault(name, []).append((c, df))
    # confirm end to end: the argv order that is NOT the key order against the job JSON
    confirm = []
    for name, lst in sorted(found.items()):
        c, df = lst[0]
        if c[0] == "enc":
            _, tb, (k1, v1), (k2, v2) = c
            j = base_job()
            j["encrypt"] = {"userPassword": "u", "ownerPassword": "o", tb: {k1: v1, k2: v2}}
            if tb != "256bit":
                j["allowWeakCrypto"] = ""
            confirm.append((name, j, None, (tb, k1, k2), df))
        else:
            j, o1, o2, (k1, k2) = c
            ks = sorted(j)
            rev = [k for k in ks if k not in (k1, k2)] + sorted([k1, k2], reverse=True)
            confirm.append((name, j, rev, None, df))
    prepared, pidx = [], []
    for ci, (name, j, rev, enc, df) in enumerate(confirm):
        for inp in ("A.pdf", "C.pdf"):
            j2 = dict(j)
            j2["inputFile"] = inp
            rs = runner.prepare(j2, "p", argv_order=rev)
            if enc is not None:
                # reverse the two sub-options inside the encryption table by hand
                tb, k1, k2 = enc
                e = j2["encrypt"][tb]
                words = [inp, "--static-aes-iv", "--static-id", "out.pdf"] + (["--allow-weak-crypto"] if tb != "256bit" else []) + \
                        ["--encrypt", "u", "o", tb[:-3]] + [flag_arg(T.sub[tb][k], e[k]) for k in sorted(e, reverse=True)] + ["--"]
                rs[0] = (rs[0][0], rs[0][1], rs[0][2], words)
                rs[3] = (rs[3][0], rs[3][1], rs[3][2], words)
            # the reversed command-line order (executable and C API) against the job JSON (file and C API)
            prepared.append((j2, [rs[0], rs[1], rs[3], rs[4]]))
            pidx.append(ci)
    results = runner.run_all(prepared) if prepared else []
    observed = []
    per = {}
    for ci, (j2, rs), res in zip(pidx, prepared, results):
        a, b = res["cli-argv"], res["cli-json"]
        visible = (a["rc"], a["stdout"], a["files"], a["usage"]) != (b["rc"], b["stdout"], b["files"], b["usage"]) or \
                  (a["rc"] != 2 and a["stderr"] != b["stderr"])
        if ci not in per or (visible and not per[ci][0]):
            per[ci] = (visible, j2, a, b)
    for ci, (name, j, rev, enc, df) in enumerate(confirm):
        visible, j2, a, b = per[ci]
        sig = "C19:order-sensitive-flags:" + name
        observed.append({"pair": name, "config_fields": df[:8], "end_to_end_visible": visible})
        rep = {"kind": "property-fails-on-implementation", "part": "pairs",
               "why": "the two command-line orders of this pair of options build different configurations; job JSON can only express the key order"
                      + (" (visible in the output / exit status / diagnostics)" if visible else " (configuration fields differ; not visible on the probe inputs)"),
               "pair": name, "differing_config_fields": df[:12], "job_json": j2,
               "argv_reversed_order": a["payload"], "argv": {"rc": a["rc"], "stderr": a["stderr"][-300:], "files": a["files"], "stdout": a["stdout"]},
               "json": {"rc": b["rc"], "stderr": b["stderr"][-300:], "files": b["files"], "stdout": b["stdout"]}}
        if chk.known_match(sig) is None and not visible:
            chk.violation(rep, no_input=True)
        else:
            chk.violation(rep, signature=sig)
    # cross-check with the footprints translated from QPDFJob_config.cc (theorem commute_or_listed): every pair observed not to commute
    # must be a pair of methods whose footprints interfere
    cp = common.run_lines(os.path.join(common.EXTRACT, "model_runner"), ["conflict_pairs"])[0]
    listed = set()
    for x in cp.split(";"):
        if "+" in x:
            a, b = x.split("+")
            listed.add((a, b))
            listed.add((b, a))

    def methods_of(tb, k):
        if tb is None and k == "encrypt":
            return ["c_main.encrypt", "c_enc.endEncrypt"]
        e = (T.main if tb is None else T.sub[tb]).get(k)
        return ["%s.%s" % (e["target"][1], e["target"][2])] if e and e["target"][0] == "config" else []
    missed = []
    for name in sorted(found):
        if name.startswith("encrypt."):
            tb, ks = name[8:].split(":")
            k1, k2 = ks.split("+")
            m1, m2 = methods_of(tb, k1), methods_of(tb, k2)
        else:
            k1, k2 = name.split("+")
            m1, m2 = methods_of(None, k1), methods_of(None, k2)
        if not any((a, b) in listed for a in m1 for b in m2):
            missed.append(name)
    if missed:
        chk.violation({"kind": "correspondence-broken", "correspondence": "corr:C19:footprints", "pairs": missed,
                       "note": "these option pairs do not commute on the real front end but the footprints translated from QPDFJob_config.cc do not "
                               "interfere: the translation (harness/translate_job_tables.py, parse_config_footprints) misses a shared member"}, no_input=True)
    chk.count("pairs", 2 * len(cases) + 4 * len(prepared), set(found), samples=observed[:3])
    chk.cov["parts"]["pairs"]["footprint_conflicts_listed"] = len(listed) // 2
    chk.cov["parts"]["pairs"]["non_commuting_pairs"] = observed
    chk.cov["parts"]["pairs"]["pairs_swept"] = len(cases)
    chk.cov["parts"]["pairs"]["instances"] = len(inst)


# ---- configuration-level equivalence of the real front ends (fast, in process)

def part_cfg(chk, T, runner):
    """the same option sets, compared at the configuration the two real front ends build (no PDF is processed): thousands of sets"""
    rng = chk.rng
    n = 1500 if chk.tier == "quick" else 60000
    jobs = []
    for k, e in sorted(T.main.items()):
        if k in T.structured or k in ("jobJsonFile", "passwordFile"):
            continue
        for v in values_for(k, e):
            j = base_job()
            j[k] = [v] if k in T.arrays else v
            jobs.append(j)
    for tb, k, v in sub_values(T):
        jobs.append(nested_job(tb, k, v))
    for s in STRUCT_JOBS:
        jobs.append(struct_job(s))
    for _ in range(n):
        jobs.append(random_job(T, rng))
    lines = []
    for i, j in enumerate(jobs):
        forked = "global" in j
        argv = render_argv(T, j, None, i)
        lines.append(("cfgf_argv " if forked else "cfg_argv ") + " ".join(hexs(a) if a != "" else "-" for a in argv))
        lines.append(("cfgf_json " if forked else "cfg_json ") + hexs(json.dumps(j)))
    # cwd of the driver: a run directory with the pool files (argv's --pages positional handling looks at the file system)
    d = new_rundir(runner.wd, runner.pool, "cfg")
    outs = common.run_lines("env --chdir=%s %s" % (d, runner.drv), lines, shards=4)
    nontriv, dist = set(), {}
    pending = []
    for i, j in enumerate(jobs):
        a, b = parse_dump(outs[2 * i]), parse_dump(outs[2 * i + 1])
        dist[a[0]] = dist.get(a[0], 0) + 1
        bad = None
        if a[0] == "ok" and b[0] == "ok":
            df = dump_diff(a, b)
            if df:
                bad = "configuration differs in %s" % df[:10]
            else:
                nontriv.add(json.dumps(j, sort_keys=True))
        elif a[0] != b[0] and not (a[0] in ("usage", "error") and b[0] in ("usage", "error")):
            # one front end validates a value while parsing, the other only when the job runs (page ranges): decided end to end
            pending.append(j)
        if bad:
            chk.violation({"kind": "property-fails-on-implementation", "part": "cfg", "why": bad, "job_json": j, "argv": render_argv(T, j, None, i),
                           "argv_outcome": a if a[0] != "ok" else "ok", "json_outcome": b if b[0] != "ok" else "ok"},
                          signature=enc40_signature(j, None))
    chk.count("cfg", 2 * len(jobs), nontriv, samples=[{"job": jobs[i]} for i in (5, len(jobs) - 1)])
    chk.cov["parts"]["cfg"]["distribution"] = dist
    chk.cov["parts"]["cfg"]["decided_end_to_end"] = len(pending)
    return pending, jobs


# ---- the extracted front-end model against the real front ends

FRONT_KINDS = [
    (1, r"^unrecognized argument "), (2, r"^--\S* must be given as --"), (3, r" does not take a parameter, but "),
    (4, r"^missing -- at end of "), (5, r"positional and dashed encryption arguments may not be mixed"),
    (6, r"encryption key length must be 40, 128, or 256"), (7, r"^unknown argument "), (8, r"^error at .* in numeric range"),
    (20, r": value must be the empty string$"), (21, r": unexpected value; expected one of "),
    (22, r"^JSON handler: value at .* is not of expected type$|^JSON handler found unexpected key "),
    (24, r"exactly one of 40bit, 128bit, or 256bit must be given; an empty"), (23, r"exactly one of 40bit, 128bit, or 256bit must be given$"),
    (25, r"the user and owner password are both required"), (26, r"^file is required in page specification"),
    (27, r"^file is required in underlay/overlay specification"),
]


def front_kind(msg):
    for k, rx in FRONT_KINDS:
        if re.search(rx, msg):
            return k
    return 0


def jtokens(v):
    """job JSON value as the token stream of ocaml/h_job.ml; object members in byte order of the keys (std::map order)"""
    if isinstance(v, str):
        return ["s" + v.encode("utf-8").hex()]
    if isinstance(v, dict):
        out = ["{"]
        for k in sorted(v, key=lambda x: x.encode("utf-8")):
            out.append("k" + k.encode("utf-8").hex())
            out += jtokens(v[k])
        return out + ["}"]
    if isinstance(v, list):
        out = ["["]
        for x in v:
            out += jtokens(x)
        return out + ["]"]
    return ["n"]


def mutate_argv(rng, T, argv):
    a = list(argv)
    r = rng.random()
    allflags = [e["flag"] for e in T.raw["argv"] if e["flag"] not in ("", "--")]
    if r < 0.12 and a:
        i = rng.randrange(len(a))
        if a[i].startswith("--"):
            a[i] = a[i][1:]                       # single dash is accepted
    elif r < 0.22 and a:
        a.pop(rng.randrange(len(a)))              # drop a word (a terminator, a positional, ...)
    elif r < 0.34:
        a.insert(rng.randrange(len(a) + 1), "--")
    elif r < 0.46:
        a.insert(rng.randrange(len(a) + 1), "--" + rng.choice(allflags))
    elif r < 0.54:
        f = rng.choice(allflags)
        a.insert(rng.randrange(len(a) + 1), "--" + f + "=" + rng.choice(["", "y", "x=1", "1", "none"]))
    elif r < 0.60:
        a.insert(rng.randrange(len(a) + 1), rng.choice(["-", "---x", "--=x", "-=", "--", "@nofile", "x", "1-2", ".", "B.pdf", "--nosuch", "--no-such=1"]))
    elif r < 0.70:
        a += rng.choice([["--encrypt", "u", "o"], ["--encrypt", "u", "o", "64", "--"], ["--encrypt", "--bits=128", "x", "--"],
                         ["--encrypt", "u", "--user-password=v", "--"], ["--encrypt", "--user-password=v", "--bits=256", "--", "--encrypt", "a", "b", "256", "--"],
                         ["--encrypt", "u", "o", "128", "--encrypt", "--"], ["--pages", ".", "1", "B.pdf", "--"], ["--pages", "B.pdf", "B.pdf", "1", "2", "--"],
                         ["--pages", ".", "--password=x", "1-z", "B.pdf", "--range=1", "--range=2", "--"], ["--pages", "--"], ["--pages", "A.pdf"],
                         ["--pages", "1", "2", "--"], ["--pages", "A.pdf", "x", "--"], ["--overlay", "O.pdf", "B.pdf", "--"], ["--overlay", "--"],
                         ["--underlay", "O.pdf", "--to=1", "--", "--overlay", "O.pdf", "--"], ["--add-attachment", "--"], ["--add-attachment", "a", "b", "--"],
                         ["--copy-attachments-from", "--prefix=x", "--"], ["--set-page-labels", "--"], ["--set-page-labels", "1:r", "x", "--", "--set-page-labels", "2:D", "--"],
                         ["--global", "x", "--"], ["--global", "--no-default-limits"], ["--job-json-file=nofile.json"], ["--empty"], ["--replace-input"], ["extra.pdf"]])
    return a


def mutate_json(rng, T, job):
    j = json.loads(json.dumps(job))
    r = rng.random()
    keys = list(j)
    if r < 0.15 and keys:
        k = rng.choice(keys)
        if isinstance(j[k], list) and len(j[k]) == 1:
            j[k] = j[k][0]                        # a single item where the schema has an array
        else:
            j[k] = rng.choice([1, True, None, [], {}, ["x"], {"x": "y"}])
    elif r < 0.30:
        k = rng.choice(sorted(T.main))
        j[k] = rng.choice(["", "x", 1, None, ["y"], [""], {}, [{"file": "B.pdf"}], {"file": "B.pdf"}])
    elif r < 0.38:
        j[rng.choice(["bogus", "input-file", "Qdf", ""])] = ""
    elif r < 0.55:
        e = {"userPassword": "u", "ownerPassword": "o", "256bit": {}}
        m = rng.random()
        if m < 0.2:
            e["128bit"] = {}
        elif m < 0.35:
            del e["256bit"]
        elif m < 0.5:
            del e[rng.choice(["userPassword", "ownerPassword"])]
        elif m < 0.6:
            e["userPassword"] = 1
        elif m < 0.7:
            e["Bits"] = "x"
        elif m < 0.8:
            e["256bit"] = {"bogus": ""}
        elif m < 0.9:
            e["256bit"] = ""
        j["encrypt"] = e
    elif r < 0.70:
        k = rng.choice(["pages", "overlay", "underlay", "addAttachment", "copyAttachmentsFrom", "setPageLabels", "rotate", "jsonKey", "removeAttachment", "global"])
        j[k] = rng.choice([{"file": "B.pdf"}, [{"file": "B.pdf"}, {"range": "1"}], "1:r", ["1:r"], [["1:r"]], [{"file": 1}], [{"file": "B.pdf", "bogus": ""}],
                           [], {}, "", [""], [1], {"noDefaultLimits": ""}, {"noDefaultLimits": "x"}, {"parserMaxErrors": 5}])
    return j


def short_out(o):
    if o.startswith(("usage ", "error ")) and len(o) > 6:
        try:
            return o[:6] + bytes.fromhex(o[6:]).decode("latin-1")
        except ValueError:
            return o[:300]
    return o[:300]


def front_verdict(form, mo, ro, po):
    """mo: the model's answer; ro: what the real front end built; po: the model's calls replayed through the real Config API.
    -> (agree, why not, class)"""
    real = parse_dump(ro)
    ok = False
    why = ""
    if po.startswith("ok "):
        rep = parse_dump(po)
        ok = real[0] == "ok" and not dump_diff(real, rep)
        why = "configuration differs in %s" % (dump_diff(real, rep)[:8] if real[0] == "ok" else real[0])
        cls = "ok"
    elif po.startswith("usage "):
        rep = parse_dump(po)
        ok = real[0] == "usage" and real[1] == rep[1]
        why = "usage error differs"
        cls = "config-usage"
    elif po.startswith("end front:"):
        k = int(po[10:])
        ok = real[0] == "usage" and front_kind(real[1]) == k
        why = "model predicts front-end usage error kind %d" % k
        cls = "front-usage-%d" % k
    elif po == "end schema":
        ok = real[0] == "error" and "job json has errors" in bytes.fromhex(ro[6:]).decode("latin-1")
        why = "model predicts a schema error"
        cls = "schema"
    elif po == "end crash":
        ok = ro.startswith("?child-died")
        why = "model predicts a null-pointer crash"
        cls = "crash"
    elif po == "end help":
        ok = True   # help options print and exit(0) inside the library
        cls = "help"
    elif po.startswith("error "):
        # ArgParser::parseOptions turns any std::runtime_error raised under parseArgs into a usage error with the same text
        ok = real[0] == ("usage" if form == "argv" else "error") and bytes.fromhex(po[6:]) in bytes.fromhex(ro[6:])
        why = "runtime error differs"
        cls = "error"
    else:
        why = "replay failed: " + po[:200]
        cls = "?"
    return ok, why, cls


def part_front(chk, T, runner, jobs):
    """model (extracted Sys/JobFront.v) vs implementation: the calls the model says a front end makes, applied through the real
    Config API, must build the configuration (or raise the usage error) that the real front end builds for the same input"""
    rng = chk.rng
    mrunner = os.path.join(common.EXTRACT, "model_runner")
    cases = []
    for i, j in enumerate(jobs):
        cases.append(("argv", render_argv(T, j, None, i)))
        cases.append(("json", j, False))
        if i % 7 == 0:
            cases.append(("json", {k: v for k, v in j.items() if k not in ("inputFile", "outputFile")}, True))
    nmut = 1500 if chk.tier == "quick" else 40000
    for _ in range(nmut):
        j = rng.choice(jobs)
        if rng.random() < 0.5:
            order = sorted(j)
            if rng.random() < 0.5:
                rng.shuffle(order)
            cases.append(("argv", mutate_argv(rng, T, render_argv(T, j, order, rng.randrange(2)))))
        else:
            cases.append(("json", mutate_json(rng, T, j), rng.random() < 0.2))
    for jv in ({"inputFile": "A.pdf", "outputFile": "out.pdf", "pages": {"file": "B.pdf"}}, {"inputFile": "A.pdf", "outputFile": "out.pdf", "setPageLabels": "1:r"},
               {"inputFile": "A.pdf", "outputFile": "out.pdf", "overlay": {"file": "O.pdf"}, "rotate": "+90", "addAttachment": {"file": "att.txt"}},
               {"pages": [{"file": "B.pdf"}], "inputFile": "A.pdf", "outputFile": "out.pdf"}, "x", [], {"encrypt": {"Bits": "x"}}):
        cases.append(("json", jv, False))
    for w in (["--version"], ["--help"], ["--qdf"], ["A.pdf"], [], ["--show-crypto", "x"], ["--", "A.pdf", "--", "out.pdf"], ["-", "out.pdf"],
              # theorem encrypt_password_memory: a later --encrypt without password options is given the passwords of the earlier one
              ["A.pdf", "out.pdf", "--encrypt", "--user-password=u1", "--owner-password=o1", "--bits=256", "--", "--encrypt", "--bits=128", "--"],
              ["A.pdf", "out.pdf", "--encrypt", "--bits=256", "--"], ["A.pdf", "out.pdf", "--encrypt", "--owner-password=o", "--bits=256", "--"],
              ["A.pdf", "out.pdf", "--encrypt", "u", "o", "256", "--", "--encrypt", "--bits=128", "--"]):
        cases.append(("argv", w))
    files = ",".join(hexs(f) for f in POOL)
    mlines = []
    for c in cases:
        if c[0] == "argv":
            mlines.append("front_argv %s %s" % (files, " ".join(hexs(a) for a in c[1])))
        else:
            mlines.append("front_json %d %s" % (1 if c[2] else 0, " ".join(jtokens(c[1]))))
    mout = common.run_lines(mrunner, mlines, shards=4)
    rlines, plines, skipped = [], [], 0
    for c, mo in zip(cases, mout):
        parts = mo.split(" ", 1)
        end, calls = parts[0], (parts[1] if len(parts) > 1 else "-")
        risky = end in ("crash", "help") or mo.startswith("?")
        if c[0] == "argv":
            forked = risky or "--global" in c[1] or "-global" in c[1] or any(a.startswith("--job-json-file") for a in c[1])
            rlines.append(("cfgf_argv " if forked else "cfg_argv ") + " ".join(hexs(a) for a in c[1]))
        else:
            forked = risky or "global" in json.dumps(c[1])
            rlines.append(("cfgf_json " if forked else "cfg_json ") + hexs(json.dumps(c[1])) + (" partial" if c[2] else ""))
        plines.append(("cfgf_replay " if "c_global." in calls or "jobJsonFile" in calls else "cfg_replay ") + end + " " + calls)
    d = new_rundir(runner.wd, runner.pool, "front")
    exe = "env --chdir=%s %s" % (d, runner.drv)
    rout = common.run_lines(exe, rlines, shards=4)
    pout = common.run_lines(exe, plines, shards=4)
    bad, dist, nontriv = [], {}, set()
    for c, mo, ro, po in zip(cases, mout, rout, pout):
        ok, why, cls = front_verdict(c[0], mo, ro, po)
        dist[cls] = dist.get(cls, 0) + 1
        if ok and cls in ("ok", "config-usage") and len(mo) > 80:
            nontriv.add(mo)
        if not ok:
            bad.append((c, mo, ro, po, why))
    if bad:
        c, mo, ro, po, why = bad[0]
        short = short_out
        chk.violation({"kind": "correspondence-broken", "correspondence": "corr:C19:front", "differing_cases": len(bad),
                       "first_case": {"form": c[0], "input": c[1], "partial": c[2] if c[0] == "json" else None},
                       "why": why, "model": mo[:1500], "implementation": short(ro), "model_calls_replayed_through_real_Config": short(po),
                       "more": [{"form": b[0][0], "input": b[0][1], "why": b[4], "implementation": short(b[2]), "replay": short(b[3]), "model": b[1][:300]} for b in bad[1:6]],
                       "note": "the front-end model no longer predicts what the real front end does; the property-level parts (e2e, cfg, pairs) decide whether "
                               "argv and job JSON still agree"}, no_input=True)
    chk.count("front", len(cases), nontriv, samples=[{"form": cases[i][0], "input": cases[i][1], "model": mout[i][:200]} for i in (0, 1, len(cases) - 9)])
    chk.cov["parts"]["front"]["distribution"] = dist


# ---- the hand-written positional / nested handlers in working directories that contain look-alike entries (parts cwd-*)

PAGE_FILES = [".", "A.pdf", "B.pdf", "2", "1-3", "z", "r1", "nofile.pdf"]
PAGE_RANGES = [None, "1", "2", "1-3", "z", "r1", "3,1", "1-2:even", "", "x", "9", "."]
HW_PASSWORDS = ["pw", "", "2", "1-3", "256", "A.pdf", ".", "--", "-x", "--password=pw", "z"]
HW_OUT = ["out.pdf", "7", "5-6", "zz"]            # range-like names that exist in no flavour (an output must not follow a pool symlink)


def pspec(f, r=None, pw=None):
    it = {"file": f}
    if r is not None:
        it["range"] = r
    if pw is not None:
        it["password"] = pw
    return it


def hw_systematic(T):
    """jobs around each hand-written handler of QPDFJob_argv.cc, the words that may follow being drawn from every kind of word the
    handler may expect next"""
    jobs = []

    def add(fam, **kw):
        j = base_job()
        for k, v in kw.items():
            if v is None:
                j.pop(k, None)
            else:
                j[k] = v
        jobs.append((fam, j))
    # --pages file [--password=] [range] ...: one specification, every file kind x every range kind
    for f in PAGE_FILES:
        for r in PAGE_RANGES:
            add("pages1", pages=[pspec(f, r)])
    # two specifications: the second word after a file name is a range, or the next file (first range omitted)
    for f1 in ("A.pdf", "2"):
        for r1 in (None, "2", "1-3", "x"):
            for f2 in ("B.pdf", "2", "1-3", "z", ".", "nofile.pdf"):
                for r2 in (None, "1", "z"):
                    add("pages2", pages=[pspec(f1, r1), pspec(f2, r2)])
    # a password between the file name and the range; three specifications; --empty; an input named like a range
    for pw in HW_PASSWORDS:
        for r in (None, "1", "2"):
            add("pages-pw", pages=[pspec("E.pdf", r, pw), pspec("r1", "1", "pw")])
    for f in ("2", "1-3", "z"):
        add("pages-in", inputFile=f, pages=[pspec("."), pspec(f, "1")])
        add("pages-in", inputFile=f, pages=[pspec(".", "1"), pspec("A.pdf", "2")])
        add("pages-in", empty="", inputFile=None, pages=[pspec(f), pspec("A.pdf", "2"), pspec("2")])
        add("pages-in", empty="", inputFile=None, pages=[pspec("A.pdf"), pspec(f), pspec("B.pdf", "1")])
    for c in ("", "2", "1,2"):
        add("pages-collate", collate=c, pages=[pspec("A.pdf", "1-3"), pspec("2")])
        add("pages-collate", collate=c, pages=[pspec("A.pdf", "2"), pspec("B.pdf", "1-3")])
    # --encrypt user owner bits (positional) / --user-password= --owner-password= --bits= (named)
    for i, u in enumerate(HW_PASSWORDS):
        for o in (HW_PASSWORDS[(i + 3) % len(HW_PASSWORDS)], "o"):
            bits = ("128bit", "40bit", "256bit")[i % 3]
            e = {"userPassword": u, "ownerPassword": o, bits: {}}
            add("encrypt", encrypt=e, allowWeakCrypto="" if bits != "256bit" else None)
    # --overlay / --underlay file [--to= --from= --repeat= --password=]
    for i, f in enumerate(("O.pdf", "2", "1-3", "--to=1", "--", "r1", "nofile.pdf", "x")):
        for to in (None, "1", "1-z", "x", ""):
            it = {"file": f}
            if to is not None:
                it["to"] = to
            if f == "r1":
                it["password"] = "pw"
            if i % 2:
                it["from"] = "1"
            add("uo", **{("overlay", "underlay")[(i + len(to or "")) % 2]: [it]})
    add("uo", overlay=[{"file": "2", "to": "1"}, {"file": "O.pdf", "to": "2", "repeat": "1"}], underlay=[{"file": "1-3", "from": "z"}])
    # --add-attachment file [--key= ...] ; --copy-attachments-from file [--prefix= --password=]
    for f in ("att.txt", "2", "pw", "k1", "nofile.txt", "."):
        for key in (None, "k1", "2", "--", "-x", "--replace"):
            it = {"file": f, "creationdate": STAMP, "moddate": STAMP}
            if key is not None:
                it["key"] = key
                it["filename"] = key
            add("att", addAttachment=[it])
    add("att", addAttachment=[{"file": "2", "creationdate": STAMP, "moddate": STAMP}, {"file": "1-3", "key": "z", "replace": "", "creationdate": STAMP, "moddate": STAMP}])
    for f in ("F.pdf", "z", "2", "nofile.pdf", "p-"):
        for pre in (None, "p-", "2", "--", "-x", ""):
            it = {"file": f}
            if pre is not None:
                it["prefix"] = pre
            add("copyatt", copyAttachmentsFrom=[it])
    add("copyatt", copyAttachmentsFrom=[{"file": "r1", "password": "pw", "prefix": "e-"}, {"file": "z", "prefix": "2"}])
    # options with an optional or range-bearing parameter next to positional words named like the parameter
    for rot in (["+90"], ["+90:2"], ["90:1-3", "-90:z"], ["180:r1"], ["+90:x"], ["2"], ["+90:2", "+90:2"]):
        add("rotate", rotate=rot)
        add("rotate", rotate=rot, inputFile="2", outputFile="7")
    for sp in ("", "2"):
        for out in ("split-%d.pdf", "7", "5-6"):
            add("split", splitPages=sp, outputFile=out)
            add("split", splitPages=sp, outputFile=out, inputFile="2", pages=[pspec(".", "1-2"), pspec("1-3", "2")])
    # an option whose parameter is optional, omitted, directly followed (alt_order) by an input / output named like the parameter
    for inp in ("2", "1-3", "A.pdf"):
        add("optional", collate="", inputFile=inp, pages=[pspec(".", "1"), pspec("B.pdf", "2")])
        add("optional", splitPages="", inputFile=inp, outputFile="7")
        add("optional", json="", inputFile=inp, outputFile=None)
        add("optional", jsonOutput="", inputFile=inp, outputFile="7")
    for out in HW_OUT:
        add("positional", outputFile=out, inputFile="1-3")
        add("positional", outputFile=out, inputFile="z", collate="", pages=[pspec("."), pspec("2", "1")])
    return jobs


def hw_random(T, rng):
    """a random combination of the nested structures, words drawn from the same pools"""
    j = base_job(rng.choice(["A.pdf", "B.pdf", "2", "1-3", "z"]), rng.choice(HW_OUT))
    r = rng.random()
    if r < 0.7:
        specs = []
        for _ in range(rng.randint(1, 4)):
            f = rng.choice(PAGE_FILES + ["E.pdf", "r1"])
            pw = rng.choice([None, None, "pw"] + HW_PASSWORDS[:3]) if f not in ("E.pdf", "r1") else rng.choice(["pw", "pw", "2"])
            specs.append(pspec(f, rng.choice(PAGE_RANGES + ["1", "2", "z"]), pw))
        j["pages"] = specs
        if rng.random() < 0.2:
            j["collate"] = rng.choice(["", "2"])
        if rng.random() < 0.15:
            j.pop("inputFile")
            j["empty"] = ""
    if rng.random() < 0.3:
        k = rng.choice(["overlay", "underlay"])
        j[k] = [{"file": rng.choice(["O.pdf", "2", "1-3", "--to=1", "--"]), "to": rng.choice(["1", "1-z", "2"])} for _ in range(rng.randint(1, 2))]
    if rng.random() < 0.2:
        j["addAttachment"] = [{"file": rng.choice(["att.txt", "2", "pw", "k1"]), "key": rng.choice(["k1", "2", "--", "-x"]), "creationdate": STAMP, "moddate": STAMP}]
    if rng.random() < 0.15:
        j["copyAttachmentsFrom"] = [{"file": rng.choice(["F.pdf", "z"]), "prefix": rng.choice(["p-", "2", "--"])}]
    if rng.random() < 0.2:
        j["rotate"] = [rng.choice(["+90", "+90:2", "90:1-3", "180:r1", "2"])]
    if rng.random() < 0.15:
        j["encrypt"] = {"userPassword": rng.choice(HW_PASSWORDS), "ownerPassword": rng.choice(HW_PASSWORDS), "128bit": {}}
        j["allowWeakCrypto"] = ""
    return j


PAGES_WORDS = [".", "A.pdf", "B.pdf", "E.pdf", "2", "1-3", "z", "r1", "1", "3,1", "1-2:even", "", "x", "9", "nofile.pdf", "--password=pw", "--password=2", "--range=1",
               "--range=", "--range=x", "--file=2", "--file=A.pdf", "--file=.", "--file=x", "-", "@nofile", "--", "pw", ":odd", "1-z", "--file", "--range"]


def pages_word_soup(rng):
    """any sequence of words inside --pages ... -- (the handler keeps two flags across words; every state x every kind of word)"""
    n = rng.randint(1, 7)
    ws = [rng.choice(PAGES_WORDS) for _ in range(n)]
    tail = rng.choice([["--"], ["--"], ["--"], [], ["--", "--pages", rng.choice(PAGES_WORDS), "--"]])
    return [rng.choice(["A.pdf", "2"]), "out.pdf", "--pages"] + ws + tail


def alt_order(T, j):
    """a second command-line order: the options whose optional parameter is omitted come first and the positional words directly
    after them, so that a word which looks like the parameter (an input named 2 after --collate, an output named 7 after
    --split-pages) follows the flag"""
    opt = [k for k in sorted(j) if k in T.main and T.main[k]["kind"] in ("optparam", "optchoices") and j[k] == ""]
    if not opt:
        return None
    pos = [k for k in ("inputFile", "empty", "outputFile", "replaceInput") if k in j]   # the input (or its substitute) before the output
    return opt + pos + [k for k in sorted(j) if k not in opt and k not in pos]


def cwd_variants(T, j):
    """(style, order) of the command-line renderings of a job: positional and named spelling in key order, and alt_order"""
    o = alt_order(T, j)
    return [(0, None), (1, None)] + ([(0, o)] if o else [])


def cwd_signature(job):
    return enc40_signature(job, None)


def part_cwd(chk, T, runner):
    """The reading of a command-line word must not depend on what else lies in the working directory, except where the manual says so
    (a word after a --pages file name that is not a page range is the next file name). Every job is rendered from the same JSON-shaped
    description; cwd-cfg compares the configurations the two real front ends build, cwd-front the front-end model (whose argv part
    takes the set of openable names) with the real front ends, cwd-e2e the five renderings end to end."""
    rng = chk.rng
    quick = chk.tier == "quick"
    sysjobs = hw_systematic(T)
    jobs = [j for _, j in sysjobs] + [hw_random(T, rng) for _ in range(300 if quick else 20000)]
    fam = [f for f, _ in sysjobs] + ["random"] * (len(jobs) - len(sysjobs))
    variants = [cwd_variants(T, j) for j in jobs]
    mrunner = os.path.join(common.EXTRACT, "model_runner")
    # ---- cwd-cfg / cwd-front, one driver directory per flavour
    nviol = {"cwd-cfg": 0, "cwd-e2e": 0}
    n_cfg, n_front, nontriv_cfg, nontriv_front = 0, 0, set(), set()
    dist_cfg, dist_front, pending, front_bad = {}, {}, [], []
    import time
    tw = {"cfg": 0.0, "model": 0.0, "real": 0.0, "e2e-prepare": 0.0, "e2e-run": 0.0}
    for fl in FLAVOUR_ORDER:
        files = flavour_files(fl)
        d = new_rundir(runner.wd, runner.pool, "cwd-" + fl, fl)
        exe = "env --chdir=%s %s" % (d, runner.drv)
        lines, idx = [], []
        for i, j in enumerate(jobs):
            for vi, (style, order) in enumerate(variants[i]):
                argv = render_argv(T, j, order, style, files)
                lines.append("cfg_argv " + " ".join(hexs(a) for a in argv))
                idx.append((i, vi, argv))
            lines.append("cfg_json " + hexs(json.dumps(j)))
        t0 = time.time()
        outs = common.run_lines(exe, lines, shards=4)
        tw["cfg"] += time.time() - t0
        k, ai = 0, 0
        for i, j in enumerate(jobs):
            nv = len(variants[i])
            b = parse_dump(outs[k + nv])
            n_cfg += 1
            for vi in range(nv):
                a = parse_dump(outs[k + vi])
                argv = idx[ai][2]
                ai += 1
                n_cfg += 1
                dist_cfg[a[0]] = dist_cfg.get(a[0], 0) + 1
                if a[0] == "ok" and b[0] == "ok":
                    df = dump_diff(a, b)
                    if df:
                        nviol["cwd-cfg"] += 1
                        chk.violation({"kind": "property-fails-on-implementation", "part": "cwd-cfg", "why": "configuration differs in %s" % df[:10],
                                       "job_json": j, "argv": argv, "style": variants[i][vi][0], "argv_order": variants[i][vi][1], "cwd_flavour": fl,
                                       "cwd_entries": sorted(FLAVOURS[fl]),
                                       "differing_fields": {f: {"argv": a[1].get(f), "json": b[1].get(f)} for f in df[:10]}},
                                      signature=cwd_signature(j))
                    else:
                        nontriv_cfg.add(json.dumps([j, vi], sort_keys=True))
                elif a[0] != b[0] and not (a[0] in ("usage", "error") and b[0] in ("usage", "error")):
                    pending.append((i, vi, fl))
            k += nv + 1
        # the model on the same words, on mutations of them, and on word sequences inside --pages
        cases = [argv for (_, _, argv) in idx]
        for _ in range(len(jobs) // 2 if quick else len(jobs)):
            j = rng.choice(jobs)
            cases.append(mutate_argv(rng, T, render_argv(T, j, None, rng.randrange(2), files)))
        for _ in range(400 if quick else 8000):
            cases.append(pages_word_soup(rng))
        mfiles = ",".join(hexs(f) for f in sorted(files))
        t0 = time.time()
        mout = common.run_lines(mrunner, ["front_argv %s %s" % (mfiles, " ".join(hexs(a) for a in c)) for c in cases], shards=4)
        tw["model"] += time.time() - t0
        rlines, plines = [], []
        for c, mo in zip(cases, mout):
            parts = mo.split(" ", 1)
            end, calls = parts[0], (parts[1] if len(parts) > 1 else "-")
            forked = end in ("crash", "help") or mo.startswith("?") or any(a.startswith(("--job-json-file", "-job-json-file", "--global", "-global")) for a in c)
            rlines.append(("cfgf_argv " if forked else "cfg_argv ") + " ".join(hexs(a) for a in c))
            plines.append(("cfgf_replay " if "c_global." in calls or "jobJsonFile" in calls else "cfg_replay ") + end + " " + calls)
        t0 = time.time()
        rout = common.run_lines(exe, rlines, shards=4)
        pout = common.run_lines(exe, plines, shards=4)
        tw["real"] += time.time() - t0
        for c, mo, ro, po in zip(cases, mout, rout, pout):
            n_front += 1
            ok, why, cls = front_verdict("argv", mo, ro, po)
            dist_front[cls] = dist_front.get(cls, 0) + 1
            if ok and cls in ("ok", "config-usage") and len(mo) > 80:
                nontriv_front.add(mo)
            if not ok:
                front_bad.append((c, fl, mo, ro, po, why))
    chk.count("cwd-cfg", n_cfg, nontriv_cfg, samples=[{"job": jobs[i], "argv": render_argv(T, jobs[i], None, 0, flavour_files("all"))} for i in (1, len(sysjobs) - 1, len(jobs) - 1)])
    chk.cov["parts"]["cwd-cfg"]["distribution"] = dist_cfg
    chk.cov["parts"]["cwd-cfg"]["flavours"] = {fl: len(FLAVOURS[fl]) for fl in FLAVOUR_ORDER}
    chk.cov["parts"]["cwd-cfg"]["families"] = {f: fam.count(f) for f in sorted(set(fam))}
    chk.cov["parts"]["cwd-cfg"]["decided_end_to_end"] = len(pending)
    if front_bad:
        c, fl, mo, ro, po, why = front_bad[0]
        chk.violation({"kind": "correspondence-broken", "correspondence": "corr:C19:front", "differing_cases": len(front_bad),
                       "first_case": {"form": "argv", "input": c, "partial": None, "cwd_flavour": fl}, "cwd_entries": sorted(FLAVOURS[fl]),
                       "why": why, "model": mo[:1500], "implementation": short_out(ro), "model_calls_replayed_through_real_Config": short_out(po),
                       "more": [{"input": b[0], "cwd_flavour": b[1], "why": b[5], "implementation": short_out(b[3]), "model": b[2][:300]} for b in front_bad[1:6]],
                       "note": "the front-end model (which is given the set of names that can be opened in the working directory) no longer predicts "
                               "what the real command-line front end does in that directory; cwd-cfg / cwd-e2e decide whether argv and job JSON still agree"},
                      no_input=True)
    chk.count("cwd-front", n_front, nontriv_front, samples=[{"input": pages_word_soup(rng)}])
    chk.cov["parts"]["cwd-front"]["distribution"] = dist_front
    # ---- cwd-e2e: the five renderings; every systematic job in the directory that has everything, the rest over the other flavours
    sel = []      # (job index, variant index, flavour)
    for i in range(len(sysjobs)):
        # quick tier: every second one-specification --pages job, every third job of the other families (all of them at the configuration
        # level above; which ones depends on the seed)
        if not quick or (fam[i] == "pages1" and (i // 2) % 2 == chk.seed % 2) or (fam[i] != "pages1" and i % 3 == chk.seed % 3):
            sel.append((i, i % 2, "all" if i % 4 else "ranges-dir"))
        if len(variants[i]) > 2:
            sel.append((i, 2, "all"))
    for n, i in enumerate(range(len(sysjobs), len(jobs))):
        if n >= (30 if quick else 4000):
            break
        sel.append((i, n % len(variants[i]), FLAVOUR_ORDER[n % len(FLAVOUR_ORDER)]))
    seen = set(sel)
    for x in pending[:40 if quick else 2000]:
        if x not in seen:
            seen.add(x)
            sel.append(x)
    t0 = time.time()
    prepared = [(jobs[i], runner.prepare(jobs[i], "w", style=variants[i][vi][0], argv_order=variants[i][vi][1], flavour=fl)) for i, vi, fl in sel]
    tw["e2e-prepare"] = time.time() - t0
    t0 = time.time()
    results = runner.run_all(prepared)
    tw["e2e-run"] = time.time() - t0
    chk.cov["cwd_wall_s"] = {k: round(v, 1) for k, v in tw.items()}
    nontriv, dist = set(), {"ok": 0, "warn": 0, "usage": 0, "error": 0}
    for (i, vi, fl), res in zip(sel, results):
        j = jobs[i]
        st, order = variants[i][vi]
        why = compare(res)
        ref = res["cli-argv"]
        cls = "usage" if ref["usage"] else {0: "ok", 3: "warn"}.get(ref["rc"], "error")
        dist[cls] = dist.get(cls, 0) + 1
        if ref["rc"] in (0, 3) and (ref["files"] or ref["stdout"][-2:] != ":0"):
            nontriv.add(json.dumps([j, fl], sort_keys=True))
        if why:
            nviol["cwd-e2e"] += 1
            report(chk, "cwd-e2e", j, res, why, signature=cwd_signature(j), extra={"style": st, "argv_order": order, "cwd_flavour": fl, "cwd_entries": sorted(FLAVOURS[fl])})
    chk.count("cwd-e2e", 5 * len(sel), nontriv, samples=[{"job": jobs[sel[i][0]], "cwd_flavour": sel[i][2], "argv": results[i]["cli-argv"]["payload"],
                                                          "rc": results[i]["cli-argv"]["rc"]} for i in (2, len(sel) // 2, len(sel) - 1)])
    chk.cov["parts"]["cwd-e2e"]["distribution"] = dist
    chk.cov["parts"]["cwd-e2e"]["option_sets"] = len(sel)
    chk.cov["parts"]["cwd-cfg"]["differences_found"] = nviol["cwd-cfg"]
    chk.cov["parts"]["cwd-e2e"]["differences_found"] = nviol["cwd-e2e"]
    chk.cov["parts"]["cwd-front"]["model_differences_found"] = len(front_bad)


def run(chk):
    drv = os.path.join(common.DRV, "drv")
    if os.path.exists(TJ.FAILED_MARK):
        raise common.InfraError("translator translate_job_tables.py did not understand the source (generated option tables / job.yml / QPDFJob_config.cc)",
                                open(TJ.FAILED_MARK).read())
    common.build_drv()      # the translator may have refreshed harness/gen_job_dispatch.inc
    T = Tables()
    wd = common.workdir("C19")
    pool = make_pool(wd)
    runner = Runner(chk, T, wd, pool, drv)
    chk.cov["rule"] = ("e2e: one option set per (main option, candidate value) and per (nested-table option, value) from the generated tables, a fixed list of "
                       "hand-made nested structures (pages, encrypt, overlay/underlay, attachments, global, set-page-labels; valid and invalid), and random "
                       "combinations; each rendered as argv, job JSON file, argv + partial job JSON file, qpdfjob_run_from_argv, qpdfjob_run_from_json; "
                       "non-trivial = accepted set producing an output file or standard output, distinct by job. "
                       "pairs: every unordered pair of main-option instances (and of options inside each encryption table) in both command-line orders, "
                       "compared at the configuration dump, differing pairs confirmed end to end; non-trivial = distinct non-commuting pair. "
                       "cfg: the option sets of e2e plus a larger random stream, argv against job JSON at the configuration dump of the real front ends. "
                       "spec: jobs over every nested table (0-3 blocks per table, every option x acceptable/unacceptable value, the file word at every "
                       "position of an attachment block, page selections anywhere in the job, look-alike words) plus the option sets of cfg, each rendered by "
                       "the EXTRACTED specification (Sys/JobSpecX.v) as argv (positional and --file= spelling; --encrypt also dashed) and as job JSON; "
                       "initializeFromArgv, initializeFromJson and the denotation's calls replayed through the real Config API must give the same "
                       "configuration dump / usage error; non-trivial = distinct job the denotation's calls accept or reject at the Config layer. "
                       "cwd-*: jobs around every hand-written positional / nested handler of QPDFJob_argv.cc (--pages file [--password=] [range], --encrypt "
                       "positional and named, --overlay/--underlay, --add-attachment, --copy-attachments-from, --rotate, --split-pages, --collate, positional "
                       "input/output) whose words are drawn from every kind of word the handler may expect next (page ranges of each form, '.', '--', option "
                       "words, passwords, key lengths; inputs named like ranges), in both command-line spellings, each in five kinds of working directory "
                       "(plain; files / directories named like page ranges; files named like the other words; all of them): cwd-cfg = argv against job JSON "
                       "at the configuration dump, cwd-front = the front-end model given the directory's names against the real front end (also on "
                       "mutations and on random word sequences inside --pages), cwd-e2e = five renderings end to end; non-trivial = distinct accepted job")
    import time
    t0 = time.time()
    pending, jobs = part_cfg(chk, T, runner)
    t1 = time.time()
    part_cwd(chk, T, runner)
    t2 = time.time()
    import sys, c19_spec
    # the jobs aimed at the nested handlers (every table, 0-3 blocks, file word at every position) also go through the
    # model/implementation correspondence, so that 'front' covers every handler the refinement theorems quantify over
    aimed = c19_spec.aimed_jobs(sys.modules[__name__], T, chk.rng)
    part_front(chk, T, runner, jobs + aimed)
    t3 = time.time()
    c19_spec.part_spec(chk, sys.modules[__name__], T, runner, jobs, aimed)
    t3b = time.time()
    part_pairs(chk, T, runner)
    t4 = time.time()
    part_e2e(chk, T, runner, pending)
    chk.cov["part_wall_s"] = {"cfg": round(t1 - t0, 1), "cwd": round(t2 - t1, 1), "front": round(t3 - t2, 1), "spec": round(t3b - t3, 1), "pairs": round(t4 - t3b, 1), "e2e": round(time.time() - t4, 1)}
    shutil.rmtree(os.path.join(wd, "r"), ignore_errors=True)


def replay(chk, rep):
    """re-run exactly the recorded case: the recorded job in all renderings (or the recorded front-end input on model and
    implementation) and say whether the disagreement is still there"""
    drv = os.path.join(common.DRV, "drv")
    T = Tables()
    wd = common.workdir("C19")
    pool = make_pool(wd)
    runner = Runner(chk, T, wd, pool, drv)
    if rep.get("kind") == "correspondence-broken":
        c = rep["first_case"]
        common.build_extract()
        jobs = [base_job()]
        chk.rng.seed(0)
        cases = [("argv", c["input"])] if c["form"] == "argv" else [("json", c["input"], bool(c.get("partial")))]
        mrunner = os.path.join(common.EXTRACT, "model_runner")
        files = ",".join(hexs(f) for f in sorted(flavour_files(c.get("cwd_flavour", "plain"))))
        ml = ["front_argv %s %s" % (files, " ".join(hexs(a) for a in cases[0][1]))] if c["form"] == "argv" else \
             ["front_json %d %s" % (1 if cases[0][2] else 0, " ".join(jtokens(cases[0][1])))]
        mo = common.run_lines(mrunner, ml)[0]
        fl = c.get("cwd_flavour", "plain")
        d = new_rundir(wd, pool, "replay", fl)
        exe = "env --chdir=%s %s" % (d, drv)
        rl = ["cfgf_argv " + " ".join(hexs(a) for a in cases[0][1])] if c["form"] == "argv" else \
             ["cfgf_json " + hexs(json.dumps(cases[0][1])) + (" partial" if cases[0][2] else "")]
        ro = common.run_lines(exe, rl)[0]
        parts = mo.split(" ", 1)
        po = common.run_lines(exe, ["cfgf_replay " + parts[0] + " " + (parts[1] if len(parts) > 1 else "-")])[0]
        print("model:          " + mo[:2000])
        print("implementation: " + ro[:300])
        print("model calls replayed through the real Config API: " + po[:300])
        same = (ro == po) or (ro.startswith("usage") and po.startswith("end front:"))
        print("REPLAY: %s" % ("model and implementation agree now" if same else "still differs"))
        return 0 if same else 1
    if "job_json" not in rep:
        print(json.dumps(rep, indent=1)[:4000])
        return 1
    job = rep["job_json"]
    jj = None
    if rep.get("job_json_as_given"):
        try:
            jj = json.loads(rep["job_json_as_given"])
        except ValueError:
            jj = None
    fl = rep.get("cwd_flavour", "plain")
    if rep.get("part") == "spec":
        import sys, c19_spec
        return c19_spec.replay_spec(sys.modules[__name__], chk, rep, runner)
    if rep.get("part") == "cwd-cfg":
        d = new_rundir(wd, pool, "replay", fl)
        outs = common.run_lines("env --chdir=%s %s" % (d, drv), ["cfg_argv " + " ".join(hexs(a) for a in rep["argv"]), "cfg_json " + hexs(json.dumps(job))])
        a, b = parse_dump(outs[0]), parse_dump(outs[1])
        df = dump_diff(a, b) if a[0] == b[0] == "ok" else (["outcome: %s / %s" % (a[0], b[0])] if a[0] != b[0] else [])
        print("working directory: pool files + %s" % sorted(FLAVOURS[fl]))
        print("argv: %s" % rep["argv"])
        print("json: %s" % json.dumps(job))
        for f in df[:10]:
            print("  %s: argv=%s json=%s" % (f, a[1].get(f) if a[0] == "ok" else a, b[1].get(f) if b[0] == "ok" else b))
        print("REPLAY: %s" % (("still fails: configuration differs in %s" % df[:10]) if df else "the two front ends build the same configuration now"))
        return 1 if df else 0
    rs = runner.prepare(job, "x", json_job=jj, argv_override=rep.get("argv_reversed_order"), style=rep.get("style", 0), argv_order=rep.get("argv_order"),
                        flavour=fl)
    res = runner.run_all([(job, rs)])[0]
    for n, r in res.items():
        print("%-10s rc=%s usage=%s stdout=%s files=%s payload=%s" % (n, r["rc"], r["usage"], r["stdout"], r["files"], r["payload"]))
        if r["stderr"]:
            print("           stderr: " + r["stderr"][-300:].replace("\n", " | "))
    why = compare(res)
    if rep.get("part") == "pairs":
        a, b = res["cli-argv"], res["cli-json"]
        if (a["rc"], a["stdout"], a["files"], a["usage"]) != (b["rc"], b["stdout"], b["files"], b["usage"]):
            why = why or "the reversed command-line order differs from the job JSON"
    print("REPLAY: %s" % (("still fails: " + why) if why else "the renderings agree now"))
    return 1 if why else 0
