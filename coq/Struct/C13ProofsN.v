(* C13 extension - the first flattening of a NESTED /Pages tree: a well-formed nested tree (pgn_wf) whose leaves may be
   direct dictionaries and may be listed several times.
   (N1) pgn_cache_nested: Pages::cache / getAllPagesInternal normalises the tree (every leaf an indirect object, no leaf
        listed twice, nodes recognised as /Type /Pages), lists the leaves in document order with their content markers,
        and changes the store only by repairs (pgn_rel).
   (N2) pgn_pia_all: pushInheritedAttributesToPageInternal on the normalised tree succeeds and changes inheritable keys
        only (pgn_psim).
   (N3) pgn_flatten_tail_nested: the rest of flattenPagesTree rewrites /Kids of the root and yields a pgx_flat document.
   (N4) first_flatten_nested_lemma: pg_flatten on a pgn_wf document.
   Sanity: pgn_wf_of_flat (a flat tree is a well-formed tree of height 1), pgn_doc_leaves_oracle (the specification
   function PgxOracle.pgx_doc_leaves lists exactly the leaves of the definition, for height <= 42). *)
From QV Require Import Base.Bytes Struct.PgModel Struct.PgSpec Struct.C13ProofsA Struct.PgxModel Struct.PgxOracle Struct.C13ProofsC Struct.C13ProofsE.
Local Open Scope N_scope.

(* ------------------------------------------------------------------ lists *)
Lemma pgn_nodup_app : forall (a b : list N), NoDup a -> NoDup b -> (forall x, In x b -> ~ In x a) -> NoDup (a ++ b).
Proof.
  induction a as [|x t IH]; intros b Ha Hb Hd; [exact Hb|]. inversion Ha as [|? ? Hx Ht]; subst. cbn [app]. constructor.
  - intros H. apply in_app_iff in H. destruct H as [H|H]; [contradiction|]. apply (Hd x H). left. reflexivity.
  - apply IH; [exact Ht|exact Hb|]. intros y Hy H. apply (Hd y Hy). right. exact H.
Qed.

Lemma pgn_nodup_app_inv : forall (a b : list N), NoDup (a ++ b) -> NoDup a /\ NoDup b /\ (forall x, In x a -> ~ In x b).
Proof.
  induction a as [|x t IH]; intros b H; [split; [constructor|split; [exact H|intros x []]]|].
  cbn [app] in H. inversion H as [|? ? Hx Ht]; subst. destruct (IH b Ht) as (A & B & C). split; [|split; [exact B|]].
  - constructor; [|exact A]. intros Hin. apply Hx. apply in_or_app. left. exact Hin.
  - intros y [<-|Hy] Hb; [apply Hx; apply in_or_app; right; exact Hb | exact (C y Hy Hb)].
Qed.

Lemma pgn_list_set_app : forall {A} (pre : list A) h t x, pg_list_set (pre ++ h :: t) (length pre) x = pre ++ x :: t.
Proof. intros A pre h t x. induction pre as [|y pre IH]; [reflexivity|]. cbn [app length pg_list_set]. rewrite IH. reflexivity. Qed.

Lemma pgn_nth_app : forall {A} (pre : list A) h t, nth_error (pre ++ h :: t) (length pre) = Some h.
Proof. intros A pre h t. induction pre as [|y pre IH]; [reflexivity|exact IH]. Qed.

Lemma pgn_memN_true : forall x l, pg_memN x l = true -> In x l.
Proof.
  intros x l H. unfold pg_memN in H. apply existsb_exists in H. destruct H as (y & Hy & E). apply N.eqb_eq in E. subst. exact Hy.
Qed.
Lemma pgn_memN_false : forall x l, pg_memN x l = false -> ~ In x l.
Proof.
  intros x l H Hin. assert (pg_memN x l = true); [|congruence].
  unfold pg_memN. apply existsb_exists. exists x. split; [exact Hin | apply N.eqb_refl].
Qed.

(* ------------------------------------------------------------------ what getAllPagesInternal may do to the objects *)
(* a node keeps everything except soft keys and the elements of /Kids *)
Definition pgn_nsim (d d' : pg_dict) : Prop :=
  (forall k, k <> pgk_Kids -> k <> pgk_Type -> pg_dget d' k = pg_dget d k) /\
  (pg_dget d' pgk_Type = pg_dget d pgk_Type \/ pg_dget d' pgk_Type = PvName pgk_Pages).

Lemma pgn_nsim_trans : forall d1 d2 d3, pgn_nsim d1 d2 -> pgn_nsim d2 d3 -> pgn_nsim d1 d3.
Proof.
  intros d1 d2 d3 [A1 B1] [A2 B2]. split.
  - intros k H1 H2. rewrite A2, A1 by assumption. reflexivity.
  - destruct B2 as [E|E]; [rewrite E; exact B1|right; exact E].
Qed.
Definition pgn_isnode (d : pg_dict) : Prop := exists l, pg_dget d pgk_Kids = PvArr l.

(* every existing object is unchanged, or a leaf dictionary that was repaired (pgx_dsim), or one of the nodes T whose
   /Kids elements / soft keys changed *)
Definition pgn_rel (T : list N) (s s' : pg_store) : Prop :=
  forall j c, pg_lookup s j = Some c ->
    pg_lookup s' j = Some c \/
    (exists dk dk', c = PcObj (PvDict dk) /\ pgx_leafy dk /\ pg_lookup s' j = Some (PcObj (PvDict dk')) /\ pgx_dsim dk dk') \/
    (In j T /\ exists d d', c = PcObj (PvDict d) /\ pgn_isnode d /\ pg_lookup s' j = Some (PcObj (PvDict d')) /\
                            pgn_isnode d' /\ pgn_nsim d d').

Lemma pgn_leafy_not_node : forall d, pgx_leafy d -> pgn_isnode d -> False.
Proof. intros d [Hk _] [l Hl]. rewrite Hk in Hl. discriminate. Qed.

Lemma pgn_rel_refl : forall T s, pgn_rel T s s.
Proof. intros T s j c H. left. exact H. Qed.

Lemma pgn_rel_weaken : forall T T' s s', (forall x, In x T -> In x T') -> pgn_rel T s s' -> pgn_rel T' s s'.
Proof.
  intros T T' s s' Hi H j c Hj. destruct (H j c Hj) as [A|[A|[A B]]]; [left; exact A|right; left; exact A|right; right].
  split; [apply Hi, A|exact B].
Qed.

Lemma pgn_rel_trans : forall T s1 s2 s3, pgn_rel T s1 s2 -> pgn_rel T s2 s3 -> pgn_rel T s1 s3.
Proof.
  intros T s1 s2 s3 H1 H2 j c Hj. destruct (H1 j c Hj) as [A|[(dk & dk' & -> & L & E & S)|(Hin & d & d' & -> & N1 & E & N1' & S)]].
  - exact (H2 j c A).
  - destruct (H2 j _ E) as [A|[(dk2 & dk3 & Ec & L2 & E3 & S3)|(_ & d2 & d3 & Ec & N2 & _)]].
    + right; left. exists dk, dk'. split; [reflexivity|split; [exact L|split; [exact A|exact S]]].
    + inversion Ec; subst dk2. right; left. exists dk, dk3. split; [reflexivity|split; [exact L|split; [exact E3|eapply pgx_dsim_trans; eassumption]]].
    + inversion Ec; subst d2. exfalso. eapply pgn_leafy_not_node; [eapply pgx_leafy_sim; eassumption|exact N2].
  - destruct (H2 j _ E) as [A|[(dk2 & dk3 & Ec & L2 & _)|(_ & d2 & d3 & Ec & N2 & E3 & N3 & S3)]].
    + right; right. split; [exact Hin|]. exists d, d'. split; [reflexivity|split; [exact N1|split; [exact A|split; [exact N1'|exact S]]]].
    + inversion Ec; subst dk2. exfalso. eapply pgn_leafy_not_node; eassumption.
    + inversion Ec; subst d2. right; right. split; [exact Hin|]. exists d, d3. split; [reflexivity|split; [exact N1|split; [exact E3|split; [exact N3|]]]].
      eapply pgn_nsim_trans; eassumption.
Qed.

Lemma pgn_rel_some : forall T s s' j, pgn_rel T s s' -> pg_lookup s j <> None -> pg_lookup s' j <> None.
Proof.
  intros T s s' j H Hj. destruct (pg_lookup s j) as [c|] eqn:E; [|congruence].
  destruct (H j c E) as [A|[(dk & dk' & _ & _ & A & _)|(_ & d & d' & _ & _ & A & _)]]; rewrite A; discriminate.
Qed.

Lemma pgn_mk_not_soft : ~ In pgk_Mk pgx_soft.
Proof. exact (proj1 pgx_mk_hard). Qed.

Lemma pgn_rel_mark : forall T s s' j, pgn_rel T s s' -> pg_lookup s j <> None -> pg_mark s' j = pg_mark s j.
Proof.
  intros T s s' j H Hj. destruct (pg_lookup s j) as [c|] eqn:E; [|congruence].
  destruct (H j c E) as [A|[(dk & dk' & -> & _ & A & (Hh & _))|(_ & d & d' & -> & _ & A & _ & S)]].
  - apply pg_mark_ext. congruence.
  - rewrite (pg_mark_obj _ _ _ A), (pg_mark_obj _ _ _ E). unfold pg_val_mark. rewrite (Hh pgk_Mk pgx_mk_hard). reflexivity.
  - rewrite (pg_mark_obj _ _ _ A), (pg_mark_obj _ _ _ E). unfold pg_val_mark. rewrite (proj1 S pgk_Mk) by discriminate. reflexivity.
Qed.

Lemma pgn_rel_leafy : forall T s s' k dk, pgn_rel T s s' -> pg_lookup s k = Some (PcObj (PvDict dk)) -> pgx_leafy dk ->
  exists dk', pg_lookup s' k = Some (PcObj (PvDict dk')) /\ pgx_leafy dk'.
Proof.
  intros T s s' k dk H E L. destruct (H k _ E) as [A|[(dk1 & dk' & Ec & _ & A & S)|(_ & d & d' & Ec & N1 & _)]].
  - exists dk. split; assumption.
  - inversion Ec; subst dk1. exists dk'. split; [exact A|eapply pgx_leafy_sim; eassumption].
  - inversion Ec; subst d. exfalso. eapply pgn_leafy_not_node; eassumption.
Qed.

Lemma pgn_rel_node_unch : forall T s s' m d, pgn_rel T s s' -> pg_lookup s m = Some (PcObj (PvDict d)) -> pgn_isnode d ->
  ~ In m T -> pg_lookup s' m = Some (PcObj (PvDict d)).
Proof.
  intros T s s' m d H E Nd Hm. destruct (H m _ E) as [A|[(dk & dk' & Ec & L & _)|(Hin & _)]]; [exact A| |contradiction].
  inversion Ec; subst dk. exfalso. eapply pgn_leafy_not_node; eassumption.
Qed.

(* the three kinds of steps *)
Lemma pgn_rel_sim_at : forall T s s' k dk, pgx_sim s s' -> (forall j, j <> k -> pg_lookup s' j = pg_lookup s j) ->
  pg_lookup s k = Some (PcObj (PvDict dk)) -> pgx_leafy dk -> pgn_rel T s s'.
Proof.
  intros T s s' k dk Hsim Hoth Ek L j c Hj. destruct (N.eq_dec j k) as [->|Hne].
  - rewrite Ek in Hj. inversion Hj; subst c. destruct (pgx_sim_dict _ _ _ _ Hsim Ek) as (dk' & E' & S).
    right; left. exists dk, dk'. split; [reflexivity|split; [exact L|split; [exact E'|exact S]]].
  - left. rewrite (Hoth j Hne). exact Hj.
Qed.

Lemma pgn_rel_cons : forall T s c, pgn_rel T s ((pg_next_id s, c) :: s).
Proof.
  intros T s c j cj Hj. left. cbn [pg_lookup]. destruct (j =? pg_next_id s) eqn:E; [|exact Hj].
  apply N.eqb_eq in E. subst j. rewrite pg_next_id_fresh in Hj. discriminate.
Qed.

Lemma pgn_rel_node_upd : forall T s n d d', pg_lookup s n = Some (PcObj (PvDict d)) -> pgn_isnode d -> pgn_isnode d' ->
  pgn_nsim d d' -> In n T -> pgn_rel T s (pg_supd s n (PcObj (PvDict d'))).
Proof.
  intros T s n d d' E N1 N2 S Hin j c Hj. rewrite pg_lookup_supd. destruct (j =? n) eqn:Ej; [|left; exact Hj].
  apply N.eqb_eq in Ej. subst j. rewrite E in Hj. inversion Hj; subst c. right; right. split; [exact Hin|].
  exists d, d'. split; [reflexivity|split; [exact N1|split; [reflexivity|split; [exact N2|exact S]]]].
Qed.

(* ------------------------------------------------------------------ well-formed nested trees *)
Definition pgn_leafh (s : pg_store) (h : pg_val) : Prop :=
  match h with
  | PvRef k => exists dk, pg_lookup s k = Some (PcObj (PvDict dk)) /\ pgx_leafy dk
  | PvDict dk => pgx_leafy dk
  | _ => False
  end.

(* the kids of a node: leaf handles (indirect or direct), or references to sub-nodes (T) *)
Inductive pgn_kids (T : N -> list N -> list pg_val -> Prop) (s : pg_store) : list pg_val -> list N -> list pg_val -> Prop :=
| pgn_k_nil : pgn_kids T s [] [] []
| pgn_k_leaf : forall h t ns ls, pgn_leafh s h -> pgn_kids T s t ns ls -> pgn_kids T s (h :: t) ns (h :: ls)
| pgn_k_node : forall m t ns1 ls1 ns ls, T m ns1 ls1 -> pgn_kids T s t ns ls -> pgn_kids T s (PvRef m :: t) (ns1 ++ ns) (ls1 ++ ls).

(* pgn_tree d s n ns ls: n is a node of height <= d, ns its node ids in preorder, ls its leaf handles in document order *)
Fixpoint pgn_tree (d : nat) (s : pg_store) (n : N) (ns : list N) (ls : list pg_val) {struct d} : Prop :=
  match d with
  | O => False
  | S d' => exists dd kids ns', pg_lookup s n = Some (PcObj (PvDict dd)) /\ pg_dget dd pgk_Kids = PvArr kids /\
                                ns = n :: ns' /\ pgn_kids (pgn_tree d' s) s kids ns' ls
  end.

Definition pgn_leaf_mark (s : pg_store) (h : pg_val) : Z := match h with PvRef k => pg_mark s k | v => pg_val_mark v end.
Definition pgn_leaf_marks (s : pg_store) (ls : list pg_val) : list Z := map (pgn_leaf_mark s) ls.

Lemma pgn_kids_map : forall (T T' : N -> list N -> list pg_val -> Prop) s s' NS kids ns ls,
  pgn_kids T s kids ns ls ->
  (forall h, pgn_leafh s h -> pgn_leafh s' h) ->
  (forall m ns1 ls1, T m ns1 ls1 -> (forall x, In x ns1 -> In x NS) -> T' m ns1 ls1) ->
  (forall x, In x ns -> In x NS) ->
  pgn_kids T' s' kids ns ls.
Proof.
  intros T T' s s' NS kids ns ls H Hl HT. induction H as [|h t ns ls Hh Ht IH|m t ns1 ls1 ns ls Hm Ht IH]; intros Hin.
  - constructor.
  - constructor; [apply Hl, Hh|apply IH, Hin].
  - constructor.
    + apply HT; [exact Hm|]. intros x Hx. apply Hin, in_or_app. left. exact Hx.
    + apply IH. intros x Hx. apply Hin, in_or_app. right. exact Hx.
Qed.

Lemma pgn_leafh_rel : forall T s s' h, pgn_rel T s s' -> pgn_leafh s h -> pgn_leafh s' h.
Proof.
  intros T s s' h H Hh. destruct h; try exact Hh. destruct Hh as (dk & E & L). eapply pgn_rel_leafy; eassumption.
Qed.

Lemma pgn_tree_rel : forall T s s', pgn_rel T s s' -> forall d n ns ls, pgn_tree d s n ns ls ->
  (forall x, In x ns -> ~ In x T) -> pgn_tree d s' n ns ls.
Proof.
  intros T s s' H. induction d as [|d IH]; intros n ns ls Ht Hd; [destruct Ht|].
  destruct Ht as (dd & kids & ns' & E & Hk & -> & Hkids). exists dd, kids, ns'.
  split; [|split; [exact Hk|split; [reflexivity|]]].
  - eapply pgn_rel_node_unch; [exact H|exact E|exists kids; exact Hk|]. apply Hd. left. reflexivity.
  - eapply (pgn_kids_map _ _ s s' ns'); [exact Hkids|intros h; apply pgn_leafh_rel with (T := T); exact H| |intros x Hx; exact Hx].
    intros m ns1 ls1 Hm Hin. apply IH; [exact Hm|]. intros x Hx. apply Hd. right. apply Hin, Hx.
Qed.

Lemma pgn_kids_rel : forall T s s' d kids ns ls, pgn_rel T s s' -> pgn_kids (pgn_tree d s) s kids ns ls ->
  (forall x, In x ns -> ~ In x T) -> pgn_kids (pgn_tree d s') s' kids ns ls.
Proof.
  intros T s s' d kids ns ls H Hk Hd.
  eapply (pgn_kids_map _ _ s s' ns); [exact Hk|intros h; apply pgn_leafh_rel with (T := T); exact H| |intros x Hx; exact Hx].
  intros m ns1 ls1 Hm Hin. eapply pgn_tree_rel; [exact H|exact Hm|]. intros x Hx. apply Hd, Hin, Hx.
Qed.

Lemma pgn_kids_leaves : forall (T : N -> list N -> list pg_val -> Prop) s kids ns ls,
  (forall m ns1 ls1, T m ns1 ls1 -> Forall (pgn_leafh s) ls1) ->
  pgn_kids T s kids ns ls -> Forall (pgn_leafh s) ls.
Proof.
  intros T s kids ns ls HT H. induction H as [|h t ns ls Hh Ht IH|m t ns1 ls1 ns ls Hm Ht IH].
  - constructor.
  - constructor; assumption.
  - apply Forall_app. split; [eapply HT; exact Hm|exact IH].
Qed.

Lemma pgn_tree_leaves : forall s d n ns ls, pgn_tree d s n ns ls -> Forall (pgn_leafh s) ls.
Proof.
  intros s. induction d as [|d IH]; intros n ns ls Ht; [destruct Ht|].
  destruct Ht as (dd & kids & ns' & _ & _ & _ & Hkids). eapply pgn_kids_leaves; [|exact Hkids]. intros m ns1 ls1. apply IH.
Qed.

Lemma pgn_leaf_marks_rel : forall T s s' ls, pgn_rel T s s' -> Forall (pgn_leafh s) ls ->
  pgn_leaf_marks s' ls = pgn_leaf_marks s ls.
Proof.
  intros T s s' ls H Hl. unfold pgn_leaf_marks. induction Hl as [|h t Hh Ht IH]; [reflexivity|]. cbn [map]. rewrite IH. f_equal.
  destruct h; try reflexivity. destruct Hh as (dk & E & _). cbn [pgn_leaf_mark]. eapply pgn_rel_mark; [exact H|]. rewrite E. discriminate.
Qed.

Lemma pgn_marks_rel : forall T s s' (K : list N), pgn_rel T s s' -> (forall x, In x K -> pg_lookup s x <> None) ->
  map (pg_mark s') K = map (pg_mark s) K.
Proof. intros T s s' K H Hex. apply map_ext_in. intros x Hx. eapply pgn_rel_mark; [exact H|apply Hex, Hx]. Qed.

(* ------------------------------------------------------------------ the leaf step of the loop *)
Lemma pgn_lookup_del_key_other : forall s i k j, j <> i -> pg_lookup (pg_obj_del_key s i k) j = pg_lookup s j.
Proof.
  intros s i k j H. unfold pg_obj_del_key. destruct (pg_lookup s i) as [[v|]|]; try reflexivity. destruct v; try reflexivity.
  rewrite pg_lookup_supd. destruct (j =? i) eqn:E; [apply N.eqb_eq in E; contradiction|reflexivity].
Qed.

Definition pgn_soft (s : pg_store) (kid : N) (mb res : bool) : pg_store :=
  let s := if negb mb && negb (pg_is_rect s (pg_hget s (PvRef kid) pgk_MediaBox))
           then pg_obj_set_key s kid pgk_MediaBox pg_letter else s in
  let s := if negb res && negb (pg_is_dict s (pg_hget s (PvRef kid) pgk_Resources))
           then pg_obj_set_key s kid pgk_Resources (PvDict []) else s in
  let annots := pg_hget s (PvRef kid) pgk_Annots in
  if negb (pg_is_null s annots) && negb (pg_is_arr s annots) then pg_obj_del_key s kid pgk_Annots else s.

Definition pgn_typepage (s : pg_store) (kid : N) : pg_store :=
  if pg_is_dict_of_type s (PvRef kid) pgk_Page then s else pg_obj_set_key s kid pgk_Type (PvName pgk_Page).

Lemma pgn_leaf_unfold : forall g node idx kid mb res,
  pg_leaf g node idx kid mb res =
  let s := pgn_soft (pgg_s g) kid mb res in
  let '(s, kid, seen) :=
    if pg_memN kid (pgg_seen g) then
      let '(s', k2) := pg_alloc s (PcObj (pg_rv s (PvRef kid))) in
      (pg_set_kid s' node idx (PvRef k2), k2, k2 :: pgg_seen g)
    else (s, kid, kid :: pgg_seen g) in
  mkPgGst (pgn_typepage s kid) (kid :: pgg_pages g) (pgg_vis g) seen (pgg_inv g) (pgg_err g).
Proof. reflexivity. Qed.

Lemma pgn_soft_ok : forall s kid mb res,
  pgx_sim s (pgn_soft s kid mb res) /\ (forall j, j <> kid -> pg_lookup (pgn_soft s kid mb res) j = pg_lookup s j).
Proof.
  intros s kid mb res. unfold pgn_soft.
  set (s1 := if negb mb && negb (pg_is_rect s (pg_hget s (PvRef kid) pgk_MediaBox)) then pg_obj_set_key s kid pgk_MediaBox pg_letter else s).
  assert (H1 : pgx_sim s s1 /\ forall j, j <> kid -> pg_lookup s1 j = pg_lookup s j).
  { unfold s1. destruct (negb mb && negb (pg_is_rect s (pg_hget s (PvRef kid) pgk_MediaBox))); [|split; [apply pgx_sim_refl|reflexivity]].
    split; [apply pgx_sim_set_key; [apply pgx_in_soft_MediaBox|discriminate]|]. intros j Hj. apply pg_lookup_obj_set_key_other, Hj. }
  set (s2 := if negb res && negb (pg_is_dict s1 (pg_hget s1 (PvRef kid) pgk_Resources)) then pg_obj_set_key s1 kid pgk_Resources (PvDict []) else s1).
  assert (H2 : pgx_sim s1 s2 /\ forall j, j <> kid -> pg_lookup s2 j = pg_lookup s1 j).
  { unfold s2. destruct (negb res && negb (pg_is_dict s1 (pg_hget s1 (PvRef kid) pgk_Resources))); [|split; [apply pgx_sim_refl|reflexivity]].
    split; [apply pgx_sim_set_key; [apply pgx_in_soft_Resources|discriminate]|]. intros j Hj. apply pg_lookup_obj_set_key_other, Hj. }
  cbv zeta.
  set (s3 := if negb (pg_is_null s2 (pg_hget s2 (PvRef kid) pgk_Annots)) && negb (pg_is_arr s2 (pg_hget s2 (PvRef kid) pgk_Annots))
             then pg_obj_del_key s2 kid pgk_Annots else s2).
  assert (H3 : pgx_sim s2 s3 /\ forall j, j <> kid -> pg_lookup s3 j = pg_lookup s2 j).
  { unfold s3. destruct (negb (pg_is_null s2 (pg_hget s2 (PvRef kid) pgk_Annots)) && negb (pg_is_arr s2 (pg_hget s2 (PvRef kid) pgk_Annots)));
      [|split; [apply pgx_sim_refl|reflexivity]].
    split; [apply pgx_sim_del_key; [apply pgx_in_soft_Annots|discriminate]|]. intros j Hj. apply pgn_lookup_del_key_other, Hj. }
  destruct H1 as [A1 B1], H2 as [A2 B2], H3 as [A3 B3]. split.
  - eapply pgx_sim_trans; [exact A1|]. eapply pgx_sim_trans; [exact A2|exact A3].
  - intros j Hj. rewrite B3, B2, B1 by exact Hj. reflexivity.
Qed.

Lemma pgn_typepage_ok : forall s kid,
  pgx_sim s (pgn_typepage s kid) /\ (forall j, j <> kid -> pg_lookup (pgn_typepage s kid) j = pg_lookup s j).
Proof.
  intros s kid. unfold pgn_typepage. destruct (pg_is_dict_of_type s (PvRef kid) pgk_Page); [split; [apply pgx_sim_refl|reflexivity]|].
  split; [apply pgx_sim_type_page|]. intros j Hj. apply pg_lookup_obj_set_key_other, Hj.
Qed.

Lemma pgn_kids_of : forall s n dd l, pg_lookup s n = Some (PcObj (PvDict dd)) -> pg_dget dd pgk_Kids = PvArr l -> pg_kids_of s n = l.
Proof. intros s n dd l E Hk. unfold pg_kids_of. rewrite (pgx_hget_ref s n dd pgk_Kids E), Hk. reflexivity. Qed.

Lemma pgn_set_kid : forall s n dd pre h tail v,
  pg_lookup s n = Some (PcObj (PvDict dd)) -> pg_dget dd pgk_Kids = PvArr (pre ++ h :: tail) ->
  pg_set_kid s n (length pre) v = pg_supd s n (PcObj (PvDict (pg_dset dd pgk_Kids (PvArr (pre ++ v :: tail))))).
Proof.
  intros s n dd pre h tail v E Hk. unfold pg_set_kid. rewrite (pgn_kids_of s n dd _ E Hk), pgn_list_set_app.
  unfold pg_obj_set_key. rewrite E. reflexivity.
Qed.

Lemma pgn_nsim_kids : forall dd v, pgn_nsim dd (pg_dset dd pgk_Kids v).
Proof. intros dd v. split; [intros k Hk _; apply pg_dget_dset_neq; exact Hk|left; apply pg_dget_dset_neq; discriminate]. Qed.

Lemma pgn_mark_dsim : forall s s' k k' dk dk', pg_lookup s k = Some (PcObj (PvDict dk)) -> pg_lookup s' k' = Some (PcObj (PvDict dk')) ->
  pgx_dsim dk dk' -> pg_mark s' k' = pg_mark s k.
Proof.
  intros s s' k k' dk dk' E E' (Hh & _). rewrite (pg_mark_obj _ _ _ E), (pg_mark_obj _ _ _ E'). unfold pg_val_mark.
  rewrite (Hh pgk_Mk pgx_mk_hard). reflexivity.
Qed.

Lemma pgn_leaf_step : forall s pages vis seen inv n idx k mb res dd pre tail dk,
  pg_lookup s n = Some (PcObj (PvDict dd)) -> pg_dget dd pgk_Kids = PvArr (pre ++ PvRef k :: tail) -> idx = length pre ->
  pg_lookup s k = Some (PcObj (PvDict dk)) -> pgx_leafy dk ->
  (forall x, In x seen -> pg_lookup s x <> None) ->
  exists s' k' dd' dk',
    pg_leaf (mkPgGst s pages vis seen inv None) n idx k mb res = mkPgGst s' (k' :: pages) vis (k' :: seen) inv None /\
    ~ In k' seen /\ pg_lookup s' k' = Some (PcObj (PvDict dk')) /\ pgx_leafy dk' /\ pg_mark s' k' = pg_mark s k /\
    pg_lookup s' n = Some (PcObj (PvDict dd')) /\ pg_dget dd' pgk_Kids = PvArr (pre ++ PvRef k' :: tail) /\
    pgn_rel [n] s s' /\ (k' = k \/ pg_lookup s k' = None).
Proof.
  intros s pages vis seen inv n idx k mb res dd pre tail dk En Hk -> Ek L Hseen.
  assert (Hkn : k <> n).
  { intros ->. rewrite En in Ek. inversion Ek; subst dk. destruct L as [L _]. rewrite L in Hk. discriminate. }
  rewrite pgn_leaf_unfold. cbn [pgg_s pgg_seen pgg_pages pgg_vis pgg_inv pgg_err]. cbv zeta.
  destruct (pgn_soft_ok s k mb res) as [A3 B3]. set (s3 := pgn_soft s k mb res) in *.
  destruct (pgx_sim_dict _ _ _ _ A3 Ek) as (dk3 & Ek3 & S3).
  pose proof (pgx_leafy_sim _ _ L S3) as L3.
  destruct (pg_memN k seen) eqn:Emem.
  - (* already seen: a shallow copy replaces the array element *)
    assert (pg_rv s3 (PvRef k) = PvDict dk3) as -> by (cbn [pg_rv]; rewrite Ek3; reflexivity).
    unfold pg_alloc. cbv zeta iota beta.
    set (k2 := pg_next_id s3). set (sa := (k2, PcObj (PvDict dk3)) :: s3).
    assert (Hfresh : pg_lookup s3 k2 = None) by apply pg_next_id_fresh.
    assert (Hex : forall j, pg_lookup s j <> None -> j <> k2).
    { intros j Hj ->. apply (pgx_sim_some _ _ _ A3) in Hj. congruence. }
    assert (Hnk2 : n <> k2) by (apply Hex; rewrite En; discriminate).
    assert (Hkk2 : k <> k2) by (apply Hex; rewrite Ek; discriminate).
    assert (Ena : pg_lookup sa n = Some (PcObj (PvDict dd))).
    { unfold sa. cbn [pg_lookup]. destruct (n =? k2) eqn:E; [apply N.eqb_eq in E; contradiction|]. rewrite B3 by congruence. exact En. }
    rewrite (pgn_set_kid sa n dd pre (PvRef k) tail (PvRef k2) Ena Hk).
    set (dd5 := pg_dset dd pgk_Kids (PvArr (pre ++ PvRef k2 :: tail))). set (s5 := pg_supd sa n (PcObj (PvDict dd5))).
    destruct (pgn_typepage_ok s5 k2) as [A6 B6]. set (s6 := pgn_typepage s5 k2) in *.
    assert (E5k2 : pg_lookup s5 k2 = Some (PcObj (PvDict dk3))).
    { unfold s5. rewrite pg_lookup_supd. destruct (k2 =? n) eqn:E; [apply N.eqb_eq in E; congruence|]. unfold sa. cbn [pg_lookup]. rewrite N.eqb_refl. reflexivity. }
    destruct (pgx_sim_dict _ _ _ _ A6 E5k2) as (dk6 & Ek6 & S6).
    assert (S06 : pgx_dsim dk dk6) by (eapply pgx_dsim_trans; eassumption).
    exists s6, k2, dd5, dk6. split; [reflexivity|].
    split; [intros Hin; apply (Hex k2 (Hseen k2 Hin)); reflexivity|].
    split; [exact Ek6|split; [eapply pgx_leafy_sim; eassumption|split; [eapply pgn_mark_dsim; eassumption|]]].
    assert (E6n : pg_lookup s6 n = Some (PcObj (PvDict dd5))).
    { rewrite B6 by exact Hnk2. unfold s5. rewrite pg_lookup_supd, N.eqb_refl. reflexivity. }
    split; [exact E6n|split; [unfold dd5; apply pg_dget_dset_eq|]].
    split; [|right; destruct (pg_lookup s k2) eqn:Ek2; [exfalso; apply (Hex k2); [rewrite Ek2; discriminate|reflexivity]|reflexivity]].
    intros j c Hj. assert (Hjk2 : j <> k2) by (apply Hex; rewrite Hj; discriminate).
    destruct (N.eq_dec j n) as [->|Hjn].
    + rewrite En in Hj. inversion Hj; subst c. right; right. split; [left; reflexivity|]. exists dd, dd5.
      split; [reflexivity|split; [eexists; exact Hk|split; [exact E6n|split; [eexists; unfold dd5; apply pg_dget_dset_eq|apply pgn_nsim_kids]]]].
    + assert (E6j : pg_lookup s6 j = pg_lookup s3 j).
      { rewrite B6 by exact Hjk2. unfold s5. rewrite pg_lookup_supd. destruct (j =? n) eqn:E; [apply N.eqb_eq in E; contradiction|].
        unfold sa. cbn [pg_lookup]. destruct (j =? k2) eqn:E2; [apply N.eqb_eq in E2; contradiction|reflexivity]. }
      destruct (N.eq_dec j k) as [->|Hjk].
      * rewrite Ek in Hj. inversion Hj; subst c. right; left. exists dk, dk3.
        split; [reflexivity|split; [exact L|split; [rewrite E6j; exact Ek3|exact S3]]].
      * left. rewrite E6j, B3 by exact Hjk. exact Hj.
  - (* first occurrence *)
    destruct (pgn_typepage_ok s3 k) as [A4 B4]. set (s4 := pgn_typepage s3 k) in *.
    destruct (pgx_sim_dict _ _ _ _ A4 Ek3) as (dk4 & Ek4 & S4).
    assert (S04 : pgx_dsim dk dk4) by (eapply pgx_dsim_trans; eassumption).
    exists s4, k, dd, dk4. split; [reflexivity|].
    split; [apply pgn_memN_false, Emem|].
    split; [exact Ek4|split; [eapply pgx_leafy_sim; eassumption|split; [eapply pgn_mark_dsim; eassumption|]]].
    split; [rewrite B4, B3 by congruence; exact En|split; [exact Hk|]].
    split; [|left; reflexivity].
    eapply pgn_rel_sim_at; [eapply pgx_sim_trans; eassumption| |exact Ek|exact L].
    intros j Hj. rewrite B4, B3 by exact Hj. reflexivity.
Qed.

(* ------------------------------------------------------------------ the loop body of getAllPagesInternal *)
Definition pgn_body (f : nat) (node : N) (level : nat) (mb res : bool) : pg_gst -> nat -> pg_gst :=
  fun (g : pg_gst) (idx : nat) =>
    match pgg_err g with
    | Some _ => g
    | None =>
      match nth_error (pg_kids_of (pgg_s g) node) idx with
      | None => g
      | Some kv =>
        if negb (pg_is_dict (pgg_s g) kv) then
          mkPgGst (pgg_s g) (pgg_pages g) (pgg_vis g) (pgg_seen g) true (pgg_err g)
        else
          let '(s1, kid) :=
            match kv with
            | PvRef k => (pgg_s g, k)
            | _ => let '(s', k) := pg_alloc (pgg_s g) (PcObj kv) in
                   (pg_set_kid s' node idx (PvRef k), k)
            end in
          let g1 := mkPgGst s1 (pgg_pages g) (pgg_vis g) (pgg_seen g) (pgg_inv g) (pgg_err g) in
          if pg_has_key s1 (PvRef kid) pgk_Kids
          then pg_gapi f kid (S level) mb res g1
          else pg_leaf g1 node idx kid mb res
      end
    end.

Lemma pgn_gapi_unfold : forall f node level mb res g,
  pg_gapi (S f) node level mb res g =
  if Nat.ltb 100 (S level) then pgg_fail g PeQ
  else if pg_memN node (pgg_vis g) then pgg_fail g PeQ
  else
    let s := pgg_s g in
    let s := if pg_is_dict_of_type s (PvRef node) pgk_Pages then s else pg_obj_set_key s node pgk_Type (PvName pgk_Pages) in
    let mb := mb || pg_is_rect s (pg_hget s (PvRef node) pgk_MediaBox) in
    let res := res || pg_is_dict s (pg_hget s (PvRef node) pgk_Resources) in
    let g := mkPgGst s (pgg_pages g) (node :: pgg_vis g) (pgg_seen g) (pgg_inv g) (pgg_err g) in
    match pg_hget s (PvRef node) pgk_Kids with
    | PvRef _ => pgg_fail g PeUnm
    | PvArr l => fold_left (pgn_body f node level mb res) (seq 0 (length l)) g
    | _ => g
    end.
Proof. reflexivity. Qed.

Lemma pgn_body_leafref : forall f n level mb res s pages vis seen inv idx k dk,
  nth_error (pg_kids_of s n) idx = Some (PvRef k) -> pg_lookup s k = Some (PcObj (PvDict dk)) -> pgx_leafy dk ->
  pgn_body f n level mb res (mkPgGst s pages vis seen inv None) idx = pg_leaf (mkPgGst s pages vis seen inv None) n idx k mb res.
Proof.
  intros f n level mb res s pages vis seen inv idx k dk Hn E L. unfold pgn_body. cbn [pgg_err pgg_s pgg_pages pgg_vis pgg_seen pgg_inv].
  rewrite Hn. destruct (pgx_leafy_not_pages s k dk E L) as (_ & Hnk & Hd). rewrite Hd. cbn [negb]. rewrite Hnk. reflexivity.
Qed.

Lemma pgn_body_node : forall f n level mb res s pages vis seen inv idx m dm l,
  nth_error (pg_kids_of s n) idx = Some (PvRef m) -> pg_lookup s m = Some (PcObj (PvDict dm)) -> pg_dget dm pgk_Kids = PvArr l ->
  pgn_body f n level mb res (mkPgGst s pages vis seen inv None) idx = pg_gapi f m (S level) mb res (mkPgGst s pages vis seen inv None).
Proof.
  intros f n level mb res s pages vis seen inv idx m dm l Hn E Hk. unfold pgn_body. cbn [pgg_err pgg_s pgg_pages pgg_vis pgg_seen pgg_inv].
  rewrite Hn. unfold pg_is_dict. cbn [pg_rv]. rewrite E. cbn [negb].
  unfold pg_has_key. rewrite (pgx_hget_ref s m dm pgk_Kids E), Hk. reflexivity.
Qed.

Lemma pgn_body_direct : forall f n level mb res s pages vis seen inv dd pre tail dk,
  pg_lookup s n = Some (PcObj (PvDict dd)) -> pg_dget dd pgk_Kids = PvArr (pre ++ PvDict dk :: tail) -> pgx_leafy dk ->
  let k1 := pg_next_id s in
  let s1 := pg_supd ((k1, PcObj (PvDict dk)) :: s) n (PcObj (PvDict (pg_dset dd pgk_Kids (PvArr (pre ++ PvRef k1 :: tail))))) in
  pgn_body f n level mb res (mkPgGst s pages vis seen inv None) (length pre) =
  pg_leaf (mkPgGst s1 pages vis seen inv None) n (length pre) k1 mb res.
Proof.
  intros f n level mb res s pages vis seen inv dd pre tail dk En Hk L k1 s1.
  unfold pgn_body. cbn [pgg_err pgg_s pgg_pages pgg_vis pgg_seen pgg_inv].
  rewrite (pgn_kids_of s n dd _ En Hk), pgn_nth_app. cbn [pg_is_dict pg_rv negb]. unfold pg_alloc. cbv zeta iota beta. fold k1.
  assert (Hnk1 : n <> k1) by (intros ->; unfold k1 in En; rewrite pg_next_id_fresh in En; discriminate).
  assert (Ena : pg_lookup ((k1, PcObj (PvDict dk)) :: s) n = Some (PcObj (PvDict dd))).
  { cbn [pg_lookup]. destruct (n =? k1) eqn:E; [apply N.eqb_eq in E; contradiction|exact En]. }
  rewrite (pgn_set_kid _ n dd pre (PvDict dk) tail (PvRef k1) Ena Hk). fold s1.
  assert (E1 : pg_lookup s1 k1 = Some (PcObj (PvDict dk))).
  { unfold s1. rewrite pg_lookup_supd. destruct (k1 =? n) eqn:E; [apply N.eqb_eq in E; congruence|]. cbn [pg_lookup]. rewrite N.eqb_refl. reflexivity. }
  unfold pg_has_key. rewrite (pgx_hget_ref s1 k1 dk pgk_Kids E1). destruct L as [L _]. rewrite L. reflexivity.
Qed.

(* ------------------------------------------------------------------ getAllPagesInternal on a well-formed nested tree *)
Lemma pgn_rel_none : forall T s s' x, pgn_rel T s s' -> pg_lookup s' x = None -> pg_lookup s x = None.
Proof.
  intros T s s' x H E. destruct (pg_lookup s x) eqn:Ex; [|reflexivity]. exfalso.
  apply (pgn_rel_some T s s' x H); [rewrite Ex; discriminate|exact E].
Qed.

Lemma pgn_typed_dict : forall s m dm t, pg_lookup s m = Some (PcObj (PvDict dm)) ->
  pg_is_dict_of_type s (PvRef m) t = pg_name_is s (pg_dget dm pgk_Type) t.
Proof.
  intros s m dm t E. unfold pg_is_dict_of_type, pg_is_dict. rewrite (pgx_hget_ref s m dm pgk_Type E). cbn [pg_rv]. rewrite E. reflexivity.
Qed.

(* a node that getAllPagesInternal has entered: a dictionary with a /Kids array, recognised as /Type /Pages *)
Definition pgn_tnode (s : pg_store) (m : N) : Prop :=
  exists dm, pg_lookup s m = Some (PcObj (PvDict dm)) /\ pgn_isnode dm /\ pg_is_dict_of_type s (PvRef m) pgk_Pages = true.

Lemma pgn_name_is_rel : forall T s s' v t, pgn_rel T s s' -> pg_name_is s v t = true -> pg_name_is s' v t = true.
Proof.
  intros T s s' v t H Hn. unfold pg_name_is in *. destruct v; try exact Hn. cbn [pg_rv] in *.
  destruct (pg_lookup s i) as [[w|]|] eqn:Ei; try discriminate.
  destruct (H i _ Ei) as [A|[(dk & dk' & Ec & _)|(_ & d & d' & Ec & _)]]; [rewrite A; exact Hn| |]; inversion Ec; subst w; discriminate.
Qed.

Lemma pgn_tnode_rel : forall T s s' m, pgn_rel T s s' -> pgn_tnode s m -> pgn_tnode s' m.
Proof.
  intros T s s' m H (dm & E & Nd & Ty). rewrite (pgn_typed_dict s m dm _ E) in Ty.
  destruct (H m _ E) as [A|[(dk & dk' & Ec & L & _)|(_ & d & d' & Ec & _ & A & Nd' & [Sa Sb])]].
  - exists dm. split; [exact A|split; [exact Nd|]]. rewrite (pgn_typed_dict s' m dm _ A). eapply pgn_name_is_rel; eassumption.
  - inversion Ec; subst dk. exfalso. eapply pgn_leafy_not_node; eassumption.
  - inversion Ec; subst d. exists d'. split; [exact A|split; [exact Nd'|]]. rewrite (pgn_typed_dict s' m d' _ A).
    destruct Sb as [Eq|Eq]; rewrite Eq; [eapply pgn_name_is_rel; eassumption|]. unfold pg_name_is. cbn [pg_rv]. apply pg_key_eqb_refl.
Qed.

Definition pgn_res (d : nat) (s s' : pg_store) (n : N) (ns : list N) (ls : list pg_val) (K seen : list N) : Prop :=
  pgn_tree d s' n ns (map PvRef K) /\ NoDup K /\ (forall x, In x K -> ~ In x seen) /\
  (forall x, In x K -> pg_lookup s' x <> None) /\
  map (pg_mark s') K = pgn_leaf_marks s ls /\ pgn_rel ns s s' /\
  (forall x, In x K -> In (PvRef x) ls \/ pg_lookup s x = None) /\
  (forall m, In m ns -> pgn_tnode s' m).

Definition pgn_gapi_ok (d f : nat) : Prop :=
  forall level mb res inv n ns ls s pages vis seen,
    (level + d <= 100)%nat -> pgn_tree d s n ns ls -> NoDup ns -> (forall m, In m ns -> ~ In m vis) ->
    (forall x, In x seen -> pg_lookup s x <> None) ->
    exists s' K, pg_gapi f n level mb res (mkPgGst s pages vis seen inv None) =
                   mkPgGst s' (rev K ++ pages) (rev ns ++ vis) (rev K ++ seen) inv None /\
                 pgn_res d s s' n ns ls K seen.

Lemma pgn_tree_node : forall d s m ns ls, pgn_tree d s m ns ls ->
  exists dm l, pg_lookup s m = Some (PcObj (PvDict dm)) /\ pg_dget dm pgk_Kids = PvArr l /\ In m ns.
Proof.
  intros d s m ns ls H. destruct d; [destruct H|]. destruct H as (dd & kids & ns' & E & Hk & -> & _).
  exists dd, kids. split; [exact E|split; [exact Hk|left; reflexivity]].
Qed.

Lemma pgn_kids_inv_cons : forall T s h t ns ls, pgn_kids T s (h :: t) ns ls ->
  (pgn_leafh s h /\ exists ls', ls = h :: ls' /\ pgn_kids T s t ns ls') \/
  (exists m ns1 ls1 ns' ls', h = PvRef m /\ T m ns1 ls1 /\ pgn_kids T s t ns' ls' /\ ns = ns1 ++ ns' /\ ls = ls1 ++ ls').
Proof.
  intros T s h t ns ls H. inversion H; subst.
  - left. split; [assumption|]. eexists. split; [reflexivity|assumption].
  - right. do 5 eexists. split; [reflexivity|split; [eassumption|split; [eassumption|split; reflexivity]]].
Qed.

Section PgnLoop.
  Context (d f : nat) (Hrec : pgn_gapi_ok d f) (n : N) (level : nat) (mb res inv : bool) (Hlev : (S level + d <= 100)%nat).

  Lemma pgn_loop : forall rest ns_r ls_r pre s dd pages vis seen,
    pg_lookup s n = Some (PcObj (PvDict dd)) -> pg_dget dd pgk_Kids = PvArr (pre ++ rest) ->
    pgn_kids (pgn_tree d s) s rest ns_r ls_r -> NoDup ns_r -> ~ In n ns_r -> (forall m, In m ns_r -> ~ In m vis) ->
    (forall x, In x seen -> pg_lookup s x <> None) ->
    exists s' K rest' dd',
      fold_left (pgn_body f n level mb res) (seq (length pre) (length rest)) (mkPgGst s pages vis seen inv None) =
        mkPgGst s' (rev K ++ pages) (rev ns_r ++ vis) (rev K ++ seen) inv None /\
      pg_lookup s' n = Some (PcObj (PvDict dd')) /\ pg_dget dd' pgk_Kids = PvArr (pre ++ rest') /\
      pgn_kids (pgn_tree d s') s' rest' ns_r (map PvRef K) /\ NoDup K /\ (forall x, In x K -> ~ In x seen) /\
      (forall x, In x K -> pg_lookup s' x <> None) /\
      map (pg_mark s') K = pgn_leaf_marks s ls_r /\ pgn_rel (n :: ns_r) s s' /\
      (forall x, In x K -> In (PvRef x) ls_r \/ pg_lookup s x = None) /\
      (forall m, In m ns_r -> pgn_tnode s' m).
  Proof.
    induction rest as [|h tail IH]; intros ns_r ls_r pre s dd pages vis seen En Hk Hkids Hnd Hn Hvis Hseen.
    - inversion Hkids; subst. exists s, [], [], dd. cbn [length seq fold_left rev app map].
      split; [reflexivity|split; [exact En|split; [exact Hk|split; [constructor|split; [constructor|]]]]].
      split; [intros x []|split; [intros x []|split; [reflexivity|split; [apply pgn_rel_refl|split; [intros x []|intros m []]]]]].
    - cbn [length seq fold_left].
      assert (Hnth : nth_error (pg_kids_of s n) (length pre) = Some h) by (rewrite (pgn_kids_of s n dd _ En Hk); apply pgn_nth_app).
      destruct (pgn_kids_inv_cons _ _ _ _ _ _ Hkids) as [(Hh & ls0 & -> & Ht)|(m & ns1 & ls1 & ns0 & ls0 & -> & Hm & Ht & -> & ->)].
      + (* a leaf: direct or indirect *)
        assert (Hstep : exists s1 k' dd1 dk1,
                  pgn_body f n level mb res (mkPgGst s pages vis seen inv None) (length pre) =
                    mkPgGst s1 (k' :: pages) vis (k' :: seen) inv None /\
                  ~ In k' seen /\ pg_lookup s1 k' = Some (PcObj (PvDict dk1)) /\ pgx_leafy dk1 /\
                  pg_mark s1 k' = pgn_leaf_mark s h /\
                  pg_lookup s1 n = Some (PcObj (PvDict dd1)) /\ pg_dget dd1 pgk_Kids = PvArr (pre ++ PvRef k' :: tail) /\
                  pgn_rel [n] s s1 /\ (PvRef k' = h \/ pg_lookup s k' = None)).
        { destruct h as [| | |k| |dk]; try (exfalso; exact Hh).
          - destruct Hh as (dk & Ek & L). rewrite (pgn_body_leafref f n level mb res s pages vis seen inv _ k dk Hnth Ek L).
            destruct (pgn_leaf_step s pages vis seen inv n (length pre) k mb res dd pre tail dk En Hk eq_refl Ek L Hseen)
              as (s1 & k' & dd1 & dk1 & E & A1 & A2 & A3 & A4 & A5 & A6 & A7 & A8).
            exists s1, k', dd1, dk1. repeat (split; [assumption|]). destruct A8 as [->|A8]; [left; reflexivity|right; exact A8].
          - rewrite (pgn_body_direct f n level mb res s pages vis seen inv dd pre tail dk En Hk Hh).
            set (k1 := pg_next_id s).
            set (dda := pg_dset dd pgk_Kids (PvArr (pre ++ PvRef k1 :: tail))).
            set (sa := (k1, PcObj (PvDict dk)) :: s).
            set (sb := pg_supd sa n (PcObj (PvDict dda))).
            assert (Hnk1 : n <> k1) by (intros ->; unfold k1 in En; rewrite pg_next_id_fresh in En; discriminate).
            assert (Ena : pg_lookup sa n = Some (PcObj (PvDict dd))).
            { unfold sa. cbn [pg_lookup]. destruct (n =? k1) eqn:E; [apply N.eqb_eq in E; contradiction|exact En]. }
            assert (Rb : pgn_rel [n] s sb).
            { eapply pgn_rel_trans; [apply pgn_rel_cons|]. fold k1. fold sa.
              eapply pgn_rel_node_upd; [exact Ena|eexists; exact Hk|eexists; unfold dda; apply pg_dget_dset_eq|apply pgn_nsim_kids|left; reflexivity]. }
            assert (Enb : pg_lookup sb n = Some (PcObj (PvDict dda))) by (unfold sb; rewrite pg_lookup_supd, N.eqb_refl; reflexivity).
            assert (Ekb : pg_lookup sb k1 = Some (PcObj (PvDict dk))).
            { unfold sb. rewrite pg_lookup_supd. destruct (k1 =? n) eqn:E; [apply N.eqb_eq in E; congruence|]. unfold sa. cbn [pg_lookup]. rewrite N.eqb_refl. reflexivity. }
            assert (Hkb : pg_dget dda pgk_Kids = PvArr (pre ++ PvRef k1 :: tail)) by (unfold dda; apply pg_dget_dset_eq).
            assert (Hseenb : forall x, In x seen -> pg_lookup sb x <> None) by (intros x Hx; eapply pgn_rel_some; [exact Rb|apply Hseen, Hx]).
            destruct (pgn_leaf_step sb pages vis seen inv n (length pre) k1 mb res dda pre tail dk Enb Hkb eq_refl Ekb Hh Hseenb)
              as (s1 & k' & dd1 & dk1 & E & A1 & A2 & A3 & A4 & A5 & A6 & A7 & A8).
            exists s1, k', dd1, dk1. split; [exact E|split; [exact A1|split; [exact A2|split; [exact A3|split]]]].
            + rewrite A4. cbn [pgn_leaf_mark]. apply (pg_mark_obj _ _ _ Ekb).
            + split; [exact A5|split; [exact A6|split; [eapply pgn_rel_trans; eassumption|right]]].
              destruct A8 as [->|A8]; [apply pg_next_id_fresh|eapply pgn_rel_none; eassumption]. }
        destruct Hstep as (s1 & k' & dd1 & dk1 & -> & A1 & A2 & A3 & A4 & A5 & A6 & A7 & A8).
        assert (Hk1 : pg_dget dd1 pgk_Kids = PvArr ((pre ++ [PvRef k']) ++ tail)) by (rewrite <- app_assoc; exact A6).
        assert (Hkids1 : pgn_kids (pgn_tree d s1) s1 tail ns_r ls0).
        { eapply pgn_kids_rel; [exact A7|exact Ht|]. intros x Hx [<-|[]]. contradiction. }
        assert (Hseen1 : forall x, In x (k' :: seen) -> pg_lookup s1 x <> None).
        { intros x [<-|Hx]; [rewrite A2; discriminate|eapply pgn_rel_some; [exact A7|apply Hseen, Hx]]. }
        destruct (IH ns_r ls0 (pre ++ [PvRef k']) s1 dd1 (k' :: pages) vis (k' :: seen) A5 Hk1 Hkids1 Hnd Hn Hvis Hseen1)
          as (s' & K2 & rest' & dd' & E & B1 & B2 & B3 & B4 & B5 & B6 & B7 & B8 & B9 & B10).
        replace (length (pre ++ [PvRef k'])) with (S (length pre)) in E by (rewrite app_length; cbn [length]; lia).
        exists s', (k' :: K2), (PvRef k' :: rest'), dd'. rewrite E. cbn [rev map]. rewrite <- !app_assoc. cbn [app].
        split; [reflexivity|split; [exact B1|split; [rewrite <- app_assoc in B2; exact B2|]]].
        assert (Hk's' : pg_lookup s' k' <> None) by (eapply pgn_rel_some; [exact B8|rewrite A2; discriminate]).
        split; [|split; [|split; [|split; [|split; [|split; [|split; [|exact B10]]]]]]].
        * constructor; [|exact B3]. cbn [pgn_leafh]. eapply pgn_rel_leafy; eassumption.
        * constructor; [|exact B4]. intros Hin. apply (B5 k' Hin). left. reflexivity.
        * intros x [<-|Hx]; [exact A1|]. intros Hs. apply (B5 x Hx). right. exact Hs.
        * intros x [<-|Hx]; [exact Hk's'|apply B6, Hx].
        * cbn [pgn_leaf_marks map]. f_equal.
          -- rewrite <- A4. eapply pgn_rel_mark; [exact B8|rewrite A2; discriminate].
          -- rewrite B7. eapply pgn_leaf_marks_rel; [exact A7|]. eapply pgn_kids_leaves; [|exact Ht]. intros m0 ns1 ls1. apply pgn_tree_leaves.
        * eapply pgn_rel_trans; [|exact B8]. eapply pgn_rel_weaken; [|exact A7]. intros x [<-|[]]. left. reflexivity.
        * intros x [<-|Hx].
          -- destruct A8 as [A8|A8]; [left; left; symmetry; exact A8|right; exact A8].
          -- destruct (B9 x Hx) as [Hi|Hi]; [left; right; exact Hi|right; eapply pgn_rel_none; eassumption].
      + (* a sub-node *)
        destruct (pgn_nodup_app_inv _ _ Hnd) as (Hnd1 & Hnd2 & Hdisj).
        destruct (pgn_tree_node _ _ _ _ _ Hm) as (dm & lm & Em & Hkm & _).
        rewrite (pgn_body_node f n level mb res s pages vis seen inv _ m dm lm Hnth Em Hkm).
        destruct (Hrec (S level) mb res inv m ns1 ls1 s pages vis seen Hlev Hm Hnd1) as (s1 & K1 & -> & C1 & C2 & C3 & C4 & C5 & C6 & C7 & C8);
          [intros x Hx; apply Hvis, in_or_app; left; exact Hx|exact Hseen|].
        assert (En1 : pg_lookup s1 n = Some (PcObj (PvDict dd))).
        { eapply pgn_rel_node_unch; [exact C6|exact En|eexists; exact Hk|]. intros Hin. apply Hn, in_or_app. left. exact Hin. }
        assert (Hk1 : pg_dget dd pgk_Kids = PvArr ((pre ++ [PvRef m]) ++ tail)) by (rewrite <- app_assoc; exact Hk).
        assert (Hkids1 : pgn_kids (pgn_tree d s1) s1 tail ns0 ls0).
        { eapply pgn_kids_rel; [exact C6|exact Ht|]. intros x Hx Hx1. exact (Hdisj x Hx1 Hx). }
        assert (Hvis1 : forall x, In x ns0 -> ~ In x (rev ns1 ++ vis)).
        { intros x Hx Hin. apply in_app_iff in Hin. destruct Hin as [Hin|Hin].
          - apply in_rev in Hin. exact (Hdisj x Hin Hx).
          - apply (Hvis x); [apply in_or_app; right; exact Hx|exact Hin]. }
        assert (Hseen1 : forall x, In x (rev K1 ++ seen) -> pg_lookup s1 x <> None).
        { intros x Hin. apply in_app_iff in Hin. destruct Hin as [Hin|Hin]; [apply C4, in_rev, Hin|eapply pgn_rel_some; [exact C6|apply Hseen, Hin]]. }
        assert (Hn0 : ~ In n ns0) by (intros Hin; apply Hn, in_or_app; right; exact Hin).
        destruct (IH ns0 ls0 (pre ++ [PvRef m]) s1 dd (rev K1 ++ pages) (rev ns1 ++ vis) (rev K1 ++ seen) En1 Hk1 Hkids1 Hnd2 Hn0 Hvis1 Hseen1)
          as (s' & K2 & rest' & dd' & E & B1 & B2 & B3 & B4 & B5 & B6 & B7 & B8 & B9 & B10).
        replace (length (pre ++ [PvRef m])) with (S (length pre)) in E by (rewrite app_length; cbn [length]; lia).
        exists s', (K1 ++ K2), (PvRef m :: rest'), dd'. rewrite E. rewrite !rev_app_distr, <- !app_assoc.
        split; [reflexivity|split; [exact B1|split; [rewrite <- app_assoc in B2; exact B2|]]].
        split; [|split; [|split; [|split; [|split; [|split; [|split]]]]]].
        * rewrite map_app. constructor; [|exact B3]. eapply pgn_tree_rel; [exact B8|exact C1|].
          intros x Hx [<-|Hin]; [apply Hn, in_or_app; left; exact Hx|exact (Hdisj x Hx Hin)].
        * apply pgn_nodup_app; [exact C2|exact B4|]. intros x Hx Hx1. apply (B5 x Hx), in_or_app. left. apply -> in_rev. exact Hx1.
        * intros x Hx Hs. apply in_app_iff in Hx. destruct Hx as [Hx|Hx]; [exact (C3 x Hx Hs)|].
          apply (B5 x Hx), in_or_app. right. exact Hs.
        * intros x Hx. apply in_app_iff in Hx. destruct Hx as [Hx|Hx]; [|apply B6, Hx].
          eapply pgn_rel_some; [exact B8|apply C4, Hx].
        * unfold pgn_leaf_marks. rewrite !map_app. f_equal.
          -- rewrite (pgn_marks_rel _ _ _ K1 B8 C4). exact C5.
          -- rewrite B7. eapply pgn_leaf_marks_rel; [exact C6|]. eapply pgn_kids_leaves; [|exact Ht]. intros m0 ns2 ls2. apply pgn_tree_leaves.
        * eapply pgn_rel_trans; [eapply pgn_rel_weaken; [|exact C6]|eapply pgn_rel_weaken; [|exact B8]].
          -- intros x Hx. right. apply in_or_app. left. exact Hx.
          -- intros x [<-|Hx]; [left; reflexivity|right; apply in_or_app; right; exact Hx].
        * intros x Hx. apply in_app_iff in Hx. destruct Hx as [Hx|Hx].
          -- destruct (C7 x Hx) as [Hi|Hi]; [left; apply in_or_app; left; exact Hi|right; exact Hi].
          -- destruct (B9 x Hx) as [Hi|Hi]; [left; apply in_or_app; right; exact Hi|right; eapply pgn_rel_none; eassumption].
        * intros x Hx. apply in_app_iff in Hx. destruct Hx as [Hx|Hx]; [eapply pgn_tnode_rel; [exact B8|apply C8, Hx]|apply B10, Hx].
  Qed.
End PgnLoop.

Lemma pgn_type_not_soft_kids : pgk_Kids <> pgk_Type.
Proof. discriminate. Qed.

Lemma pgn_gapi_all : forall d f, (d <= f)%nat -> pgn_gapi_ok d f.
Proof.
  induction d as [|d IH]; intros f Hf level mb res inv n ns ls s pages vis seen Hlev Ht Hnd Hvis Hseen; [destruct Ht|].
  destruct f as [|f]; [lia|]. specialize (IH f ltac:(lia)).
  destruct Ht as (dd & kids & ns' & En & Hk & -> & Hkids).
  inversion Hnd as [|? ? Hn' Hnd']; subst.
  rewrite pgn_gapi_unfold. cbn [pgg_vis pgg_s pgg_pages pgg_seen pgg_inv pgg_err].
  assert (Nat.ltb 100 (S level) = false) as -> by (apply Nat.ltb_ge; lia).
  rewrite (pgx_memN_false n vis) by (apply Hvis; left; reflexivity).
  set (s1 := if pg_is_dict_of_type s (PvRef n) pgk_Pages then s else pg_obj_set_key s n pgk_Type (PvName pgk_Pages)).
  assert (H1 : exists dd1, pg_lookup s1 n = Some (PcObj (PvDict dd1)) /\ pg_dget dd1 pgk_Kids = PvArr kids /\ pgn_rel [n] s s1 /\
                           pg_is_dict_of_type s1 (PvRef n) pgk_Pages = true).
  { unfold s1. destruct (pg_is_dict_of_type s (PvRef n) pgk_Pages) eqn:Ety.
    - exists dd. split; [exact En|split; [exact Hk|split; [apply pgn_rel_refl|exact Ety]]].
    - unfold pg_obj_set_key. rewrite En. exists (pg_dset dd pgk_Type (PvName pgk_Pages)).
      assert (Hk' : pg_dget (pg_dset dd pgk_Type (PvName pgk_Pages)) pgk_Kids = PvArr kids) by (rewrite pg_dget_dset_neq by discriminate; exact Hk).
      assert (En' : pg_lookup (pg_supd s n (PcObj (PvDict (pg_dset dd pgk_Type (PvName pgk_Pages))))) n =
                    Some (PcObj (PvDict (pg_dset dd pgk_Type (PvName pgk_Pages))))) by (rewrite pg_lookup_supd, N.eqb_refl; reflexivity).
      split; [exact En'|split; [exact Hk'|split]];
        [|rewrite (pgn_typed_dict _ n _ _ En'), pg_dget_dset_eq; unfold pg_name_is; cbn [pg_rv]; apply pg_key_eqb_refl].
      eapply pgn_rel_node_upd; [exact En|eexists; exact Hk|eexists; exact Hk'| |left; reflexivity].
      split; [intros k _ Hkt; apply pg_dget_dset_neq; exact Hkt|right; apply pg_dget_dset_eq]. }
  destruct H1 as (dd1 & En1 & Hk1 & R1 & Ty1). cbv zeta.
  rewrite (pgx_hget_ref s1 n dd1 pgk_Kids En1), Hk1.
  assert (Hkids1 : pgn_kids (pgn_tree d s1) s1 kids ns' ls).
  { eapply pgn_kids_rel; [exact R1|exact Hkids|]. intros x Hx [<-|[]]. contradiction. }
  assert (Hvis1 : forall m, In m ns' -> ~ In m (n :: vis)).
  { intros m Hm [<-|Hin]; [contradiction|]. apply (Hvis m); [right; exact Hm|exact Hin]. }
  assert (Hseen1 : forall x, In x seen -> pg_lookup s1 x <> None) by (intros x Hx; eapply pgn_rel_some; [exact R1|apply Hseen, Hx]).
  destruct (pgn_loop d f IH n level (mb || pg_is_rect s1 (pg_hget s1 (PvRef n) pgk_MediaBox)) (res || pg_is_dict s1 (pg_hget s1 (PvRef n) pgk_Resources)) inv ltac:(lia) kids ns' ls [] s1 dd1 pages (n :: vis) seen En1 Hk1 Hkids1 Hnd' Hn' Hvis1 Hseen1)
    as (s' & K & rest' & dd' & E & B1 & B2 & B3 & B4 & B5 & B6 & B7 & B8 & B9 & B10).
  cbn [length app] in E, B2. exists s', K. rewrite E. cbn [rev]. rewrite <- app_assoc. cbn [app].
  split; [reflexivity|]. split; [|split; [exact B4|split; [exact B5|split; [exact B6|split; [|split; [|split]]]]]].
  - exists dd', rest', ns'. split; [exact B1|split; [exact B2|split; [reflexivity|exact B3]]].
  - rewrite B7. eapply pgn_leaf_marks_rel; [exact R1|]. eapply pgn_kids_leaves; [|exact Hkids]. intros m0 ns2 ls2. apply pgn_tree_leaves.
  - eapply pgn_rel_trans; [|exact B8]. eapply pgn_rel_weaken; [|exact R1]. intros x [<-|[]]. left. reflexivity.
  - intros x Hx. destruct (B9 x Hx) as [Hi|Hi]; [left; exact Hi|right; eapply pgn_rel_none; eassumption].
  - intros m [<-|Hm]; [|apply B10, Hm]. eapply pgn_tnode_rel; [exact B8|]. exists dd1. split; [exact En1|split; [eexists; exact Hk1|exact Ty1]].
Qed.

(* ------------------------------------------------------------------ (N1) Pages::cache on a well-formed nested tree *)
Definition pgn_wf (p : pg_doc) (depth : nat) (nodes : list N) (leaves : list pg_val) : Prop :=
  exists pn d,
    pg_root_pages p = PvRef pn /\
    pgn_tree depth (pd_store p) pn nodes leaves /\ (depth <= 50)%nat /\ NoDup nodes /\
    ~ In (pd_root p) nodes /\ ~ In (PvRef (pd_root p)) leaves /\
    pg_lookup (pd_store p) pn = Some (PcObj (PvDict d)) /\
    pg_dget d pgk_Parent = PvNull /\ pg_dget d pgk_Count = PvInt (pg_len leaves) /\
    pd_all p = [] /\ pd_pos p = [] /\ pd_invalid p = false.

Lemma pgn_cache_nested : forall p depth nodes leaves, pgn_wf p depth nodes leaves ->
  exists s' K pn, pg_cache p = (pd_with_all (pd_with_store p s') K, None) /\
    pg_root_pages p = PvRef pn /\
    NoDup K /\ length K = length leaves /\
    map (pg_mark s') K = pgn_leaf_marks (pd_store p) leaves /\
    pgn_tree depth s' pn nodes (map PvRef K) /\
    pgn_rel nodes (pd_store p) s' /\
    (forall x, In x K -> In (PvRef x) leaves \/ pg_lookup (pd_store p) x = None) /\
    (forall m, In m nodes -> pgn_tnode s' m).
Proof.
  intros p depth nodes leaves (pn & d & Hroot & Ht & Hdep & Hnd & Hrn & Hrl & Hpn & Hpar & Hcount & Hall & Hpos & Hinv).
  unfold pg_cache, pg_cache_core. rewrite Hall, Hinv. cbn [negb andb].
  rewrite Hroot. rewrite (pgx_climb_root _ _ pn d Hpn Hpar).
  destruct (pgn_tree_node _ _ _ _ _ Ht) as (d0 & l0 & Hpn0 & Hk0 & _). rewrite Hpn in Hpn0. inversion Hpn0; subst d0.
  unfold pg_has_key. rewrite (pgx_hget_ref _ pn d pgk_Kids Hpn), Hk0. cbn [pg_is_null negb].
  cbn [pd_store pd_with_store pd_invalid]. rewrite Hinv.
  destruct (pgn_gapi_all depth 102 ltac:(lia) O false false false pn nodes leaves (pd_store p) [] [] [] ltac:(lia) Ht Hnd)
    as (s' & K & E & C1 & C2 & C3 & C4 & C5 & C6 & C7 & C8); [intros m _ []|intros x []|].
  rewrite E. cbn [pgg_err pgg_s pgg_pages pgg_inv]. rewrite !app_nil_r, rev'_rev, rev_involutive.
  exists s', K, pn. split; [|split; [reflexivity|split; [exact C2|split; [|split; [exact C5|split; [exact C1|split; [exact C6|split; [exact C7|exact C8]]]]]]]].
  - f_equal. destruct p; cbn in *. subst. reflexivity.
  - rewrite <- (map_length (pg_mark s') K), C5. unfold pgn_leaf_marks. apply map_length.
Qed.

(* ------------------------------------------------------------------ (N2) pushInheritedAttributesToPage on the normalised tree *)
(* only inheritable keys of dictionaries change (and new objects appear) *)
Definition pgn_psim (s s' : pg_store) : Prop :=
  forall j, match pg_lookup s j with
            | Some (PcObj (PvDict d)) =>
                exists d', pg_lookup s' j = Some (PcObj (PvDict d')) /\ (forall k, pg_is_inh k = false -> pg_dget d' k = pg_dget d k)
            | Some c => pg_lookup s' j = Some c
            | None => True
            end.

Lemma pgn_psim_refl : forall s, pgn_psim s s.
Proof. intros s j. destruct (pg_lookup s j) as [[v|]|]; auto. destruct v; auto. eexists; split; [reflexivity|reflexivity]. Qed.

Lemma pgn_psim_trans : forall s1 s2 s3, pgn_psim s1 s2 -> pgn_psim s2 s3 -> pgn_psim s1 s3.
Proof.
  intros s1 s2 s3 H1 H2 j. specialize (H1 j). destruct (pg_lookup s1 j) as [[v|dd x k]|] eqn:E1; [| |exact I].
  - destruct v; try (specialize (H2 j); rewrite H1 in H2; exact H2).
    destruct H1 as (d2 & L2 & S2). specialize (H2 j). rewrite L2 in H2. destruct H2 as (d3 & L3 & S3).
    exists d3. split; [exact L3|]. intros k Hk. rewrite S3, S2 by exact Hk. reflexivity.
  - specialize (H2 j). rewrite H1 in H2. exact H2.
Qed.

Lemma pgn_psim_dict : forall s s' j d, pgn_psim s s' -> pg_lookup s j = Some (PcObj (PvDict d)) ->
  exists d', pg_lookup s' j = Some (PcObj (PvDict d')) /\ (forall k, pg_is_inh k = false -> pg_dget d' k = pg_dget d k).
Proof. intros s s' j d H E. specialize (H j). rewrite E in H. exact H. Qed.

Lemma pgn_hard_not_inh : forall k, pg_is_inh k = true -> pgx_hard k -> False.
Proof. intros k Hi [Hs _]. apply Hs. apply pgy_inh_soft, Hi. Qed.

Lemma pgn_psim_sim : forall s s', pgn_psim s s' -> pgx_sim s s'.
Proof.
  intros s s' H j. specialize (H j). destruct (pg_lookup s j) as [[v|]|]; auto. destruct v; auto.
  destruct H as (d' & E & S). exists d'. split; [exact E|]. split; [|split].
  - intros k Hk. apply S. destruct (pg_is_inh k) eqn:Ei; [exfalso; eapply pgn_hard_not_inh; eassumption|reflexivity].
  - left. apply S. reflexivity.
  - left. apply S. reflexivity.
Qed.

Lemma pgn_psim_upd : forall s i d d', pg_lookup s i = Some (PcObj (PvDict d)) ->
  (forall k, pg_is_inh k = false -> pg_dget d' k = pg_dget d k) -> pgn_psim s (pg_supd s i (PcObj (PvDict d'))).
Proof.
  intros s i d d' Hl Hs j. rewrite pg_lookup_supd. destruct (j =? i) eqn:E.
  - apply N.eqb_eq in E. subst j. rewrite Hl. exists d'. split; [reflexivity|exact Hs].
  - destruct (pg_lookup s j) as [[v|]|]; auto. destruct v; auto. eexists; split; [reflexivity|reflexivity].
Qed.

Lemma pgn_psim_set_key : forall s i k v, pg_is_inh k = true -> pgn_psim s (pg_obj_set_key s i k v).
Proof.
  intros s i k v Hk. unfold pg_obj_set_key. destruct (pg_lookup s i) as [[w|]|] eqn:E; try apply pgn_psim_refl.
  destruct w; try apply pgn_psim_refl. eapply pgn_psim_upd; [exact E|]. intros k2 Hk2. apply pg_dget_dset_neq. congruence.
Qed.
Lemma pgn_psim_del_key : forall s i k, pg_is_inh k = true -> pgn_psim s (pg_obj_del_key s i k).
Proof.
  intros s i k Hk. unfold pg_obj_del_key. destruct (pg_lookup s i) as [[w|]|] eqn:E; try apply pgn_psim_refl.
  destruct w; try apply pgn_psim_refl. eapply pgn_psim_upd; [exact E|]. intros k2 Hk2. apply pg_dget_ddel_neq. congruence.
Qed.
Lemma pgn_psim_alloc : forall s c, pgn_psim s (fst (pg_alloc s c)).
Proof.
  intros s c j. rewrite pg_lookup_alloc. destruct (j =? pg_next_id s) eqn:E.
  - apply N.eqb_eq in E. subst j. rewrite pg_next_id_fresh. exact I.
  - destruct (pg_lookup s j) as [[v|]|]; auto. destruct v; auto. eexists; split; [reflexivity|reflexivity].
Qed.

Lemma pgn_inh_fold_p : forall cur keys s ka,
  (forall kv, In kv ka -> pg_is_inh (fst kv) = true) ->
  exists s' ka', fold_left (pgy_F1 cur) keys (s, ka) = (s', ka') /\ pgn_psim s s' /\
                 (forall kv, In kv ka' -> pg_is_inh (fst kv) = true).
Proof.
  intros cur keys. induction keys as [|key t IH]; intros s ka Hka.
  - exists s, ka. split; [reflexivity|split; [apply pgn_psim_refl|exact Hka]].
  - cbn [fold_left]. unfold pgy_F1 at 2.
    destruct (pg_is_inh key) eqn:Ei.
    + set (oh := pg_hget s (PvRef cur) key).
      assert (Hstep : exists s1 oh1,
                (if pg_is_ref oh then (s, oh) else if pg_is_scalar oh then (s, oh)
                 else let '(s', k) := pg_alloc s (PcObj oh) in (pg_obj_set_key s' cur key (PvRef k), PvRef k)) = (s1, oh1) /\
                pgn_psim s s1).
      { destruct (pg_is_ref oh); [exists s, oh; split; [reflexivity|apply pgn_psim_refl]|].
        destruct (pg_is_scalar oh); [exists s, oh; split; [reflexivity|apply pgn_psim_refl]|].
        pose proof (pgn_psim_alloc s (PcObj oh)) as Ha.
        destruct (pg_alloc s (PcObj oh)) as [s' k]. cbn [fst] in Ha.
        eexists _, _. split; [reflexivity|]. eapply pgn_psim_trans; [exact Ha|]. apply pgn_psim_set_key; assumption. }
      destruct Hstep as (s1 & oh1 & -> & H1).
      destruct (IH (pg_obj_del_key s1 cur key) (pg_ka_push ka key oh1)) as (s' & ka' & E & H2 & H3).
      { intros kv Hin. unfold pg_ka_push in Hin. apply pgy_dins_in in Hin. destruct Hin as [->|Hin]; [exact Ei|apply Hka, Hin]. }
      exists s', ka'. split; [exact E|split; [|exact H3]].
      eapply pgn_psim_trans; [exact H1|]. eapply pgn_psim_trans; [|exact H2]. apply pgn_psim_del_key; assumption.
    + apply IH. exact Hka.
Qed.

Lemma pgn_ka_fold_p : forall (ka : pg_ka) s k,
  (forall kv, In kv ka -> pg_is_inh (fst kv) = true) ->
  pgn_psim s (fold_left (fun s (kv : pg_key * pg_val) =>
                           if pg_has_key s (PvRef k) (fst kv) then s else pg_obj_set_key s k (fst kv) (snd kv)) ka s).
Proof.
  induction ka as [|kv t IH]; intros s k Hka; [apply pgn_psim_refl|]. cbn [fold_left].
  eapply pgn_psim_trans; [|apply IH; intros x Hx; apply Hka; right; exact Hx].
  destruct (pg_has_key s (PvRef k) (fst kv)); [apply pgn_psim_refl|].
  apply pgn_psim_set_key. apply Hka. left. reflexivity.
Qed.

Lemma pgn_leafh_psim : forall s s' h, pgn_psim s s' -> pgn_leafh s h -> pgn_leafh s' h.
Proof.
  intros s s' h H Hh. destruct h; try exact Hh. destruct Hh as (dk & E & [Lk Lt]).
  destruct (pgn_psim_dict _ _ _ _ H E) as (dk' & E' & S). exists dk'. split; [exact E'|]. split.
  - rewrite (S pgk_Kids eq_refl). exact Lk.
  - rewrite (S pgk_Type eq_refl). exact Lt.
Qed.

Lemma pgn_tree_psim : forall s s', pgn_psim s s' -> forall d n ns ls, pgn_tree d s n ns ls -> pgn_tree d s' n ns ls.
Proof.
  intros s s' H. induction d as [|d IH]; intros n ns ls Ht; [destruct Ht|].
  destruct Ht as (dd & kids & ns' & E & Hk & -> & Hkids).
  destruct (pgn_psim_dict _ _ _ _ H E) as (dd' & E' & S). exists dd', kids, ns'.
  split; [exact E'|split; [rewrite (S pgk_Kids eq_refl); exact Hk|split; [reflexivity|]]].
  eapply (pgn_kids_map _ _ s s' ns'); [exact Hkids|intros h; apply pgn_leafh_psim; exact H| |intros x Hx; exact Hx].
  intros m ns1 ls1 Hm _. apply IH, Hm.
Qed.

Lemma pgn_kids_psim : forall s s' d kids ns ls, pgn_psim s s' -> pgn_kids (pgn_tree d s) s kids ns ls ->
  pgn_kids (pgn_tree d s') s' kids ns ls.
Proof.
  intros s s' d kids ns ls H Hk.
  eapply (pgn_kids_map _ _ s s' ns); [exact Hk|intros h; apply pgn_leafh_psim; exact H| |intros x Hx; exact Hx].
  intros m ns1 ls1 Hm _. eapply pgn_tree_psim; eassumption.
Qed.

Lemma pgn_tnode_psim : forall s s' m, pgn_psim s s' -> pgn_tnode s m -> pgn_tnode s' m.
Proof.
  intros s s' m H (dm & E & [l Nd] & Ty). rewrite (pgn_typed_dict s m dm _ E) in Ty.
  destruct (pgn_psim_dict _ _ _ _ H E) as (dm' & E' & S). exists dm'.
  split; [exact E'|split; [exists l; rewrite (S pgk_Kids eq_refl); exact Nd|]].
  rewrite (pgn_typed_dict s' m dm' _ E'), (S pgk_Type eq_refl).
  unfold pg_name_is in *. destruct (pg_dget dm pgk_Type); try exact Ty. cbn [pg_rv] in *.
  specialize (H i). destruct (pg_lookup s i) as [[w|]|]; try discriminate. destruct w; try discriminate. rewrite H. exact Ty.
Qed.

Definition pgn_allref (ls : list pg_val) : Prop := forall h, In h ls -> exists k, h = PvRef k.

Definition pgn_pia_ok (d f : nat) : Prop :=
  forall n ns ls s ka, pgn_tree d s n ns ls -> pgn_allref ls -> (forall m, In m ns -> pgn_tnode s m) ->
    (forall kv, In kv ka -> pg_is_inh (fst kv) = true) ->
    exists s', pg_pia f n ka s = (s', None) /\ pgn_psim s s'.

Section PgnPiaLoop.
  Context (d f : nat) (Hrec : pgn_pia_ok d f) (n : N) (ka : pg_ka) (Hka : forall kv, In kv ka -> pg_is_inh (fst kv) = true).

  Lemma pgn_pia_loop : forall rest ns_r ls_r pre s dd,
    pg_lookup s n = Some (PcObj (PvDict dd)) -> pg_dget dd pgk_Kids = PvArr (pre ++ rest) ->
    pgn_kids (pgn_tree d s) s rest ns_r ls_r -> pgn_allref ls_r -> (forall m, In m ns_r -> pgn_tnode s m) ->
    exists s', fold_left (pgy_F2 f n ka) (seq (length pre) (length rest)) (s, None) = (s', None) /\ pgn_psim s s'.
  Proof.
    induction rest as [|h tail IH]; intros ns_r ls_r pre s dd En Hk Hkids Href Htn.
    - exists s. split; [reflexivity|apply pgn_psim_refl].
    - cbn [length seq fold_left].
      assert (Hstep : exists s1 ns0 ls0, pgy_F2 f n ka (s, None) (length pre) = (s1, None) /\ pgn_psim s s1 /\
                 pgn_kids (pgn_tree d s) s tail ns0 ls0 /\ pgn_allref ls0 /\ (forall m, In m ns0 -> pgn_tnode s m)).
      { unfold pgy_F2. rewrite (pgx_hget_ref s n dd pgk_Kids En), Hk. cbn [pg_rv]. rewrite pgn_nth_app.
        destruct (pgn_kids_inv_cons _ _ _ _ _ _ Hkids) as [(Hh & ls0 & -> & Ht)|(m & ns1 & ls1 & ns0 & ls0 & -> & Hm & Ht & -> & ->)].
        - destruct (Href h (or_introl eq_refl)) as (k & ->). destruct Hh as (dk & Ek & L).
          destruct (pgx_leafy_not_pages _ _ _ Ek L) as (Hnp & _ & _). rewrite Hnp.
          eexists _, ns_r, ls0. split; [reflexivity|split; [apply pgn_ka_fold_p, Hka|split; [exact Ht|split; [|exact Htn]]]].
          intros x Hx. apply Href. right. exact Hx.
        - destruct (Htn m) as (dm & Em & Nm & Tm).
          { apply in_or_app. left. destruct (pgn_tree_node _ _ _ _ _ Hm) as (_ & _ & _ & _ & Hin). exact Hin. }
          rewrite Tm.
          destruct (Hrec m ns1 ls1 s ka Hm) as (s1 & E1 & P1);
            [intros x Hx; apply Href, in_or_app; left; exact Hx|intros x Hx; apply Htn, in_or_app; left; exact Hx|exact Hka|].
          rewrite E1. exists s1, ns0, ls0. split; [reflexivity|split; [exact P1|split; [exact Ht|split]]].
          + intros x Hx. apply Href, in_or_app. right. exact Hx.
          + intros x Hx. apply Htn, in_or_app. right. exact Hx. }
      destruct Hstep as (s1 & ns0 & ls0 & -> & P1 & Ht & Href0 & Htn0).
      destruct (pgn_psim_dict _ _ _ _ P1 En) as (dd1 & En1 & S1).
      assert (Hk1 : pg_dget dd1 pgk_Kids = PvArr ((pre ++ [h]) ++ tail)) by (rewrite (S1 pgk_Kids eq_refl), <- app_assoc; exact Hk).
      destruct (IH ns0 ls0 (pre ++ [h]) s1 dd1 En1 Hk1 (pgn_kids_psim _ _ _ _ _ _ P1 Ht) Href0) as (s' & E & P2);
        [intros x Hx; eapply pgn_tnode_psim; [exact P1|apply Htn0, Hx]|].
      replace (length (pre ++ [h])) with (S (length pre)) in E by (rewrite app_length; cbn [length]; lia).
      exists s'. split; [exact E|eapply pgn_psim_trans; eassumption].
  Qed.
End PgnPiaLoop.

Lemma pgn_pia_all : forall d f, (d <= f)%nat -> pgn_pia_ok d f.
Proof.
  induction d as [|d IH]; intros f Hf n ns ls s ka Ht Href Htn Hka; [destruct Ht|].
  destruct f as [|f]; [lia|]. specialize (IH f ltac:(lia)).
  destruct Ht as (dd & kids & ns' & En & Hk & -> & Hkids).
  rewrite pgy_pia_unfold. cbv zeta.
  match goal with |- context [fold_left (pgy_F1 n) ?ks ?init] => set (X := fold_left (pgy_F1 n) ks init) end.
  destruct (pgn_inh_fold_p n (match pg_rv s (PvRef n) with PvDict d0 => pg_nonnull_keys s d0 | _ => [] end) s ka Hka)
    as (s1 & ka1 & E1 & P1 & Hka1).
  assert (EX : X = (s1, ka1)) by exact E1. rewrite EX. clear X E1 EX.
  destruct (pgn_psim_dict _ _ _ _ P1 En) as (dd1 & En1 & S1).
  assert (Hk1 : pg_dget dd1 pgk_Kids = PvArr ([] ++ kids)) by (rewrite (S1 pgk_Kids eq_refl); exact Hk).
  rewrite (pgx_hget_ref s1 n dd1 pgk_Kids En1), Hk1. cbn [pg_rv app].
  destruct (pgn_pia_loop d f IH n ka1 Hka1 kids ns' ls [] s1 dd1 En1 Hk1 (pgn_kids_psim _ _ _ _ _ _ P1 Hkids) Href) as (s' & E & P2);
    [intros m Hm; eapply pgn_tnode_psim; [exact P1|apply Htn; right; exact Hm]|].
  exists s'. split; [exact E|eapply pgn_psim_trans; eassumption].
Qed.

(* ------------------------------------------------------------------ (N3) the rest of flattenPagesTree: /Kids of the root is rewritten *)
Lemma pgn_sim_mark : forall s s' j, pgx_sim s s' -> pg_lookup s j <> None -> pg_mark s' j = pg_mark s j.
Proof. intros s s' j H Hj. unfold pg_mark. rewrite (pgx_sim_mark s s' j H Hj). reflexivity. Qed.

Lemma pgn_flatten_tail_nested : forall p K pn d,
  pg_root_pages p = PvRef pn -> pg_lookup (pd_store p) pn = Some (PcObj (PvDict d)) -> pgn_isnode d ->
  pg_dget d pgk_Count = PvInt (pg_len K) -> pg_dget d pgk_Parent = PvNull ->
  pd_all p = K -> pd_pos p = [] -> NoDup K ->
  (forall k, In k K -> exists dk, pg_lookup (pd_store p) k = Some (PcObj (PvDict dk)) /\ pgx_leafy dk) ->
  pn <> pd_root p -> ~ In (pd_root p) K -> pd_invalid p = false ->
  exists s' m, pg_flatten_tail p = (pd_with_store (pd_with_pos p m) s', None) /\
    pgx_flat (pd_with_store (pd_with_pos p m) s') K /\
    (forall i, pg_pos_find m i = option_map Z.of_nat (pg_index K i)) /\ NoDup (map fst m) /\
    (forall j, pg_lookup (pd_store p) j <> None -> pg_lookup s' j <> None) /\
    (forall j, pg_lookup (pd_store p) j <> None -> pg_mark s' j = pg_mark (pd_store p) j).
Proof.
  intros p K pn d Hroot Hpn Nd Hcount Hpar Hall Hpos Hnd Hleaf Hpnroot Hrootk Hinv.
  assert (Hpnk : ~ In pn K).
  { intros Hin. destruct (Hleaf pn Hin) as (dk & Ek & L). rewrite Hpn in Ek. inversion Ek; subst dk. eapply pgn_leafy_not_node; eassumption. }
  unfold pg_flatten_tail. rewrite Hroot, Hall, Hpos.
  destruct (pgy_tail_loop pn (pd_store p) K [] (pd_store p) [] Hnd Hleaf (pgx_sim_refl _) (fun i => eq_refl) eq_refl)
    as (s1 & m & z & E & H1 & Hm & Hkeys).
  cbn [app length] in E, Hm, Hkeys.
  match goal with |- context [fold_left ?F K ?init] => set (X := fold_left F K init) end.
  assert (EX : X = (s1, m, None, z)) by exact E. rewrite EX. clear X EX E.
  cbn [pd_all pd_with_pos pd_with_store pd_store pd_invalid]. rewrite Hall.
  destruct (pgx_sim_dict _ _ _ _ H1 Hpn) as (d1 & Hpn1 & (Hh1 & _ & Hp1)).
  destruct Nd as [l0 Hk0].
  assert (Hpar1 : pg_dget d1 pgk_Parent = PvNull).
  { destruct Hp1 as [Ep|Ep]; [rewrite Ep; exact Hpar|rewrite Hk0 in Ep; discriminate]. }
  set (d2 := pg_dset d1 pgk_Kids (PvArr (map PvRef K))).
  assert (Es2 : pg_obj_set_key s1 pn pgk_Kids (PvArr (map PvRef K)) = pg_supd s1 pn (PcObj (PvDict d2))) by (unfold pg_obj_set_key; rewrite Hpn1; reflexivity).
  rewrite Es2. set (s2 := pg_supd s1 pn (PcObj (PvDict d2))).
  assert (Hpn2 : pg_lookup s2 pn = Some (PcObj (PvDict d2))) by (unfold s2; rewrite pg_lookup_supd, N.eqb_refl; reflexivity).
  assert (Hoth : forall j, j <> pn -> pg_lookup s2 j = pg_lookup s1 j).
  { intros j Hj. unfold s2. rewrite pg_lookup_supd. destruct (j =? pn) eqn:Ej; [apply N.eqb_eq in Ej; contradiction|reflexivity]. }
  assert (Hc2 : pg_dget d2 pgk_Count = PvInt (pg_len K)).
  { unfold d2. rewrite pg_dget_dset_neq by discriminate. rewrite (Hh1 pgk_Count pgx_count_hard). exact Hcount. }
  rewrite (pgx_hget_ref s2 pn d2 pgk_Count Hpn2), Hc2. unfold pg_uint. cbn [pg_rv].
  assert ((pg_len K <? 0)%Z = false) as -> by (apply Z.ltb_ge; unfold pg_len; lia).
  rewrite Z.eqb_refl.
  exists s2, m. split; [reflexivity|]. split; [|split; [exact Hm|split; [rewrite Hkeys; apply NoDup_rev, Hnd|split]]].
  - exists pn, d2. cbn [pd_store pd_root pd_invalid pd_with_store pd_with_pos].
    split; [|split; [exact Hpn2|split; [unfold d2; apply pg_dget_dset_eq|split; [exact Hc2|split]]]].
    + rewrite <- (pgx_root_pages_sim p s1 H1 pn Hroot). apply pg_root_pages_ext; [reflexivity|].
      cbn [pd_store pd_with_store pd_with_pos pd_root]. apply Hoth. congruence.
    + unfold d2. rewrite pg_dget_dset_neq by discriminate. exact Hpar1.
    + repeat (split; [assumption|]). split; [|exact Hinv].
      intros k Hk. destruct (pgy_leaf_sim _ _ _ Hleaf H1 k Hk) as (dk & Ek & L). exists dk. split; [|exact L].
      rewrite Hoth by (intros ->; contradiction). exact Ek.
  - intros j Hj. apply (pgx_sim_some _ _ _ H1) in Hj. destruct (N.eq_dec j pn) as [->|Hne]; [rewrite Hpn2; discriminate|rewrite Hoth by exact Hne; exact Hj].
  - intros j Hj. rewrite <- (pgn_sim_mark _ _ _ H1 Hj). destruct (N.eq_dec j pn) as [->|Hne].
    + rewrite (pg_mark_obj _ _ _ Hpn2), (pg_mark_obj _ _ _ Hpn1). unfold pg_val_mark, d2. rewrite pg_dget_dset_neq by discriminate. reflexivity.
    + apply pg_mark_ext, Hoth, Hne.
Qed.

(* ------------------------------------------------------------------ (N4) the first flattening of a nested tree *)
Lemma pgn_rel_node_keys : forall T s s' m d, pgn_rel T s s' -> pg_lookup s m = Some (PcObj (PvDict d)) -> pgn_isnode d ->
  exists d', pg_lookup s' m = Some (PcObj (PvDict d')) /\ pgn_isnode d' /\
             (forall k, k <> pgk_Kids -> k <> pgk_Type -> pg_dget d' k = pg_dget d k).
Proof.
  intros T s s' m d H E Nd. destruct (H m _ E) as [A|[(dk & dk' & Ec & L & _)|(_ & d0 & d' & Ec & _ & A & Nd' & [Sa _])]].
  - exists d. split; [exact A|split; [exact Nd|reflexivity]].
  - inversion Ec; subst dk. exfalso. eapply pgn_leafy_not_node; eassumption.
  - inversion Ec; subst d0. exists d'. split; [exact A|split; [exact Nd'|exact Sa]].
Qed.

Lemma pgn_root_pages_rel : forall T p s' pn, pgn_rel T (pd_store p) s' -> ~ In (pd_root p) T ->
  pg_root_pages p = PvRef pn -> pg_root_pages (pd_with_store p s') = PvRef pn.
Proof.
  intros T p s' pn H Hr E. unfold pg_root_pages, pg_hget in *. cbn [pd_store pd_root pd_with_store]. cbn [pg_rv] in *.
  destruct (pg_lookup (pd_store p) (pd_root p)) as [[v|]|] eqn:Er; try discriminate. destruct v; try discriminate.
  destruct (H _ _ Er) as [A|[(dk & dk' & Ec & _ & A & (Hh & _))|(Hin & _)]]; [rewrite A; exact E| |contradiction].
  inversion Ec; subst dk. rewrite A, (Hh pgk_Pages pgx_pages_hard). exact E.
Qed.

Lemma first_flatten_nested_lemma : forall p depth nodes leaves, pgn_wf p depth nodes leaves ->
  exists p1 K, pg_flatten p = (p1, None) /\ pgx_flat p1 K /\ pd_all p1 = K /\
    (forall i, pg_pos_find (pd_pos p1) i = option_map Z.of_nat (pg_index K i)) /\ NoDup (map fst (pd_pos p1)) /\
    map (pg_mark (pd_store p1)) K = pgn_leaf_marks (pd_store p) leaves /\
    (forall j, pg_lookup (pd_store p) j <> None -> pg_lookup (pd_store p1) j <> None) /\
    (forall j, pg_lookup (pd_store p) j <> None -> pg_mark (pd_store p1) j = pg_mark (pd_store p) j) /\
    pd_root p1 = pd_root p /\ pd_omap p1 = pd_omap p /\ pd_reg p1 = pd_reg p /\ pg_inv p1.
Proof.
  intros p depth nodes leaves Hwf.
  destruct (pgn_cache_nested p depth nodes leaves Hwf) as (s1 & K & pn & Ecache & Hroot & HndK & Hlen & Hmarks & Htree1 & R1 & Horig & Htn1).
  destruct Hwf as (pn0 & d & Hroot0 & Ht & Hdep & Hnd & Hrn & Hrl & Hpn & Hpar & Hcount & Hall & Hpos & Hinv).
  rewrite Hroot in Hroot0. inversion Hroot0; subst pn0. clear Hroot0.
  destruct (pgn_tree_node _ _ _ _ _ Ht) as (d0 & l0 & Hpn0 & Hk0 & Hpnin). rewrite Hpn in Hpn0. inversion Hpn0; subst d0. clear Hpn0.
  assert (Hrootex : pg_lookup (pd_store p) (pd_root p) <> None).
  { unfold pg_root_pages, pg_hget in Hroot. cbn [pg_rv] in Hroot. destruct (pg_lookup (pd_store p) (pd_root p)); [discriminate|discriminate]. }
  unfold pg_flatten, pg_flatten_gen. rewrite Hpos. unfold pg_push_gen. rewrite andb_false_r, Ecache.
  set (p1 := pd_with_all (pd_with_store p s1) K).
  assert (Hroot1 : pg_root_pages p1 = PvRef pn) by (exact (pgn_root_pages_rel nodes p s1 pn R1 Hrn Hroot)).
  (* pushInheritedAttributesToPage *)
  unfold pg_push_after_cache. rewrite Hroot1.
  assert (Href : pgn_allref (map PvRef K)) by (intros h Hh; apply in_map_iff in Hh; destruct Hh as (k & <- & _); exists k; reflexivity).
  destruct (pgn_pia_all depth 110 ltac:(lia) pn nodes (map PvRef K) s1 [] Htree1 Href Htn1) as (s2 & Epia & P2); [intros kv []|].
  change (pd_store p1) with s1. rewrite Epia.
  set (p2 := pd_with_pushed (pd_with_store p1 s2) true).
  pose proof (pgn_psim_sim _ _ P2) as Sim2.
  assert (Hroot2 : pg_root_pages p2 = PvRef pn) by (exact (pgx_root_pages_sim p1 s2 Sim2 pn Hroot1)).
  (* the root node in the store after the two phases *)
  destruct (pgn_rel_node_keys _ _ _ pn d R1 Hpn (ex_intro _ l0 Hk0)) as (d1 & Hpn1 & [l1 Hk1] & Hkeys1).
  destruct (pgn_psim_dict _ _ _ _ P2 Hpn1) as (d2 & Hpn2 & S2).
  assert (Hleaf2 : forall k, In k K -> exists dk, pg_lookup s2 k = Some (PcObj (PvDict dk)) /\ pgx_leafy dk).
  { intros k Hk. pose proof (pgn_tree_leaves _ _ _ _ _ Htree1) as Hl. rewrite Forall_forall in Hl.
    exact (pgn_leafh_psim s1 s2 (PvRef k) P2 (Hl (PvRef k) (in_map PvRef K k Hk))). }
  assert (Hrk : ~ In (pd_root p) K).
  { intros Hin. destruct (Horig _ Hin) as [Hi|Hi]; [exact (Hrl Hi)|exact (Hrootex Hi)]. }
  assert (Hc2 : pg_dget d2 pgk_Count = PvInt (pg_len K)).
  { rewrite (S2 pgk_Count eq_refl), Hkeys1 by discriminate. rewrite Hcount. unfold pg_len. rewrite Hlen. reflexivity. }
  assert (Hp2 : pg_dget d2 pgk_Parent = PvNull) by (rewrite (S2 pgk_Parent eq_refl), Hkeys1 by discriminate; exact Hpar).
  destruct (pgn_flatten_tail_nested p2 K pn d2 Hroot2 Hpn2 (ex_intro _ l1 (eq_trans (S2 pgk_Kids eq_refl) Hk1)) Hc2 Hp2 eq_refl Hpos HndK Hleaf2)
    as (s3 & m & Etail & Hflat & Hm & Hkeys & Hex3 & Hmk3).
  { intros ->. exact (Hrn Hpnin). }
  { exact Hrk. }
  { exact Hinv. }
  rewrite Etail. set (p3 := pd_with_store (pd_with_pos p2 m) s3) in *.
  change (pd_store p2) with s2 in Hmk3, Hex3.
  assert (Hex1 : forall j, pg_lookup (pd_store p) j <> None -> pg_lookup s1 j <> None) by (intros j Hj; eapply pgn_rel_some; eassumption).
  assert (Hex2 : forall j, pg_lookup (pd_store p) j <> None -> pg_lookup s2 j <> None) by (intros j Hj; apply (pgx_sim_some _ _ _ Sim2), Hex1, Hj).
  assert (HKex1 : forall x, In x K -> pg_lookup s1 x <> None).
  { intros x Hx. pose proof (pgn_tree_leaves _ _ _ _ _ Htree1) as Hl. rewrite Forall_forall in Hl.
    destruct (Hl (PvRef x) (in_map PvRef K x Hx)) as (dk & -> & _). discriminate. }
  exists p3, K. split; [reflexivity|split; [exact Hflat|split; [reflexivity|split; [exact Hm|split; [exact Hkeys|]]]]].
  split; [|split; [|split; [|split; [reflexivity|split; [reflexivity|split; [reflexivity|]]]]]].
  - rewrite <- Hmarks. apply map_ext_in. intros x Hx. change (pd_store p3) with s3.
    rewrite (Hmk3 x) by (apply (pgx_sim_some _ _ _ Sim2), HKex1, Hx). apply pgn_sim_mark; [exact Sim2|apply HKex1, Hx].
  - intros j Hj. apply Hex3, Hex2, Hj.
  - intros j Hj. change (pd_store p3) with s3. rewrite (Hmk3 j (Hex2 j Hj)), (pgn_sim_mark _ _ _ Sim2 (Hex1 j Hj)).
    eapply pgn_rel_mark; eassumption.
  - apply (pgy_inv_of_flat p3 K Hflat eq_refl Hm Hkeys).
Qed.

(* ------------------------------------------------------------------ sanity of the definition *)
(* a flattened clean tree with an empty cache is a well-formed tree of height 1 *)
Lemma pgn_wf_of_flat : forall p K, pgx_flat p K -> pd_all p = [] -> pd_pos p = [] ->
  exists pn, pg_root_pages p = PvRef pn /\ pgn_wf p 1 [pn] (map PvRef K).
Proof.
  intros p K (pn & d & Hroot & Hpn & Hkids & Hcount & Hpar & Hpnroot & Hpnk & Hrootk & Hnd & Hleaf & Hinv) Hall Hpos.
  exists pn. split; [exact Hroot|]. exists pn, d. split; [exact Hroot|split].
  - exists d, (map PvRef K), []. split; [exact Hpn|split; [exact Hkids|split; [reflexivity|]]].
    clear - Hleaf. induction K as [|k t IH]; [constructor|]. cbn [map]. constructor.
    + cbn [pgn_leafh]. apply Hleaf. left. reflexivity.
    + apply IH. intros x Hx. apply Hleaf. right. exact Hx.
  - split; [lia|split; [constructor; [intros []|constructor]|split; [intros [E|[]]; congruence|split]]].
    + intros Hin. apply in_map_iff in Hin. destruct Hin as (k & E & Hk). inversion E; subst k. contradiction.
    + split; [exact Hpn|split; [exact Hpar|split; [|repeat split; assumption]]].
      rewrite Hcount. unfold pg_len. rewrite map_length. reflexivity.
Qed.

(* the specification function PgxOracle.pgx_leaves lists exactly the leaves of the definition, in order *)
Definition pgn_leaf_omark (s : pg_store) (h : pg_val) : option Z :=
  match pg_rv s h with PvDict dk => pgx_mk_of s dk | _ => None end.

Lemma pgn_leaves_oracle : forall s d f n ns ls, (d <= f)%nat -> pgn_tree d s n ns ls ->
  pgx_leaves f s (PvRef n) = Some (map (pgn_leaf_omark s) ls).
Proof.
  intros s. induction d as [|d IH]; intros f n ns ls Hf Ht; [destruct Ht|].
  destruct f as [|f]; [lia|]. destruct Ht as (dd & kids & ns' & En & Hk & -> & Hkids).
  cbn [pgx_leaves]. cbn [pg_rv]. rewrite En, Hk. cbn [pg_rv].
  match goal with |- fold_right ?F ?z kids = _ =>
    assert (Hgen : forall kids ns ls, pgn_kids (pgn_tree d s) s kids ns ls -> fold_right F z kids = Some (map (pgn_leaf_omark s) ls)) end.
  { clear kids ns' ls Hk Hkids. intros kids ns ls H. induction H as [|h t ns ls Hh Ht IHt|m t ns1 ls1 ns ls Hm Ht IHt].
    - reflexivity.
    - cbn [fold_right map]. rewrite IHt.
      destruct h as [| | |k| |dk]; try (exfalso; exact Hh).
      + destruct Hh as (dk & Ek & [Lk _]).
        assert (pgn_leaf_omark s (PvRef k) = pgx_mk_of s dk) as -> by (unfold pgn_leaf_omark; cbn [pg_rv]; rewrite Ek; reflexivity).
        cbn [pg_rv]. rewrite Ek, Lk. reflexivity.
      + destruct Hh as [Lk _].
        assert (pgn_leaf_omark s (PvDict dk) = pgx_mk_of s dk) as -> by reflexivity.
        cbn [pg_rv]. rewrite Lk. reflexivity.
    - cbn [fold_right]. rewrite IHt. destruct (pgn_tree_node _ _ _ _ _ Hm) as (dm & lm & Em & Hkm & _).
      cbn [pg_rv]. rewrite Em, Hkm. cbn [pg_is_null]. rewrite (IH f m ns1 ls1 ltac:(lia) Hm). rewrite map_app. reflexivity. }
  exact (Hgen kids ns' ls Hkids).
Qed.

Lemma pgn_doc_leaves_oracle : forall p depth nodes leaves, pgn_wf p depth nodes leaves -> (depth <= 42)%nat ->
  pgx_doc_leaves p = Some (map (pgn_leaf_omark (pd_store p)) leaves).
Proof.
  intros p depth nodes leaves (pn & d & Hroot & Ht & _) Hd. unfold pgx_doc_leaves. rewrite Hroot.
  exact (pgn_leaves_oracle (pd_store p) depth 42 pn nodes leaves Hd Ht).
Qed.
