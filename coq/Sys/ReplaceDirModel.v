(* C11 - --replace-input started in ANY directory, and as part of any job.

   Written from libqpdf/QPDFJob.cc, QPDFJob::writeOutfile (the replace_input branch) and QPDFJob::writeQPDF /
   getExitCode, on top of the sink model (Sys/SinkModel.v):

     temp_out = infile + ".~qpdf-temp#";  Writer w(pdf); w.setOutputFilename(temp_out); w.write();   [block scope]
     pdf.closeInputSource();
     backup = infile + ".~qpdf-orig";
     bool warnings = pdf.anyWarnings() || m->warnings || (an --overlay/--underlay file has warnings);   [/repo PENDING11;
         before that commit: pdf.anyWarnings() alone - finding C11-F1-warnings-about-other-files]
     if (!warnings) backup += '#';
     QUtil::rename_file(infile, backup);  QUtil::rename_file(temp_out, infile);
     if (warnings) "there are warnings; original file kept in" else try { remove_file(backup) } catch -> "unable to delete"

   What SinkModel.c10_replace does not say and this file adds:
   - the directory the run starts in may already hold entries under the three names the run uses and under the backup
     name it does not use: files (an older document left by an earlier run: <in>.~qpdf-orig is kept on purpose after
     a run with warnings, <in>.~qpdf-orig# / <in>.~qpdf-temp# stay behind after a kill or a failed unlink) or
     directories.  safe_fopen(temp, "wb+") truncates a file and fails on a directory (EISDIR); rename(2) replaces a
     file atomically and fails when the target is a directory (EISDIR), leaving both names as they were; remove()
     is only reached after both renames succeeded, i.e. on a file.
   - which backup name is used is decided by the code: from the warnings about the main input (pdf.anyWarnings(),
     evaluated after the temporary file was written: warnings raised while opening, transforming or writing it,
     c11d_wmain) and the warnings about the other input files of the job (--pages, --overlay/--underlay,
     --copy-attachments-from, --copy-encryption: c11d_wother) - the same two flags the exit status comes from.
   No proofs here.  Names are prefixed c11d_ (extraction flattens the name space). *)
From QV Require Import Base.Bytes Sys.StdioModel Sys.SinkModel.
From Coq Require Import Arith.
Local Open Scope nat_scope.

Record c11d_job := mk_c11d_job {
  c11d_inp : nat;          (* <in> *)
  c11d_kept : nat;         (* <in>.~qpdf-orig *)
  c11d_scratch : nat;      (* <in>.~qpdf-orig# *)
  c11d_temp : nat;         (* <in>.~qpdf-temp# *)
  c11d_wmain : bool;       (* pdf.anyWarnings() when writeOutfile reaches the renames *)
  c11d_wother : bool;      (* warnings about other input files of the job (m->warnings, overlay / underlay files) *)
  c11d_quiet : bool;       (* --no-warn: writeQPDF does not print "operation succeeded with warnings" (the status stays 3) *)
  c11d_chunks : list (list N) }.

(* bool warnings = pdf.anyWarnings() || m->warnings || (overlay / underlay files) *)
Definition c11d_warned (j : c11d_job) : bool := c11d_wmain j || c11d_wother j.
(* std::string backup = infile + ".~qpdf-orig"; if (!warnings) backup.append(1, '#') *)
Definition c11d_backup (j : c11d_job) : nat := if c11d_warned j then c11d_kept j else c11d_scratch j.
(* the backup name this run does not use *)
Definition c11d_other_backup (j : c11d_job) : nat := if c11d_warned j then c11d_scratch j else c11d_kept j.

Definition c11d_is_dir (dirs : list nat) (n : nat) : bool := existsb (Nat.eqb n) dirs.

(* a path operation that meets a directory where it needs a file: the call is made, fails, changes nothing
   (the process can still be killed immediately before or after it) *)
Definition c11d_blocked (en : c10_env) (ev : c10_ev) (w : c10_world) : c10_res bool :=
  let w1 := c10_tick w in
  let fa := en_fault en (cw_n w1) in
  if c10_is_killb fa then RDead w1 else
  let w2 := c10_log w1 ev in
  if c10_is_killa fa then RDead w2 else ROk false w2.

Definition c11d_writer_file (en : c10_env) (dirs : list nat) (name : nat) (chunks : list (list N)) (w : c10_world) : c10_res unit :=
  if c11d_is_dir dirs name then
    c10_bind (c11d_blocked en (EvOpen name false) w) (fun _ w1 => RExc (Exn EcOpen name) w1)
  else c10_writer_file en name chunks w.

Definition c11d_rename (en : c10_env) (dirs : list nat) (a b : nat) (w : c10_world) : c10_res bool :=
  if c11d_is_dir dirs b then c11d_blocked en (EvRename a b false) w else c10_rename en a b w.

Definition c11d_replace (en : c10_env) (dirs : list nat) (j : c11d_job) (w : c10_world) : c10_res unit :=
  let inp := c11d_inp j in
  let temp := c11d_temp j in
  let backup := c11d_backup j in
  c10_bind (c11d_writer_file en dirs temp (c11d_chunks j) w) (fun _ w1 =>
  c10_bind (c11d_rename en dirs inp backup w1) (fun ok1 w2 =>
    if negb ok1 then RExc (Exn EcRename inp) w2 else
  c10_bind (c11d_rename en dirs temp inp w2) (fun ok2 w3 =>
    if negb ok2 then RExc (Exn EcRename temp) w3 else
    if c11d_warned j then ROk tt (c10_say w3 DgKept) else
    c10_bind (c10_unlink en backup w3) (fun ok3 w4 =>
      ROk tt (if ok3 then w4 else c10_say w4 DgUnlink))))).

(* the directory before the run: the input, and whatever else is there (an entry for the input name in `pre` is
   shadowed: first binding wins) *)
Definition c11d_initial (inp : nat) (orig : list N) (pre : list (nat * list N)) : c10_world :=
  mk_world ((inp, sio_static orig) :: map (fun p => (fst p, sio_static (snd p))) pre) 0 [] [] false false.

(* QPDFJob::run, writeQPDF's closing message, getExitCode, realmain's catch: as SinkModel.c10_run for a job that does
   not write to standard output *)
Definition c11d_run (en : c10_env) (wx0 : bool) (dirs : list nat) (j : c11d_job) (orig : list N)
           (pre : list (nat * list N)) : c10_result :=
  match c11d_replace en dirs j (c11d_initial (c11d_inp j) orig pre) with
  | ROk _ w =>
    let wn := c11d_wmain j || c11d_wother j in
    mk_result (Some (if wn && negb wx0 then 3 else 0))
              (c10_exit_flush_all (if wn && negb (c11d_quiet j) then c10_say w DgWarn else w))
  | RExc e w => mk_result (Some 2) (c10_exit_flush_all (c10_say w (c10_exn_diag e)))
  | RDead w => mk_result None w
  end.
