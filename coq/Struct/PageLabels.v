(* C12 (extension) - model of libqpdf/QPDFPageLabelDocumentHelper.cc: getLabelForPage, getLabelsForPageRange, and of the
   two places of QPDFJob.cc that build a /PageLabels /Nums array with them (handlePageSpecs: one call per selected page with
   new_start_idx = out_pageno++ on a shared vector; doSplitPages: one call per chunk on an empty vector).  Written from the
   C++.  The number tree is represented by its entries in ascending key order (what QPDFNumberTreeObjectHelper iterates;
   the tree walk itself is C18's model); findObjectAtOrBelow = the last entry whose key is <= the index, hasIndex = an entry
   with that key.  A label dictionary is (/S, /P, /St): /S and /P are compared by unparse(), so any code that identifies the
   object will do (None = key absent); /St is absent, an integer, or something else (then the start is 1).
   No proofs in this file. *)
From QV Require Import Base.Bytes.
From Coq Require Import List ZArith NArith Bool.
Import ListNotations.
Local Open Scope Z_scope.

Inductive plb_st : Type := PlbStNone | PlbStInt (z : Z) | PlbStOther.
Record plb_lab : Type := PlbLab { plb_S : option N; plb_P : option N; plb_St : plb_st }.
Definition plb_tree := list (Z * plb_lab).

Definition plb_opt_eqb (a b : option N) : bool :=
  match a, b with Some x, Some y => (x =? y)%N | None, None => true | _, _ => false end.

Fixpoint plb_find (t : plb_tree) (idx : Z) (best : option (Z * plb_lab)) : option (Z * plb_lab) :=
  match t with
  | [] => best
  | (k, l) :: t' => if k <=? idx then plb_find t' idx (Some (k, l)) else best
  end.

Definition plb_has_index (t : plb_tree) (idx : Z) : bool := existsb (fun e => fst e =? idx) t.

Definition plb_start (l : plb_lab) : Z := match plb_St l with PlbStInt z => z | _ => 1 end.

(* getLabelForPage: None = null (no /PageLabels, or no entry at or below the page) *)
Definition plb_label_for_page (t : option plb_tree) (idx : Z) : option plb_lab :=
  match t with
  | None => None
  | Some t =>
      match plb_find t idx None with
      | None => None
      | Some (k, l) => Some (PlbLab (plb_S l) (plb_P l) (PlbStInt (plb_start l + (idx - k))))
      end
  end.

(* the loop for (i = start_idx + 1; i <= end_idx; ++i), cnt iterations left *)
Fixpoint plb_range_loop (t : plb_tree) (cnt : nat) (i : Z) (off : Z) (acc : list (Z * plb_lab)) : list (Z * plb_lab) :=
  match cnt with
  | O => acc
  | S cnt' =>
      let acc' := if plb_has_index t i
                  then match plb_label_for_page (Some t) i with Some l => (i + off, l) :: acc | None => acc end
                  else acc in
      plb_range_loop t cnt' (i + 1) off acc'
  end.

(* getLabelsForPageRange; acc = new_labels as (index, label) pairs, NEWEST FIRST *)
Definition plb_labels_for_range (t : option plb_tree) (start_idx end_idx new_start : Z) (acc : list (Z * plb_lab))
  : list (Z * plb_lab) :=
  let label := match plb_label_for_page t start_idx with
               | Some l => l
               | None => PlbLab None None (PlbStInt (1 + new_start))
               end in
  let skip_first :=
    match acc with
    | (last_idx, last) :: _ =>
        plb_opt_eqb (plb_S label) (plb_S last) && plb_opt_eqb (plb_P label) (plb_P last) &&
        match plb_St label, plb_St last with
        | PlbStInt a, PlbStInt b => (a - b =? new_start - last_idx)
        | _, _ => false
        end
    | [] => false
    end in
  let acc1 := if skip_first then acc else (new_start, label) :: acc in
  match t with
  | Some tr => plb_range_loop tr (Z.to_nat (end_idx - start_idx)) (start_idx + 1) (new_start - start_idx) acc1
  | None => acc1     (* m->labels is null: callers never ask for more than one page then *)
  end.

(* handlePageSpecs: trees = the label tree of every input (None: no /PageLabels); sel = the selected pages in output order
   as (input, page index from 0) *)
Fixpoint plb_handle_loop (trees : list (option plb_tree)) (sel : list (nat * Z)) (out_pageno : Z) (acc : list (Z * plb_lab))
  : list (Z * plb_lab) :=
  match sel with
  | [] => acc
  | (f, p) :: sel' =>
      plb_handle_loop trees sel' (out_pageno + 1)
        (plb_labels_for_range (nth f trees None) p p out_pageno acc)
  end.
Definition plb_handle (trees : list (option plb_tree)) (sel : list (nat * Z)) : plb_tree :=
  rev' (plb_handle_loop trees sel 0 []).

(* doSplitPages: the chunk of pages first..last (from 0) of a document that has page labels *)
Definition plb_split (t : plb_tree) (first last : Z) : plb_tree :=
  rev' (plb_labels_for_range (Some t) first last 0 []).
