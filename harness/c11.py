# C11 - --replace-input never loses the original document.
# Proof: Props/Properties_C11.v (over the sink model of C10: for the repaired sinks, at every instant - whatever
# operation fails, wherever the process is killed - a complete copy exists and the input name is never bound to a
# partial file; final directory by exit status; the pinned sinks refuted with a witness).
# Tie: the real binary under harness/shim_fault.c: every operation of the run (fopen, each fwrite, fflush, fclose, each
# rename, unlink) is made to fail, and the process is SIGKILLed immediately before / after it; the directory found
# afterwards ({<in>, <in>.~qpdf-orig[#], <in>.~qpdf-temp#} x {original, new, absent, other}), the exit status and the
# calls made are compared with the extracted model, and the extracted specification (c11_safe, c11_final_ok) is
# evaluated on the directory the binary left.
import json, os, shutil
import common, c10

ASSUMPTIONS = c10.ASSUMPTIONS + [
    "rename(2) is atomic and unlink/rename do not fail halfway (power loss and non-atomic file systems are outside)",
    "a kill between two stdio calls leaves on disk what the kernel had accepted at the previous call (user-space buffers die with the process)",
]


def classify(sc, files, name):
    if name not in files:
        return "A"
    b = files[name]
    if b == sc.orig:
        return "O"
    if b == sc.new:
        return "N"
    return "X"


def run(chk):
    runner = os.path.join(common.EXTRACT, "model_runner")
    c10.build_shim()
    c10.probe_exit_rounds()
    if chk.tier == "thorough":
        c10.run_coqchk(chk, "C11")
    wd = common.workdir("C11")
    B = os.stat(wd).st_blksize
    quick = chk.tier == "quick"
    inputs = c10.make_inputs(wd, chk.rng, chk.tier, 0 if quick else 8)
    have_ptrace = c10.build_injector()
    chk.cov["ptrace_permitted"] = bool(have_ptrace)
    ALLK = ("full", "fail", "disk", "cap", "killb", "killa")
    plan = []     # (scenario, input, fault kinds, limit)
    if quick:
        plan += [("replace", "small", ALLK, 140), ("replace", "warn", ALLK, 140), ("replace", "big", ALLK, 60)]
        # warnings that arise only while the temporary file is written: the original must be kept as <in>.~qpdf-orig
        plan += [("replace", "wlate", ("full", "fail", "killb", "killa"), 45)]
        # --deterministic-id: finish() from the Popper destructor
        plan += [("replace-did", "big", ("full", "cap", "killa"), 40)]
    else:
        for iname in inputs:
            if iname not in ("att", "multi"):
                plan.append(("replace", iname, ALLK, None))
                plan.append(("replace-did", iname, ALLK, None))
    if have_ptrace:
        # exactly one write(2) on the temporary file fails (EINTR / EIO / ENOSPC) and the following ones succeed
        plan += [("replace", "multi", tuple(c10.ERRNOS), None), ("replace-did", "multi", tuple(c10.ERRNOS), None)]
    groups = []
    for scen, iname, kinds, limit in plan:
        groups.append(c10.run_group(chk, runner, wd, scen, iname, inputs[iname], B, limit, kinds=kinds, pid="C11"))
    variant, diffs, total = c10.evaluate(chk, runner, groups, B, pid="C11")
    # the C11 specification on the directory the binary left
    slines, idx = [], []
    for g in groups:
        if "sc" not in g:
            chk.violation({"kind": "correspondence-broken", "correspondence": "corr:C11:fault-free-run", "input": g["input"], "why": g.get("broken")}, no_input=True)
            continue
        sc = g["sc"]
        backup = [k for k, v in sc.names.items() if v == 2][0]
        other_backup = "outrep.pdf.~qpdf-orig" + ("#" if not backup.endswith("#") else "")
        g["cls"] = []
        for j, x in enumerate(g["impl"]):
            files = x[9]
            a = classify(sc, files, "outrep.pdf")
            b = classify(sc, files, backup)
            if other_backup in files:      # a backup under the name of the other case is "other"
                b = "X"
            c = classify(sc, files, "outrep.pdf.~qpdf-temp#")
            ex = "K" if x[5] == -9 else str(x[5] if x[5] >= 0 else 255)
            unl = 1 if "U" in x[0].split("|")[1].split(",") else 0
            slines.append("c11obs %s %d %s %s %s" % (ex, unl, a, b, c))
            g["cls"].append((a, b, c))
            idx.append((g, j))
    sout = common.run_lines(runner, slines)
    nontriv = set()
    dist = {}
    for (g, j), sv in zip(idx, sout):
        x = g["impl"][j]
        fault = g["faults"][j]
        a, b, c = g["cls"][j]
        key = "%s/exit%s/in=%s,backup=%s,temp=%s" % (fault.split("@")[0], "K" if x[5] == -9 else x[5], a, b, c)
        dist[key] = dist.get(key, 0) + 1
        if fault != "none":
            nontriv.add((g["input"], fault))
        if sv != "ok":
            sig = "C11:%s:exit%s:%s:in=%s" % (fault.split("@")[0], "K" if x[5] == -9 else x[5], c10.surface(x[2], fault),
                                              {"O": "orig", "N": "new", "A": "absent", "X": "other"}[a])
            chk.violation({"kind": "property-fails-on-implementation", "part": "replace-input", "why": sv,
                           "case": {"argv": x[7], "input": g["input"], "fault": fault,
                                    "fault_meaning": "k-th file operation of the run fails (full/fail), or the process is SIGKILLed immediately before (killb) / after (killa) it; "
                                                     "cap@L = RLIMIT_FSIZE; see harness/shim_fault.c"},
                           "exit": x[5], "stderr": x[6], "directory": {"<in>": a, "<in>.~qpdf-orig[#]": b, "<in>.~qpdf-temp#": c,
                                                                           "legend": "O original, N complete new file, A absent, X anything else (partial)"},
                           "file_sizes": x[8], "failing_calls": x[2][:6], "signature": sig,
                           "replay": {"scenario": g["scen"], "input": g["input"], "fault": fault}}, signature=sig)
            sigs = chk.cov.setdefault("specification_violations_by_signature", {})
            sigs[sig] = sigs.get(sig, 0) + 1
    if diffs[variant]:
        g, j, cmpo = diffs[variant][0]
        vline = c10.model_lines(g["sc"], g["inp"], [g["faults"][j]], B, variant, verbose=True)
        vout = common.run_lines(runner, [vline])[0]
        chk.violation({"kind": "correspondence-broken", "correspondence": "corr:C11:replace-input",
                       "differing_cases": len(diffs[variant]), "check_vector_assumed": c10.vec_name(variant),
                       "first_case": {"argv": g["impl"][j][7], "input": g["input"], "fault": g["faults"][j]},
                       "differing_cases_by_checks_vector": {v: len(d) for v, d in sorted(diffs.items(), key=lambda kv: len(kv[1]))[:6]},
                       "implementation": g["impl"][j][0], "model": cmpo,
                       "implementation_calls": " ".join(g["impl"][j][1])[-1200:], "model_calls": vout.split("|")[-1].replace("_", " ")[-1200:]},
                      no_input=True)
    samples = []
    for g in groups:
        if "sc" in g:
            for j in (len(g["impl"]) // 3, len(g["impl"]) - 2):
                samples.append({"argv": g["impl"][j][7], "input": g["input"], "fault": g["faults"][j], "exit": g["impl"][j][5],
                                "directory(in,backup,temp)": "".join(g["cls"][j])})
    chk.count("replace-input-histories", total, nontriv, samples)
    chk.cov["parts"]["replace-input-histories"]["distribution"] = dist
    chk.cov["parts"]["replace-input-histories"]["operations_per_group"] = {"%s/%s" % (g["scen"], g["input"]): g["sc"].nops for g in groups if "sc" in g}
    chk.cov["check_vector_observed"] = c10.vec_name(variant)
    chk.cov["rule"] = ("qpdf --replace-input on inputs without and with warnings; for every file operation k of the run (quick: every non-write operation, its "
                       "neighbours and a sample of the writes): the operation fails (full@k, fail@k), the process is killed before it (killb@k) and after it "
                       "(killa@k); plus a disk that stays full from k on and RLIMIT_FSIZE sweeps; after each run the directory is classified and compared with the "
                       "extracted model (also exit status, diagnostics, every stdio/rename/unlink call and result) and the extracted c11_safe / c11_final_ok are "
                       "evaluated on it; non-trivial = a run with a fault or a kill, distinct by (input, fault)")
    shutil.rmtree(wd, ignore_errors=True)


def replay(chk, rep):
    return c10.replay(chk, rep)
