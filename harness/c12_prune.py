# C12 (extension) - name-usage analysis of unreferenced-resource removal, in-process.
# Implementation: harness/drv_resprune.cc (QPDFPageObjectHelper::removeUnreferencedResources on pages with nested form XObjects).
# Model: coq/Struct/ResPrune.v (extracted, command `rprune`).  Specification side (below, independent of the model): ISO 32000-1
# 7.8.3 - a name used by the page's content, or by a form XObject it paints (a form without /Resources takes its names from the
# page), must still resolve afterwards.
import common


def gen_case(rng):
    nodes = {}
    nid = [10]

    def new_id():
        nid[0] += 1
        return nid[0]

    page_x = []

    def mk_form(depth, page_keys):
        i = new_id()
        has_res = rng.random() < 0.5
        flags = "f" + ("t" if rng.random() < 0.5 else "") + (("r" if rng.random() < 0.6 else "R") if has_res else "") + ("b" if rng.random() < 0.04 else "")
        fonts, xobjs = [], []
        if has_res:
            fonts = sorted(rng.sample(range(1, 9), rng.randint(0, 4)))
            for k in sorted(rng.sample(range(31, 37), rng.choice([0, 0, 1, 2]) if depth < 3 else 0)):
                xobjs.append((k, mk_xobj(depth + 1, page_keys)))
        uses = []
        for _ in range(rng.randint(0, 4)):
            x = rng.random()
            if x < 0.5:
                uses.append((rng.randint(1, 8), 0))
            elif x < 0.8:
                pool = [k for k, _ in xobjs] if (has_res and xobjs and rng.random() < 0.8) else page_keys + [39]
                uses.append((rng.choice(pool), 1))
            else:
                uses.append((rng.choice([1, 2, 3, 31, 32, 50]), 2))
        nodes[i] = (flags, uses, fonts, xobjs)
        return i

    def mk_xobj(depth, page_keys):
        if rng.random() < 0.2:
            i = new_id()
            nodes[i] = ("i" + ("t" if rng.random() < 0.5 else ""), [], [], [])
            return i
        return mk_form(depth, page_keys)
    page_keys = sorted(rng.sample(range(21, 28), rng.randint(0, 4)))
    pid = 10
    xobjs = [(k, mk_xobj(1, page_keys)) for k in page_keys]
    fonts = sorted(rng.sample(range(1, 9), rng.randint(0, 6)))
    uses = []
    for _ in range(rng.randint(0, 4)):
        x = rng.random()
        if x < 0.45:
            uses.append((rng.choice(fonts) if fonts and rng.random() < 0.93 else rng.randint(1, 8), 0))
        elif x < 0.85:
            uses.append((rng.choice(page_keys) if page_keys and rng.random() < 0.93 else 39, 1))
        else:
            uses.append((rng.choice([1, 2, 21, 22, 50]), 2))
    flags = "p" + rng.choice(["r", "r", "R", "h"]) + ("b" if rng.random() < 0.03 else "")
    nodes[pid] = (flags, uses, fonts, xobjs)
    return pid, nodes


def line_of(pid, nodes):
    def f(l, pair=False):
        return ",".join(("%d.%d" % x) if pair else str(x) for x in l) if l else "-"
    return "rprune %d %s" % (pid, ";".join("%d=%s:%s:%s:%s" % (i, n[0], f(n[1], True), f(n[2]), f(n[3], True)) for i, n in sorted(nodes.items())))


def parse_out(s):
    out = {}
    for e in s.split(";") if s else []:
        i, d = e.split("=")
        a, b = d.split(":")
        out[int(i)] = (set() if a == "-" else set(map(int, a.split(","))), set() if b == "-" else set(map(int, b.split(","))))
    return out


def needed(pid, nodes):
    """ISO side: {node id: names that must still resolve in that node's own resources}"""
    need = {}
    pflags, puses, pfonts, pxobjs = nodes[pid]
    seen = set()

    def use(owner, uses):
        # names are looked up in owner's resources: every resource operator's name (any type) used by the content
        need.setdefault(owner, set()).update(n for n, t in uses)

    def paint(i, via):
        if (i, via) in seen:
            return
        seen.add((i, via))
        flags, uses, fonts, xobjs = nodes[i]
        if "f" not in flags:
            return
        own = ("r" in flags) or ("R" in flags)
        owner = i if own else pid
        use(owner, [(n, t) for n, t in uses if t in (0, 1)] if not own else uses)
        table = dict(xobjs) if own else dict(pxobjs)
        for n, t in uses:
            if t == 1 and n in table:
                paint(table[n], owner)
    use(pid, puses)
    for n, t in puses:
        if t == 1 and n in dict(pxobjs):
            paint(dict(pxobjs)[n], pid)
    return need


def part_prune(chk, drv, runner):
    rng = chk.rng
    n = 4000 if chk.tier == "quick" else 40000
    cases = [gen_case(rng) for _ in range(n)]
    # fixed: a resource-less form without /Type whose font the page does not use; nested one and two levels; same with /Type
    for t in ("", "t"):
        cases.append((10, {10: ("pr", [(4, 0), (21, 1)], [1, 2, 3, 4], [(21, 11)]), 11: ("f" + t, [(1, 0)], [], [])}))
        cases.append((10, {10: ("pR", [(21, 1)], [1, 2, 3], [(21, 11)]), 11: ("f" + t + "r", [(31, 1)], [5], [(31, 12)]), 12: ("f" + t, [(2, 0)], [], [])}))
        cases.append((10, {10: ("ph", [(21, 1)], [1, 2, 3], [(21, 11)]), 11: ("ftr", [(31, 1)], [], [(31, 12)]),
                           12: ("f" + t + "r", [(32, 1)], [], [(32, 13)]), 13: ("f" + t, [(3, 0), (22, 1)], [], [])}))
    lines = [line_of(*c) for c in cases]
    impl = common.run_lines(drv, lines, shards=4)
    model = common.run_lines(runner, lines, shards=4)
    tie, bad, nontriv, kinds = [], 0, set(), {"pruned": 0, "untouched": 0, "protected-by-form": 0}
    for i, (pid, nodes) in enumerate(cases):
        if impl[i].startswith("?"):
            chk.violation({"kind": "property-fails-on-implementation", "part": "rprune", "why": "driver failed", "case": lines[i], "implementation": impl[i][:300]})
            continue
        got = parse_out(impl[i])
        need = needed(pid, nodes)
        why = None
        for owner, names in need.items():
            flags, uses, fonts, xobjs = nodes[owner]
            before = set(fonts) | set(k for k, _ in xobjs)
            if owner not in got:
                why = "form %d painted by the page is no longer reachable" % owner
                break
            lost = (names & before) - (got[owner][0] | got[owner][1])
            if lost:
                why = "names %s used by the content of %s %d (or by a resource-less form it paints) were removed from its resources" % (
                    sorted(lost), "page" if owner == pid else "form", owner)
                break
        if why:
            bad += 1
            if bad <= 5:
                chk.violation({"kind": "property-fails-on-implementation", "part": "rprune", "why": why, "case": lines[i],
                               "implementation": impl[i], "model": model[i], "replay": lines[i]})
            continue
        if impl[i] != model[i]:
            tie.append(i)
        pf, px = got.get(pid, (set(), set()))
        fl, us, fo, xo = nodes[pid]
        if pf != set(fo) or px != set(k for k, _ in xo):
            kinds["pruned"] += 1
            nontriv.add(lines[i])
            if (pf | px) - set(n for n, t in us):
                kinds["protected-by-form"] += 1
        else:
            kinds["untouched"] += 1
    if tie and not bad:
        i = tie[0]
        chk.violation({"kind": "correspondence-broken", "correspondence": "corr:C12:rprune", "differing_cases": len(tie), "first_case": lines[i],
                       "implementation": impl[i], "model": model[i], "replay": lines[i]}, no_input=True)
    chk.count("rprune", len(cases), nontriv, samples=[{"case": lines[0], "impl": impl[0]}])
    chk.cov["parts"]["rprune"]["distribution"] = kinds
