(* Extraction of the executable models and specifications. ExtrOcamlBasic only:
   nat, positive, N, Z stay the inductive types. Run from the output directory:
   cd _build/extract && coqc -Q /verif/coq QV /verif/coq/Extract/Extract.v *)
From Coq Require Import Extraction ExtrOcamlBasic.
From QV Require Import Base.Bytes Struct.NumRange Struct.RangeSpec Struct.PageOps.
Extraction Language OCaml.
Extraction "qvmodel.ml"
  NumRange.parse_numrange RangeSpec.range_spec
  PageOps.collate PageOps.collate_spec PageOps.split_chunks PageOps.rotate_angle.
