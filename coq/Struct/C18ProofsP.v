(* C18 proofs, part 10: the model of NNTree.cc and the sorted-map specification are NATURAL in the key type.

   For any map f : K1 -> K2 between key types that preserves the three-way comparison
   (c1 a b = c2 (f a) (f b) for all a b -- an order embedding when c1 is antisymmetric, a normalisation such as
   getUTF8Value otherwise), renaming every key of a tree, an iterator state, a call and a result by f commutes with
   EVERY operation of the model (resetLimits, split, deepen, increment, binarySearch, find, insertFirst, insertAfter,
   insert, remove, the history runner) and of the specification (the sorted map, the validity checker wf_code).
   This is what lets the refinement proved over integer keys (C18ProofsH) be carried to any other key order
   (C18ProofsQ), and the name-tree model on stored strings be read on their UTF-8 values. *)
From QV Require Import Base.Bytes Struct.NNTreeModel Struct.NNTreeSpec Struct.C18ProofsC.
Local Open Scope Z_scope.

(* ------------------------------------------------------------------ lists *)
Lemma nk_nth_error_map {A B} (g : A -> B) l n : nth_error (map g l) n = option_map g (nth_error l n).
Proof. revert l. induction n as [|n IH]; intros [|x l]; simpl; auto. Qed.
Lemma nk_znth_map {A B} (g : A -> B) l i : nn_znth (map g l) i = option_map g (nn_znth l i).
Proof. unfold nn_znth. destruct (i <? 0); [reflexivity|]. apply nk_nth_error_map. Qed.
Lemma nk_zlen_map {A B} (g : A -> B) l : nn_zlen (map g l) = nn_zlen l.
Proof. unfold nn_zlen. rewrite map_length. reflexivity. Qed.
Lemma nk_upd_nth_map {A B} (g : A -> B) (h1 : A -> A) (h2 : B -> B) l i :
  (forall x, g (h1 x) = h2 (g x)) -> map g (nn_upd_nth l i h1) = nn_upd_nth (map g l) i h2.
Proof.
  intros H. revert i. induction l as [|x l IH]; intros [|i]; simpl; try reflexivity.
  - rewrite H. reflexivity.
  - rewrite IH. reflexivity.
Qed.
Lemma nk_firstn_map {A B} (g : A -> B) n l : firstn n (map g l) = map g (firstn n l).
Proof. revert l. induction n as [|n IH]; intros [|x l]; simpl; try reflexivity. rewrite IH. reflexivity. Qed.
Lemma nk_skipn_map {A B} (g : A -> B) n l : skipn n (map g l) = map g (skipn n l).
Proof. revert l. induction n as [|n IH]; intros [|x l]; simpl; try reflexivity. apply IH. Qed.
Lemma nk_insert_at_map {A B} (g : A -> B) l i x : map g (nn_insert_at l i x) = nn_insert_at (map g l) i (g x).
Proof. unfold nn_insert_at. rewrite map_app, nk_firstn_map, nk_skipn_map. reflexivity. Qed.
Lemma nk_erase_at_map {A B} (g : A -> B) l i : map g (nn_erase_at l i) = nn_erase_at (map g l) i.
Proof. unfold nn_erase_at. rewrite map_app, nk_firstn_map, nk_skipn_map. reflexivity. Qed.
Lemma nk_last_map {A B} (g : A -> B) l d : last (map g l) (g d) = g (last l d).
Proof. induction l as [|x l IH]; [reflexivity|]. simpl. destruct l; [reflexivity|]. exact IH. Qed.
Lemma nk_filter_map {A B} (g : A -> B) (p1 : A -> bool) (p2 : B -> bool) l :
  (forall x, p2 (g x) = p1 x) -> filter p2 (map g l) = map g (filter p1 l).
Proof.
  intros H. induction l as [|x l IH]; [reflexivity|]. simpl. rewrite H. destruct (p1 x); simpl; rewrite IH; reflexivity.
Qed.
Lemma nk_rev'_map {A B} (g : A -> B) l : rev' (map g l) = map g (rev' l).
Proof. unfold rev'. rewrite <- !rev_alt. symmetry. apply map_rev. Qed.
Lemma nk_hd_error_map {A B} (g : A -> B) l : hd_error (map g l) = option_map g (hd_error l).
Proof. destruct l; reflexivity. Qed.
Lemma nk_match_nil_map {A B C} (g : A -> B) (l : list A) (X Y : C) :
  match map g l with [] => X | _ :: _ => Y end = match l with [] => X | _ :: _ => Y end.
Proof. destruct l; reflexivity. Qed.

(* the part of split() after the halves have been formed, as a function of the halves (nn_split_body = this, by computation) *)
Definition nk_split_tail (K : Type) (kc : K -> K -> comparison) (d dp : nat) (s : nnst K) (pk : Z)
    (is_leaf : bool) (first_node second0 : nnode K) (start_idx : Z) : option (nnst K) :=
  let path := st_path K s in
  let root1 := nn_upd K (st_root K s) (firstn d path) (fun _ => first_node) in
  match nn_get K root1 (firstn dp path) with
  | Some (NInner pl pkids) =>
      if (pk <? 0) || (nn_zlen pkids <? pk + 1) then None else
      let '(second_node, w1) :=
        match nn_first_last K second0 with
        | None => (second0, st_warn K s + 1)
        | Some fl => (nn_set_lim K (Some fl) second0, st_warn K s)
        end in
      let root2 := nn_upd K root1 (firstn dp path)
                     (fun _ => NInner pl (nn_insert_at pkids (Z.to_nat (pk + 1)) second_node)) in
      let '(root3, w3) := match dp with
                          | O => (root2, w1)
                          | S _ => nn_reset_loop K kc dp dp path root2 w1
                          end in
      let '(root4, w4) := nn_reset_loop K kc d d path root3 w3 in
      let old_idx := if is_leaf then 2 * st_item K s
                     else match nn_znth path (Z.of_nat d) with Some x => x | None => 0 end in
      let '(path', item') :=
        if start_idx <=? old_idx then
          let p1 := nn_upd_nth path dp (fun x => x + 1) in
          if is_leaf then (p1, st_item K s - start_idx / 2)
          else (nn_upd_nth p1 d (fun x => x - start_idx), st_item K s)
        else (path, st_item K s) in
      Some (NNSt K root4 path' item' w4)
  | _ => None
  end.

Lemma nk_split_body_eq : forall K kc t dp s,
  nn_split_body K kc t (S dp) s =
  match nn_get K (st_root K s) (firstn (S dp) (st_path K s)), nn_znth (st_path K s) (Z.of_nat dp) with
  | Some (NLeaf l items), Some pk =>
      let st := nn_start_idx (2 * nn_zlen items) in
      let sp := Z.to_nat (st / 2) in
      nk_split_tail K kc (S dp) dp s pk true (NLeaf l (firstn sp items)) (NLeaf None (skipn sp items)) st
  | Some (NInner l kids), Some pk =>
      let st := nn_start_idx (nn_zlen kids) in
      let sp := Z.to_nat st in
      nk_split_tail K kc (S dp) dp s pk false (NInner l (firstn sp kids)) (NInner None (skipn sp kids)) st
  | _, _ => None
  end.
Proof.
  intros K kc t dp s. unfold nn_split_body.
  destruct (nn_get K (st_root K s) (firstn (S dp) (st_path K s))) as [[l items|l kids]|]; [| |reflexivity];
    (destruct (nn_znth (st_path K s) (Z.of_nat dp)) as [pk|]; [|reflexivity]); reflexivity.
Qed.

Section NkNatural.
  Variables K1 K2 : Type.
  Variable c1 : K1 -> K1 -> comparison.
  Variable c2 : K2 -> K2 -> comparison.
  Variable f : K1 -> K2.
  Hypothesis Hf : forall a b, c1 a b = c2 (f a) (f b).

  (* ---------------------------------------------------------------- renaming *)
  Definition nk_mkv (e : K1 * Z) : K2 * Z := (f (fst e), snd e).
  Definition nk_mpair (p : K1 * K1) : K2 * K2 := (f (fst p), f (snd p)).
  Definition nk_mlim (l : option (K1 * K1)) : option (K2 * K2) := option_map nk_mpair l.
  Fixpoint nk_mnode (n : nnode K1) : nnode K2 :=
    match n with
    | NLeaf l items => NLeaf (nk_mlim l) (map nk_mkv items)
    | NInner l kids => NInner (nk_mlim l) (map nk_mnode kids)
    end.
  Definition nk_mst (s : nnst K1) : nnst K2 :=
    NNSt K2 (nk_mnode (st_root K1 s)) (st_path K1 s) (st_item K1 s) (st_warn K1 s).
  Definition nk_mop (op : nnop K1) : nnop K2 :=
    match op with
    | OpInsert k v => OpInsert (f k) v | OpRemove k => OpRemove (f k) | OpFind k => OpFind (f k)
    | OpFindLE k => OpFindLE (f k) | OpBegin => OpBegin | OpLast => OpLast | OpEnd => OpEnd | OpNext => OpNext
    | OpPrev => OpPrev | OpInsAfter k v => OpInsAfter (f k) v | OpIterRemove => OpIterRemove
    end.
  Definition nk_mres (r : nnres K1) : nnres K2 :=
    match r with
    | RIter c => RIter (option_map nk_mkv c) | RRemoved v => RRemoved v | RErr => RErr
    end.
  Definition nk_msm (m : smst K1) : smst K2 :=
    SmSt K2 (map nk_mkv (sm_map K1 m)) (option_map f (sm_cur K1 m)) (sm_unspec K1 m).

  Notation M := nk_mnode.

  (* ---------------------------------------------------------------- tree access *)
  Lemma nk_lim_nat : forall n, nn_lim K2 (M n) = nk_mlim (nn_lim K1 n).
  Proof. intros [l items|l kids]; reflexivity. Qed.
  Lemma nk_set_lim_nat : forall l n, nn_set_lim K2 (nk_mlim l) (M n) = M (nn_set_lim K1 l n).
  Proof. intros l [l0 items|l0 kids]; reflexivity. Qed.
  Lemma nk_get_nat : forall p n, nn_get K2 (M n) p = option_map M (nn_get K1 n p).
  Proof.
    induction p as [|i p IH]; intros n; [reflexivity|]. destruct n as [l items|l kids]; [reflexivity|].
    cbn [nn_get nk_mnode]. rewrite nk_znth_map. destruct (nn_znth kids i) as [k|]; [apply IH|reflexivity].
  Qed.
  Lemma nk_upd_nat : forall (g1 : nnode K1 -> nnode K1) (g2 : nnode K2 -> nnode K2),
    (forall x, g2 (M x) = M (g1 x)) -> forall p n, nn_upd K2 (M n) p g2 = M (nn_upd K1 n p g1).
  Proof.
    intros g1 g2 Hg. induction p as [|i p IH]; intros n; [apply Hg|].
    destruct n as [l items|l kids]; [reflexivity|]. cbn [nn_upd nk_mnode]. destruct (i <? 0); [reflexivity|].
    cbn [nk_mnode]. f_equal. symmetry. apply nk_upd_nth_map. intros x. symmetry. apply IH.
  Qed.
  Lemma nk_height_nat : forall n, nn_height K2 (M n) = nn_height K1 n.
  Proof.
    induction n as [l items|l kids IH] using (nnode_ind' K1); [reflexivity|]. cbn [nn_height nk_mnode]. f_equal.
    induction kids as [|k kids IHk]; [reflexivity|]. inversion IH as [|? ? Hk Hks]; subst. simpl. rewrite Hk, IHk by exact Hks. reflexivity.
  Qed.
  Lemma nk_count_nat : forall n, nn_count K2 (M n) = nn_count K1 n.
  Proof.
    induction n as [l items|l kids IH] using (nnode_ind' K1); [reflexivity|]. cbn [nn_count nk_mnode]. f_equal.
    induction kids as [|k kids IHk]; [reflexivity|]. inversion IH as [|? ? Hk Hks]; subst. simpl. rewrite Hk, IHk by exact Hks. reflexivity.
  Qed.

  (* ---------------------------------------------------------------- resetLimits *)
  Lemma nk_first_last_nat : forall n, nn_first_last K2 (M n) = nk_mlim (nn_first_last K1 n).
  Proof.
    intros [l items|l kids]; cbn [nn_first_last nk_mnode].
    - destruct items as [|[k0 v0] items]; [reflexivity|].
      change (map nk_mkv ((k0, v0) :: items)) with (nk_mkv (k0, v0) :: map nk_mkv items). cbv beta iota.
      change (nk_mkv (k0, v0)) with (f k0, v0) at 1. cbv beta iota.
      change (nk_mkv (k0, v0) :: map nk_mkv items) with (map nk_mkv ((k0, v0) :: items)).
      change (f k0, 0) with (nk_mkv (k0, 0)). rewrite nk_last_map. reflexivity.
    - destruct kids as [|k0 kids]; [reflexivity|]. cbn [map].
      change (M k0 :: map M kids) with (map M (k0 :: kids)). rewrite nk_last_map, !nk_lim_nat.
      destruct (nn_lim K1 k0) as [[a b]|]; [|reflexivity].
      destruct (nn_lim K1 (last (k0 :: kids) k0)) as [[a' b']|]; reflexivity.
  Qed.
  Lemma nk_keq_nat : forall a b, nn_keq K2 c2 (f a) (f b) = nn_keq K1 c1 a b.
  Proof. intros a b. unfold nn_keq. rewrite Hf. reflexivity. Qed.

  Definition nk_mrw (p : nnode K1 * Z) : nnode K2 * Z := (M (fst p), snd p).

  Lemma nk_reset_loop_nat : forall J da path root w,
    nn_reset_loop K2 c2 J da path (M root) w = nk_mrw (nn_reset_loop K1 c1 J da path root w).
  Proof.
    induction J as [|j IH]; intros da path root w.
    - cbn [nn_reset_loop]. unfold nk_mrw. cbn [fst snd]. f_equal.
      apply (nk_upd_nat (nn_set_lim K1 None) (nn_set_lim K2 None)). intros x. apply (nk_set_lim_nat None).
    - cbn [nn_reset_loop]. rewrite nk_get_nat. destruct (nn_get K1 root (firstn da path)) as [a|]; [|reflexivity].
      cbn [option_map]. rewrite nk_first_last_nat.
      destruct (nn_first_last K1 a) as [[fk lk]|]; cbn [nk_mlim option_map nk_mpair fst snd].
      + rewrite nk_lim_nat.
        assert (Hsame : match nk_mlim (nn_lim K1 a) with
                        | Some (of, ol) => nn_keq K2 c2 (f fk) of && nn_keq K2 c2 (f lk) ol
                        | None => false end =
                        match nn_lim K1 a with
                        | Some (of, ol) => nn_keq K1 c1 fk of && nn_keq K1 c1 lk ol
                        | None => false end).
        { destruct (nn_lim K1 a) as [[o1 o2]|]; [|reflexivity]. cbn. rewrite !nk_keq_nat. reflexivity. }
        rewrite Hsame. destruct (match nn_lim K1 a with Some (of, ol) => _ | None => false end); [reflexivity|].
        assert (Hroot : match da with
                        | O => M root
                        | S _ => nn_upd K2 (M root) (firstn da path) (nn_set_lim K2 (Some (f fk, f lk)))
                        end = M (match da with O => root | S _ => nn_upd K1 root (firstn da path) (nn_set_lim K1 (Some (fk, lk))) end)).
        { destruct da; [reflexivity|].
          apply (nk_upd_nat (nn_set_lim K1 (Some (fk, lk))) (nn_set_lim K2 (Some (f fk, f lk)))).
          intros x. apply (nk_set_lim_nat (Some (fk, lk))). }
        rewrite Hroot. destruct j; [reflexivity|]. apply IH.
      + destruct j; [reflexivity|]. apply IH.
  Qed.

  Lemma nk_reset_limits_nat : forall d s, nn_reset_limits K2 c2 d (nk_mst s) = nk_mst (nn_reset_limits K1 c1 d s).
  Proof.
    intros d s. unfold nn_reset_limits. cbn [nk_mst st_path st_root st_warn st_item]. rewrite nk_reset_loop_nat.
    destruct (nn_reset_loop K1 c1 d d (st_path K1 s) (st_root K1 s) (st_warn K1 s)) as [r w]. reflexivity.
  Qed.

  (* ---------------------------------------------------------------- split *)
  Lemma nk_split_tail_nat : forall d dp s pk is_leaf first_node second0 start_idx,
    nk_split_tail K2 c2 d dp (nk_mst s) pk is_leaf (M first_node) (M second0) start_idx =
    option_map nk_mst (nk_split_tail K1 c1 d dp s pk is_leaf first_node second0 start_idx).
  Proof.
    intros d dp [root path item w] pk is_leaf first_node second0 start_idx.
    unfold nk_split_tail, nk_mst. cbn [st_root st_path st_item st_warn]. cbv zeta.
    rewrite (nk_upd_nat (fun _ => first_node) (fun _ => M first_node)) by reflexivity.
    rewrite nk_get_nat.
    destruct (nn_get K1 (nn_upd K1 root (firstn d path) (fun _ => first_node)) (firstn dp path)) as [[l0 items0|pl pkids]|];
      [reflexivity| |reflexivity].
    cbn [option_map nk_mnode]. rewrite nk_zlen_map.
    destruct ((pk <? 0) || (nn_zlen pkids <? pk + 1)); [reflexivity|].
    rewrite nk_first_last_nat.
    assert (Hsec : forall (sn : nnode K1) (w1 : Z),
              (let second_node := M sn in let w1' := w1 in
               let '(root3, w3) :=
                 match dp with
                 | O => (nn_upd K2 (M (nn_upd K1 root (firstn d path) (fun _ => first_node))) (firstn dp path)
                           (fun _ => NInner (nk_mlim pl) (nn_insert_at (map M pkids) (Z.to_nat (pk + 1)) second_node)), w1')
                 | S _ => nn_reset_loop K2 c2 dp dp path
                            (nn_upd K2 (M (nn_upd K1 root (firstn d path) (fun _ => first_node))) (firstn dp path)
                               (fun _ => NInner (nk_mlim pl) (nn_insert_at (map M pkids) (Z.to_nat (pk + 1)) second_node))) w1'
                 end in
               let '(root4, w4) := nn_reset_loop K2 c2 d d path root3 w3 in
               let '(path', item') :=
                 if start_idx <=? (if is_leaf then 2 * item else match nn_znth path (Z.of_nat d) with Some x => x | None => 0 end)
                 then if is_leaf then (nn_upd_nth path dp (fun x => x + 1), item - start_idx / 2)
                      else (nn_upd_nth (nn_upd_nth path dp (fun x => x + 1)) d (fun x => x - start_idx), item)
                 else (path, item) in
               Some (NNSt K2 root4 path' item' w4)) =
              option_map (fun s0 => NNSt K2 (M (st_root K1 s0)) (st_path K1 s0) (st_item K1 s0) (st_warn K1 s0))
               (let '(root3, w3) :=
                 match dp with
                 | O => (nn_upd K1 (nn_upd K1 root (firstn d path) (fun _ => first_node)) (firstn dp path)
                           (fun _ => NInner pl (nn_insert_at pkids (Z.to_nat (pk + 1)) sn)), w1)
                 | S _ => nn_reset_loop K1 c1 dp dp path
                            (nn_upd K1 (nn_upd K1 root (firstn d path) (fun _ => first_node)) (firstn dp path)
                               (fun _ => NInner pl (nn_insert_at pkids (Z.to_nat (pk + 1)) sn))) w1
                 end in
               let '(root4, w4) := nn_reset_loop K1 c1 d d path root3 w3 in
               let '(path', item') :=
                 if start_idx <=? (if is_leaf then 2 * item else match nn_znth path (Z.of_nat d) with Some x => x | None => 0 end)
                 then if is_leaf then (nn_upd_nth path dp (fun x => x + 1), item - start_idx / 2)
                      else (nn_upd_nth (nn_upd_nth path dp (fun x => x + 1)) d (fun x => x - start_idx), item)
                 else (path, item) in
               Some (NNSt K1 root4 path' item' w4))).
    { intros sn w1. cbv zeta.
      rewrite (nk_upd_nat (fun _ => NInner pl (nn_insert_at pkids (Z.to_nat (pk + 1)) sn))
                          (fun _ => NInner (nk_mlim pl) (nn_insert_at (map M pkids) (Z.to_nat (pk + 1)) (M sn))))
        by (intros x; cbn [nk_mnode]; rewrite nk_insert_at_map; reflexivity).
      set (root2 := nn_upd K1 (nn_upd K1 root (firstn d path) (fun _ => first_node)) (firstn dp path)
                      (fun _ => NInner pl (nn_insert_at pkids (Z.to_nat (pk + 1)) sn))).
      assert (H3 : match dp with O => (M root2, w1) | S _ => nn_reset_loop K2 c2 dp dp path (M root2) w1 end =
                   nk_mrw (match dp with O => (root2, w1) | S _ => nn_reset_loop K1 c1 dp dp path root2 w1 end)).
      { destruct dp; [reflexivity|apply nk_reset_loop_nat]. }
      rewrite H3. destruct (match dp with O => (root2, w1) | S _ => nn_reset_loop K1 c1 dp dp path root2 w1 end) as [root3 w3].
      unfold nk_mrw at 1. cbn [fst snd]. rewrite nk_reset_loop_nat.
      destruct (nn_reset_loop K1 c1 d d path root3 w3) as [root4 w4]. unfold nk_mrw. cbn [fst snd].
      destruct (if start_idx <=? (if is_leaf then 2 * item else match nn_znth path (Z.of_nat d) with Some x => x | None => 0 end)
                then if is_leaf then (nn_upd_nth path dp (fun x => x + 1), item - start_idx / 2)
                     else (nn_upd_nth (nn_upd_nth path dp (fun x => x + 1)) d (fun x => x - start_idx), item)
                else (path, item)) as [path' item'].
      reflexivity. }
    destruct (nn_first_last K1 second0) as [fl|]; cbn [nk_mlim option_map].
    - pose proof (nk_set_lim_nat (Some fl) second0) as Hsl. cbn [nk_mlim option_map] in Hsl. rewrite Hsl. apply (Hsec (nn_set_lim K1 (Some fl) second0) w).
    - apply (Hsec second0 (w + 1)).
  Qed.

  Lemma nk_split_body_nat : forall t d s,
    nn_split_body K2 c2 t d (nk_mst s) = option_map nk_mst (nn_split_body K1 c1 t d s).
  Proof.
    intros t [|dp] s; [reflexivity|]. rewrite !nk_split_body_eq.
    cbn [nk_mst st_root st_path]. rewrite nk_get_nat.
    destruct (nn_get K1 (st_root K1 s) (firstn (S dp) (st_path K1 s))) as [[l items|l kids]|]; [| |reflexivity];
      cbn [option_map nk_mnode]; (destruct (nn_znth (st_path K1 s) (Z.of_nat dp)) as [pk|]; [|reflexivity]);
      rewrite nk_zlen_map; cbv zeta; rewrite nk_firstn_map, nk_skipn_map.
    - apply (nk_split_tail_nat (S dp) dp s pk true (NLeaf l (firstn _ items)) (NLeaf None (skipn _ items))).
    - apply (nk_split_tail_nat (S dp) dp s pk false (NInner l (firstn _ kids)) (NInner None (skipn _ kids))).
  Qed.

  Lemma nk_split_needed_nat : forall t n, nn_split_needed K2 t (M n) = nn_split_needed K1 t n.
  Proof.
    intros t [l items|l kids]; cbn [nn_split_needed nk_mnode]; rewrite nk_zlen_map; [destruct items|destruct kids]; reflexivity.
  Qed.

  Lemma nk_split_nat : forall t d s, nn_split K2 c2 t d (nk_mst s) = option_map nk_mst (nn_split K1 c1 t d s).
  Proof.
    intros t. induction d as [|dp IH]; intros s.
    - cbn [nn_split]. change (st_item K2 (nk_mst s)) with (st_item K1 s). destruct (st_item K1 s <? 0); [reflexivity|].
      cbn [nk_mst st_root st_path]. rewrite nk_get_nat.
      destruct (nn_get K1 (st_root K1 s) (firstn 0 (st_path K1 s))) as [node|]; [|reflexivity]. cbn [option_map].
      rewrite nk_split_needed_nat. destruct (nn_split_needed K1 t node) as [[|]|]; [|reflexivity|reflexivity].
      cbn [st_item st_warn]. rewrite (nk_set_lim_nat None).
      apply (nk_split_body_nat t 1 (NNSt K1 (NInner None [nn_set_lim K1 None node]) (0 :: st_path K1 s) (st_item K1 s) (st_warn K1 s))).
    - cbn [nn_split]. change (st_item K2 (nk_mst s)) with (st_item K1 s). destruct (st_item K1 s <? 0); [reflexivity|].
      change (st_root K2 (nk_mst s)) with (M (st_root K1 s)). change (st_path K2 (nk_mst s)) with (st_path K1 s).
      rewrite nk_get_nat.
      destruct (nn_get K1 (st_root K1 s) (firstn (S dp) (st_path K1 s))) as [node|]; [|reflexivity]. cbn [option_map].
      rewrite nk_split_needed_nat. destruct (nn_split_needed K1 t node) as [[|]|]; [|reflexivity|reflexivity].
      rewrite nk_split_body_nat. destruct (nn_split_body K1 c1 t (S dp) s) as [s2|]; [|reflexivity]. cbn [option_map].
      cbn [nk_mst st_root st_path st_item st_warn]. rewrite nk_reset_loop_nat.
      destruct (nn_reset_loop K1 c1 (S dp) dp (st_path K1 s2) (st_root K1 s2) (st_warn K1 s2)) as [r w].
      apply (IH (NNSt K1 r (st_path K1 s2) (st_item K1 s2) w)).
  Qed.

  (* ---------------------------------------------------------------- deepen / increment *)
  Lemma nk_deepen_nat : forall fuel first ae node opath rpath s,
    nn_deepen K2 fuel first ae (M node) opath rpath (nk_mst s) =
    (fst (nn_deepen K1 fuel first ae node opath rpath s), nk_mst (snd (nn_deepen K1 fuel first ae node opath rpath s))).
  Proof.
    induction fuel as [|fu IH]; intros first ae node opath rpath s; [reflexivity|].
    destruct node as [l items|l kids]; cbn [nn_deepen nk_mnode].
    - destruct items as [|it items]; [destruct ae; reflexivity|]. cbn [map].
      change (nk_mkv it :: map nk_mkv items) with (map nk_mkv (it :: items)). rewrite nk_zlen_map. reflexivity.
    - destruct kids as [|k kids]; [reflexivity|]. cbn [map]. cbv zeta.
      change (M k :: map M kids) with (map M (k :: kids)). rewrite nk_zlen_map, nk_znth_map.
      destruct (nn_znth (k :: kids) (if first then 0 else nn_zlen (k :: kids) - 1)) as [next|]; cbn [option_map]; [apply IH|reflexivity].
  Qed.

  Lemma nk_deepen_root_nat : forall first ae s,
    nn_deepen_root K2 first ae (nk_mst s) =
    (fst (nn_deepen_root K1 first ae s), nk_mst (snd (nn_deepen_root K1 first ae s))).
  Proof.
    intros first ae s. unfold nn_deepen_root. change (st_path K2 (nk_mst s)) with (st_path K1 s).
    destruct (st_path K1 s); [|reflexivity]. change (st_root K2 (nk_mst s)) with (M (st_root K1 s)).
    rewrite nk_height_nat. apply nk_deepen_nat.
  Qed.

  Lemma nk_next_leaf_nat : forall fuel backward rpath s,
    nn_next_leaf K2 fuel backward rpath (nk_mst s) = nk_mst (nn_next_leaf K1 fuel backward rpath s).
  Proof.
    induction fuel as [|fu IH]; intros backward rpath s; [reflexivity|].
    cbn [nn_next_leaf]. destruct rpath as [|kn rp]; [reflexivity|]. cbv zeta.
    change (st_root K2 (nk_mst s)) with (M (st_root K1 s)). rewrite nk_get_nat.
    destruct (nn_get K1 (st_root K1 s) (rev' rp)) as [[l items|l kids]|]; cbn [option_map nk_mnode]; try reflexivity.
    rewrite nk_znth_map.
    destruct (nn_znth kids (if backward then kn - 1 else kn + 1)) as [kid|]; cbn [option_map]; [|apply IH].
    rewrite nk_height_nat.
    change (st_with_iter K2 (nk_mst s) (rev' ((if backward then kn - 1 else kn + 1) :: rp)) (-1))
      with (nk_mst (st_with_iter K1 s (rev' ((if backward then kn - 1 else kn + 1) :: rp)) (-1))).
    rewrite nk_deepen_nat.
    destruct (nn_deepen K1 (nn_height K1 kid) (negb backward) false kid (rev' ((if backward then kn - 1 else kn + 1) :: rp))
                ((if backward then kn - 1 else kn + 1) :: rp)
                (st_with_iter K1 s (rev' ((if backward then kn - 1 else kn + 1) :: rp)) (-1))) as [ok s'].
    cbn [fst snd]. destruct ok; [reflexivity|apply IH].
  Qed.

  Lemma nk_leaf_items_nat : forall s, nn_leaf_items K2 (nk_mst s) = option_map (map nk_mkv) (nn_leaf_items K1 s).
  Proof.
    intros s. unfold nn_leaf_items. change (st_root K2 (nk_mst s)) with (M (st_root K1 s)).
    change (st_path K2 (nk_mst s)) with (st_path K1 s). rewrite nk_get_nat.
    destruct (nn_get K1 (st_root K1 s) (st_path K1 s)) as [[l items|l kids]|]; reflexivity.
  Qed.

  Lemma nk_increment_nat : forall backward s, nn_increment K2 backward (nk_mst s) = nk_mst (nn_increment K1 backward s).
  Proof.
    intros backward s. unfold nn_increment. change (st_item K2 (nk_mst s)) with (st_item K1 s).
    destruct (st_item K1 s <? 0).
    - change (st_with_iter K2 (nk_mst s) [] (st_item K1 s)) with (nk_mst (st_with_iter K1 s [] (st_item K1 s))).
      rewrite nk_deepen_root_nat. reflexivity.
    - rewrite nk_leaf_items_nat. destruct (nn_leaf_items K1 s) as [items|]; cbn [option_map]; [|reflexivity].
      rewrite nk_zlen_map. cbv zeta.
      destruct (((if backward then st_item K1 s - 1 else st_item K1 s + 1) <? 0)
                || (nn_zlen items <=? (if backward then st_item K1 s - 1 else st_item K1 s + 1))); [|reflexivity].
      change (st_root K2 (nk_mst s)) with (M (st_root K1 s)). rewrite nk_count_nat.
      change (st_path K2 (nk_mst s)) with (st_path K1 s).
      apply (nk_next_leaf_nat _ _ _ (st_with_iter K1 s (st_path K1 s) (-1))).
  Qed.

  (* ---------------------------------------------------------------- binarySearch / find *)
  Lemma nk_bs_loop_ext : forall checks n (g1 g2 : Z -> option comparison) step idx found,
    (forall i, g1 i = g2 i) -> nn_bs_loop checks n g1 step idx found = nn_bs_loop checks n g2 step idx found.
  Proof.
    induction checks as [|c IH]; intros n g1 g2 step idx found H; [reflexivity|]. cbn [nn_bs_loop]. cbv zeta. rewrite H.
    destruct (idx <? n); [destruct (g2 idx) as [[| |]|]|]; try reflexivity; apply IH; exact H.
  Qed.
  Lemma nk_binsearch_ext : forall n (g1 g2 : Z -> option comparison) prev,
    (forall i, g1 i = g2 i) -> nn_binsearch n g1 prev = nn_binsearch n g2 prev.
  Proof. intros n g1 g2 prev H. unfold nn_binsearch. rewrite (nk_bs_loop_ext _ _ g1 g2) by exact H. reflexivity. Qed.
  Lemma nk_cmp_item_nat : forall key items idx,
    nn_cmp_item K2 c2 (f key) (map nk_mkv items) idx = nn_cmp_item K1 c1 key items idx.
  Proof.
    intros key items idx. unfold nn_cmp_item. rewrite nk_znth_map.
    destruct (nn_znth items idx) as [[k v]|]; cbn [option_map nk_mkv fst]; [rewrite <- Hf|]; reflexivity.
  Qed.
  Lemma nk_cmp_kid_nat : forall key kids idx,
    nn_cmp_kid K2 c2 (f key) (map M kids) idx = nn_cmp_kid K1 c1 key kids idx.
  Proof.
    intros key kids idx. unfold nn_cmp_kid. rewrite nk_znth_map.
    destruct (nn_znth kids idx) as [kid|]; cbn [option_map]; [|reflexivity]. rewrite nk_lim_nat.
    destruct (nn_lim K1 kid) as [[lo hi]|]; cbn [nk_mlim option_map nk_mpair fst snd]; [rewrite <- !Hf|]; reflexivity.
  Qed.

  Lemma nk_begin_nat : forall s, nn_begin K2 (nk_mst s) = nk_mst (nn_begin K1 s).
  Proof.
    intros s. unfold nn_begin. change (nn_fresh K2 (nk_mst s)) with (nk_mst (nn_fresh K1 s)).
    rewrite nk_deepen_root_nat. reflexivity.
  Qed.
  Lemma nk_last_nat : forall s, nn_last K2 (nk_mst s) = nk_mst (nn_last K1 s).
  Proof.
    intros s. unfold nn_last. change (nn_fresh K2 (nk_mst s)) with (nk_mst (nn_fresh K1 s)).
    rewrite nk_deepen_root_nat. reflexivity.
  Qed.
  Lemma nk_cur_nat : forall s, nn_cur K2 (nk_mst s) = option_map nk_mkv (nn_cur K1 s).
  Proof.
    intros s. unfold nn_cur. change (st_item K2 (nk_mst s)) with (st_item K1 s).
    destruct (st_item K1 s <? 0); [reflexivity|]. rewrite nk_leaf_items_nat.
    destruct (nn_leaf_items K1 s) as [items|]; cbn [option_map]; [apply nk_znth_map|reflexivity].
  Qed.

  Lemma nk_find_loop_nat : forall fuel key prev node rpath s,
    nn_find_loop K2 c2 fuel (f key) prev (M node) rpath (nk_mst s) =
    option_map nk_mst (nn_find_loop K1 c1 fuel key prev node rpath s).
  Proof.
    induction fuel as [|fu IH]; intros key prev node rpath s; [reflexivity|].
    destruct node as [l items|l kids]; cbn [nn_find_loop nk_mnode].
    - destruct items as [|it items]; [reflexivity|]. cbn [map].
      change (nk_mkv it :: map nk_mkv items) with (map nk_mkv (it :: items)). rewrite nk_zlen_map.
      rewrite (nk_binsearch_ext _ (nn_cmp_item K2 c2 (f key) (map nk_mkv (it :: items))) (nn_cmp_item K1 c1 key (it :: items)))
        by (intros i; apply nk_cmp_item_nat).
      destruct (nn_binsearch (nn_zlen (it :: items)) (nn_cmp_item K1 c1 key (it :: items)) prev); reflexivity.
    - destruct kids as [|k kids]; [reflexivity|]. cbn [map].
      change (M k :: map M kids) with (map M (k :: kids)). rewrite nk_zlen_map.
      rewrite (nk_binsearch_ext _ (nn_cmp_kid K2 c2 (f key) (map M (k :: kids))) (nn_cmp_kid K1 c1 key (k :: kids)))
        by (intros i; apply nk_cmp_kid_nat).
      destruct (nn_binsearch (nn_zlen (k :: kids)) (nn_cmp_kid K1 c1 key (k :: kids)) true) as [idx|]; [|reflexivity].
      destruct (idx <? 0); [reflexivity|]. rewrite nk_znth_map.
      destruct (nn_znth (k :: kids) idx) as [kid|]; cbn [option_map]; [apply IH|reflexivity].
  Qed.

  Lemma nk_find_nat : forall key prev s,
    nn_find K2 c2 (f key) prev (nk_mst s) = option_map nk_mst (nn_find K1 c1 key prev s).
  Proof.
    intros key prev s. unfold nn_find. cbv zeta. rewrite nk_begin_nat. rewrite nk_cur_nat.
    destruct (nn_cur K1 (nn_begin K1 s)) as [[k0 v0]|]; cbn [option_map nk_mkv fst]; [|reflexivity].
    rewrite <- Hf. change (st_root K2 (nk_mst (nn_begin K1 s))) with (M (st_root K1 (nn_begin K1 s))).
    rewrite nk_height_nat. change (nn_fresh K2 (nk_mst (nn_begin K1 s))) with (nk_mst (nn_fresh K1 (nn_begin K1 s))).
    destruct (c1 key k0); try reflexivity; apply nk_find_loop_nat.
  Qed.

  (* ---------------------------------------------------------------- insert *)
  Lemma nk_set_items_nat : forall items n, nn_set_items K2 (map nk_mkv items) (M n) = M (nn_set_items K1 items n).
  Proof. intros items [l i0|l kids]; reflexivity. Qed.

  Lemma nk_insert_first_nat : forall t key v s,
    nn_insert_first K2 c2 t (f key) v (nk_mst s) = option_map nk_mst (nn_insert_first K1 c1 t key v s).
  Proof.
    intros t key v s. unfold nn_insert_first. cbv zeta. rewrite nk_begin_nat. rewrite nk_leaf_items_nat.
    destruct (nn_leaf_items K1 (nn_begin K1 s)) as [items|]; cbn [option_map]; [|reflexivity].
    set (b := nn_begin K1 s).
    change (st_root K2 (nk_mst b)) with (M (st_root K1 b)). change (st_path K2 (nk_mst b)) with (st_path K1 b).
    change (st_warn K2 (nk_mst b)) with (st_warn K1 b).
    change ((f key, v) :: map nk_mkv items) with (map nk_mkv ((key, v) :: items)).
    rewrite (nk_upd_nat (nn_set_items K1 ((key, v) :: items)) (nn_set_items K2 (map nk_mkv ((key, v) :: items))))
      by (intros x; apply nk_set_items_nat).
    change (NNSt K2 (M (nn_upd K1 (st_root K1 b) (st_path K1 b) (nn_set_items K1 ((key, v) :: items)))) (st_path K1 b) 0 (st_warn K1 b))
      with (nk_mst (NNSt K1 (nn_upd K1 (st_root K1 b) (st_path K1 b) (nn_set_items K1 ((key, v) :: items))) (st_path K1 b) 0 (st_warn K1 b))).
    rewrite nk_reset_limits_nat. apply nk_split_nat.
  Qed.

  Lemma nk_insert_after_nat : forall t key v s,
    nn_insert_after K2 c2 t (f key) v (nk_mst s) = option_map nk_mst (nn_insert_after K1 c1 t key v s).
  Proof.
    intros t key v s. unfold nn_insert_after. change (st_item K2 (nk_mst s)) with (st_item K1 s).
    destruct (st_item K1 s <? 0).
    - rewrite nk_insert_first_nat. destruct (nn_insert_first K1 c1 t key v s) as [s1|]; cbn [option_map]; [|reflexivity].
      cbv zeta. f_equal.
      change (NNSt K2 (st_root K2 (nk_mst s1)) [] (st_item K1 s) (st_warn K2 (nk_mst s1)))
        with (nk_mst (NNSt K1 (st_root K1 s1) [] (st_item K1 s) (st_warn K1 s1))).
      change (st_root K2 (nk_mst (NNSt K1 (st_root K1 s1) [] (st_item K1 s) (st_warn K1 s1)))) with (M (st_root K1 s1)).
      rewrite nk_height_nat, nk_deepen_nat. reflexivity.
    - rewrite nk_leaf_items_nat. destruct (nn_leaf_items K1 s) as [items|]; cbn [option_map]; [|reflexivity].
      rewrite nk_zlen_map. destruct (nn_zlen items <? st_item K1 s + 1); [reflexivity|]. cbv zeta.
      change (f key, v) with (nk_mkv (key, v)). rewrite <- nk_insert_at_map.
      change (st_root K2 (nk_mst s)) with (M (st_root K1 s)). change (st_path K2 (nk_mst s)) with (st_path K1 s).
      rewrite (nk_upd_nat (nn_set_items K1 (nn_insert_at items (Z.to_nat (st_item K1 s + 1)) (key, v)))
                          (nn_set_items K2 (map nk_mkv (nn_insert_at items (Z.to_nat (st_item K1 s + 1)) (key, v)))))
        by (intros x; apply nk_set_items_nat).
      change (st_with_root K2 (nk_mst s) (M (nn_upd K1 (st_root K1 s) (st_path K1 s)
                 (nn_set_items K1 (nn_insert_at items (Z.to_nat (st_item K1 s + 1)) (key, v))))))
        with (nk_mst (st_with_root K1 s (nn_upd K1 (st_root K1 s) (st_path K1 s)
                 (nn_set_items K1 (nn_insert_at items (Z.to_nat (st_item K1 s + 1)) (key, v)))))).
      rewrite nk_reset_limits_nat, nk_split_nat.
      destruct (nn_split K1 c1 t (length (st_path K1 s)) _) as [s2|]; cbn [option_map]; [rewrite nk_increment_nat|]; reflexivity.
  Qed.

  Lemma nk_insert_nat : forall t key v s,
    nn_insert K2 c2 t (f key) v (nk_mst s) = option_map nk_mst (nn_insert K1 c1 t key v s).
  Proof.
    intros t key v s. unfold nn_insert. rewrite nk_find_nat.
    destruct (nn_find K1 c1 key true s) as [it|]; cbn [option_map]; [|reflexivity]. rewrite nk_cur_nat.
    destruct (nn_cur K1 it) as [[k v0]|]; cbn [option_map nk_mkv fst].
    - rewrite <- Hf. destruct (c1 key k); [|apply nk_insert_after_nat|apply nk_insert_after_nat].
      rewrite nk_leaf_items_nat. destruct (nn_leaf_items K1 it) as [items|]; cbn [option_map]; [|reflexivity]. cbv zeta. f_equal.
      change (st_item K2 (nk_mst it)) with (st_item K1 it).
      change (st_root K2 (nk_mst it)) with (M (st_root K1 it)). change (st_path K2 (nk_mst it)) with (st_path K1 it).
      rewrite <- (nk_upd_nth_map nk_mkv (fun kv : K1 * Z => (fst kv, v)) (fun kv : K2 * Z => (fst kv, v))) by (intros x; reflexivity).
      rewrite (nk_upd_nat (nn_set_items K1 (nn_upd_nth items (Z.to_nat (st_item K1 it)) (fun kv => (fst kv, v))))
                          (nn_set_items K2 (map nk_mkv (nn_upd_nth items (Z.to_nat (st_item K1 it)) (fun kv => (fst kv, v))))))
        by (intros x; apply nk_set_items_nat).
      reflexivity.
    - change (st_item K2 (nk_mst it)) with (st_item K1 it). destruct (st_item K1 it <? 0); [apply nk_insert_first_nat|reflexivity].
  Qed.

  (* ---------------------------------------------------------------- remove *)
  Lemma nk_remove_up_nat : forall fuel rpath s,
    nn_remove_up K2 c2 fuel rpath (nk_mst s) = option_map nk_mst (nn_remove_up K1 c1 fuel rpath s).
  Proof.
    induction fuel as [|fu IH]; intros rpath s; [reflexivity|].
    cbn [nn_remove_up]. destruct rpath as [|kn rp]; [reflexivity|]. cbv zeta.
    change (st_root K2 (nk_mst s)) with (M (st_root K1 s)). change (st_warn K2 (nk_mst s)) with (st_warn K1 s).
    rewrite nk_get_nat.
    destruct (nn_get K1 (st_root K1 s) (rev' rp)) as [[l items|l kids]|]; cbn [option_map nk_mnode]; try reflexivity.
    destruct (kn <? 0); [reflexivity|].
    rewrite <- nk_erase_at_map, nk_zlen_map.
    rewrite (nk_upd_nat (fun _ => NInner l (nn_erase_at kids (Z.to_nat kn)))
                        (fun _ => NInner (nk_mlim l) (map M (nn_erase_at kids (Z.to_nat kn))))) by reflexivity.
    set (r1 := nn_upd K1 (st_root K1 s) (rev' rp) (fun _ => NInner l (nn_erase_at kids (Z.to_nat kn)))).
    set (nkids := nn_zlen (nn_erase_at kids (Z.to_nat kn))).
    destruct (0 <? nkids).
    - assert (H2 : (if (kn =? 0) || (kn =? nkids)
                    then nn_reset_loop K2 c2 (length rp) (length rp) (rev' (kn :: rp)) (M r1) (st_warn K1 s)
                    else (M r1, st_warn K1 s)) =
                   nk_mrw (if (kn =? 0) || (kn =? nkids)
                           then nn_reset_loop K1 c1 (length rp) (length rp) (rev' (kn :: rp)) r1 (st_warn K1 s)
                           else (r1, st_warn K1 s))).
      { destruct ((kn =? 0) || (kn =? nkids)); [apply nk_reset_loop_nat|reflexivity]. }
      rewrite H2.
      destruct (if (kn =? 0) || (kn =? nkids)
                then nn_reset_loop K1 c1 (length rp) (length rp) (rev' (kn :: rp)) r1 (st_warn K1 s)
                else (r1, st_warn K1 s)) as [r2 w2].
      unfold nk_mrw. cbn [fst snd]. destruct (kn =? nkids).
      + rewrite nk_get_nat. destruct (nn_get K1 r2 (rev' (kn - 1 :: rp))) as [kid|]; cbn [option_map]; [|reflexivity].
        rewrite nk_height_nat.
        change (st_with_iter K2 (NNSt K2 (M r2) (rev' (kn :: rp)) (-1) w2) (rev' (kn - 1 :: rp)) (-1))
          with (nk_mst (st_with_iter K1 (NNSt K1 r2 (rev' (kn :: rp)) (-1) w2) (rev' (kn - 1 :: rp)) (-1))).
        rewrite nk_deepen_nat.
        destruct (nn_deepen K1 (nn_height K1 kid) false true kid (rev' (kn - 1 :: rp)) (kn - 1 :: rp)
                    (st_with_iter K1 (NNSt K1 r2 (rev' (kn :: rp)) (-1) w2) (rev' (kn - 1 :: rp)) (-1))) as [ok s3].
        cbn [fst snd]. change (st_item K2 (nk_mst s3)) with (st_item K1 s3).
        destruct (0 <=? st_item K1 s3); [rewrite nk_increment_nat|]; reflexivity.
      + rewrite nk_get_nat. destruct (nn_get K1 r2 (rev' (kn :: rp))) as [kid|]; cbn [option_map]; [|reflexivity].
        rewrite nk_height_nat.
        change (st_with_iter K2 (NNSt K2 (M r2) (rev' (kn :: rp)) (-1) w2) (rev' (kn :: rp)) (-1))
          with (nk_mst (st_with_iter K1 (NNSt K1 r2 (rev' (kn :: rp)) (-1) w2) (rev' (kn :: rp)) (-1))).
        rewrite nk_deepen_nat. reflexivity.
    - destruct rp as [|k' rp']; [reflexivity|].
      change (st_with_root K2 (nk_mst s) (M r1)) with (nk_mst (st_with_root K1 s r1)). apply IH.
  Qed.

  Lemma nk_iter_remove_nat : forall s, nn_iter_remove K2 c2 (nk_mst s) = option_map nk_mst (nn_iter_remove K1 c1 s).
  Proof.
    intros s. unfold nn_iter_remove. change (st_item K2 (nk_mst s)) with (st_item K1 s).
    destruct (st_item K1 s <? 0); [reflexivity|]. rewrite nk_leaf_items_nat.
    destruct (nn_leaf_items K1 s) as [items|]; cbn [option_map]; [|reflexivity]. rewrite nk_zlen_map.
    destruct (nn_zlen items <? st_item K1 s + 1); [reflexivity|]. cbv zeta.
    rewrite <- nk_erase_at_map, nk_zlen_map.
    change (st_root K2 (nk_mst s)) with (M (st_root K1 s)). change (st_path K2 (nk_mst s)) with (st_path K1 s).
    rewrite (nk_upd_nat (nn_set_items K1 (nn_erase_at items (Z.to_nat (st_item K1 s))))
                        (nn_set_items K2 (map nk_mkv (nn_erase_at items (Z.to_nat (st_item K1 s))))))
      by (intros x; apply nk_set_items_nat).
    set (r := nn_upd K1 (st_root K1 s) (st_path K1 s) (nn_set_items K1 (nn_erase_at items (Z.to_nat (st_item K1 s))))).
    set (n' := nn_zlen (nn_erase_at items (Z.to_nat (st_item K1 s)))).
    change (st_with_root K2 (nk_mst s) (M r)) with (nk_mst (st_with_root K1 s r)).
    destruct (0 <? n').
    - assert (H2 : (if (st_item K1 s =? 0) || (st_item K1 s =? n')
                    then nn_reset_limits K2 c2 (length (st_path K1 s)) (nk_mst (st_with_root K1 s r))
                    else nk_mst (st_with_root K1 s r)) =
                   nk_mst (if (st_item K1 s =? 0) || (st_item K1 s =? n')
                           then nn_reset_limits K1 c1 (length (st_path K1 s)) (st_with_root K1 s r)
                           else st_with_root K1 s r)).
      { destruct ((st_item K1 s =? 0) || (st_item K1 s =? n')); [apply nk_reset_limits_nat|reflexivity]. }
      rewrite H2.
      set (s2 := if (st_item K1 s =? 0) || (st_item K1 s =? n')
                 then nn_reset_limits K1 c1 (length (st_path K1 s)) (st_with_root K1 s r) else st_with_root K1 s r).
      destruct (st_item K1 s =? n'); [|reflexivity]. cbn [option_map]. f_equal.
      change (st_with_iter K2 (nk_mst s2) (st_path K2 (nk_mst s2)) (st_item K1 s - 1))
        with (nk_mst (st_with_iter K1 s2 (st_path K1 s2) (st_item K1 s - 1))).
      apply nk_increment_nat.
    - destruct (st_path K1 s) as [|p0 ps] eqn:Ep; [reflexivity|].
      apply (nk_remove_up_nat (S (length (p0 :: ps))) (rev' (p0 :: ps)) (st_with_root K1 s r)).
  Qed.

  Definition nk_mrem (p : option Z * nnst K1) : option Z * nnst K2 := (fst p, nk_mst (snd p)).

  Lemma nk_remove_nat : forall key s,
    nn_remove K2 c2 (f key) (nk_mst s) = option_map nk_mrem (nn_remove K1 c1 key s).
  Proof.
    intros key s. unfold nn_remove. rewrite nk_find_nat.
    destruct (nn_find K1 c1 key false s) as [it|]; cbn [option_map]; [|reflexivity]. rewrite nk_cur_nat.
    destruct (nn_cur K1 it) as [[k v]|]; cbn [option_map nk_mkv snd].
    - rewrite nk_iter_remove_nat. destruct (nn_iter_remove K1 c1 it); reflexivity.
    - change (st_item K2 (nk_mst it)) with (st_item K1 it). destruct (st_item K1 it <? 0); reflexivity.
  Qed.

  (* ---------------------------------------------------------------- one call, histories *)
  Definition nk_mstep (p : nnres K1 * nnst K1) : nnres K2 * nnst K2 := (nk_mres (fst p), nk_mst (snd p)).

  Lemma nk_step_nat : forall t op s,
    nn_step K2 c2 t (nk_mop op) (nk_mst s) = nk_mstep (nn_step K1 c1 t op s).
  Proof.
    intros t op s.
    assert (Hit : forall (r : option (nnst K1)),
              match option_map nk_mst r with
              | Some s' => (RIter (nn_cur K2 s'), s') | None => (RErr, nk_mst s) end =
              nk_mstep (match r with Some s' => (RIter (nn_cur K1 s'), s') | None => (RErr, s) end)).
    { intros [s'|]; [|reflexivity]. cbn [option_map]. rewrite nk_cur_nat. reflexivity. }
    destruct op as [k v|k|k|k| | | | | |k v|]; cbn [nn_step nk_mop].
    - rewrite nk_insert_nat. apply Hit.
    - rewrite nk_remove_nat. destruct (nn_remove K1 c1 k s) as [[v s']|]; reflexivity.
    - rewrite nk_find_nat. apply Hit.
    - rewrite nk_find_nat. apply Hit.
    - rewrite nk_begin_nat. apply (Hit (Some (nn_begin K1 s))).
    - rewrite nk_last_nat. apply (Hit (Some (nn_last K1 s))).
    - change (nn_fresh K2 (nk_mst s)) with (nk_mst (nn_fresh K1 s)). apply (Hit (Some (nn_fresh K1 s))).
    - rewrite nk_increment_nat. apply (Hit (Some (nn_increment K1 false s))).
    - rewrite nk_increment_nat. apply (Hit (Some (nn_increment K1 true s))).
    - rewrite nk_insert_after_nat. apply Hit.
    - rewrite nk_iter_remove_nat. apply Hit.
  Qed.

  Lemma nk_final_nat : forall t ops s,
    nn_final K2 c2 t (map nk_mop ops) (nk_mst s) = nk_mst (nn_final K1 c1 t ops s).
  Proof.
    intros t. induction ops as [|op ops IH]; intros s; [reflexivity|]. cbn [nn_final map].
    rewrite nk_step_nat. unfold nk_mstep. cbn [snd]. apply IH.
  Qed.

  (* ---------------------------------------------------------------- the specification *)
  Lemma nk_klt_nat : forall a b, k_lt K2 c2 (f a) (f b) = k_lt K1 c1 a b.
  Proof. intros a b. unfold k_lt. rewrite <- Hf. reflexivity. Qed.
  Lemma nk_keq'_nat : forall a b, k_eq K2 c2 (f a) (f b) = k_eq K1 c1 a b.
  Proof. intros a b. unfold k_eq. rewrite <- Hf. reflexivity. Qed.

  Notation MM := (map nk_mkv).

  Lemma nk_below_nat : forall k m, sm_below K2 c2 (f k) (MM m) = MM (sm_below K1 c1 k m).
  Proof. intros k m. unfold sm_below. apply nk_filter_map. intros [a v]. apply nk_klt_nat. Qed.
  Lemma nk_above_nat : forall k m, sm_above K2 c2 (f k) (MM m) = MM (sm_above K1 c1 k m).
  Proof. intros k m. unfold sm_above. apply nk_filter_map. intros [a v]. apply nk_klt_nat. Qed.
  Lemma nk_at_nat : forall k m, sm_at K2 c2 (f k) (MM m) = option_map nk_mkv (sm_at K1 c1 k m).
  Proof.
    intros k m. unfold sm_at. rewrite (nk_filter_map nk_mkv (fun e => k_eq K1 c1 (fst e) k)) by (intros [a v]; apply nk_keq'_nat).
    apply nk_hd_error_map.
  Qed.
  Lemma nk_sm_insert_nat : forall k v m, sm_insert K2 c2 (f k) v (MM m) = MM (sm_insert K1 c1 k v m).
  Proof. intros k v m. unfold sm_insert. rewrite nk_below_nat, nk_above_nat, map_app. reflexivity. Qed.
  Lemma nk_sm_remove_nat : forall k m, sm_remove K2 c2 (f k) (MM m) = MM (sm_remove K1 c1 k m).
  Proof. intros k m. unfold sm_remove. rewrite nk_below_nat, nk_above_nat, map_app. reflexivity. Qed.
  Lemma nk_sm_first_nat : forall m, sm_first K2 (MM m) = option_map nk_mkv (sm_first K1 m).
  Proof. intros m. apply nk_hd_error_map. Qed.
  Lemma nk_sm_last_nat : forall m, sm_last K2 (MM m) = option_map nk_mkv (sm_last K1 m).
  Proof. intros m. unfold sm_last. rewrite nk_rev'_map. apply nk_hd_error_map. Qed.
  Lemma nk_sm_succ_nat : forall k m, sm_succ K2 c2 (f k) (MM m) = option_map nk_mkv (sm_succ K1 c1 k m).
  Proof. intros k m. unfold sm_succ. rewrite nk_above_nat. apply nk_sm_first_nat. Qed.
  Lemma nk_sm_pred_nat : forall k m, sm_pred K2 c2 (f k) (MM m) = option_map nk_mkv (sm_pred K1 c1 k m).
  Proof. intros k m. unfold sm_pred. rewrite nk_below_nat. apply nk_sm_last_nat. Qed.
  Lemma nk_sm_floor_nat : forall k m, sm_floor K2 c2 (f k) (MM m) = option_map nk_mkv (sm_floor K1 c1 k m).
  Proof.
    intros k m. unfold sm_floor. rewrite nk_at_nat. destruct (sm_at K1 c1 k m); [reflexivity|]. apply nk_sm_pred_nat.
  Qed.
  Lemma nk_sm_sorted_nat : forall m, sm_sorted K2 c2 (MM m) = sm_sorted K1 c1 m.
  Proof.
    induction m as [|[a v] m IH]; [reflexivity|]. destruct m as [|[b w] m]; [reflexivity|].
    change (sm_sorted K2 c2 (MM ((a, v) :: (b, w) :: m))) with (k_lt K2 c2 (f a) (f b) && sm_sorted K2 c2 (MM ((b, w) :: m))).
    rewrite IH, nk_klt_nat. reflexivity.
  Qed.

  Definition nk_msstep (p : nnres K1 * smst K1) : nnres K2 * smst K2 := (nk_mres (fst p), nk_msm (snd p)).

  Lemma nk_sm_step_nat : forall op m, sm_step K2 c2 (nk_mop op) (nk_msm m) = nk_msstep (sm_step K1 c1 op m).
  Proof.
    intros op [m c u].
    assert (Hgoto : forall (e : option (K1 * Z)) (m' : smap K1),
              (RIter (option_map nk_mkv e), SmSt K2 (MM m') (option_map fst (option_map nk_mkv e)) u) =
              nk_msstep (RIter e, SmSt K1 m' (option_map fst e) u)).
    { intros [[k v]|] m'; reflexivity. }
    destruct op as [k v|k|k|k| | | | | |k v|]; unfold sm_step, nk_msm; cbn [nk_mop sm_map sm_cur sm_unspec].
    - rewrite nk_sm_insert_nat. apply (Hgoto (Some (k, v))).
    - rewrite nk_sm_remove_nat, nk_at_nat. unfold nk_msstep, nk_msm. cbn [fst snd sm_map sm_cur sm_unspec nk_mres option_map].
      destruct (sm_at K1 c1 k m) as [[a b]|]; reflexivity.
    - rewrite nk_at_nat. apply Hgoto.
    - rewrite nk_sm_floor_nat. apply Hgoto.
    - rewrite nk_sm_first_nat. apply Hgoto.
    - rewrite nk_sm_last_nat. apply Hgoto.
    - apply (Hgoto None).
    - destruct c as [c|]; cbn [option_map]; [rewrite nk_sm_succ_nat|rewrite nk_sm_first_nat]; apply Hgoto.
    - destruct c as [c|]; cbn [option_map]; [rewrite nk_sm_pred_nat|rewrite nk_sm_last_nat]; apply Hgoto.
    - assert (Hfits : match option_map f c with
                      | None => match sm_first K2 (MM m) with Some (f0, _) => k_lt K2 c2 (f k) f0 | None => true end
                      | Some c0 => k_lt K2 c2 c0 (f k) && match sm_succ K2 c2 c0 (MM m) with Some (n, _) => k_lt K2 c2 (f k) n | None => true end
                      end =
                      match c with
                      | None => match sm_first K1 m with Some (f0, _) => k_lt K1 c1 k f0 | None => true end
                      | Some c0 => k_lt K1 c1 c0 k && match sm_succ K1 c1 c0 m with Some (n, _) => k_lt K1 c1 k n | None => true end
                      end).
      { destruct c as [c0|]; cbn [option_map].
        - rewrite nk_sm_succ_nat, nk_klt_nat. destruct (sm_succ K1 c1 c0 m) as [[n vn]|]; cbn [option_map nk_mkv fst]; [rewrite nk_klt_nat|]; reflexivity.
        - rewrite nk_sm_first_nat. destruct (sm_first K1 m) as [[f0 v0]|]; cbn [option_map nk_mkv fst]; [rewrite nk_klt_nat|]; reflexivity. }
      rewrite Hfits.
      destruct (match c with
                | None => match sm_first K1 m with Some (f0, _) => k_lt K1 c1 k f0 | None => true end
                | Some c0 => k_lt K1 c1 c0 k && match sm_succ K1 c1 c0 m with Some (n, _) => k_lt K1 c1 k n | None => true end
                end).
      + rewrite nk_sm_insert_nat. apply (Hgoto (Some (k, v))).
      + reflexivity.
    - destruct c as [c|]; cbn [option_map]; [|reflexivity]. rewrite nk_sm_succ_nat, nk_sm_remove_nat. apply Hgoto.
  Qed.

  Lemma nk_abs_nat : forall n, nn_abs K2 (M n) = MM (nn_abs K1 n).
  Proof.
    induction n as [l items|l kids IH] using (nnode_ind' K1); [reflexivity|]. cbn [nn_abs nk_mnode].
    induction kids as [|k kids IHk]; [reflexivity|]. inversion IH as [|? ? Hk Hks]; subst. cbn [map flat_map].
    rewrite Hk, IHk by exact Hks. rewrite map_app. reflexivity.
  Qed.
  Lemma nk_flat_abs_nat : forall kids, flat_map (nn_abs K2) (map M kids) = MM (flat_map (nn_abs K1) kids).
  Proof. intros kids. apply (nk_abs_nat (NInner None kids)). Qed.

  Lemma nk_lim_ok_nat : forall l m, lim_ok K2 c2 (nk_mlim l) (MM m) = lim_ok K1 c1 l m.
  Proof.
    intros l m. unfold lim_ok. rewrite nk_sm_first_nat, nk_sm_last_nat.
    destruct l as [[lo hi]|]; cbn [nk_mlim option_map nk_mpair fst snd]; [|reflexivity].
    destruct (sm_first K1 m) as [[a va]|]; cbn [option_map nk_mkv fst]; [|reflexivity].
    destruct (sm_last K1 m) as [[b vb]|]; cbn [option_map nk_mkv fst]; [|reflexivity].
    rewrite !nk_keq'_nat. reflexivity.
  Qed.
  Lemma nk_forallb_map {A B} (g : A -> B) (p1 : A -> bool) (p2 : B -> bool) l :
    Forall (fun x => p2 (g x) = p1 x) l -> forallb p2 (map g l) = forallb p1 l.
  Proof. induction 1 as [|x l Hx _ IH]; [reflexivity|]. simpl. rewrite Hx, IH. reflexivity. Qed.
  Lemma nk_wf_sub_nat : forall n, wf_sub K2 c2 (M n) = wf_sub K1 c1 n.
  Proof.
    induction n as [l items|l kids IH] using (nnode_ind' K1); cbn [wf_sub nk_mnode].
    - rewrite nk_lim_ok_nat. destruct items; reflexivity.
    - rewrite nk_flat_abs_nat, nk_lim_ok_nat, (nk_forallb_map M (wf_sub K1 c1) (wf_sub K2 c2)) by exact IH.
      destruct kids; reflexivity.
  Qed.
  Lemma nk_wf_tree_nat : forall n, wf_tree K2 c2 (M n) = wf_tree K1 c1 n.
  Proof.
    intros n. unfold wf_tree, no_lim. rewrite nk_lim_nat, nk_abs_nat, nk_sm_sorted_nat.
    destruct n as [l items|l kids]; cbn [nk_mnode nn_lim].
    - destruct l; reflexivity.
    - rewrite (nk_forallb_map M (wf_sub K1 c1) (wf_sub K2 c2)) by (apply Forall_forall; intros x _; apply nk_wf_sub_nat).
      destruct l; destruct kids; reflexivity.
  Qed.
  Lemma nk_size_ok_nat : forall t n, size_ok K2 t (M n) = size_ok K1 t n.
  Proof.
    intros t. induction n as [l items|l kids IH] using (nnode_ind' K1); cbn [size_ok nk_mnode]; rewrite nk_zlen_map; [reflexivity|].
    rewrite (nk_forallb_map M (size_ok K1 t) (size_ok K2 t)) by exact IH. reflexivity.
  Qed.
  Lemma nk_wf_code_nat : forall t n, wf_code K2 c2 t (M n) = wf_code K1 c1 t n.
  Proof.
    intros t n. unfold wf_code. rewrite nk_wf_tree_nat, nk_size_ok_nat, nk_abs_nat, nk_sm_sorted_nat.
    unfold no_lim. rewrite nk_lim_nat. destruct (nn_lim K1 n); reflexivity.
  Qed.
  Definition nk_mout (x : nnres K1 * Z * nnode K1) : nnres K2 * Z * nnode K2 :=
    (nk_mres (fst (fst x)), snd (fst x), M (snd x)).

  Lemma nk_run_acc_nat : forall t ops s acc,
    nn_run_acc K2 c2 t (map nk_mop ops) (nk_mst s) (map nk_mout acc) = map nk_mout (nn_run_acc K1 c1 t ops s acc).
  Proof.
    intros t. induction ops as [|op ops IH]; intros s acc.
    - cbn [nn_run_acc map]. apply nk_rev'_map.
    - cbn [nn_run_acc map].
      change (NNSt K2 (st_root K2 (nk_mst s)) (st_path K2 (nk_mst s)) (st_item K2 (nk_mst s)) 0)
        with (nk_mst (NNSt K1 (st_root K1 s) (st_path K1 s) (st_item K1 s) 0)).
      rewrite nk_step_nat.
      destruct (nn_step K1 c1 t op (NNSt K1 (st_root K1 s) (st_path K1 s) (st_item K1 s) 0)) as [r s'].
      unfold nk_mstep. cbn [fst snd].
      change ((nk_mres r, st_warn K2 (nk_mst s'), st_root K2 (nk_mst s')) :: map nk_mout acc)
        with (map nk_mout ((r, st_warn K1 s', st_root K1 s') :: acc)).
      apply IH.
  Qed.
  Lemma nk_run_nat : forall t root ops,
    nn_run K2 c2 t (M root) (map nk_mop ops) = map nk_mout (nn_run K1 c1 t root ops).
  Proof. intros t root ops. unfold nn_run. apply (nk_run_acc_nat t ops (nn_init K1 root) []). Qed.
End NkNatural.
