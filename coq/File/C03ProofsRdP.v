(* C03 - reader model, positions of Objects::readToken (tell() / getLastOffset()) and the startxref scan on a file
   that ends as the writer model ends it.  Step (1b) of rd_reads_writer_output (see the end of File/C03ProofsRdW.v). *)
From QV Require Import Base.Bytes Lex.TokModel Lex.LexSpec Lex.TokInterp Lex.LexRun Lex.LexProofs
     Obj.SynSpec Obj.ParseModel Obj.ParseProofs Obj.ParseSim File.XrefModel File.RdModel File.C02Proofs File.C03ProofsRd File.C03ProofsRdW.
From Coq Require Import Lia.
Local Open Scope N_scope.

(* tell() after a token that was not ended by the end of the input: every byte before [rest] was consumed *)
Lemma rp_nt_loop_pos : forall inp m t off pos t1 rest o np,
  nt_loop m t inp off pos = (t1, rest, o, np) -> rest <> [] -> np + rd_len rest = pos + rd_len inp.
Proof.
  induction inp as [|ch r IH]; intros m t off pos t1 rest o np H Hne.
  - cbn [nt_loop] in H. cbv zeta in H.
    destruct (ttype_eqb (t_type (present_eof t)) TT_eof && negb (t_allow_eof (present_eof t)));
      injection H as _ <- _ _; contradiction.
  - cbn [nt_loop] in H. cbv zeta in H.
    destruct (is_ready (nt_step m t ch)).
    + destruct (tk_unread_flag (nt_step m t ch)); injection H as _ <- _ <-.
      * reflexivity.
      * unfold rd_len. cbn [length]. lia.
    + specialize (IH _ _ _ _ _ _ _ _ H Hne). unfold rd_len in *. cbn [length]. lia.
Qed.

Lemma rd_tok_newpos_lemma : forall inp pos tk rest np last,
  rd_tok 0 inp pos = (tk, rest, np, last) -> rest <> [] -> np + rd_len rest = pos + rd_len inp.
Proof.
  intros inp pos tk rest np last H Hne. unfold rd_tok, read_token, next_token in H.
  destruct (nt_loop 0 match t_state rd_tk with TS_inline_image => rd_tk | _ => tk_reset rd_tk end inp pos pos)
    as [[[t1 rest'] off] np'] eqn:E.
  injection H as _ <- <- _. exact (rp_nt_loop_pos _ _ _ _ _ _ _ _ _ E Hne).
Qed.

(* getLastOffset() after a token: the offset of its first byte, when only white space (no comment) precedes it *)
Definition rp_inv (t : tk) : Prop :=
  t_before t = false /\ t_state t <> TS_before_token /\ t_state t <> TS_in_comment.

Lemma rp_hc_inv : forall t ch, rp_inv t -> rp_inv (handle_character t ch).
Proof.
  intros t ch (Hb & H1 & H2). unfold rp_inv, handle_character.
  destruct (t_state t) eqn:Est; try (exfalso; congruence);
    unfold in_top, in_space, in_comment, in_lt, in_gt, in_string, in_name, in_number, in_real, in_string_after_cr,
           in_string_escape, in_char_code, in_literal, in_inline_image, in_hexstring, in_hexstring_2nd, in_name_hex1,
           in_name_hex2, in_sign, in_decimal, in_before_token, in_top, in_string, in_name, in_literal, in_hexstring,
           in_char_code, in_string;
    repeat match goal with |- context [if ?c then _ else _] => destruct c eqn:? end;
    cbn; repeat split; try assumption; try discriminate; try (rewrite Est; discriminate).
Qed.

Lemma rp_pc_inv : forall t ch, rp_inv t -> rp_inv (present_char_nr t ch).
Proof.
  intros t ch H. apply (rp_hc_inv t ch) in H. unfold present_char_nr.
  destruct (t_in_token (handle_character t ch)); [|exact H]. exact H.
Qed.

Lemma rp_nt_loop_off : forall inp t off pos t1 rest o np, rp_inv t -> t_allow_eof t = true ->
  nt_loop 0 t inp off pos = (t1, rest, o, np) -> o = off.
Proof.
  induction inp as [|ch r IH]; intros t off pos t1 rest o np Hi Ha H.
  - cbn [nt_loop] in H. cbv zeta in H. destruct (eof_cfg t) as (_ & A & _). rewrite A, Ha in H.
    rewrite Bool.andb_false_r in H. injection H as _ _ <- _. reflexivity.
  - cbn [nt_loop] in H. cbv zeta in H. rewrite nt_step_0 in H.
    pose proof (rp_pc_inv t ch Hi) as Hi'. destruct Hi' as (Hb & Hi1 & Hi2). rewrite Hb in H.
    destruct (is_ready (present_char_nr t ch)).
    + destruct (tk_unread_flag (present_char_nr t ch)); injection H as _ _ <- _; reflexivity.
    + apply (IH _ _ _ _ _ _ _ (conj Hb (conj Hi1 Hi2))) in H; [exact H|].
      destruct (pc_cfg t ch) as [_ A]. rewrite A. exact Ha.
Qed.

Lemma rp_ws_step : forall w, tk_is_space w = true -> present_char_nr (tk_reset rd_tk) w = tk_reset rd_tk.
Proof.
  intros w Hw. unfold present_char_nr, handle_character, in_before_token.
  cbn [tk_reset rd_tk tk_new t_state t_incl_ign]. rewrite Hw. reflexivity.
Qed.

Lemma rp_ws_loop : forall ws x off pos, forallb tk_is_space ws = true ->
  nt_loop 0 (tk_reset rd_tk) (ws ++ x) off pos = nt_loop 0 (tk_reset rd_tk) x (off + rd_len ws) (pos + rd_len ws).
Proof.
  induction ws as [|w ws IH]; intros x off pos H.
  - unfold rd_len. cbn [app length N.of_nat]. rewrite !N.add_0_r. reflexivity.
  - cbn [forallb] in H. apply andb_true_iff in H. destruct H as [Hw Hws].
    cbn [app nt_loop]. cbv zeta. rewrite nt_step_0, (rp_ws_step w Hw).
    change (is_ready (tk_reset rd_tk)) with false. change (t_before (tk_reset rd_tk)) with true. cbv iota.
    rewrite (IH x (off + 1) (pos + 1) Hws). unfold rd_len. cbn [length]. rewrite Nat2N.inj_succ.
    f_equal; lia.
Qed.

Lemma rp_first_inv : forall c, tk_is_space c = false -> c <> 37 -> rp_inv (present_char_nr (tk_reset rd_tk) c).
Proof.
  intros c Hs H37. apply N.eqb_neq in H37.
  assert (H : rp_inv (handle_character (tk_reset rd_tk) c)).
  { unfold handle_character, in_before_token. cbn [tk_reset rd_tk tk_new t_state t_incl_ign]. rewrite Hs, H37.
    unfold rp_inv, in_top.
    repeat match goal with |- context [if ?c then _ else _] => destruct c eqn:? end;
      cbn; repeat split; discriminate. }
  unfold present_char_nr. destruct (t_in_token (handle_character (tk_reset rd_tk) c)); exact H.
Qed.

Lemma rd_tok_last_lemma : forall ws c s pos tk rest np last,
  rd_tok 0 (ws ++ c :: s) pos = (tk, rest, np, last) ->
  forallb tk_is_space ws = true -> tk_is_space c = false -> c <> 37 ->
  tok_type tk <> TT_eof -> last = pos + rd_len ws.
Proof.
  intros ws c s pos tk rest np last H Hws Hc H37 Hty.
  unfold rd_tok, read_token, next_token in H.
  change (match t_state rd_tk with TS_inline_image => rd_tk | _ => tk_reset rd_tk end) with (tk_reset rd_tk) in H.
  rewrite (rp_ws_loop ws (c :: s) pos pos Hws) in H.
  destruct (nt_loop 0 (tk_reset rd_tk) (c :: s) (pos + rd_len ws) (pos + rd_len ws)) as [[[t1 rest'] off] np'] eqn:E.
  injection H as <- _ _ <-.
  assert (Ht : ttype_eqb (t_type t1) TT_eof = false).
  { assert (X : tok_type (tk_token t1) = t_type t1) by (unfold tk_token; destruct (t_type t1); reflexivity).
    rewrite X in Hty. destruct (t_type t1); try reflexivity. exfalso; apply Hty; reflexivity. }
  rewrite Ht.
  cbn [nt_loop] in E. cbv zeta in E. rewrite nt_step_0 in E.
  pose proof (rp_first_inv c Hc H37) as Hi. destruct Hi as (Hb & Hi1 & Hi2). rewrite Hb in E.
  destruct (is_ready (present_char_nr (tk_reset rd_tk) c)).
  - destruct (tk_unread_flag (present_char_nr (tk_reset rd_tk) c)); injection E as _ _ <- _; reflexivity.
  - apply (rp_nt_loop_off _ _ _ _ _ _ _ _ (conj Hb (conj Hi1 Hi2))) in E; [exact E|].
    destruct (pc_cfg (tk_reset rd_tk) c) as [_ A]. rewrite A. reflexivity.
Qed.

(* ------------------------------------------------------------------ the startxref scan *)
Lemma rp_skipn_app : forall (a x : list N) k, skipn (length a + k) (a ++ x) = skipn k x.
Proof. induction a as [|b a IH]; intros x k; [reflexivity|]. simpl. apply IH. Qed.

Lemma rp_at_app : forall (a x : list N) k, rd_at (a ++ x) (rd_len a + k) = rd_at x k.
Proof. intros a x k. unfold rd_at, rd_len. rewrite N2Nat.inj_add, Nat2N.id. apply rp_skipn_app. Qed.

Lemma rp_scan_none : forall fuel file pos best,
  (forall i, (N.to_nat pos <= i)%nat -> rd_prefix rd_s_startxref (skipn i file) = false) ->
  rd_find_last_sx fuel file pos best = best.
Proof.
  induction fuel as [|f IH]; intros file pos best H; [reflexivity|].
  cbn [rd_find_last_sx]. unfold rd_at. pose proof (H (N.to_nat pos) (le_n _)) as H0.
  destruct (skipn (N.to_nat pos) file) as [|b s]; [reflexivity|]. rewrite H0.
  apply IH. intros i Hi. apply H. lia.
Qed.

Lemma rp_scan_skip : forall n fuel file pos best, (n <= fuel)%nat -> (N.to_nat pos + n <= length file)%nat ->
  (forall i, (N.to_nat pos <= i < N.to_nat pos + n)%nat -> rd_prefix rd_s_startxref (skipn i file) = false) ->
  rd_find_last_sx fuel file pos best = rd_find_last_sx (fuel - n) file (pos + N.of_nat n) best.
Proof.
  induction n as [|n IH]; intros fuel file pos best Hf Hl H.
  - rewrite Nat.sub_0_r, N.add_0_r. reflexivity.
  - destruct fuel as [|f]; [lia|]. cbn [rd_find_last_sx]. unfold rd_at.
    pose proof (H (N.to_nat pos) ltac:(lia)) as H0.
    destruct (skipn (N.to_nat pos) file) as [|b s] eqn:E.
    + exfalso. apply (f_equal (@length N)) in E. rewrite skipn_length in E. cbn [length] in E. lia.
    + rewrite H0. rewrite (IH f file (pos + 1) best); [ | lia | lia | intros i Hi; apply H; lia].
      rewrite Nat.sub_succ, Nat2N.inj_succ.
      replace (pos + N.succ (N.of_nat n)) with (pos + 1 + N.of_nat n) by lia. reflexivity.
Qed.

Lemma rp_digits : forall ds, StrictSyntax.all_digits ds = true -> Forall (fun b => 48 <= b /\ b <= 57) ds.
Proof.
  induction ds as [|c t IH]; intros H; [constructor|].
  cbn [StrictSyntax.all_digits] in H. apply andb_true_iff in H. destruct H as [Hc Ht].
  unfold is_digit in Hc. apply andb_true_iff in Hc. destruct Hc as [A1 A2]. apply N.leb_le in A1. apply N.leb_le in A2.
  constructor; [split; assumption | apply IH; exact Ht].
Qed.

Lemma rp_no_s : forall l k, Forall (fun b => b <> 115) l -> rd_prefix rd_s_startxref (skipn k l) = false.
Proof.
  induction l as [|b l IH]; intros k H.
  - destruct k; reflexivity.
  - inversion H as [|? ? Hb Hl]; subst. destruct k as [|k]; [|cbn [skipn]; apply IH; exact Hl].
    cbn [skipn]. unfold rd_s_startxref. cbn [rd_prefix].
    assert (E : (115 =? b) = false) by (apply N.eqb_neq; intros X; apply Hb; symmetry; exact X).
    rewrite E. reflexivity.
Qed.

(* findLast("startxref") + findStartxref on a file that ends with `startxref LF <v> LF %%EOF LF`, when the pattern
   "startxref" does not start anywhere else in the searched window (the last 1054 bytes): the position found is that of
   the digits, and the token read there is the integer v *)
(* FALSE: counterexample pre = [], v = 9223372036854775808 = 2^63 (the hypothesis is vacuous: length pre = 0).  The scan
   does find Some 10 and the token read at 10 is the integer token "9223372036854775808", but QUtil::string_to_ll
   (text_to_ll) of it is None (std::range_error): see rd_find_startxref_unbounded_refuted_lemma below (Eval vm_compute gives
   (Some 10, (TT_integer, None, 29, 10)) for (rd_find_last_sx .., (tok_type tk, text_to_ll (tok_value tk), np, last))).
   Missing side condition: v < 2^63 (the value fits long long; it also bounds the number of digits, which the first
   conjunct needs so that the 1054-byte window starts at or before `length pre`).  With it the statement holds:
   rd_find_startxref_fixed_lemma below. *)
(* the statement without the bound on v (kept as a comment; its last conjunct fails for v >= 2^63, see below):
[statement of rd_find_startxref without the bound] forall pre v,
  let tail := rd_s_startxref ++ 10 :: dec_of_N v ++ [10; 37; 37; 69; 79; 70; 10] in
  let file := pre ++ tail in
  let start := if 1054 <? rd_len file then rd_len file - 1054 else 0 in
  (forall i, (N.to_nat start <= i < length pre)%nat -> rd_prefix rd_s_startxref (skipn i file) = false) ->
  rd_find_last_sx (S (length file)) file start None = Some (rd_len pre + 10) /\
  exists tk r np last,
    rd_tok 0 (rd_at file (rd_len pre + 10)) (rd_len pre + 10) = (tk, r, np, last) /\
    text_to_ll (tok_value tk) = Some (Z.of_N v).
*)

Lemma rd_find_startxref_unbounded_refuted_lemma :
  let v := 9223372036854775808 in
  let file := [] ++ rd_s_startxref ++ 10 :: dec_of_N v ++ [10; 37; 37; 69; 79; 70; 10] in
  rd_find_last_sx (S (length file)) file 0 None = Some 10 /\
  forall tk r np last, rd_tok 0 (rd_at file (rd_len (@nil N) + 10)) (rd_len (@nil N) + 10) = (tk, r, np, last) ->
    text_to_ll (tok_value tk) = None.
Proof.
  intros v file. split; [vm_compute; reflexivity|].
  intros tk r np last H. vm_compute in H. injection H as <- _ _ _. vm_compute. reflexivity.
Qed.

Lemma rp_scan_unf : forall f file pos best s, rd_at file pos = s -> s <> [] ->
  rd_find_last_sx (S f) file pos best =
  if rd_prefix rd_s_startxref s then
    match rd_check_startxref s pos with
    | Some ipos => rd_find_last_sx f file (N.max ipos (pos + 1)) (Some ipos)
    | None => rd_find_last_sx f file (pos + 1) best
    end
  else rd_find_last_sx f file (pos + 1) best.
Proof.
  intros f file pos best s H Hne. cbn [rd_find_last_sx]. rewrite H. destruct s as [|b s]; [contradiction|]. reflexivity.
Qed.

Lemma rp_digit_not_space : forall d, 48 <= d -> d <= 57 -> tk_is_space d = false /\ d <> 37 /\ d <> 115.
Proof.
  intros d H1 H2.
  assert (Hk : forall k, k < 48 -> (d =? k) = false) by (intros k Hk; apply N.eqb_neq; lia).
  split; [|split; lia]. unfold tk_is_space, util_is_space.
  rewrite (Hk 0), (Hk 32), (Hk 10), (Hk 13), (Hk 9), (Hk 12), (Hk 11) by lia. reflexivity.
Qed.

Lemma rd_find_startxref_fixed_lemma : forall pre v, v < 2 ^ 63 ->
  let tail := rd_s_startxref ++ 10 :: dec_of_N v ++ [10; 37; 37; 69; 79; 70; 10] in
  let file := pre ++ tail in
  let start := if 1054 <? rd_len file then rd_len file - 1054 else 0 in
  (forall i, (N.to_nat start <= i < length pre)%nat -> rd_prefix rd_s_startxref (skipn i file) = false) ->
  rd_find_last_sx (S (length file)) file start None = Some (rd_len pre + 10) /\
  exists tk r np last,
    rd_tok 0 (rd_at file (rd_len pre + 10)) (rd_len pre + 10) = (tk, r, np, last) /\
    text_to_ll (tok_value tk) = Some (Z.of_N v).
Proof.
  intros pre v Hv tail file start Hno. subst start file tail.
  destruct (dec_of_N_value_lemma v) as (Hval & Hd & Hl).
  assert (HlD : (length (dec_of_N v) <= 19)%nat).
  { unfold dec_of_N. apply ddf_length_le.
    assert (X : 10 ^ N.of_nat 19 = 10000000000000000000) by (vm_compute; reflexivity). rewrite X.
    change (2 ^ 63) with 9223372036854775808 in Hv. lia. }
  remember (dec_of_N v) as D0 eqn:ED0.
  destruct (rw_digits_regular _ Hd) as (_ & _ & BD & _).
  pose proof (rp_digits _ Hd) as HD.
  destruct D0 as [|d D']; [cbn [length] in Hl; lia|].
  set (D := d :: D') in *.
  set (E := [10; 37; 37; 69; 79; 70; 10]) in *.
  set (tail := rd_s_startxref ++ 10 :: D ++ E) in *.
  set (file := pre ++ tail) in *.
  assert (BE : bytes_ok E) by (unfold E; repeat constructor).
  assert (BDE : bytes_ok (D ++ E)) by (apply Forall_app; split; assumption).
  assert (BF : bytes_ok (10 :: D ++ E)) by (constructor; [reflexivity | exact BDE]).
  assert (S1 : rw_step tail (PKeyword rd_s_startxref) (10 :: D ++ E)).
  { unfold tail. apply (rw_step_kw rd_s_startxref (PKeyword rd_s_startxref) (10 :: D ++ E)); try reflexivity;
      [discriminate | exact BF]. }
  assert (S2 : rw_step (D ++ E) (PInt (Z.of_N v)) E).
  { rewrite ED0. apply rw_step_N; [exact BE | reflexivity]. }
  assert (S2' : rw_step (10 :: D ++ E) (PInt (Z.of_N v)) E) by (apply rw_step_ws; [reflexivity | reflexivity | exact S2]).
  assert (Ltail : length tail = (17 + length D)%nat).
  { unfold tail, E. rewrite app_length. cbn [length rd_s_startxref]. rewrite app_length. cbn [length]. lia. }
  assert (Lfile : length file = (length pre + 17 + length D)%nat) by (unfold file; rewrite app_length, Ltail; lia).
  assert (LD : (length D <= 19)%nat) by exact HlD.
  assert (Hat : rd_at file (rd_len pre) = tail).
  { unfold file. rewrite <- (N.add_0_r (rd_len pre)). rewrite rp_at_app. reflexivity. }
  assert (Hat10 : rd_at file (rd_len pre + 10) = D ++ E).
  { unfold file. rewrite rp_at_app. reflexivity. }
  assert (Hne : tail <> []) by (unfold tail; discriminate).
  inversion HD as [|? ? [Hd1 Hd2] HD']; subst.
  destruct (rp_digit_not_space d Hd1 Hd2) as (Hsp & H37 & _).
  (* the two tokens of findStartxref *)
  destruct (rw_tok_step _ _ _ (rd_len pre) S1) as (tk1 & p1 & l1 & T1 & I1).
  destruct (rw_tok_step _ _ _ p1 S2') as (tk2 & p2 & l2 & T2 & I2).
  pose proof (rw_word_tok _ _ I1 rd_s_startxref) as W1.
  assert (X : list_eqb N.eqb rd_s_startxref rd_s_startxref = true) by (vm_compute; reflexivity). rewrite X in W1. clear X.
  destruct (interp_inv _ _ I2) as (_ & Hty2 & Hv2).
  pose proof (rd_tok_newpos_lemma _ _ _ _ _ _ T1 ltac:(discriminate)) as P1.
  assert (Hp1 : p1 = rd_len pre + 9).
  { unfold rd_len in *. rewrite Ltail in P1. cbn [length] in P1. rewrite app_length in P1. unfold E in P1. cbn [length] in P1. lia. }
  assert (Hl2 : l2 = p1 + 1).
  { apply (rd_tok_last_lemma [10] d (D' ++ E) p1 tk2 E p2 l2 T2 eq_refl Hsp H37). rewrite Hty2. discriminate. }
  assert (Hchk : rd_check_startxref tail (rd_len pre) = Some (rd_len pre + 10)).
  { unfold rd_check_startxref. rewrite T1. cbv beta iota. rewrite W1. cbn [negb]. rewrite T2. cbv beta iota.
    unfold rd_is_int. rewrite Hty2. cbn [ttype_eqb]. f_equal. lia. }
  split.
  - set (start := if 1054 <? rd_len file then rd_len file - 1054 else 0) in *.
    assert (Hst : (N.to_nat start <= length pre)%nat).
    { unfold start. destruct (1054 <? rd_len file) eqn:E1; [|lia]. unfold rd_len. lia. }
    rewrite (rp_scan_skip (length pre - N.to_nat start) (S (length file)) file start None);
      [ | lia | lia | intros i Hi; apply Hno; lia].
    replace (start + N.of_nat (length pre - N.to_nat start)) with (rd_len pre) by (unfold rd_len; lia).
    destruct (S (length file) - (length pre - N.to_nat start))%nat as [|f] eqn:Ef; [lia|].
    rewrite (rp_scan_unf f file (rd_len pre) None tail Hat Hne).
    assert (Hpre : rd_prefix rd_s_startxref tail = true) by reflexivity.
    rewrite Hpre, Hchk. rewrite N.max_l by lia.
    apply rp_scan_none. intros i Hi. unfold file.
    replace i with (length pre + (10 + (i - length pre - 10)))%nat by (unfold rd_len in Hi; lia).
    rewrite rp_skipn_app.
    assert (X : forall k Y, skipn (10 + k) (rd_s_startxref ++ 10 :: Y) = skipn k Y) by reflexivity.
    unfold tail. rewrite X. apply rp_no_s. apply Forall_app. split.
    + apply (Forall_impl _ (fun b (Hb : 48 <= b /\ b <= 57) => proj2 (proj2 (rp_digit_not_space b (proj1 Hb) (proj2 Hb))))).
      exact HD.
    + unfold E. repeat constructor; discriminate.
  - destruct (rw_tok_step _ _ _ (rd_len pre + 10) S2) as (tk & np & last & T & I).
    exists tk, E, np, last. split; [rewrite Hat10; exact T|].
    destruct (interp_inv _ _ I) as (_ & _ & Hv3).
    apply text_to_ll_int; [exact Hv3|].
    change (2 ^ 63) with 9223372036854775808 in Hv.
    apply andb_true_iff. split; apply Z.leb_le; lia.
Qed.
