// C06 driver: open an encrypted file with the real library and dump what the reader made of it:
// password flags, file key, permission answers, crypt filter methods, warnings, and every string and every
// (decrypted, still filtered) stream of every object, in a canonical text form.
#include "drv.hh"

#include <qpdf/QPDF.hh>
#include <qpdf/QPDFExc.hh>
#include <qpdf/QPDFObjectHandle.hh>
#include <qpdf/QUtil.hh>
#include <qpdf/Buffer.hh>
#include <set>

namespace {
    std::string c6_method(QPDF::encryption_method_e m) {
        switch (m) {
        case QPDF::e_none: return "n";
        case QPDF::e_unknown: return "u";
        case QPDF::e_rc4: return "r";
        case QPDF::e_aes: return "a";
        case QPDF::e_aesv3: return "3";
        }
        return "?";
    }

    // every string directly inside `o` (not following indirect references): path = k<hexkey> / i<index>
    void c6_walk(QPDFObjectHandle o, std::string const& path, std::string const& prefix, std::string& out, int depth) {
        if (depth > 40) return;
        if (o.isString()) {
            out += prefix + ":s:" + (path.empty() ? "-" : path) + "=" + hex(o.getStringValue()) + ";";
        } else if (o.isArray()) {
            int n = o.getArrayNItems();
            for (int i = 0; i < n; ++i) {
                auto it = o.getArrayItem(i);
                if (it.isIndirect()) continue;
                c6_walk(it, path + (path.empty() ? "" : ".") + "i" + std::to_string(i), prefix, out, depth + 1);
            }
        } else if (o.isDictionary() || o.isStream()) {
            QPDFObjectHandle d = o.isStream() ? o.getDict() : o;
            // getDictAsMap(), not getKeys(): getKeys() tests every value for null and thereby resolves the objects the dictionary refers to
            for (auto const& [k, it]: d.getDictAsMap()) {
                if (it.isIndirect()) continue;
                c6_walk(it, path + (path.empty() ? "" : ".") + "k" + hex(k.substr(1)), prefix, out, depth + 1);
            }
        }
    }

    std::string c6_clean(std::string m) {
        for (auto& c: m) { if (c == ' ' || c == '\n' || c == '\r' || c == '\t') c = '_'; }
        if (m.size() > 160) m.resize(160);
        return m;
    }
}

// c6leaves <path-hex> <P:hexpw | H:hexkey | N> <attempt_recovery 0|1>
static Reg r_c6leaves("c6leaves", [](std::vector<std::string> const& a) -> std::string {
    std::string path = unhex(a.at(0));
    std::string sec = a.at(1);
    QPDF pdf;
    pdf.setSuppressWarnings(true);
    pdf.setAttemptRecovery(a.at(2) == "1");
    std::string pw;
    bool have_pw = false;
    if (sec[0] == 'H') { pdf.setPasswordIsHexKey(true); pw = sec.substr(2); have_pw = true; }   // hex text itself
    else if (sec[0] == 'P') { pw = unhex(sec.substr(2)); have_pw = true; }
    try {
        pdf.processFile(path.c_str(), have_pw ? pw.c_str() : nullptr);
    } catch (QPDFExc const& e) {
        std::string code = e.getErrorCode() == qpdf_e_password ? "password"
            : e.getErrorCode() == qpdf_e_unsupported ? "unsupported"
            : e.getErrorCode() == qpdf_e_damaged_pdf ? "damaged" : "other";
        std::string ws;
        for (auto const& w: pdf.getWarnings()) ws += c6_clean(w.getMessageDetail()) + "|";
        return "err " + code + " " + c6_clean(e.getMessageDetail()) + " " + (ws.empty() ? "-" : ws);
    }
    int R = 0, P = 0, V = 0;
    QPDF::encryption_method_e ms = QPDF::e_unknown, mstr = QPDF::e_unknown, mf = QPDF::e_unknown;
    bool enc = pdf.isEncrypted(R, P, V, ms, mstr, mf);
    std::string out = "ok ";
    out += "enc=" + std::string(enc ? "1" : "0") + " R=" + std::to_string(R) + " P=" + std::to_string(P) + " V=" + std::to_string(V);
    if (enc) {
        // the methods are read before the objects are resolved: decryptString / decryptStream may reset them
        out += " methods=" + c6_method(ms) + c6_method(mstr) + c6_method(mf);
        out += " um=" + std::string(pdf.userPasswordMatched() ? "1" : "0") + " om=" + std::string(pdf.ownerPasswordMatched() ? "1" : "0");
        out += " key=" + hex(pdf.getEncryptionKey()) + " upw=" + hex(pdf.getTrimmedUserPassword()) + " padded=" + hex(pdf.getPaddedUserPassword());
        std::string perms;
        for (bool b: {pdf.allowAccessibility(), pdf.allowExtractAll(), pdf.allowPrintLowRes(), pdf.allowPrintHighRes(), pdf.allowModifyAssembly(),
                      pdf.allowModifyForm(), pdf.allowModifyAnnotation(), pdf.allowModifyOther(), pdf.allowModifyAll()}) perms += b ? "1" : "0";
        out += " perms=" + perms;
    }
    size_t w_init = pdf.getWarnings().size();
    std::string leaves;
    std::string errs;
    try {
        c6_walk(pdf.getTrailer(), "", "trailer", leaves, 0);
        for (auto& o: pdf.getAllObjects()) {
            std::string prefix = std::to_string(o.getObjectID()) + "." + std::to_string(o.getGeneration());
            c6_walk(o, "", prefix, leaves, 0);
            if (o.isStream()) {
                try {
                    auto buf = o.getRawStreamData();
                    leaves += prefix + ":t:-=" + hex(std::string(reinterpret_cast<char const*>(buf->getBuffer()), buf->getSize())) + ";";
                } catch (std::exception const& e) {
                    leaves += prefix + ":t:-=!" + c6_clean(e.what()) + ";";
                }
            }
        }
    } catch (QPDFExc const& e) {
        errs = c6_clean(e.getMessageDetail());
    } catch (std::exception const& e) {
        errs = c6_clean(e.what());
    }
    std::string ws;
    size_t i = 0;
    for (auto const& w: pdf.getWarnings()) { ws += (i < w_init ? "I:" : "L:") + c6_clean(w.getMessageDetail()) + "|"; ++i; }
    out += " warnings=" + (ws.empty() ? "-" : ws);
    out += " error=" + (errs.empty() ? "-" : errs);
    out += " leaves=" + (leaves.empty() ? "-" : leaves);
    return out;
});

// c6encodings <hexpw> -> QUtil::possible_repaired_encodings as comma-separated hex
static Reg r_c6enc("c6encodings", [](std::vector<std::string> const& a) -> std::string {
    auto v = QUtil::possible_repaired_encodings(unhex(a.at(0)));
    std::string out;
    for (size_t i = 0; i < v.size(); ++i) { if (i) out += ","; out += hex(v[i]); }
    return out.empty() ? "-" : out;
});

// c6lazy <path-hex> <P:hexpw | H:hexkey | N> <num.gen,num.gen,...>: a fresh QPDF; every object is fetched on its own and, when it is a stream, its raw
// data is read right after the object was parsed (the order in which a lazily resolved object is consumed by the writer and
// by --show-object): exercises the per-object key cache of QPDF::getKeyForObject. Output: leaves as in c6leaves.
static Reg r_c6lazy("c6lazy", [](std::vector<std::string> const& a) -> std::string {
    std::string path = unhex(a.at(0));
    std::string sec = a.at(1);
    QPDF pdf;
    pdf.setSuppressWarnings(true);
    std::string pw;
    bool have_pw = false;
    if (sec[0] == 'H') { pdf.setPasswordIsHexKey(true); pw = sec.substr(2); have_pw = true; }
    else if (sec[0] == 'P') { pw = unhex(sec.substr(2)); have_pw = true; }
    try {
        pdf.processFile(path.c_str(), have_pw ? pw.c_str() : nullptr);
    } catch (QPDFExc const& e) {
        return "err " + c6_clean(e.getMessageDetail());
    }
    std::string leaves;
    // (getObjectCount() would resolve every object first: the objects to fetch are an argument)
    std::vector<std::pair<int, int>> ogs;
    {
        std::stringstream ss(a.at(2)); std::string item;
        while (std::getline(ss, item, ',')) {
            auto dot = item.find('.');
            ogs.emplace_back(std::stoi(item.substr(0, dot)), std::stoi(item.substr(dot + 1)));
        }
    }
    for (auto const& [id, gn]: ogs) {
        try {
            auto o = pdf.getObject(id, gn);
            if (o.isNull()) continue;
            std::string prefix = std::to_string(id) + "." + std::to_string(gn);
            if (o.isStream()) {     // isStream() parses the object; its data is read before anything else is touched
                auto buf = o.getRawStreamData();
                leaves += prefix + ":t:-=" + hex(std::string(reinterpret_cast<char const*>(buf->getBuffer()), buf->getSize())) + ";";
            }
            c6_walk(o, "", prefix, leaves, 0);
        } catch (std::exception const& e) {
            leaves += std::to_string(id) + "." + std::to_string(gn) + ":t:-=!" + c6_clean(e.what()) + ";";
        }
    }
    return "ok leaves=" + (leaves.empty() ? "-" : leaves);
});
